package props

// C17, two more families (called from RunC17):
//
//	(a) fdo.upload from a file system whose files answer Read with SHORT READS (at most k bytes per call, k random per
//	    call, (n>0, io.EOF) together on the last read, (0, nil) now and then, a file that ends before its Stat size):
//	    the real device module fsim.Upload is connected to the real owner module fsim.UploadRequest message by
//	    message; the owner ends with a file identical to the source and done, or with a failure and no file.
//	(b) fdo.wget where the HTTP server serves MORE or FEWER bytes than the Length the owner announced (one byte, many,
//	    trailing garbage, a file that grew, nothing at all, same length but other bytes), with and without a digest,
//	    and with nothing announced: the real owner module fsim.WgetCommand is connected to the real device module
//	    fsim.Wget; the owner reports failure exactly when the length or the digest disagree.
//
// Both families also run inside complete onboardings (hooks in runE2E).

import (
	"bytes"
	"context"
	"encoding/hex"
	"fmt"
	"io"
	"io/fs"
	"math"
	"math/rand"
	"net/http"
	"net/http/httptest"
	"net/url"
	"os"
	"path/filepath"
	"strconv"
	"strings"
	"testing/fstest"
	"time"

	"github.com/fido-device-onboard/go-fdo/cbor"
	"github.com/fido-device-onboard/go-fdo/fsim"
	"github.com/fido-device-onboard/go-fdo/serviceinfo"

	"verifharness/internal/core"
)

// ---------------------------------------------------------------------------------------------------------------
// (a) a file system with short reads
// ---------------------------------------------------------------------------------------------------------------

// srPlan: how the files of a shortReadFS answer Read.
//
//	K       at most K bytes per call
//	Rand    every call draws its own limit from 1..K
//	EOFData the read that delivers the last byte returns (n, io.EOF) together
//	Zero    every Zero-th call returns (0, nil) (0: never)
//	Shrunk  the file ends Shrunk bytes before the size Stat reports (it was truncated after Stat)
type srPlan struct {
	K       int
	Rand    bool
	EOFData bool
	Zero    int
	Shrunk  int
	Seed    int64
}

// legit: the plan is a correct io.Reader over the whole file (a correct reader of it gets every byte).
func (pl srPlan) legit() bool { return pl.Shrunk == 0 }

func srPlanOf(k int, mode string, seed int64) srPlan {
	pl := srPlan{K: max(1, k), Seed: seed}
	for _, w := range strings.Split(mode, "+") {
		switch w {
		case "fixed", "":
		case "rand":
			pl.Rand = true
		case "eof":
			pl.EOFData = true
		case "zero":
			pl.Zero = 3
		case "zero2":
			pl.Zero = 2
		case "shrunk1":
			pl.Shrunk = 1
		case "shrunkhalf":
			pl.Shrunk = -1 // half of the file
		default:
			panic("harness: unknown short-read mode " + w)
		}
	}
	return pl
}

var srModes = []string{"fixed", "rand", "fixed+eof", "rand+eof", "fixed+zero", "rand+zero+eof", "fixed+zero2"}

type shortReadFS struct {
	FS   fs.FS
	Plan srPlan
}

func (s *shortReadFS) Open(name string) (fs.File, error) {
	f, err := s.FS.Open(name)
	if err != nil {
		return nil, err
	}
	st, err := f.Stat()
	if err != nil {
		_ = f.Close()
		return nil, err
	}
	left := st.Size()
	switch {
	case s.Plan.Shrunk < 0:
		left -= (left + 1) / 2
	case s.Plan.Shrunk > 0:
		left = max(0, left-int64(s.Plan.Shrunk))
	}
	return &shortReadFile{File: f, plan: s.Plan, left: left, rng: rand.New(rand.NewSource(s.Plan.Seed))}, nil
}

type shortReadFile struct {
	fs.File
	plan  srPlan
	left  int64 // bytes the file still delivers
	calls int
	rng   *rand.Rand
}

func (f *shortReadFile) Read(p []byte) (int, error) {
	f.calls++
	if len(p) == 0 {
		return 0, nil
	}
	if f.left == 0 {
		return 0, io.EOF
	}
	if f.plan.Zero > 0 && f.calls%f.plan.Zero == 0 {
		return 0, nil
	}
	k := f.plan.K
	if f.plan.Rand {
		k = 1 + f.rng.Intn(k)
	}
	k = int(min(int64(min(k, len(p))), f.left))
	n, err := io.ReadFull(f.File, p[:k])
	f.left -= int64(n)
	if err != nil {
		return n, err
	}
	if f.left == 0 && f.plan.EOFData {
		return n, io.EOF
	}
	return n, nil
}

// runUploadShortReads connects fsim.Upload (reading data through the plan) to fsim.UploadRequest.  The messages the
// device module emits are handed to the owner module round by round (a round ends at every yield), the owner's
// ProduceInfo runs after each round, as the TO2 service-info loop does.
//
//	dev=ok|error own=done|error|waiting file=none|identical|differs:<len>:<sha>[+...] rounds=<n> empty=<n>
func runUploadShortReads(data []byte, pl srPlan) string {
	d := newFsimDirs()
	defer d.close()
	ctx := context.Background()
	dev := &fsim.Upload{FS: &shortReadFS{FS: fstest.MapFS{fsimUploadName: &fstest.MapFile{Data: data}}, Plan: pl}}
	own := &fsim.UploadRequest{Dir: d.dest, Name: fsimUploadName, CreateTemp: d.createTemp}
	_ = dev.Transition(true)
	prod := serviceinfo.NewProducer("fdo.upload", 1300)
	if _, done, err := own.ProduceInfo(ctx, prod); err != nil || done {
		return fmt.Sprintf("request-failed done=%v err=%v", done, err)
	}
	type msg struct {
		name string
		body *bytes.Buffer
	}
	var rounds [][]msg
	var cur []msg
	respond := func(n string) io.Writer {
		b := &bytes.Buffer{}
		cur = append(cur, msg{n, b})
		return b
	}
	yield := func() { rounds, cur = append(rounds, cur), nil }
	devState := "ok"
	for _, kv := range prod.ServiceInfo() {
		_, m, _ := strings.Cut(kv.Key, ":")
		if m == "active" {
			continue // answered by the device's service-info plumbing, not by the module
		}
		if err := dev.Receive(ctx, m, bytes.NewReader(kv.Val), respond, yield); err != nil {
			devState = "error"
			break
		}
	}
	rounds = append(rounds, cur)
	ownState := "waiting"
	empty := 0
	tick := func() bool {
		_, done, err := own.ProduceInfo(ctx, serviceinfo.NewProducer("fdo.upload", 1300))
		switch {
		case err != nil:
			ownState = "error"
		case done:
			ownState = "done"
		}
		return ownState != "waiting"
	}
feed:
	for _, r := range rounds {
		for _, m := range r {
			if m.name == "data" && m.body.Len() == 1 {
				empty++
			}
			if err := own.HandleInfo(ctx, m.name, bytes.NewReader(m.body.Bytes())); err != nil {
				ownState = "error"
				break feed
			}
		}
		if tick() {
			break
		}
	}
	// a device whose module failed ends TO2: the owner is not asked again; otherwise the loop goes on for a while
	for i := 0; i < 3 && ownState == "waiting" && devState == "ok"; i++ {
		tick()
	}
	file := "none"
	if es, _ := os.ReadDir(d.dest); len(es) > 0 {
		var fsz []string
		for _, e := range es {
			b, _ := os.ReadFile(filepath.Join(d.dest, e.Name()))
			_ = os.RemoveAll(filepath.Join(d.dest, e.Name()))
			if e.Name() == fsimUploadName && bytes.Equal(b, data) {
				fsz = append(fsz, "identical")
			} else {
				fsz = append(fsz, fmt.Sprintf("differs:%s:%d:%x:first-difference-at-%d", e.Name(), len(b), fsimSha384(b)[:8], fsimFirstDiff(b, data)))
			}
		}
		file = strings.Join(fsz, "+")
	}
	return fmt.Sprintf("dev=%s own=%s file=%s rounds=%d empty=%d", devState, ownState, file, len(rounds), empty)
}

func obsField(s, key string) string {
	for _, f := range strings.Fields(s) {
		if v, ok := strings.CutPrefix(f, key+"="); ok {
			return v
		}
	}
	return ""
}

func shortReadsCase(p core.Params) ([]byte, srPlan) {
	size, _ := strconv.Atoi(p["size"])
	k, _ := strconv.Atoi(p["k"])
	cseed, _ := strconv.ParseInt(p["cseed"], 10, 64)
	return fsimBytes(cseed, size), srPlanOf(k, p["mode"], cseed^0x5a5a)
}

// monitorShortReads: the verdict on one short-read upload.
func monitorShortReads(c *core.Ctx, p core.Params, o core.Obs) {
	const kind = "fsim.upload.shortreads"
	switch {
	case strings.HasPrefix(o.Impl, "panic"):
		c.Fail("panic@fsim:upload-short-reads", core.PanicText, kind, p, o)
		return
	case o.Impl == "hang":
		c.Fail("hang@fsim:upload-short-reads", "", kind, p, o)
		return
	}
	_, pl := shortReadsCase(p)
	dev, own, file := obsField(o.Impl, "dev"), obsField(o.Impl, "own"), obsField(o.Impl, "file")
	what := fmt.Sprintf("%s-byte file read with at most %s bytes per call (%s)", p["size"], p["k"], p["mode"])
	switch {
	case file != "none" && file != "identical":
		c.Fail("corrupt-file-appeared:upload-short-reads", what+": the owner holds "+file+" ("+o.Impl+")", kind, p, o)
	case file == "identical" && own != "done":
		c.Fail("file-without-success:upload-short-reads", what+": "+o.Impl, kind, p, o)
	case file == "none" && own == "done":
		c.Fail("success-without-file:upload-short-reads", what+": "+o.Impl, kind, p, o)
	case file == "identical" && !pl.legit():
		c.Fail("corrupt-file-appeared:upload-short-reads", what+": the source ended early, yet a complete file was delivered: "+o.Impl, kind, p, o)
	case file == "none" && pl.legit() && !pl.EOFData:
		// short reads and (0, nil) are within io.Reader's contract: the transfer is a correct one
		c.Fail("file-missing:upload-short-reads", what+": "+o.Impl, kind, p, o)
	case file == "none" && own == "waiting" && dev == "ok":
		c.Fail("no-verdict:upload-short-reads", what+": the device sent everything, the owner neither delivers nor fails: "+o.Impl, kind, p, o)
	}
	out := "delivered"
	if file == "none" {
		out = "nothing(dev=" + dev + ",own=" + own + ")"
	}
	c.Count("upload_short_reads", p["mode"]+":"+out)
	if e := obsField(o.Impl, "empty"); e != "0" && e != "" {
		c.Count("upload_short_reads_empty_data_messages", p["mode"])
	}
}

// ---------------------------------------------------------------------------------------------------------------
// (b) wget: what is served against what was announced
// ---------------------------------------------------------------------------------------------------------------

// wgetServedKinds: the body the server sends, relative to the content x the owner had in mind.
var wgetServedKinds = []string{"same", "minus1", "plus1", "half", "empty", "garbage", "double", "grown", "other-same-length", "other-longer", "other-shorter"}

func wgetServed(kind string, x []byte, r *rand.Rand) (first, tail []byte) {
	rb := func(n int) []byte { b := make([]byte, n); r.Read(b); return b }
	cp := func(b []byte) []byte { return append([]byte{}, b...) }
	switch kind {
	case "same":
		return cp(x), nil
	case "minus1":
		return cp(x[:len(x)-1]), nil
	case "plus1":
		return append(cp(x), byte(r.Intn(256))), nil
	case "half":
		return cp(x[:len(x)/2]), nil
	case "empty":
		return []byte{}, nil
	case "garbage":
		return append(cp(x), rb(1+r.Intn(2000))...), nil
	case "double":
		return append(cp(x), x...), nil
	case "grown":
		return cp(x), rb(1 + r.Intn(3000)) // sent after the first part has gone out
	case "other-same-length":
		b := cp(x)
		b[r.Intn(len(b))] ^= 1 << uint(r.Intn(8))
		return b, nil
	case "other-longer":
		return rb(len(x) + 1 + r.Intn(100)), nil
	case "other-shorter":
		return rb(r.Intn(len(x))), nil
	}
	if ds, ok := strings.CutPrefix(kind, "delta:"); ok {
		// x cut by -d bytes or extended by d random bytes
		d, _ := strconv.Atoi(ds)
		if d < 0 {
			return cp(x[:max(0, len(x)+d)]), nil
		}
		return append(cp(x), rb(d)...), nil
	}
	panic("harness: unknown served kind " + kind)
}

// wgetLenHandler serves first (by the transfer variant) and, when tail is not empty, tail in a later write.
func wgetLenHandler(variant string, first, tail []byte) http.Handler {
	if len(tail) == 0 {
		return wgetHandler(variant, first)
	}
	return http.HandlerFunc(func(w http.ResponseWriter, r *http.Request) {
		_, _ = w.Write(first)
		if fl, ok := w.(http.Flusher); ok {
			fl.Flush()
		}
		time.Sleep(2 * time.Millisecond)
		_, _ = w.Write(tail)
	})
}

type wgetLenCase struct {
	x        []byte // what the owner had in mind
	annLen   int64  // 0: not announced
	annSum   []byte // nil: not announced
	variant  string
	served   []byte
	first    []byte
	tail     []byte
	lenBad   string // "", "more", "fewer"
	sumBad   bool
	servedAs string
}

func wgetLenCaseOf(p core.Params) wgetLenCase {
	size, _ := strconv.Atoi(p["size"])
	cseed, _ := strconv.ParseInt(p["cseed"], 10, 64)
	var cs wgetLenCase
	cs.x = fsimBytes(cseed, size)
	cs.variant, cs.servedAs = p["variant"], p["served"]
	cs.first, cs.tail = wgetServed(p["served"], cs.x, rand.New(rand.NewSource(cseed+1)))
	cs.served = append(append([]byte{}, cs.first...), cs.tail...)
	if strings.Contains(p["ann"], "len") {
		cs.annLen = int64(size)
	}
	if strings.Contains(p["ann"], "sum") {
		cs.annSum = fsimSha384(cs.x)
	}
	switch {
	case cs.annLen > 0 && int64(len(cs.served)) > cs.annLen:
		cs.lenBad = "more"
	case cs.annLen > 0 && int64(len(cs.served)) < cs.annLen:
		cs.lenBad = "fewer"
	}
	cs.sumBad = cs.annSum != nil && !bytes.Equal(cs.annSum, fsimSha384(cs.served))
	return cs
}

// runWgetPair connects fsim.WgetCommand to fsim.Wget; the HTTP server serves cs.served.
//
//	own=ok|fail|not-done device=done:<n>|error|<other> file=none|served|differs:<len>
func runWgetPair(cs wgetLenCase) string {
	d := newFsimDirs()
	defer d.close()
	srv := httptest.NewServer(wgetLenHandler(cs.variant, cs.first, cs.tail))
	defer srv.Close()
	tr := &http.Transport{DisableKeepAlives: true}
	defer tr.CloseIdleConnections()
	const name = "w.bin"
	u, _ := url.Parse(srv.URL + "/f")
	own := &fsim.WgetCommand{Name: name, URL: u, Length: cs.annLen, Checksum: cs.annSum}
	dev := &fsim.Wget{CreateTemp: d.createTemp, NameToPath: d.path, Timeout: 8 * time.Second, Client: &http.Client{Transport: tr}}
	_ = dev.Transition(true)
	ctx := context.Background()
	prod := serviceinfo.NewProducer("fdo.wget", 1300)
	if _, done, err := own.ProduceInfo(ctx, prod); err != nil || done {
		return fmt.Sprintf("command-failed done=%v err=%v", done, err)
	}
	rc := &replyCatcher{}
	for _, kv := range prod.ServiceInfo() {
		_, m, _ := strings.Cut(kv.Key, ":")
		if m == "active" {
			continue
		}
		if err := dev.Receive(ctx, m, bytes.NewReader(kv.Val), rc.respond, func() {}); err != nil {
			return "receive-error:" + m
		}
	}
	deadline := time.Now().Add(6 * time.Second)
	for len(rc.names) == 0 {
		if time.Now().After(deadline) {
			_ = dev.Transition(false)
			return "no-answer"
		}
		if err := dev.Yield(ctx, rc.respond, func() {}); err != nil {
			return "yield-error"
		}
		if len(rc.names) == 0 {
			time.Sleep(200 * time.Microsecond)
		}
	}
	devTxt := rc.names[0]
	if devTxt == "done" {
		var n int64
		if err := cbor.Unmarshal(rc.bufs[0].Bytes(), &n); err != nil {
			devTxt = fmt.Sprintf("done?%x", rc.bufs[0].Bytes())
		} else {
			devTxt = "done:" + strconv.FormatInt(n, 10)
		}
	}
	ownTxt := "ok"
	for i, n := range rc.names {
		if err := own.HandleInfo(ctx, n, bytes.NewReader(rc.bufs[i].Bytes())); err != nil {
			ownTxt = "fail"
			break
		}
	}
	if ownTxt == "ok" {
		if _, done, err := own.ProduceInfo(ctx, serviceinfo.NewProducer("fdo.wget", 1300)); err != nil {
			ownTxt = "fail"
		} else if !done {
			ownTxt = "not-done"
		}
	}
	file := "none"
	if es, _ := os.ReadDir(d.dest); len(es) > 0 {
		var out []string
		for _, e := range es {
			b, _ := os.ReadFile(filepath.Join(d.dest, e.Name()))
			_ = os.RemoveAll(filepath.Join(d.dest, e.Name()))
			if bytes.Equal(b, cs.served) && d.names[e.Name()] == name {
				out = append(out, "served")
			} else {
				out = append(out, fmt.Sprintf("differs:%d:first-difference-at-%d", len(b), fsimFirstDiff(b, cs.served)))
			}
		}
		file = strings.Join(out, "+")
	}
	return fmt.Sprintf("own=%s device=%s file=%s", ownTxt, devTxt, file)
}

func monitorWgetLen(c *core.Ctx, p core.Params, o core.Obs) {
	const kind = "fsim.wget.length"
	switch {
	case strings.HasPrefix(o.Impl, "panic"):
		c.Fail("panic@fsim:wget-length", core.PanicText, kind, p, o)
		return
	case o.Impl == "hang" || o.Impl == "no-answer":
		c.Fail("hang@fsim:wget-length", "", kind, p, o)
		return
	}
	cs := wgetLenCaseOf(p)
	own, dev, file := obsField(o.Impl, "own"), obsField(o.Impl, "device"), obsField(o.Impl, "file")
	what := fmt.Sprintf("announced length %d, digest announced=%v, served %d bytes (%s, %s)", cs.annLen, cs.annSum != nil, len(cs.served), cs.servedAs, cs.variant)
	if own == "" {
		c.Fail("harness:wget-length", o.Impl, kind, p, o)
		return
	}
	switch {
	case cs.lenBad != "" && own == "ok":
		c.Fail("wget-length-not-enforced:"+cs.lenBad, what+": the owner module reports success: "+o.Impl, kind, p, o)
	case cs.sumBad && own == "ok":
		c.Fail("wget-checksum-not-enforced:"+cs.servedAs, what+": the owner module reports success: "+o.Impl, kind, p, o)
	case cs.lenBad == "" && !cs.sumBad && own != "ok":
		c.Fail("wget-false-failure:"+cs.servedAs, what+": nothing that was announced disagrees, yet "+o.Impl, kind, p, o)
	}
	switch {
	case file != "none" && file != "served":
		c.Fail("corrupt-file-appeared:wget-length", what+": "+o.Impl, kind, p, o)
	case cs.sumBad && file != "none":
		c.Fail("corrupt-file-appeared:wget-length", what+": the digest disagrees and the device kept the file: "+o.Impl, kind, p, o)
	case own == "ok" && file != "served":
		c.Fail("file-missing:wget-length", what+": "+o.Impl, kind, p, o)
	case file == "served" && dev != "done:"+strconv.Itoa(len(cs.served)):
		c.Fail("wget-done-length-differs", what+": "+o.Impl, kind, p, o)
	case cs.lenBad != "" && file == "served":
		// fdo.wget carries no length to the device: only the owner can tell, after the device has stored the file
		c.Count("wget_file_stays_on_device_after_length_failure", cs.lenBad)
	}
	ann := p["ann"]
	if ann == "" {
		ann = "nothing"
	}
	c.Count("wget_length", fmt.Sprintf("announced=%s served=%s -> own=%s", ann, cs.servedAs, own))
}

// runWgetDone: the owner module alone on a "done" message carrying n, with Length L announced.
func runWgetDone(L, n int64, body []byte) string {
	u, _ := url.Parse("http://127.0.0.1:1/f")
	own := &fsim.WgetCommand{Name: "w.bin", URL: u, Length: L}
	ctx := context.Background()
	if _, done, err := own.ProduceInfo(ctx, serviceinfo.NewProducer("fdo.wget", 1300)); err != nil || done {
		return fmt.Sprintf("command-failed done=%v err=%v", done, err)
	}
	if body == nil {
		body = fsimCbor(n)
	}
	if err := own.HandleInfo(ctx, "done", bytes.NewReader(body)); err != nil {
		return "fail"
	}
	_, done, err := own.ProduceInfo(ctx, serviceinfo.NewProducer("fdo.wget", 1300))
	switch {
	case err != nil:
		return "fail"
	case !done:
		return "not-done"
	}
	return "ok"
}

// ---------------------------------------------------------------------------------------------------------------
// kinds and the sweeps
// ---------------------------------------------------------------------------------------------------------------

func registerFsimMoreKinds(c *core.Ctx) {
	c.Register(&core.Kind{Name: "fsim.upload.shortreads", NoModel: true, Eval: func(p core.Params) (string, string) {
		line := fmt.Sprintf("fsim.upload.shortreads size=%s k=%s mode=%s cseed=%s", p["size"], p["k"], p["mode"], p["cseed"])
		if p["lineonly"] != "" {
			return line, ""
		}
		data, pl := shortReadsCase(p)
		return line, runUploadShortReads(data, pl)
	}})
	c.Register(&core.Kind{Name: "fsim.wget.length", NoModel: true, Eval: func(p core.Params) (string, string) {
		line := fmt.Sprintf("fsim.wget.length size=%s ann=%s served=%s variant=%s cseed=%s", p["size"], p["ann"], p["served"], p["variant"], p["cseed"])
		if p["lineonly"] != "" {
			return line, ""
		}
		return line, runWgetPair(wgetLenCaseOf(p))
	}})
	c.Register(&core.Kind{Name: "fsim.wget.done", NoModel: true, Eval: func(p core.Params) (string, string) {
		line := fmt.Sprintf("fsim.wget.done L=%s n=%s body=%s", p["L"], p["n"], p["body"])
		if p["lineonly"] != "" {
			return line, ""
		}
		L, _ := strconv.ParseInt(p["L"], 10, 64)
		n, _ := strconv.ParseInt(p["n"], 10, 64)
		var body []byte
		if p["body"] != "" {
			body, _ = hexDecode(p["body"])
		}
		return line, runWgetDone(L, n, body)
	}})
}

func hexDecode(s string) ([]byte, error) { return hex.DecodeString(s) }

// runC17More: the direct sweeps (no onboarding).
func runC17More(c *core.Ctx) {
	quick := c.Quick()
	t0 := time.Now()
	n0 := c.Rep.Evaluations
	c.Rep.Rule += "; short-read uploads = fsim.Upload reading through an fs.FS whose Read returns at most k bytes (every k in 1..600 and around 1014, 2028), k random per call, (n, EOF) on the last read, " +
		"(0, nil) every 2nd/3rd call, or ends before its Stat size, file sizes around k and around multiples of 1014, connected to fsim.UploadRequest: identical file and done, or failure and no file; " +
		"wget lengths = fsim.WgetCommand (Length and/or Checksum announced, or nothing) connected to fsim.Wget against a server that serves the same / one byte or many fewer / more / trailing garbage / " +
		"a file that grew / nothing / other bytes, by Content-Length, chunked and close-delimited transfer: failure exactly when length or digest disagree; WgetCommand alone on done(n) for n around Length"

	// ---- (a) ----
	const chunk = 1014
	doSR := func(size, k int, mode string) {
		if size < 1 {
			return
		}
		p := core.Params{"size": strconv.Itoa(size), "k": strconv.Itoa(k), "mode": mode, "cseed": strconv.FormatInt(c.Rng.Int63n(1<<40), 10)}
		o := c.Do("fsim.upload.shortreads", p, "upload-short-reads:"+mode)
		monitorShortReads(c, p, o)
	}
	sizesAround := func(k int) []int {
		set := map[int]bool{}
		var out []int
		for _, s := range []int{1, k - 1, k, k + 1, 2*k + 1, chunk - 1, chunk, chunk + 1, chunk + k, 2*chunk - 1, 2 * chunk, 2*chunk + 1, 3 * chunk, 3*chunk + 1, 5*chunk + k - 1} {
			if s >= 1 && !set[s] {
				set[s] = true
				out = append(out, s)
			}
		}
		return out
	}
	var ks []int
	for k := 1; k <= 600; k++ {
		ks = append(ks, k)
	}
	boundary := []int{chunk/2 - 1, chunk / 2, chunk/2 + 1, chunk - 2, chunk - 1, chunk, chunk + 1, chunk + 2, 2*chunk - 1, 2 * chunk, 2*chunk + 1, 4096, 65536}
	for i, k := range ks {
		sz := sizesAround(k)
		if quick {
			// every k: three sizes and three modes in rotation (all sizes and all modes over the sweep)
			for j := 0; j < 3; j++ {
				doSR(sz[(i+5*j)%len(sz)], k, srModes[(i+3*j)%len(srModes)])
			}
			continue
		}
		for _, s := range sz {
			for _, m := range srModes {
				doSR(s, k, m)
			}
		}
	}
	for _, k := range boundary {
		for _, s := range sizesAround(k) {
			for _, m := range srModes {
				if quick && k > 2*chunk+1 && c.Rng.Intn(3) != 0 {
					continue
				}
				doSR(s, k, m)
			}
		}
	}
	// a source that ends before its Stat size: nothing may be delivered
	for _, k := range []int{1, 7, 600, chunk - 1, chunk, chunk + 1, 4096} {
		for _, s := range []int{1, 2, chunk - 1, chunk, chunk + 1, 2 * chunk, 2*chunk + 1, 3*chunk + 5} {
			for _, m := range []string{"fixed+shrunk1", "rand+shrunkhalf", "fixed+eof+shrunk1", "fixed+zero+shrunkhalf"} {
				if quick && c.Rng.Intn(2) != 0 {
					continue
				}
				doSR(s, k, m)
			}
		}
	}
	nA := c.Rep.Evaluations - n0
	tA := time.Since(t0)

	// ---- (b) ----
	t1 := time.Now()
	n1 := c.Rep.Evaluations
	// the owner module alone
	Ls := []int64{0, 1, 2, 23, 24, 255, 256, 1013, 1014, 1015, 65535, 65536, 1<<31 - 1, 1 << 31, 1 << 32, 1 << 53, 1 << 62, math.MaxInt64}
	var ds []int64
	for d := int64(1); d <= 16; d++ {
		ds = append(ds, d, -d)
	}
	ds = append(ds, 0, 255, -255, 256, -256, 1000, -1000, 65536, -65536, 1<<32, -(1 << 32))
	doDone := func(L, n int64, body string) {
		p := core.Params{"L": strconv.FormatInt(L, 10), "n": strconv.FormatInt(n, 10), "body": body}
		o := c.Do("fsim.wget.done", p, "wget-done")
		want := "ok"
		if body != "" || (L > 0 && n != L) {
			want = "fail"
		}
		switch {
		case strings.HasPrefix(o.Impl, "panic"):
			c.Fail("panic@fsim:wget-done", core.PanicText, "fsim.wget.done", p, o)
		case o.Impl == want:
		case want == "fail" && body != "":
			c.Fail("wget-malformed-done-accepted", fmt.Sprintf("Length %d, done body %s: %s", L, body, o.Impl), "fsim.wget.done", p, o)
		case want == "fail":
			c.Fail("wget-length-not-enforced:"+map[bool]string{true: "more", false: "fewer"}[n > L], fmt.Sprintf("Length %d announced, the device reports %d bytes: the owner module answers %s", L, n, o.Impl), "fsim.wget.done", p, o)
		default:
			c.Fail("wget-false-failure:done", fmt.Sprintf("Length %d announced, the device reports %d bytes: the owner module answers %s", L, n, o.Impl), "fsim.wget.done", p, o)
		}
	}
	for _, L := range Ls {
		seen := map[int64]bool{}
		for _, d := range append(append([]int64{}, ds...), -L, L) {
			n := L + d
			if (d > 0 && n < L) || (d < 0 && n > L) || n < 0 || seen[n] {
				continue // overflow / a negative count / twice
			}
			seen[n] = true
			doDone(L, n, "")
		}
		for _, body := range []string{"f6", "40", "6131", "fb3ff0000000000000", "80"} {
			doDone(L, L, body) // null, empty byte string, text, float, array: not a count
		}
	}
	// against a server
	sizes := []int{1, 2, 1014, 3000}
	if !quick {
		sizes = []int{1, 2, 3, 255, 256, 1013, 1014, 1015, 3000, 32768, 65535, 70000}
	}
	doLen := func(size int, ann, served, variant string) {
		if size < 2 && (served == "other-shorter" || served == "half") {
			served = "empty"
		}
		p := core.Params{"size": strconv.Itoa(size), "ann": ann, "served": served, "variant": variant, "cseed": strconv.FormatInt(c.Rng.Int63n(1<<40), 10)}
		o := c.Do("fsim.wget.length", p, "wget-length:"+served+":"+ann)
		monitorWgetLen(c, p, o)
	}
	for _, size := range sizes {
		for _, served := range wgetServedKinds {
			for _, ann := range []string{"len", "len+sum", "sum", ""} {
				variants := []string{"cl", "stream", "closedelim"}
				if served == "grown" {
					variants = []string{"stream"}
				} else if quick {
					// one transfer variant per (size, served, announcement), in rotation; all three for the one-byte differences
					if served != "minus1" && served != "plus1" {
						variants = variants[c.Rng.Intn(3):][:1]
					}
				}
				for _, v := range variants {
					doLen(size, ann, served, v)
				}
			}
		}
	}
	// every difference of a few bytes, both directions (the body is x cut or extended by d bytes)
	for d := -17; d <= 17; d++ {
		if d == 0 {
			continue
		}
		for _, size := range []int{16, 1014} {
			for _, ann := range []string{"len", "len+sum"} {
				if quick && c.Rng.Intn(2) != 0 {
					continue
				}
				doLen(size, ann, "delta:"+strconv.Itoa(d), []string{"cl", "stream", "closedelim"}[c.Rng.Intn(3)])
			}
		}
	}
	c.Note("more: %d short-read uploads in %.1fs, %d wget length cases in %.1fs", nA, tA.Seconds(), c.Rep.Evaluations-n1, time.Since(t1).Seconds())
	eofFailed := 0
	for k, n := range c.Rep.Hist["upload_short_reads"] {
		if strings.Contains(k, "eof") && !strings.Contains(k, "shrunk") && strings.Contains(k, "nothing(dev=error") {
			eofFailed += n
		}
	}
	if eofFailed > 0 {
		c.Note("fsim.Upload gives up (module error, nothing delivered) whenever the file's last Read returns (n>0, io.EOF) together, which io.Reader allows: %d cases; not a violation (failure and no file)", eofFailed)
	}
	if h := c.Rep.Hist["wget_file_stays_on_device_after_length_failure"]; len(h) > 0 {
		c.Note("fdo.wget: when only the announced Length disagrees the owner module fails but the device, which is never told the length, has already stored the file under its final name: %v", h)
	}
}

// ---------------------------------------------------------------------------------------------------------------
// hooks for the complete onboardings
// ---------------------------------------------------------------------------------------------------------------

// served: what the HTTP server sends for a wget file.
func (f e2eFile) served() []byte {
	if f.Serve != nil {
		return f.Serve
	}
	return f.Data
}

func (f e2eFile) annLen() int64 {
	if f.NoLen {
		return 0
	}
	return int64(len(f.Data))
}

func (f e2eFile) annSum() []byte {
	if f.NoSum {
		return nil
	}
	return fsimSha384(f.Data)
}

func (r e2eRun) uploadFS(base fs.FS) fs.FS {
	if r.ShortReads == nil {
		return base
	}
	return &shortReadFS{FS: base, Plan: *r.ShortReads}
}

// e2eExpectedFailure: the verdict on an onboarding that is not expected to simply succeed.  r.Expect is "more" or
// "fewer" (the single wget must be refused by the owner: the length disagrees), "sum" (only the digest disagrees), or
// "upload-source" (the device's files cannot be read to the end the way fsim.Upload reads them), or "exact-fit" (TO2 is to
// succeed; see e2eExactFitVerdict).
func e2eExpectedFailure(c *core.Ctx, r e2eRun, p core.Params, o core.Obs, terr error, timedOut bool, dirs map[string]string) {
	if r.Expect == "upload-source" {
		e2eUploadSourceVerdict(c, r, p, o, terr, timedOut, dirs["owndest"])
		return
	}
	if r.Expect == "exact-fit" {
		e2eExactFitVerdict(c, r, p, o, terr, timedOut, dirs)
		return
	}
	devdest := dirs["devdest"]
	f := r.Wgets[0]
	what := fmt.Sprintf("%s: Length %d announced (0: none), digest announced=%v, %d bytes served (%s)", r.label(), f.annLen(), !f.NoSum, len(f.served()), f.Variant)
	switch {
	case terr == nil && r.Expect == "sum":
		c.Fail("wget-checksum-not-enforced:e2e", what+": TO2 succeeded", "e2e", p, o)
	case terr == nil:
		c.Fail("wget-length-not-enforced:"+r.Expect+":e2e", what+": TO2 succeeded", "e2e", p, o)
	case timedOut:
		c.Fail("hang@fsim:e2e:wget-length", what+": no verdict before the timeout: "+terr.Error(), "e2e", p, o)
	default:
		c.Count("e2e_wget_length", r.Expect+":to2-failed")
	}
	sumBad := !f.NoSum && !bytes.Equal(fsimSha384(f.served()), f.annSum())
	es, _ := os.ReadDir(devdest)
	for _, e := range es {
		got, _ := os.ReadFile(filepath.Join(devdest, e.Name()))
		switch {
		case e.Name() != f.Name || !bytes.Equal(got, f.served()):
			c.Fail("corrupt-file-appeared-e2e:device", fmt.Sprintf("%s: %q of %d bytes", what, e.Name(), len(got)), "e2e", p, o)
		case sumBad:
			c.Fail("corrupt-file-appeared-e2e:device", fmt.Sprintf("%s: the digest disagrees and the device kept %q", what, e.Name()), "e2e", p, o)
		default:
			c.Count("wget_file_stays_on_device_after_length_failure", r.Expect+":e2e")
		}
	}
}

// e2eUploadSourceVerdict: uploads whose source ends early (srPlan.Shrunk) or ends with (n, io.EOF) (srPlan.EOFData).
// Allowed: every file arrives identical (only when the source is complete), or TO2 fails and nothing but identical
// files is at the owner.  Not allowed: other bytes at the owner; TO2 going on without a verdict.
func e2eUploadSourceVerdict(c *core.Ctx, r e2eRun, p core.Params, o core.Obs, terr error, timedOut bool, owndest string) {
	pl := *r.ShortReads
	what := fmt.Sprintf("%s: uploads %s read through %+v", r.label(), p["uploads"], pl)
	want := map[string][]byte{}
	for _, f := range r.Uploads {
		want[f.Name] = f.Data
	}
	es, _ := os.ReadDir(owndest)
	arrived := 0
	for _, e := range es {
		got, _ := os.ReadFile(filepath.Join(owndest, e.Name()))
		switch exp, ok := want[e.Name()]; {
		case !ok || !bytes.Equal(got, exp):
			c.Fail("corrupt-file-appeared-e2e:owner", fmt.Sprintf("%s: %q of %d bytes (first difference at %d)", what, e.Name(), len(got), fsimFirstDiff(got, exp)), "e2e", p, o)
		case !pl.legit():
			c.Fail("corrupt-file-appeared-e2e:owner", fmt.Sprintf("%s: %q arrived complete although its source ended early", what, e.Name()), "e2e", p, o)
		default:
			arrived++
		}
	}
	rounds, _ := strconv.Atoi(obsField(o.Impl, "rounds"))
	switch {
	case terr == nil && arrived == len(want):
		c.Count("e2e_upload_source", r.Expect+":all-delivered")
	case terr == nil:
		c.Fail("file-differs-e2e", fmt.Sprintf("%s: TO2 succeeded with %d of %d files at the owner", what, arrived, len(want)), "e2e", p, o)
	case timedOut && rounds >= 100:
		// the device module's error is lost and both sides go on exchanging empty service info
		c.Fail("upload-source-error-unreported:to2-spins", fmt.Sprintf("%s: after %d rounds still no verdict (%d of %d files at the owner): the device's fdo.upload module returned an error, TO2 went on", what, rounds, arrived, len(want)), "e2e", p, o)
	case timedOut:
		c.Count("e2e_upload_source", "slow-run-no-verdict")
	default:
		c.Count("e2e_upload_source", "to2-failed:"+fsimClip(terr.Error()[strings.LastIndex(terr.Error(), "]")+1:], 120))
	}
}

// uploadExactFit: the smallest owner service info size at which the device's sending loop places a full fdo.upload data
// chunk (1014 bytes: a 1017-byte value under a 15-byte key) in one TO2.DeviceServiceInfo; the message is then full to
// the last byte.  ReadChunk's budget for the value is size - 5 (loop) - 1 - 16 (key) - 1 - 2 (value head).
const uploadExactFit = 1017 + 5 + 1 + 16 + 1 + 2

// e2eExactFitVerdict: transfers whose data entries fill a service-info message to the last byte, with more to follow.
// Every file arrives identical and TO2 ends.  A run that is still exchanging messages at the timeout (or gave up after
// hundreds of rounds) stalled: transfer-stalls-at-exact-fit.  Owner sizes below uploadExactFit cut fsim.Upload's fixed
// chunk in two (the recorded upload-data-chunk-split-by-small-owner-mtu).
func e2eExactFitVerdict(c *core.Ctx, r e2eRun, p core.Params, o core.Obs, terr error, timedOut bool, dirs map[string]string) {
	rounds, _ := strconv.Atoi(obsField(o.Impl, "rounds"))
	what := fmt.Sprintf("%s: downloads %s uploads %s", r.label(), p["downloads"], p["uploads"])
	arrived, missing, firstMissing := 0, 0, ""
	check := func(dir string, fs []e2eFile, who string) {
		for _, f := range fs {
			got, err := os.ReadFile(filepath.Join(dir, f.Name))
			switch {
			case err != nil:
				missing++
				if firstMissing == "" {
					firstMissing = fmt.Sprintf("%s %q (%d bytes, chunk size %d)", who, f.Name, len(f.Data), f.Chunk)
				}
			case !bytes.Equal(got, f.Data):
				c.Fail("file-differs-e2e", fmt.Sprintf("%s: %s %q: got %d bytes, want %d; first difference at %d", what, who, f.Name, len(got), len(f.Data), fsimFirstDiff(got, f.Data)), "e2e", p, o)
			default:
				arrived++
			}
		}
		es, _ := os.ReadDir(dir)
		for _, e := range es {
			known := false
			for _, f := range fs {
				known = known || f.Name == e.Name()
			}
			if !known {
				c.Fail("extra-file-e2e:"+who, fmt.Sprintf("%s: unexpected %q", what, e.Name()), "e2e", p, o)
			}
		}
	}
	check(dirs["devdest"], r.Downloads, "device")
	check(dirs["owndest"], r.Uploads, "owner")
	switch {
	case terr == nil && missing == 0:
		c.Count("exact_fit", fmt.Sprintf("%s dev=%d own=%d: delivered", r.Kind, r.DevMTU, r.OwnMTU))
	case terr == nil:
		c.Fail("file-differs-e2e", fmt.Sprintf("%s: TO2 succeeded, %d of %d files arrived; the first missing: %s", what, arrived, arrived+missing, firstMissing), "e2e", p, o)
	case len(r.Uploads) > 0 && int(r.OwnMTU) < uploadExactFit && strings.Contains(terr.Error(), "fdo.upload:data"):
		c.Count("exact_fit", fmt.Sprintf("%s own=%d: the 1014-byte chunk is cut in two (recorded)", r.Kind, r.OwnMTU))
		c.Fail("upload-data-chunk-split-by-small-owner-mtu", fmt.Sprintf("%s: %s", what, fsimClip(terr.Error(), 400)), "e2e", p, o)
	case timedOut || rounds >= 300:
		c.Fail("transfer-stalls-at-exact-fit", fmt.Sprintf("%s: after %d TO2.DeviceServiceInfo messages no end (%d of %d files arrived; the first missing: %s): %s", what, rounds, arrived, arrived+missing,
			firstMissing, fsimClip(terr.Error(), 300)), "e2e", p, o)
	default:
		c.Fail(fmt.Sprintf("to2-failed-e2e:exact-fit:%s/%d-%d", r.Kind, r.DevMTU, r.OwnMTU), fmt.Sprintf("%s: %d of %d files arrived; the first missing: %s: %s", what, arrived, arrived+missing, firstMissing,
			fsimClip(terr.Error(), 400)), "e2e", p, o)
	}
}

// fsimExactFitE2E: (1) fsim.Upload against owner sizes 1036..1050: at uploadExactFit (1042) a full chunk makes a
// TO2.DeviceServiceInfo of exactly that size, and more chunks follow; below, see the recorded defect; above, room is
// left.  At smaller owner sizes a file of one short chunk that fills the message exactly (size - 28 bytes), followed by
// the digest.  (2) fsim.DownloadContents with chunk sizes around devsize - 29, the number of file bytes with which a data
// entry makes a TO2.OwnerServiceInfo of exactly the device's size, files of three chunks and a little more.
func fsimExactFitE2E(c *core.Ctx, file func(size, chunk int) e2eFile) []e2eRun {
	var runs []e2eRun
	quick := c.Quick()
	for m := uploadExactFit - 6; m <= uploadExactFit+8; m++ {
		ups := []e2eFile{file(1014, 0), file(2028, 0), file(3*1014+5, 0)}
		if !quick {
			ups = append(ups, file(1, 0), file(1013, 0), file(1015, 0), file(10*1014, 0))
		}
		runs = append(runs, e2eRun{Kind: "upload-exact-fit", DevMTU: 1300, OwnMTU: uint16(m), Uploads: ups, Expect: "exact-fit", Timeout: 4 * time.Second})
	}
	small := []int{300, 512, 1040}
	if !quick {
		small = []int{256, 257, 280, 281, 282, 283, 284, 285, 300, 511, 512, 513, 1000, 1039, 1040, 1041}
	}
	for _, m := range small {
		// what ReadChunk reads of a value under the 16-byte key at this size, and the longest chunk whose value is that long
		budget := m - 5 - 18
		if budget >= 24 {
			budget--
		}
		if budget >= 256 {
			budget--
		}
		fit := svcFitLen(budget)
		ups := []e2eFile{file(fit, 0), file(fit-1, 0), file(fit, 0)}
		runs = append(runs, e2eRun{Kind: "upload-exact-fit", DevMTU: 1300, OwnMTU: uint16(m), Uploads: ups, Expect: "exact-fit", Timeout: 4 * time.Second})
	}
	devs := []int{300, 512, 1300}
	if !quick {
		devs = []int{285, 286, 287, 300, 512, 1043, 1300, 4096}
	}
	for _, dm := range devs {
		var fs []e2eFile
		for ch := dm - 33; ch <= dm-25; ch++ {
			fs = append(fs, file(3*ch+5, ch))
		}
		fs = append(fs, file(2*(dm-29), dm-29), file(dm-29, dm-29)) // a file that ends with a message that is full
		runs = append(runs, e2eRun{Kind: "download-exact-fit", DevMTU: uint16(dm), OwnMTU: 1300, Downloads: fs, Expect: "exact-fit", Timeout: 6 * time.Second})
	}
	return runs
}

// fsimMoreE2E: the onboardings of the two families.
func fsimMoreE2E(c *core.Ctx, file func(size, chunk int) e2eFile) []e2eRun {
	quick := c.Quick()
	var runs []e2eRun
	up := func(pl srPlan, mtu uint16, sizes ...int) {
		var fs []e2eFile
		for _, s := range sizes {
			fs = append(fs, file(s, 0))
		}
		pl.Seed = c.Rng.Int63()
		runs = append(runs, e2eRun{Kind: "upload-short-reads", DevMTU: 1300, OwnMTU: mtu, Uploads: fs, ShortReads: &pl, Timeout: 10 * time.Minute})
	}
	up(srPlan{K: 600}, 1300, 1014, 1015, 2028)
	up(srPlan{K: 1013, Zero: 3}, 4096, 1, 1013, 1014, 2029)
	up(srPlan{K: 37, Rand: true}, 1300, 100, 1015)
	// (n, io.EOF) on the last read, a file that ends before its Stat size: fsim.Upload may give up, with a verdict
	for _, pl := range []srPlan{{K: 600, EOFData: true}, {K: 1014, Shrunk: 1}} {
		up(pl, 1300, 1014, 1700)
		runs[len(runs)-1].Expect, runs[len(runs)-1].Timeout = "upload-source", 3*time.Second
	}
	if !quick {
		for _, k := range []int{1, 2, 7, 100, 506, 507, 508, 1012, 1013, 1014, 1015, 5000} {
			for _, pl := range []srPlan{{K: k}, {K: k, Rand: true}, {K: k, Zero: 2}, {K: k, Rand: true, Zero: 3}} {
				up(pl, []uint16{1300, 4096, 65535}[c.Rng.Intn(3)], 1, k, k+1, 1013, 1014, 1015, 2028, 2029, 3042+k)
			}
		}
	}
	wg := func(size int, served, variant string, noLen, noSum bool) {
		f := file(size, 0)
		f.Variant, f.NoLen, f.NoSum = variant, noLen, noSum
		first, tail := wgetServed(served, f.Data, rand.New(rand.NewSource(c.Rng.Int63())))
		f.Serve = append(first, tail...)
		r := e2eRun{Kind: "wget-length", DevMTU: 1300, OwnMTU: 1300, Wgets: []e2eFile{f}, Timeout: 30 * time.Second}
		switch {
		case !noLen && len(f.Serve) > size:
			r.Expect = "more"
		case !noLen && len(f.Serve) < size:
			r.Expect = "fewer"
		case !noSum && !bytes.Equal(f.Serve, f.Data):
			r.Expect = "sum"
		}
		runs = append(runs, r)
	}
	wg(3000, "plus1", "cl", false, true)
	wg(3000, "minus1", "closedelim", false, true)
	wg(1014, "garbage", "stream", false, false)
	wg(1014, "other-longer", "cl", true, true) // nothing announced: whatever is served is the file
	runs = append(runs, fsimExactFitE2E(c, file)...)
	if !quick {
		for _, size := range []int{2, 1014, 70000} {
			for _, served := range wgetServedKinds {
				if served == "grown" {
					continue
				}
				for i, ann := range [][2]bool{{false, true}, {false, false}, {true, false}, {true, true}} {
					wg(size, served, []string{"cl", "stream", "closedelim"}[(i+len(served))%3], ann[0], ann[1])
				}
			}
		}
	}
	return runs
}
