package props

import (
	"bytes"
	"crypto/aes"
	"crypto/cipher"
	"crypto/rand"
	"encoding/hex"
	"fmt"
	"io"
	"strconv"
	"strings"

	"github.com/fido-device-onboard/go-fdo/cbor"
	"github.com/fido-device-onboard/go-fdo/cose"
	"github.com/fido-device-onboard/go-fdo/kex"

	"verifharness/internal/core"
)

func init() {
	ok := func(b []byte) string { return "ok " + hex.EncodeToString(b) }
	extraOracles["aead_open"] = func(a []string) string {
		if len(a) < 4 {
			return "err"
		}
		blk, err := aes.NewCipher(arg(a[0]))
		if err != nil {
			return "err"
		}
		g, err := cipher.NewGCM(blk)
		if err != nil || len(arg(a[1])) != g.NonceSize() {
			return "err"
		}
		pt, err := g.Open(nil, arg(a[1]), arg(a[3]), arg(a[2]))
		if err != nil {
			return "err"
		}
		return ok(pt)
	}
	extraOracles["aead_seal"] = func(a []string) string {
		if len(a) < 4 {
			return "err"
		}
		blk, err := aes.NewCipher(arg(a[0]))
		if err != nil {
			return "err"
		}
		g, err := cipher.NewGCM(blk)
		if err != nil || len(arg(a[1])) != g.NonceSize() {
			return "err"
		}
		return ok(g.Seal(nil, arg(a[1]), arg(a[3]), arg(a[2])))
	}
	extraOracles["ctr"] = func(a []string) string {
		if len(a) < 3 {
			return "err"
		}
		blk, err := aes.NewCipher(arg(a[0]))
		if err != nil || len(arg(a[1])) != blk.BlockSize() {
			return "err"
		}
		d := arg(a[2])
		out := make([]byte, len(d))
		cipher.NewCTR(blk, arg(a[1])).XORKeyStream(out, d)
		return ok(out)
	}
	cbc := func(encrypt bool) func(a []string) string {
		return func(a []string) string {
			if len(a) < 3 {
				return "err"
			}
			blk, err := aes.NewCipher(arg(a[0]))
			d := arg(a[2])
			if err != nil || len(arg(a[1])) != blk.BlockSize() || len(d)%blk.BlockSize() != 0 {
				return "err"
			}
			out := make([]byte, len(d))
			if encrypt {
				cipher.NewCBCEncrypter(blk, arg(a[1])).CryptBlocks(out, d)
			} else {
				cipher.NewCBCDecrypter(blk, arg(a[1])).CryptBlocks(out, d)
			}
			return ok(out)
		}
	}
	extraOracles["cbc_enc"] = cbc(true)
	extraOracles["cbc_dec"] = cbc(false)
}

func zhex(v int64) string {
	if v < 0 {
		return fmt.Sprintf("-%x", -v)
	}
	return fmt.Sprintf("%x", v)
}

type fixedReader struct{ b []byte }

func (f *fixedReader) Read(p []byte) (int, error) {
	for i := range p {
		if len(f.b) == 0 {
			p[i] = 0xaa
			continue
		}
		p[i] = f.b[0]
		f.b = f.b[1:]
	}
	return len(p), nil
}

func registerCrypterKinds(c *core.Ctx) {
	c.Register(&core.Kind{Name: "kex.decrypt", Eval: func(p core.Params) (string, string) {
		id, _ := strconv.ParseInt(p["suite"], 10, 64)
		line := "kex.decrypt z:" + zhex(id) + " b:" + p["sek"] + " b:" + p["svk"] + " b:" + p["wire"]
		if p["lineonly"] != "" {
			return line, ""
		}
		sek, _ := hex.DecodeString(p["sek"])
		svk, _ := hex.DecodeString(p["svk"])
		wire, _ := hex.DecodeString(p["wire"])
		s := kex.SessionCrypter{ID: kex.CipherSuiteID(id), Cipher: kex.CipherSuiteID(id).Suite(), SEK: sek, SVK: svk}
		pt, err := s.Decrypt(nil, bytes.NewReader(wire))
		if err != nil {
			return line, "err"
		}
		return line, "ok b:" + hex.EncodeToString(pt)
	}})
	c.Register(&core.Kind{Name: "kex.encrypt", Eval: func(p core.Params) (string, string) {
		id, _ := strconv.ParseInt(p["suite"], 10, 64)
		line := "kex.encrypt z:" + zhex(id) + " b:" + p["sek"] + " b:" + p["svk"] + " b:" + p["iv"] + " b:" + p["pt"]
		if p["lineonly"] != "" {
			return line, ""
		}
		sek, _ := hex.DecodeString(p["sek"])
		svk, _ := hex.DecodeString(p["svk"])
		iv, _ := hex.DecodeString(p["iv"])
		pt, _ := hex.DecodeString(p["pt"])
		s := kex.SessionCrypter{ID: kex.CipherSuiteID(id), Cipher: kex.CipherSuiteID(id).Suite(), SEK: sek, SVK: svk}
		old := rand.Reader
		rand.Reader = &fixedReader{b: iv}
		defer func() { rand.Reader = old }()
		obj, err := s.Encrypt(nil, cbor.RawBytes(pt))
		if err != nil {
			return line, "err"
		}
		wire, err := cbor.Marshal(obj)
		if err != nil {
			return line, "err"
		}
		return line, "ok b:" + hex.EncodeToString(wire)
	}})
}

type suiteInfo struct {
	id                kex.CipherSuiteID
	kSEK, kSVK, ivLen int
}

func allSuites() []suiteInfo {
	var out []suiteInfo
	for _, id := range []kex.CipherSuiteID{kex.A128GcmCipher, kex.A192GcmCipher, kex.A256GcmCipher, kex.CoseAes128CbcCipher, kex.CoseAes128CtrCipher, kex.CoseAes256CbcCipher, kex.CoseAes256CtrCipher} {
		s := id.Suite()
		si := suiteInfo{id: id, kSEK: int(s.EncryptAlg.KeySize()), ivLen: 16}
		if s.MacAlg != 0 {
			si.kSVK = int(s.MacAlg.KeySize())
		} else {
			si.ivLen = 12
		}
		out = append(out, si)
	}
	return out
}

var _ = io.EOF

// RunC05 (library level): the session crypter accepts only what the sender protected.
func RunC05(c *core.Ctx) {
	registerCrypterKinds(c)
	c.Rep.Rule = "cases = for all 7 cipher suites (3 AEAD, 4 encrypt-then-MAC) and plaintext sizes around block/padding boundaries: the library's own " +
		"Encrypt output (with a pinned IV) vs the model's bytes, its decryption, then one bit flipped in every byte (thorough: every bit) of the wire message, " +
		"COSE_Mac0 stripped, tags 16/17 swapped or replaced, IV dropped / resized / altered, algorithm header moved / changed / removed, ciphertext emptied, " +
		"truncated, extended, replaced by plaintext or by another session's ciphertext, wires fed to every other suite and to other keys, generic CBOR " +
		"mutations. Model (extracted crypter_decrypt, AES/HMAC via stdlib oracle) vs SessionCrypter.Decrypt; monitor on the implementation alone: honest " +
		"round-trips, anything else is rejected or yields the identical plaintext, no panic; forged COSE_Mac0 tag items (every byte flipped, every truncation, " +
		"extensions, other key/data, non-byte-strings) on genuine messages between two real sessions in both directions are refused. non-trivial = wire parsed as a tag; distinct = distinct case line"
	c.Trivial = func(o core.Obs) bool { return false }
	c.Rep.Rule += kxRule
	if kxOnly() { // development aid: the tunnel-key cases of tunnel_keys.go alone
		runC05TunnelKeys(c)
		registerServerKinds(c)
		runC05KeylessProtocol(c)
		closeSrvEnvs()
		return
	}
	suites := allSuites()
	sizes := []int{1, 14, 15, 16, 17, 31, 32, 33, 100, 1300}
	if !c.Quick() {
		sizes = append(sizes, 2, 3, 47, 48, 49, 255, 256, 5000, 20000)
	}
	mkPT := func(n int) []byte { // a single CBOR byte-string item of total length n (n=1 -> 0x40)
		switch {
		case n <= 24:
			return append([]byte{0x40 + byte(n-1)}, bytes.Repeat([]byte{0x5a}, n-1)...)
		case n <= 257:
			return append([]byte{0x58, byte(n - 2)}, bytes.Repeat([]byte{0x5a}, n-2)...)
		default:
			return append([]byte{0x59, byte((n - 3) >> 8), byte(n - 3)}, bytes.Repeat([]byte{0x5a}, n-3)...)
		}
	}
	rnd := func(n int) []byte { b := make([]byte, n); c.Rng.Read(b); return b }

	for _, su := range suites {
		sek, svk := rnd(su.kSEK), rnd(su.kSVK)
		sek2, svk2 := rnd(su.kSEK), rnd(su.kSVK)
		for _, n := range sizes {
			pt := mkPT(n)
			iv := rnd(su.ivLen)
			pe := core.Params{"suite": fmt.Sprint(int64(su.id)), "sek": hex.EncodeToString(sek), "svk": hex.EncodeToString(svk), "iv": hex.EncodeToString(iv), "pt": hex.EncodeToString(pt)}
			oe := c.Do("kex.encrypt", pe, "encrypt")
			if !strings.HasPrefix(oe.Impl, "ok b:") {
				c.Fail("encrypt-failed:"+su.id.String(), oe.Impl+" "+core.PanicText, "kex.encrypt", pe, oe)
				continue
			}
			wire, _ := hex.DecodeString(oe.Impl[5:])
			if bytes.Contains(wire, pt[len(pt)/2:]) && len(pt) > 8 {
				c.Fail("plaintext-on-wire:"+su.id.String(), "the encrypted message contains the plaintext", "kex.encrypt", pe, oe)
			}
			try := func(si suiteInfo, k1, k2, w []byte, meta string, honest bool) {
				p := core.Params{"suite": fmt.Sprint(int64(si.id)), "sek": hex.EncodeToString(k1), "svk": hex.EncodeToString(k2), "wire": hex.EncodeToString(w)}
				o := c.Do("kex.decrypt", p, meta)
				switch {
				case strings.HasPrefix(o.Impl, "panic"):
					c.Fail("panic@kex.SessionCrypter.Decrypt:"+si.id.String(), core.PanicText+" ("+meta+")", "kex.decrypt", p, o)
				case o.Impl == "hang":
					c.Fail("hang@kex.SessionCrypter.Decrypt", meta, "kex.decrypt", p, o)
				case honest && o.Impl != "ok b:"+hex.EncodeToString(pt):
					c.Fail("honest-rejected:"+si.id.String(), "decrypting the sender's message did not return its plaintext: "+o.Impl, "kex.decrypt", p, o)
				case meta == "other-sek" && si.kSVK > 0 && bytes.Equal(k2, svk):
					// encrypt-then-MAC with the right MAC key and another encryption key: the tag verifies (that is all the tag
					// covers) and what comes out is garbage, which now and then happens to be well-formed CBOR. Nobody tampered
					// with anything: the receiver holds the wrong key. Compared with the model only.
				case !honest && strings.HasPrefix(o.Impl, "ok") && o.Impl != "ok b:"+hex.EncodeToString(pt):
					c.Fail("accepted-different-plaintext:"+si.id.String()+":"+meta, "an altered message was accepted with different content", "kex.decrypt", p, o)
				case !honest && strings.HasPrefix(o.Impl, "ok") && (si.id != su.id || !bytes.Equal(k1, sek) || !bytes.Equal(k2, svk)):
					c.Fail("accepted-under-other-keys:"+si.id.String()+":"+meta, "a message protected under other keys or another suite was accepted", "kex.decrypt", p, o)
				}
			}
			try(su, sek, svk, wire, "honest", true)
			if n > 200 && c.Quick() {
				continue
			}
			// bit flips
			for i := range wire {
				// long messages (5 kB, 20 kB): every position of the first and last 96 bytes (headers, IV, tag, MAC live
				// there) and a random sample of the ciphertext in between
				if len(wire) > 2000 && i >= 96 && len(wire)-i > 96 && c.Rng.Intn(64) != 0 {
					continue
				}
				bits := []int{c.Rng.Intn(8)}
				if !c.Quick() {
					bits = []int{0, 1, 2, 3, 4, 5, 6, 7}
				}
				for _, b := range bits {
					m := append([]byte(nil), wire...)
					m[i] ^= 1 << uint(b)
					try(su, sek, svk, m, "bitflip", false)
				}
			}
			// other keys / other suites
			try(su, sek2, svk, wire, "other-sek", false)
			if su.kSVK > 0 {
				try(su, sek, svk2, wire, "other-svk", false)
			}
			for _, other := range suites {
				if other.id != su.id {
					try(other, append(append([]byte{}, sek...), make([]byte, 32)...)[:other.kSEK], append(append([]byte{}, svk...), make([]byte, 48)...)[:other.kSVK], wire, "other-suite", false)
				}
			}
			// structural downgrades built from the decoded message
			var tag cbor.Tag[cbor.RawBytes]
			if err := cbor.Unmarshal(wire, &tag); err != nil {
				continue
			}
			retag := func(n uint64, body []byte) []byte {
				b, _ := cbor.Marshal(cbor.Tag[cbor.RawBytes]{Num: n, Val: body})
				return b
			}
			for _, tn := range []uint64{16, 17, 18, 0, 96, 97} {
				if tn != tag.Num {
					try(su, sek, svk, retag(tn, tag.Val), "retag", false)
				}
			}
			try(su, sek, svk, tag.Val, "untagged", false)
			try(su, sek, svk, pt, "plaintext-instead", false)
			try(su, sek, svk, retag(16, pt), "plaintext-tagged", false)
			type enc0T = cose.Encrypt0[cbor.RawBytes, []byte]
			var e0 enc0T
			var m0 cose.Mac0[enc0T, []byte]
			isMac := tag.Num == 17
			if isMac {
				if err := cbor.Unmarshal(tag.Val, &m0); err != nil || m0.Payload == nil {
					continue
				}
				e0 = m0.Payload.Val
				// strip the COSE_Mac0
				if b, err := cbor.Marshal(e0); err == nil {
					try(su, sek, svk, retag(16, b), "mac0-stripped", false)
				}
				// ... and then alter the now unauthenticated ciphertext / IV
				if e0.Ciphertext != nil {
					for k := 0; k < 12; k++ {
						e := e0
						ct := append([]byte(nil), (*e0.Ciphertext)...)
						ct[c.Rng.Intn(len(ct))] ^= 1 << uint(c.Rng.Intn(8))
						e.Ciphertext = &ct
						if b, err := cbor.Marshal(e); err == nil {
							try(su, sek, svk, retag(16, b), "mac0-stripped+ciphertext-flip", false)
						}
					}
				}
			} else if err := cbor.Unmarshal(tag.Val, &e0); err != nil {
				continue
			}
			rewrap := func(e enc0T, fixMac bool) []byte {
				if !isMac {
					b, _ := cbor.Marshal(e)
					return retag(16, b)
				}
				m := m0
				m.Payload = cbor.NewByteWrap(e)
				if fixMac { // what an attacker WITH the MAC key could do is out of scope; keep the old tag
				}
				b, _ := cbor.Marshal(m)
				return retag(17, b)
			}
			clone := func() enc0T {
				e := e0
				e.Protected, e.Unprotected = cose.HeaderMap{}, cose.HeaderMap{}
				for k, v := range e0.Protected {
					e.Protected[k] = v
				}
				for k, v := range e0.Unprotected {
					e.Unprotected[k] = v
				}
				if e0.Ciphertext != nil {
					ct := append([]byte(nil), (*e0.Ciphertext)...)
					e.Ciphertext = &ct
				}
				return e
			}
			for _, l := range []int{0, 1, 11, 12, 13, 15, 16, 17, 32} {
				e := clone()
				e.Unprotected[cose.IvLabel] = rnd(l)
				try(su, sek, svk, rewrap(e, false), "iv-resized", false)
			}
			for _, v := range []any{nil, int64(5), "iv", []any{}} {
				e := clone()
				if v == nil {
					delete(e.Unprotected, cose.IvLabel)
				} else {
					e.Unprotected[cose.IvLabel] = v
				}
				try(su, sek, svk, rewrap(e, false), "iv-dropped-or-retyped", false)
			}
			for _, a := range []any{int64(1), int64(2), int64(3), int64(-65534), int64(-65531), int64(-65532), int64(-65529), int64(0), int64(99), "A128GCM", nil} {
				for _, where := range []string{"protected", "unprotected", "both"} {
					e := clone()
					delete(e.Protected, cose.AlgLabel)
					delete(e.Unprotected, cose.AlgLabel)
					if a != nil {
						if where != "unprotected" {
							e.Protected[cose.AlgLabel] = a
						}
						if where != "protected" {
							e.Unprotected[cose.AlgLabel] = a
						}
					}
					try(su, sek, svk, rewrap(e, false), "alg-header", false)
				}
			}
			for _, ctv := range [][]byte{nil, {}, {1}, (*e0.Ciphertext)[:len(*e0.Ciphertext)-1], append(append([]byte{}, *e0.Ciphertext...), 0), pt, rnd(16), rnd(32)} {
				e := clone()
				if ctv == nil {
					e.Ciphertext = nil
				} else {
					e.Ciphertext = &ctv
				}
				try(su, sek, svk, rewrap(e, false), "ciphertext-replaced", false)
			}
			// replay of a message protected under another session's keys
			pe2 := core.Params{"suite": fmt.Sprint(int64(su.id)), "sek": hex.EncodeToString(sek2), "svk": hex.EncodeToString(svk2), "iv": hex.EncodeToString(iv), "pt": hex.EncodeToString(append(append([]byte{}, pt[:len(pt)-1]...), pt[len(pt)-1]^byte(1&^(1>>uint(n-1)))))}
			if o2 := c.Do("kex.encrypt", pe2, "encrypt-other-session"); strings.HasPrefix(o2.Impl, "ok b:") {
				w2, _ := hex.DecodeString(o2.Impl[5:])
				try(su, sek, svk, w2, "cross-session-replay", false)
			}
			nm := 30
			if !c.Quick() {
				nm = 300
			}
			for i := 0; i < nm; i++ {
				try(su, sek, svk, mutate(c.Rng, wire), "cbor-mutation", false)
			}
		}
	}
	// forged COSE_Mac0 tags on genuine messages between two real sessions, both directions (mac0_more.go)
	runMac0Verify(c, true)
	runC05TunnelKeys(c) // tunnel_keys.go: independent derivation, eavesdropper, sessions without keys
	runC05Protocol(c)
	runC05Device(c)
}
