package props

// C10, family (k) continued: ECDH key exchange parameters whose three length-prefixed fields have UNEQUAL lengths. The
// parameter is bstr[blen(x), x, blen(y), y, blen(r), r]; nothing forces the two coordinates to have the same length, or the
// length of the curve's field, and the decoder sizes its buffers from what it reads. Every combination of
//
//	x, y in { empty, 1 byte, n-1 bytes (leading byte stripped), n bytes (as sent), n+1 bytes (a zero byte in front) }
//	r    in { as sent, empty, 1 byte, 4096 bytes, 60000 bytes }            (quick tier: as sent, empty, 60000 bytes)
//
// with the prefixes consistent with the fields (the total length is right), inside the signed container and re-signed, as
// the other members of the family are. Expected: an error (or, where the numbers are unchanged, acceptance), never a
// panic or a hang; the server must refuse a parameter whose point changed, the client must never finish TO2 with a
// parameter that is not numerically the one the owner sent.

import (
	"bytes"
	"fmt"
	"math/big"

	"github.com/fido-device-onboard/go-fdo/kex"
)

const kexUnequalRule = " (k, continued) ECDH parameters with unequal field lengths: x and y each empty / 1 byte / n-1 / n / n+1 bytes in every combination, the random " +
	"field as sent / empty / 1 byte / 4096 / 60000 bytes (quick: as sent, empty, 60000), prefixes consistent, re-signed: no panic or hang; the server answers 255 whenever " +
	"the point changed numerically; the client never succeeds unless point and random are numerically unchanged."

// kexLastVerdict is what the last applied variant with a dynamic verdict found out about its own edit (see kexVar.verdict).
var kexLastVerdict struct{ same, must bool }

func kexField(b []byte) []byte { return append([]byte{byte(len(b) >> 8), byte(len(b))}, b...) }

func kexCoordForm(form string, v []byte) []byte {
	switch form {
	case "0":
		return nil
	case "1":
		return bytes.Clone(v[max(len(v)-1, 0):])
	case "n-1":
		return bytes.Clone(v[min(1, len(v)):])
	case "n+1":
		return append([]byte{0}, v...)
	}
	return bytes.Clone(v)
}

func kexRandForm(form string, r []byte) []byte {
	switch form {
	case "0":
		return nil
	case "1":
		return bytes.Clone(r[:min(1, len(r))])
	case "4096", "60000":
		n := 4096
		if form == "60000" {
			n = 60000
		}
		out := make([]byte, n)
		for i := range out {
			out[i] = byte(i*7 + 1)
		}
		copy(out, r)
		return out
	}
	return bytes.Clone(r)
}

func kexNumEq(a, b []byte) bool { return new(big.Int).SetBytes(a).Cmp(new(big.Int).SetBytes(b)) == 0 }

// kexUnequalVariants: see the head of this file. Nothing for the suites whose parameter has no fields.
func kexUnequalVariants(suite kex.Suite, quick bool) (out []kexVar) {
	if suite != kex.ECDH256Suite && suite != kex.ECDH384Suite {
		return nil
	}
	coord := []string{"0", "1", "n-1", "n", "n+1"}
	rands := []string{"=", "0", "1", "4096", "60000"}
	if quick {
		rands = []string{"=", "0", "60000"}
	}
	for _, fx := range coord {
		for _, fy := range coord {
			for _, fr := range rands {
				if fx == "n" && fy == "n" && fr == "=" {
					continue // the parameter as sent
				}
				v := kexVar{name: fmt.Sprintf("unequal:x%s:y%s:r%s", fx, fy, fr)}
				v.f = func(p []byte) []byte {
					offs, lens := kexFields(p)
					if len(offs) < 3 || offs[2]+2+lens[2] > len(p) {
						kexLastVerdict.same, kexLastVerdict.must = false, false
						return p
					}
					x, y, r := p[offs[0]+2:offs[0]+2+lens[0]], p[offs[1]+2:offs[1]+2+lens[1]], p[offs[2]+2:offs[2]+2+lens[2]]
					nx, ny, nr := kexCoordForm(fx, x), kexCoordForm(fy, y), kexRandForm(fr, r)
					point := kexNumEq(x, nx) && kexNumEq(y, ny)
					kexLastVerdict.same = point && bytes.Equal(r, nr)
					kexLastVerdict.must = !point
					return append(append(kexField(nx), kexField(ny)...), kexField(nr)...)
				}
				v.dynamic = true
				out = append(out, v)
			}
		}
	}
	return out
}
