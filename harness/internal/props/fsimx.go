package props

// C17: the file-transfer service-info modules (fdo.download, fdo.upload, fdo.wget).
//
// Part 1 drives the receivers (fsim.Download, fsim.UploadRequest, fsim.Wget) message by message and compares what
// they answer and what appears at the destination with the model (Fsim/Transfer.v).  Part 2 runs complete
// onboardings in which the owner offers downloads, upload requests and wget commands, for chunk sizes and MTUs, and
// checks the files that arrive.

import (
	"bytes"
	"context"
	"crypto/sha512"
	"encoding/hex"
	"fmt"
	"io"
	"iter"
	"math/rand"
	"net"
	"net/http"
	"net/http/httptest"
	"net/url"
	"os"
	"path/filepath"
	"sort"
	"strconv"
	"strings"
	"sync"
	"time"
	"unicode/utf8"

	fdo "github.com/fido-device-onboard/go-fdo"
	"github.com/fido-device-onboard/go-fdo/cbor"
	"github.com/fido-device-onboard/go-fdo/fsim"
	"github.com/fido-device-onboard/go-fdo/kex"
	"github.com/fido-device-onboard/go-fdo/protocol"
	"github.com/fido-device-onboard/go-fdo/serviceinfo"

	"verifharness/internal/core"
	"verifharness/internal/env"
)

// ---------------------------------------------------------------------------------------------------------------
// messages
// ---------------------------------------------------------------------------------------------------------------

// fmsg is one decoded message as the model sees it (K: name length sha data unknown tick).
type fmsg struct {
	K      string
	B      []byte
	L      int64
	Chunks [][]byte
	Bad    bool
}

func (m fmsg) text() string {
	switch m.K {
	case "name", "sha":
		return fmt.Sprintf("(%s b:%x)", m.K, m.B)
	case "length":
		return "(length z:" + zhex(m.L) + ")"
	case "data":
		parts := make([]string, len(m.Chunks))
		for i, c := range m.Chunks {
			parts[i] = fmt.Sprintf("b:%x", c)
		}
		bad := 0
		if m.Bad {
			bad = 1
		}
		return fmt.Sprintf("(data (%s) n:%d)", strings.Join(parts, " "), bad)
	}
	return "(" + m.K + ")"
}

func fmsgsText(ms []fmsg) string {
	parts := make([]string, len(ms))
	for i, m := range ms {
		parts[i] = m.text()
	}
	return strings.Join(parts, " ")
}

// parseFmsgs reads the text produced by fmsgsText (used for explicit / minimised cases).
func parseFmsgs(s string) []fmsg {
	s = strings.NewReplacer("(", " ( ", ")", " ) ").Replace(s)
	tok := strings.Fields(s)
	var out []fmsg
	unb := func(t string) []byte { b, _ := hex.DecodeString(strings.TrimPrefix(t, "b:")); return b }
	i := 0
	for i < len(tok) {
		if tok[i] != "(" {
			i++
			continue
		}
		i++
		if i >= len(tok) {
			break
		}
		m := fmsg{K: tok[i]}
		i++
		switch m.K {
		case "name", "sha":
			if i < len(tok) && tok[i] != ")" {
				m.B = unb(tok[i])
				i++
			}
			if m.B == nil {
				m.B = []byte{}
			}
		case "length":
			if i < len(tok) {
				t := strings.TrimPrefix(tok[i], "z:")
				neg := strings.HasPrefix(t, "-")
				v, _ := strconv.ParseInt(strings.TrimPrefix(t, "-"), 16, 64)
				if neg {
					v = -v
				}
				m.L = v
				i++
			}
		case "data":
			if i < len(tok) && tok[i] == "(" {
				i++
				for i < len(tok) && tok[i] != ")" {
					m.Chunks = append(m.Chunks, unb(tok[i]))
					i++
				}
				i++
			}
			if i < len(tok) && strings.HasPrefix(tok[i], "n:") {
				m.Bad = tok[i] != "n:0"
				i++
			}
		}
		for i < len(tok) && tok[i] != ")" {
			i++
		}
		i++
		out = append(out, m)
	}
	return out
}

func fsimCbor(v any) []byte {
	b, err := cbor.Marshal(v)
	if err != nil {
		panic("harness: cbor.Marshal: " + err.Error())
	}
	return b
}

// wire is the service-info message (name, body) a peer sends for m.
func (m fmsg) wire() (string, []byte) {
	switch m.K {
	case "name":
		return "name", fsimCbor(string(m.B))
	case "length":
		return "length", fsimCbor(m.L)
	case "sha":
		b := m.B
		if b == nil {
			b = []byte{}
		}
		return "sha-384", fsimCbor(b)
	case "data":
		var body []byte
		for _, c := range m.Chunks {
			if c == nil {
				c = []byte{}
			}
			body = append(body, fsimCbor(c)...)
		}
		if m.Bad {
			body = append(body, 0xff)
		}
		return "data", body
	}
	return "bogus", fsimCbor(int64(0))
}

func fsimSha384(b []byte) []byte { h := sha512.Sum384(b); return h[:] }

// ---------------------------------------------------------------------------------------------------------------
// the senders (harness side) and the deviations
// ---------------------------------------------------------------------------------------------------------------

func fsimChunksOf(data []byte, sz int) [][]byte {
	var out [][]byte
	for len(data) > 0 {
		n := min(sz, len(data))
		out = append(out, data[:n])
		data = data[n:]
	}
	return out
}

func dlHonest(name string, data []byte, sz int) []fmsg {
	ms := []fmsg{{K: "name", B: []byte(name)}, {K: "length", L: int64(len(data))}, {K: "sha", B: fsimSha384(data)}}
	for _, c := range fsimChunksOf(data, sz) {
		ms = append(ms, fmsg{K: "data", Chunks: [][]byte{c}})
	}
	return ms
}

func ulHonest(data []byte, sz int) []fmsg {
	ms := []fmsg{{K: "length", L: int64(len(data))}, {K: "tick"}}
	for _, c := range fsimChunksOf(data, sz) {
		ms = append(ms, fmsg{K: "data", Chunks: [][]byte{c}}, fmsg{K: "tick"})
	}
	return append(ms, fmsg{K: "sha", B: fsimSha384(data)}, fmsg{K: "tick"})
}

func fmIdx(ms []fmsg, k string) []int {
	var out []int
	for i, m := range ms {
		if m.K == k {
			out = append(out, i)
		}
	}
	return out
}

func fmDel(ms []fmsg, i int) []fmsg {
	out := append([]fmsg(nil), ms[:i]...)
	return append(out, ms[i+1:]...)
}

func fmIns(ms []fmsg, i int, m ...fmsg) []fmsg {
	out := append([]fmsg(nil), ms[:i]...)
	out = append(out, m...)
	return append(out, ms[i:]...)
}

func fsimBytes(seed int64, n int) []byte {
	b := make([]byte, n)
	rand.New(rand.NewSource(seed)).Read(b)
	return b
}

// fsimDeviations lists the single deviations; benign ones (per module) must still deliver the file.
var fsimDeviations = []string{
	"honest",
	"len-small", "len-large", "len-double", "len-zero", "len-neg", "len-negfull", "len-missing",
	"sha-bit", "sha-trunc", "sha-long", "sha-empty", "sha-missing",
	"data-flip", "chunk-drop", "chunk-drop-last", "chunk-dup", "chunk-swap", "chunk-extra", "chunks-merged", "chunks-onemsg", "chunk-empty", "chunk-empty-msg", "data-nochunks",
	"bad-after", "bad-first", "bad-last",
	"name-missing", "name-empty", "name-late", "name-before-last",
	"order-sha-last", "order-sha-first", "order-len-after-first-data", "order-len-last",
	"twice", "twice-after-fail", "twice-partial", "twice-same-name",
	"unknown-mid", "unknown-first",
	"sha-missing+data-flip", "sha-missing+chunk-drop", "sha-missing+len-small", "sha-empty+chunk-dup", "len-missing+data-flip", "len-missing+sha-missing", "len-small+chunk-drop-last",
	"len-large+chunk-extra",
}

// fsimBenign: the deviation keeps the transfer a correct one (the file must arrive bit-identical).
func fsimBenign(mod, dev string) bool {
	switch dev {
	case "honest", "chunks-merged", "chunks-onemsg", "chunk-empty", "chunk-empty-msg", "data-nochunks":
		return true
	case "name-before-last", "order-sha-last", "twice", "twice-same-name", "twice-after-fail":
		return mod == "download"
	case "order-sha-first", "order-len-after-first-data", "order-len-last":
		return mod == "upload"
	}
	return false
}

type fsimFile struct {
	Name string
	Data []byte
}

// fsimCase builds the message sequence of a generated case and the files a correct receiver must deliver (only
// meaningful when the deviation is benign).  ok=false: the deviation does not apply to this shape.
func fsimCase(mod string, p core.Params) (ms []fmsg, want []fsimFile, ok bool) {
	size, _ := strconv.Atoi(p["size"])
	sz, _ := strconv.Atoi(p["sz"])
	cseed, _ := strconv.ParseInt(p["cseed"], 10, 64)
	dseed, _ := strconv.ParseInt(p["dseed"], 10, 64)
	name := p["name"]
	data := fsimBytes(cseed, size)
	r := rand.New(rand.NewSource(dseed))
	honest := func(n string, d []byte) []fmsg {
		if mod == "upload" {
			return ulHonest(d, sz)
		}
		return dlHonest(n, d, sz)
	}
	ms = honest(name, data)
	want = []fsimFile{{name, data}}
	ok = true
	for _, dev := range strings.Split(p["dev"], "+") {
		var o bool
		ms, want, o = fsimDeviate(mod, ms, want, dev, r, honest)
		ok = ok && o
	}
	return ms, want, ok
}

func fsimDeviate(mod string, ms []fmsg, want []fsimFile, dev string, r *rand.Rand, honest func(string, []byte) []fmsg) ([]fmsg, []fsimFile, bool) {
	ms = append([]fmsg(nil), ms...)
	li, si, ni, di := fmIdx(ms, "length"), fmIdx(ms, "sha"), fmIdx(ms, "name"), fmIdx(ms, "data")
	if len(li) == 0 && strings.HasPrefix(dev, "len-") || len(si) == 0 && strings.HasPrefix(dev, "sha-") || len(di) == 0 {
		return ms, want, false
	}
	pick := func() int { return di[r.Intn(len(di))] }
	clone := func(i int) {
		cs := make([][]byte, len(ms[i].Chunks))
		for j, c := range ms[i].Chunks {
			cs[j] = append([]byte{}, c...)
		}
		ms[i].Chunks = cs
	}
	data := want[0].Data
	other := func() (string, []byte) {
		d2 := fsimBytes(r.Int63(), max(1, len(data)/2+r.Intn(len(data)+1)))
		return want[0].Name + "-2", d2
	}
	switch dev {
	case "honest":
	case "len-small":
		if ms[li[0]].L <= 1 {
			return ms, want, false
		}
		ms[li[0]].L--
	case "len-large":
		ms[li[0]].L++
	case "len-double":
		ms[li[0]].L *= 2
	case "len-zero":
		ms[li[0]].L = 0
	case "len-neg":
		ms[li[0]].L = -1
	case "len-negfull":
		ms[li[0]].L = -ms[li[0]].L
	case "len-missing":
		ms = fmDel(ms, li[0])
	case "sha-bit":
		b := append([]byte{}, ms[si[0]].B...)
		b[r.Intn(len(b))] ^= 1 << uint(r.Intn(8))
		ms[si[0]].B = b
	case "sha-trunc":
		ms[si[0]].B = append([]byte{}, ms[si[0]].B[:47]...)
	case "sha-long":
		ms[si[0]].B = append(append([]byte{}, ms[si[0]].B...), 0)
	case "sha-empty":
		ms[si[0]].B = []byte{}
	case "sha-missing":
		ms = fmDel(ms, si[0])
	case "data-flip":
		i := pick()
		clone(i)
		c := ms[i].Chunks[r.Intn(len(ms[i].Chunks))]
		if len(c) == 0 {
			return ms, want, false
		}
		c[r.Intn(len(c))] ^= 1 << uint(r.Intn(8))
	case "chunk-drop":
		ms = fmDel(ms, pick())
	case "chunk-drop-last":
		ms = fmDel(ms, di[len(di)-1])
	case "chunk-dup":
		i := pick()
		ms = fmIns(ms, i, ms[i])
	case "chunk-swap":
		if len(di) < 2 {
			return ms, want, false
		}
		k := r.Intn(len(di) - 1)
		a, b := di[k], di[k+1]
		if bytes.Equal(ms[a].Chunks[0], ms[b].Chunks[0]) {
			return ms, want, false
		}
		ms[a], ms[b] = ms[b], ms[a]
	case "chunk-extra":
		x := fmsg{K: "data", Chunks: [][]byte{fsimBytes(r.Int63(), 1+r.Intn(5))}}
		if mod == "upload" {
			// before the digest (after it the module has finished)
			ms = fmIns(ms, si[0], x, fmsg{K: "tick"})
		} else {
			ms = append(ms, x)
		}
	case "chunks-merged", "chunks-onemsg":
		group := 3
		if dev == "chunks-onemsg" {
			group = len(di)
		}
		if len(di) < 2 {
			return ms, want, false
		}
		var out []fmsg
		var acc *fmsg
		n := 0
		flush := func() {
			if acc != nil {
				out = append(out, *acc)
				acc, n = nil, 0
			}
		}
		for _, m := range ms {
			switch {
			case m.K == "data":
				if acc == nil {
					acc = &fmsg{K: "data"}
				}
				acc.Chunks = append(acc.Chunks, m.Chunks...)
				n++
				if n == group {
					flush()
				}
			case m.K == "tick" && acc != nil:
				// the ticks between merged messages disappear with the messages
			default:
				flush()
				out = append(out, m)
			}
		}
		flush()
		ms = out
	case "chunk-empty":
		i := pick()
		clone(i)
		if r.Intn(2) == 0 {
			ms[i].Chunks = append([][]byte{{}}, ms[i].Chunks...)
		} else {
			ms[i].Chunks = append(ms[i].Chunks, []byte{})
		}
	case "chunk-empty-msg":
		ms = fmIns(ms, pick(), fmsg{K: "data", Chunks: [][]byte{{}}})
	case "data-nochunks":
		ms = fmIns(ms, pick(), fmsg{K: "data"})
	case "bad-after":
		ms[pick()].Bad = true
	case "bad-first":
		ms = fmIns(ms, di[0], fmsg{K: "data", Bad: true})
	case "bad-last":
		ms[di[len(di)-1]].Bad = true
	case "name-missing":
		if mod == "upload" {
			ms = fmIns(ms, di[0], fmsg{K: "name", B: []byte("x.bin")})
		} else {
			ms = fmDel(ms, ni[0])
		}
	case "name-empty":
		if mod == "upload" {
			return ms, want, false
		}
		ms[ni[0]].B = []byte{}
	case "name-late":
		if mod == "upload" {
			return ms, want, false
		}
		m := ms[ni[0]]
		ms = append(fmDel(ms, ni[0]), m)
	case "name-before-last":
		if mod == "upload" {
			return ms, want, false
		}
		m := ms[ni[0]]
		ms = fmDel(ms, ni[0])
		ms = fmIns(ms, di[len(di)-1]-1, m)
	case "order-sha-last":
		m := ms[si[0]]
		ms = append(fmDel(ms, si[0]), m)
		if mod == "upload" {
			ms = append(ms, fmsg{K: "tick"})
		}
	case "order-sha-first":
		m := ms[si[0]]
		ms = fmIns(fmDel(ms, si[0]), 0, m)
	case "order-len-after-first-data":
		m := ms[li[0]]
		ms = fmDel(ms, li[0])
		ms = fmIns(ms, di[0], m) // di[0] shifted down by one: this is right after the first data message
	case "order-len-last":
		m := ms[li[0]]
		ms = append(fmDel(ms, li[0]), m)
		if mod == "upload" {
			ms = append(ms, fmsg{K: "tick"})
		}
	case "twice", "twice-same-name":
		if mod == "upload" {
			return ms, want, false
		}
		n2, d2 := other()
		if dev == "twice-same-name" {
			n2 = want[0].Name
		}
		ms = append(ms, honest(n2, d2)...)
		want = append(want, fsimFile{n2, d2})
	case "twice-after-fail":
		if mod == "upload" {
			return ms, want, false
		}
		b := append([]byte{}, ms[si[0]].B...)
		b[0] ^= 0x80
		ms[si[0]].B = b
		n2, d2 := other()
		ms = append(ms, honest(n2, d2)...)
		want = []fsimFile{{n2, d2}}
	case "twice-partial":
		if mod == "upload" || len(di) < 2 {
			return ms, want, false
		}
		ms = ms[:di[len(di)/2]]
		n2, d2 := other()
		ms = append(ms, honest(n2, d2)...)
	case "unknown-mid":
		ms = fmIns(ms, di[len(di)/2], fmsg{K: "unknown"})
	case "unknown-first":
		ms = fmIns(ms, 0, fmsg{K: "unknown"})
	default:
		panic("harness: unknown deviation " + dev)
	}
	return ms, want, true
}

// ---------------------------------------------------------------------------------------------------------------
// running the receivers
// ---------------------------------------------------------------------------------------------------------------

// fsimTempLeft: number of temporary files the last evaluated receiver left behind (diagnostic histogram only).
var fsimTempLeft int

type fsimDirs struct {
	base, tmp, dest string
	mu              *sync.Mutex
	names           map[string]string // file name at the destination -> announced name
}

func newFsimDirs() fsimDirs {
	base, err := os.MkdirTemp(WorkDir(), "fsim-")
	if err != nil {
		panic("harness: " + err.Error())
	}
	d := fsimDirs{base: base, tmp: filepath.Join(base, "tmp"), dest: filepath.Join(base, "dest"), mu: &sync.Mutex{}, names: map[string]string{}}
	_ = os.Mkdir(d.tmp, 0o755)
	_ = os.Mkdir(d.dest, 0o755)
	return d
}

func (d fsimDirs) createTemp() (*os.File, error) { return os.CreateTemp(d.tmp, "t_*") }

// path maps an announced name (any text) to a file in the destination directory.
func (d fsimDirs) path(name string) string {
	d.mu.Lock()
	defer d.mu.Unlock()
	for f, n := range d.names {
		if n == name {
			return filepath.Join(d.dest, f)
		}
	}
	f := fmt.Sprintf("f%d", len(d.names))
	d.names[f] = name
	return filepath.Join(d.dest, f)
}

func (d fsimDirs) close() {
	es, _ := os.ReadDir(d.tmp)
	fsimTempLeft = len(es)
	_ = os.RemoveAll(d.base)
}

// take lists what appeared at the destination (rendered as the model renders it), and removes it.
func (d fsimDirs) take(withName bool) string {
	es, _ := os.ReadDir(d.dest)
	if len(es) == 0 {
		return ""
	}
	var out []string
	for _, e := range es {
		p := filepath.Join(d.dest, e.Name())
		b, err := os.ReadFile(p)
		_ = os.RemoveAll(p)
		if err != nil {
			out = append(out, "unreadable:"+e.Name())
			continue
		}
		d.mu.Lock()
		ann, known := d.names[e.Name()]
		d.mu.Unlock()
		nm := hex.EncodeToString([]byte(ann))
		if !known {
			nm = "raw-" + hex.EncodeToString([]byte(e.Name()))
		}
		if withName {
			out = append(out, fmt.Sprintf("file:%s:%x:%x", nm, len(b), fsimSha384(b)))
		} else {
			out = append(out, fmt.Sprintf("file:%x:%x", len(b), fsimSha384(b)))
		}
	}
	sort.Strings(out)
	return strings.Join(out, "+")
}

type replyCatcher struct {
	names []string
	bufs  []*bytes.Buffer
}

func (rc *replyCatcher) respond(name string) io.Writer {
	b := &bytes.Buffer{}
	rc.names = append(rc.names, name)
	rc.bufs = append(rc.bufs, b)
	return b
}

func (rc *replyCatcher) render() string {
	if len(rc.names) == 0 {
		return "-"
	}
	var out []string
	for i, n := range rc.names {
		switch n {
		case "done":
			var v int64
			if err := cbor.Unmarshal(rc.bufs[i].Bytes(), &v); err != nil {
				out = append(out, fmt.Sprintf("done?%x", rc.bufs[i].Bytes()))
			} else if v == -1 {
				out = append(out, "fail")
			} else {
				out = append(out, "done:"+zhex(v))
			}
		default:
			out = append(out, fmt.Sprintf("reply[%s]%x", n, rc.bufs[i].Bytes()))
		}
	}
	return strings.Join(out, ",")
}

func runDownloadImpl(ms []fmsg) string {
	d := newFsimDirs()
	defer d.close()
	m := &fsim.Download{CreateTemp: d.createTemp, NameToPath: d.path}
	_ = m.Transition(true)
	var sb strings.Builder
	sb.WriteString("ok")
	ctx := context.Background()
	for _, x := range ms {
		name, body := x.wire()
		rc := &replyCatcher{}
		err := m.Receive(ctx, name, bytes.NewReader(body), rc.respond, func() {})
		tok := rc.render()
		if err != nil {
			if tok == "-" {
				tok = "error"
			} else {
				tok += ",error"
			}
		}
		sb.WriteString(" " + tok)
		if f := d.take(true); f != "" {
			sb.WriteString("+" + f)
		}
	}
	return sb.String()
}

const fsimUploadName = "x.bin"

func runUploadImpl(ms []fmsg) string {
	d := newFsimDirs()
	defer d.close()
	u := &fsim.UploadRequest{Dir: d.dest, Name: fsimUploadName, CreateTemp: d.createTemp}
	ctx := context.Background()
	var sb strings.Builder
	sb.WriteString("ok")
	if _, done, err := u.ProduceInfo(ctx, serviceinfo.NewProducer("fdo.upload", 1300)); err != nil || done {
		return fmt.Sprintf("request-failed done=%v err=%v", done, err)
	}
	takeUp := func() string {
		es, _ := os.ReadDir(d.dest)
		var out []string
		for _, e := range es {
			p := filepath.Join(d.dest, e.Name())
			b, _ := os.ReadFile(p)
			_ = os.RemoveAll(p)
			s := fmt.Sprintf("file:%x:%x", len(b), fsimSha384(b))
			if e.Name() != fsimUploadName {
				s = "wrongname[" + e.Name() + "]" + s
			}
			out = append(out, s)
		}
		return strings.Join(out, "+")
	}
	over := false
	for _, x := range ms {
		if over {
			sb.WriteString(" -")
			continue
		}
		if x.K == "tick" {
			p := serviceinfo.NewProducer("fdo.upload", 1300)
			block, done, err := u.ProduceInfo(ctx, p)
			f := takeUp()
			switch {
			case err != nil && f == "":
				sb.WriteString(" error")
				over = true
			case err != nil:
				sb.WriteString(" error+" + f)
				over = true
			case done && f != "":
				sb.WriteString(" " + f)
				over = true
			case done:
				sb.WriteString(" done-nofile")
				over = true
			case f != "":
				sb.WriteString(" notdone+" + f)
				over = true
			default:
				sb.WriteString(" -")
			}
			if block || len(p.ServiceInfo()) > 0 {
				sb.WriteString(fmt.Sprintf("!sent:%d:%v", len(p.ServiceInfo()), block))
			}
			continue
		}
		name, body := x.wire()
		err := u.HandleInfo(ctx, name, bytes.NewReader(body))
		f := takeUp()
		switch {
		case err != nil:
			sb.WriteString(" error")
			over = true
		default:
			sb.WriteString(" -")
		}
		if f != "" {
			sb.WriteString("+early-" + f)
		}
	}
	return sb.String()
}

// wget server variants: how the body travels.
//
//	cl          Content-Length, whole body
//	stream      no Content-Length (chunked transfer encoding), flushed in pieces
//	500         status 500 with the body
//	404         status 404, empty
//	cut         full Content-Length announced, half the body sent, connection closed
//	cutchunked  chunked transfer encoding, half the body, connection closed without the terminating chunk
//	closedelim  HTTP/1.0-style body delimited by closing the connection, whole body
//	redirect    302 to the cl variant
var wgetVariants = []string{"cl", "stream", "500", "404", "cut", "cutchunked", "closedelim", "redirect"}

// wgetDelivered: the body the server delivered (nil, false: the transfer broke).
func wgetDelivered(variant string, body []byte) ([]byte, bool) {
	switch variant {
	case "cl", "stream", "closedelim", "redirect":
		return body, true
	}
	return nil, false
}

func wgetHandler(variant string, body []byte) http.Handler {
	hijack := func(w http.ResponseWriter, f func(c net.Conn)) {
		hj, ok := w.(http.Hijacker)
		if !ok {
			w.WriteHeader(500)
			return
		}
		c, _, err := hj.Hijack()
		if err != nil {
			return
		}
		f(c)
		_ = c.Close()
	}
	return http.HandlerFunc(func(w http.ResponseWriter, r *http.Request) {
		v := variant
		if v == "redirect" {
			if !strings.HasSuffix(r.URL.Path, "/real") {
				w.Header().Set("Location", r.URL.Path[:strings.LastIndex(r.URL.Path, "/")]+"/real")
				w.WriteHeader(http.StatusFound)
				return
			}
			v = "cl"
		}
		switch v {
		case "cl":
			w.Header().Set("Content-Length", strconv.Itoa(len(body)))
			_, _ = w.Write(body)
		case "stream":
			fl, _ := w.(http.Flusher)
			step := max(1, len(body)/5)
			for i := 0; i < len(body); i += step {
				_, _ = w.Write(body[i:min(len(body), i+step)])
				if fl != nil {
					fl.Flush()
				}
			}
		case "500":
			w.WriteHeader(500)
			_, _ = w.Write(body)
		case "404":
			w.WriteHeader(404)
		case "cut":
			hijack(w, func(c net.Conn) {
				_, _ = fmt.Fprintf(c, "HTTP/1.1 200 OK\r\nContent-Type: application/octet-stream\r\nContent-Length: %d\r\n\r\n", len(body))
				_, _ = c.Write(body[:len(body)/2])
			})
		case "cutchunked":
			hijack(w, func(c net.Conn) {
				half := body[:len(body)/2]
				_, _ = fmt.Fprintf(c, "HTTP/1.1 200 OK\r\nContent-Type: application/octet-stream\r\nTransfer-Encoding: chunked\r\n\r\n")
				if len(half) > 0 {
					_, _ = fmt.Fprintf(c, "%x\r\n", len(half))
					_, _ = c.Write(half)
					_, _ = c.Write([]byte("\r\n"))
				}
			})
		case "closedelim":
			hijack(w, func(c net.Conn) {
				_, _ = fmt.Fprintf(c, "HTTP/1.0 200 OK\r\nContent-Type: application/octet-stream\r\n\r\n")
				_, _ = c.Write(body)
			})
		}
	})
}

// runWgetImpl: order is the order of the name / sha-384 messages before url ("ns", "sn", "n", "s", "").
func runWgetImpl(name string, haveName bool, sha []byte, variant string, body []byte) string {
	d := newFsimDirs()
	defer d.close()
	srv := httptest.NewServer(wgetHandler(variant, body))
	defer srv.Close()
	tr := &http.Transport{DisableKeepAlives: true}
	defer tr.CloseIdleConnections()
	w := &fsim.Wget{CreateTemp: d.createTemp, NameToPath: d.path, Timeout: 8 * time.Second, Client: &http.Client{Transport: tr}}
	_ = w.Transition(true)
	ctx := context.Background()
	rc := &replyCatcher{}
	send := func(n string, v any) error {
		return w.Receive(ctx, n, bytes.NewReader(fsimCbor(v)), rc.respond, func() {})
	}
	if len(sha) > 0 {
		if err := send("sha-384", sha); err != nil {
			return "receive-error:sha-384"
		}
	}
	if haveName {
		if err := send("name", name); err != nil {
			return "receive-error:name"
		}
	}
	if err := send("url", srv.URL+"/f"); err != nil {
		return "receive-error:url"
	}
	deadline := time.Now().Add(5 * time.Second)
	for len(rc.names) == 0 {
		if time.Now().After(deadline) {
			_ = w.Transition(false)
			return "no-answer"
		}
		if err := w.Yield(ctx, rc.respond, func() {}); err != nil {
			return "yield-error"
		}
		if len(rc.names) == 0 {
			time.Sleep(200 * time.Microsecond)
		}
	}
	f := d.take(true)
	ans := rc.names[0]
	switch {
	case f == "" && ans == "error":
		return "none"
	case f != "" && ans == "done":
		var n int64
		_ = cbor.Unmarshal(rc.bufs[0].Bytes(), &n)
		if !strings.HasPrefix(f, "file:") || strings.Contains(f, "+") {
			return "odd:" + f
		}
		parts := strings.Split(f, ":")
		if l, _ := strconv.ParseInt(parts[2], 16, 64); l != n {
			return fmt.Sprintf("done-length-differs:%d:%s", n, f)
		}
		return f
	case f == "":
		return "none!answered-" + ans
	}
	return f + "!answered-" + ans
}

// ---------------------------------------------------------------------------------------------------------------
// kinds
// ---------------------------------------------------------------------------------------------------------------

func fsimMsgs(mod string, p core.Params) []fmsg {
	if s, ok := p["msgs"]; ok {
		return parseFmsgs(s)
	}
	ms, _, _ := fsimCase(mod, p)
	return ms
}

func wgetCaseParams(p core.Params) (name string, haveName bool, sha []byte, variant string, body []byte) {
	size, _ := strconv.Atoi(p["size"])
	cseed, _ := strconv.ParseInt(p["cseed"], 10, 64)
	body = fsimBytes(cseed, size)
	name, haveName = p["name"], p["noname"] == ""
	variant = p["variant"]
	switch p["sha"] {
	case "right":
		sha = fsimSha384(body)
	case "wrong":
		sha = fsimSha384(body)
		sha[int(cseed%48+48)%48] ^= 0x10
	case "trunc":
		sha = fsimSha384(body)[:32]
	case "other":
		sha = fsimSha384(append([]byte{0}, body...))
	case "half":
		sha = fsimSha384(body[:len(body)/2])
	}
	return
}

func registerFsimKinds(c *core.Ctx) {
	c.Register(&core.Kind{Name: "fsim.download", Eval: func(p core.Params) (string, string) {
		ms := fsimMsgs("download", p)
		line := "fsim.download (" + fmsgsText(ms) + ")"
		if p["lineonly"] != "" {
			return line, ""
		}
		return line, runDownloadImpl(ms)
	}})
	c.Register(&core.Kind{Name: "fsim.upload", Eval: func(p core.Params) (string, string) {
		ms := fsimMsgs("upload", p)
		line := "fsim.upload (" + fmsgsText(ms) + ")"
		if p["lineonly"] != "" {
			return line, ""
		}
		return line, runUploadImpl(ms)
	}})
	// the same receivers without the model (message counts for which the extracted model's list appends are too slow)
	c.Register(&core.Kind{Name: "fsim.download.impl", NoModel: true, Eval: func(p core.Params) (string, string) {
		ms := fsimMsgs("download", p)
		line := fmt.Sprintf("fsim.download.impl size=%s sz=%s dev=%s cseed=%s dseed=%s msgs=%d", p["size"], p["sz"], p["dev"], p["cseed"], p["dseed"], len(ms))
		if p["lineonly"] != "" {
			return line, ""
		}
		return line, runDownloadImpl(ms)
	}})
	c.Register(&core.Kind{Name: "fsim.upload.impl", NoModel: true, Eval: func(p core.Params) (string, string) {
		ms := fsimMsgs("upload", p)
		line := fmt.Sprintf("fsim.upload.impl size=%s sz=%s dev=%s cseed=%s dseed=%s msgs=%d", p["size"], p["sz"], p["dev"], p["cseed"], p["dseed"], len(ms))
		if p["lineonly"] != "" {
			return line, ""
		}
		return line, runUploadImpl(ms)
	}})
	c.Register(&core.Kind{Name: "fsim.wget", Eval: func(p core.Params) (string, string) {
		name, haveName, sha, variant, body := wgetCaseParams(p)
		mname := name
		if !haveName {
			mname = ""
		}
		arg := "()"
		if b, ok := wgetDelivered(variant, body); ok {
			arg = fmt.Sprintf("(b:%x)", b)
		}
		line := fmt.Sprintf("fsim.wget b:%x b:%x %s", mname, sha, arg)
		if p["lineonly"] != "" {
			return line, ""
		}
		return line, runWgetImpl(name, haveName, sha, variant, body)
	}})
	registerFsimMoreKinds(c)
}

// ---------------------------------------------------------------------------------------------------------------
// monitors for part 1
// ---------------------------------------------------------------------------------------------------------------

type fsimAppear struct {
	At        int // message index
	Name      string
	Len       int64
	Sha       string
	AnnLen    int64
	HaveLen   bool
	AnnSha    string
	Malformed bool
}

// fsimAppearances walks the implementation's answer and pairs every file that appeared with the length and digest
// that had been announced for the transfer in progress (the announcements are forgotten whenever the module answers).
func fsimAppearances(mod string, ms []fmsg, impl string) (apps []fsimAppear, answered int) {
	toks := strings.Fields(impl)
	if len(toks) == 0 || toks[0] != "ok" {
		return nil, 0
	}
	toks = toks[1:]
	var annLen int64
	var haveLen bool
	var annSha string
	for i, m := range ms {
		switch m.K {
		case "length":
			annLen, haveLen = m.L, true
		case "sha":
			annSha = hex.EncodeToString(m.B)
		}
		if i >= len(toks) {
			break
		}
		t := toks[i]
		if t == "-" {
			continue
		}
		answered++
		if j := strings.Index(t, "file:"); j >= 0 {
			for _, f := range strings.Split(t[j:], "+") {
				f = strings.TrimPrefix(f, "early-")
				parts := strings.Split(f, ":")
				a := fsimAppear{At: i, AnnLen: annLen, HaveLen: haveLen, AnnSha: annSha}
				switch {
				case mod == "upload" && len(parts) == 3:
					a.Len, _ = strconv.ParseInt(parts[1], 16, 64)
					a.Sha = parts[2]
				case mod != "upload" && len(parts) == 4:
					nb, _ := hex.DecodeString(parts[1])
					a.Name = string(nb)
					a.Len, _ = strconv.ParseInt(parts[2], 16, 64)
					a.Sha = parts[3]
				default:
					a.Malformed = true
				}
				apps = append(apps, a)
			}
		}
		if mod == "download" {
			annLen, haveLen, annSha = 0, false, ""
		}
	}
	return apps, answered
}

func fsimMonitor(c *core.Ctx, mod, kind string, p core.Params, ms []fmsg, want []fsimFile, benign bool, o core.Obs) {
	switch {
	case strings.HasPrefix(o.Impl, "panic"):
		c.Fail("panic@fsim:"+mod, core.PanicText, kind, p, o)
		return
	case o.Impl == "hang":
		c.Fail("hang@fsim:"+mod, "", kind, p, o)
		return
	}
	apps, answered := fsimAppearances(mod, ms, o.Impl)
	for _, a := range apps {
		lenBad := a.HaveLen && a.AnnLen != a.Len
		shaBad := a.AnnSha != "" && a.AnnSha != a.Sha
		if a.Malformed || lenBad || shaBad {
			c.Fail("corrupt-file-appeared:"+mod, fmt.Sprintf("message %d: a file of %d bytes (sha-384 %s) appeared under %q while the announced length was %d (announced=%v) and the announced digest %q",
				a.At, a.Len, a.Sha, a.Name, a.AnnLen, a.HaveLen, a.AnnSha), kind, p, o)
		}
	}
	c.Count("files_appeared:"+mod, strconv.Itoa(len(apps)))
	if benign {
		okAll := len(apps) == len(want)
		for i := 0; okAll && i < len(want); i++ {
			if apps[i].Len != int64(len(want[i].Data)) || apps[i].Sha != hex.EncodeToString(fsimSha384(want[i].Data)) || (mod == "download" && apps[i].Name != want[i].Name) {
				okAll = false
			}
		}
		if !okAll {
			c.Fail("file-missing:"+mod, fmt.Sprintf("a correct transfer (%s) of %d file(s) delivered %d file(s) or other bytes: %s", p["dev"], len(want), len(apps), fsimClip(o.Impl, 600)), kind, p, o)
		}
		return
	}
	// a sender that finished a transfer whose announcements do not match what arrived must be told: some answer
	if answered == 0 && len(apps) == 0 && p["dev"] != "" {
		c.Count("no_verdict:"+mod, p["dev"])
	}
}

func fsimClip(s string, n int) string {
	if len(s) > n {
		return s[:n] + "..."
	}
	return s
}

// ---------------------------------------------------------------------------------------------------------------
// part 2: complete onboardings
// ---------------------------------------------------------------------------------------------------------------

type e2eFile struct {
	Name    string
	Data    []byte
	Chunk   int    // download: ChunkSize
	Variant string // wget: server variant
	Tamper  string // "", or what a man inside the tunnel alters
	// wget (fsimx_more.go): what the server really sends (nil: Data); Length / Checksum left unannounced
	Serve        []byte
	NoLen, NoSum bool
}

type e2eRun struct {
	Kind      string // download upload wget mixed
	DevMTU    uint16 // what the device tells the owner to send at most (0: default)
	OwnMTU    uint16 // what the owner tells the device to send at most (0: default)
	Downloads []e2eFile
	Uploads   []e2eFile
	Wgets     []e2eFile
	Timeout   time.Duration
	MayReject bool // a configuration the library may refuse (probing the smallest MTU): failure is counted, not reported
	// DefaultHTTP: keep the HTTP transport's and handler's default MaxContentLength (65535 bytes per message, which an
	// encrypted 65535-byte service info does not fit); otherwise both are raised so that the modules can be exercised
	// at the largest MTU
	DefaultHTTP bool
	ShortReads  *srPlan // uploads: the device's file system answers Read by this plan (fsimx_more.go)
	Expect      string  // "": TO2 succeeds; otherwise see e2eExpectedFailure
}

func (r e2eRun) label() string {
	first := func(fs []e2eFile) string {
		if len(fs) == 0 {
			return "-"
		}
		return fmt.Sprintf("%d/%d", len(fs[0].Data), fs[0].Chunk)
	}
	fs := r.Downloads
	if len(fs) == 0 {
		fs = r.Uploads
	}
	if len(fs) == 0 {
		fs = r.Wgets
	}
	return fmt.Sprintf("%s:%s/%d-%d", r.Kind, first(fs), r.DevMTU, r.OwnMTU)
}

// tamperOwner alters what an owner module produced, after the module wrote it (inside the tunnel: the bytes are
// what the device's module will be handed).
type tamperOwner struct {
	serviceinfo.OwnerModule
	what string
	seen int
	hit  *bool
}

func (t *tamperOwner) ProduceInfo(ctx context.Context, p *serviceinfo.Producer) (bool, bool, error) {
	n0 := len(p.ServiceInfo())
	b, d, err := t.OwnerModule.ProduceInfo(ctx, p)
	for _, kv := range p.ServiceInfo()[n0:] {
		_, msg, _ := strings.Cut(kv.Key, ":")
		if tamperBody(t.what, msg, &t.seen, kv.Val) {
			*t.hit = true
		}
	}
	return b, d, err
}

// tamperBody alters one CBOR message body in place (same length); reports whether it did.
func tamperBody(what, msg string, seen *int, val []byte) bool {
	switch {
	case what == "data" && msg == "data":
		*seen++
		if *seen == 1 && len(val) > 1 {
			val[len(val)-1] ^= 0x01
			return true
		}
	case what == "data2" && msg == "data":
		*seen++
		if *seen == 2 && len(val) > 1 {
			val[len(val)/2+1] ^= 0x80
			return true
		}
	case what == "sha" && msg == "sha-384":
		val[len(val)-1] ^= 0x01
		return true
	case what == "len-down" && msg == "length":
		// the last byte of the integer: make it smaller by one when that does not borrow
		if len(val) >= 1 && val[len(val)-1]&0x1f != 0 && (len(val) > 1 || val[0] > 1) {
			val[len(val)-1]--
			return true
		}
	case what == "len-up" && msg == "length":
		if len(val) > 1 && val[len(val)-1] != 0xff || len(val) == 1 && val[0] < 0x17 {
			val[len(val)-1]++
			return true
		}
	}
	return false
}

// tamperDevice alters what a device module answers (upload direction).
type tamperDevice struct {
	serviceinfo.DeviceModule
	what string
	seen int
	hit  *bool
}

func (t *tamperDevice) Receive(ctx context.Context, name string, body io.Reader, respond func(string) io.Writer, yield func()) error {
	var pendName string
	var pend *bytes.Buffer
	flush := func() {
		if pend != nil {
			b := pend.Bytes()
			if tamperBody(t.what, pendName, &t.seen, b) {
				*t.hit = true
			}
			_, _ = respond(pendName).Write(b)
			pend = nil
		}
	}
	err := t.DeviceModule.Receive(ctx, name, body, func(n string) io.Writer {
		flush()
		pendName, pend = n, &bytes.Buffer{}
		return pend
	}, func() { flush(); yield() })
	flush()
	return err
}

type e2eFixture struct {
	e   *env.Env
	srv *httptest.Server
	mux map[string]http.Handler
}

func (fx *e2eFixture) ServeHTTP(w http.ResponseWriter, r *http.Request) {
	parts := strings.SplitN(strings.TrimPrefix(r.URL.Path, "/"), "/", 2)
	h := fx.mux[parts[0]]
	if h == nil {
		w.WriteHeader(404)
		return
	}
	h.ServeHTTP(w, r)
}

// runE2E performs one onboarding and checks the destination directories.
func runE2E(c *core.Ctx, fx *e2eFixture, r e2eRun) {
	c.Rep.Evaluations++
	c.Count("gen", "e2e:"+r.Kind)
	p := core.Params{"run": r.label()}
	desc := func(fs []e2eFile) string {
		var s []string
		for _, f := range fs {
			s = append(s, fmt.Sprintf("%s:%d:%d:%s%s", f.Name, len(f.Data), f.Chunk, f.Variant, f.Tamper))
		}
		return strings.Join(s, ",")
	}
	p["downloads"], p["uploads"], p["wgets"] = desc(r.Downloads), desc(r.Uploads), desc(r.Wgets)
	base, err := os.MkdirTemp(WorkDir(), "fsim-e2e-")
	if err != nil {
		panic("harness: " + err.Error())
	}
	defer os.RemoveAll(base)
	dirs := map[string]string{}
	for _, n := range []string{"devdest", "devtmp", "devsrc", "owndest", "owntmp"} {
		dirs[n] = filepath.Join(base, n)
		_ = os.Mkdir(dirs[n], 0o755)
	}
	mkTemp := func(dir string) func() (*os.File, error) {
		return func() (*os.File, error) { return os.CreateTemp(dir, "t_*") }
	}
	for _, f := range r.Uploads {
		_ = os.WriteFile(filepath.Join(dirs["devsrc"], f.Name), f.Data, 0o644)
	}
	fx.mux = map[string]http.Handler{}
	for _, f := range r.Wgets {
		fx.mux[f.Name] = wgetHandler(f.Variant, f.served())
	}
	tampered := false
	fx.e.OwnerMTU = r.OwnMTU
	fx.e.OwnerModules = func(context.Context, protocol.GUID, serviceinfo.Devmod, []string) iter.Seq2[string, serviceinfo.OwnerModule] {
		return func(yield func(string, serviceinfo.OwnerModule) bool) {
			for _, f := range r.Downloads {
				var m serviceinfo.OwnerModule = &fsim.DownloadContents[*bytes.Reader]{Name: f.Name, Contents: bytes.NewReader(f.Data), MustDownload: true, ChunkSize: f.Chunk}
				if f.Tamper != "" {
					m = &tamperOwner{OwnerModule: m, what: f.Tamper, hit: &tampered}
				}
				if !yield("fdo.download", m) {
					return
				}
			}
			for _, f := range r.Uploads {
				if !yield("fdo.upload", &fsim.UploadRequest{Dir: dirs["owndest"], Name: f.Name, CreateTemp: mkTemp(dirs["owntmp"])}) {
					return
				}
			}
			for _, f := range r.Wgets {
				u, _ := url.Parse(fx.srv.URL + "/" + f.Name + "/f")
				var m serviceinfo.OwnerModule = &fsim.WgetCommand{Name: f.Name, URL: u, Length: f.annLen(), Checksum: f.annSum()}
				if f.Tamper != "" {
					m = &tamperOwner{OwnerModule: m, what: f.Tamper, hit: &tampered}
				}
				if !yield("fdo.wget", m) {
					return
				}
			}
		}
	}
	timeout := r.Timeout
	if timeout == 0 {
		timeout = 90 * time.Second
	}
	ctx, cancel := context.WithTimeout(context.Background(), timeout)
	defer cancel()
	fx.e.RT.Reset()
	t0 := time.Now()
	var terr error
	var panicked string
	func() {
		defer func() {
			if rec := recover(); rec != nil {
				panicked = fmt.Sprint(rec)
			}
		}()
		dev, err := fx.e.NewDevice(ctx, protocol.X509KeyEnc)
		if err != nil {
			terr = fmt.Errorf("DI: %w", err)
			return
		}
		cfg := dev.TO2Config(env.DefaultKex(fx.e.Spec), kex.A128GcmCipher)
		cfg.MaxServiceInfoSizeReceive = r.DevMTU
		var up serviceinfo.DeviceModule = &fsim.Upload{FS: r.uploadFS(os.DirFS(dirs["devsrc"]))}
		for _, f := range r.Uploads {
			if f.Tamper != "" {
				up = &tamperDevice{DeviceModule: up, what: f.Tamper, hit: &tampered}
				break
			}
		}
		tr := &http.Transport{DisableKeepAlives: true}
		defer tr.CloseIdleConnections()
		toPath := func(n string) string { return filepath.Join(dirs["devdest"], n) }
		cfg.DeviceModules = map[string]serviceinfo.DeviceModule{
			"fdo.download": &fsim.Download{CreateTemp: mkTemp(dirs["devtmp"]), NameToPath: toPath},
			"fdo.upload":   up,
			"fdo.wget":     &fsim.Wget{CreateTemp: mkTemp(dirs["devtmp"]), NameToPath: toPath, Timeout: 20 * time.Second, Client: &http.Client{Transport: tr}},
		}
		tp := fx.e.Transport()
		fx.e.Handler.MaxContentLength = 0
		if !r.DefaultHTTP {
			tp.MaxContentLength, fx.e.Handler.MaxContentLength = 1<<21, 1<<21
		}
		_, terr = fdo.TO2(ctx, tp, nil, cfg)
	}()
	wall := time.Since(t0)
	rounds := 0
	for _, x := range fx.e.RT.Log {
		if x.MsgType == 68 {
			rounds++
		}
		if x.Panic != "" {
			panicked = "owner service on message " + strconv.Itoa(x.MsgType) + ": " + x.Panic
		}
	}
	fx.e.RT.Reset()
	o := core.Obs{Impl: fmt.Sprintf("to2-error=%v rounds=%d wall=%s", terr, rounds, wall.Round(time.Millisecond))}
	c.Count("e2e_rounds", fsimBucket(rounds))
	if panicked != "" {
		c.Fail("panic@fsim:e2e:"+r.Kind, panicked, "e2e", p, o)
	}
	if r.Expect != "" {
		e2eExpectedFailure(c, r, p, o, terr, ctx.Err() != nil, dirs)
		return
	}
	anyTamper := false
	for _, fs := range [][]e2eFile{r.Downloads, r.Uploads, r.Wgets} {
		for _, f := range fs {
			if f.Tamper != "" {
				anyTamper = true
			}
		}
	}
	// what is at the destinations
	firstMissing := ""
	missing := map[string]bool{}
	check := func(dir string, fs []e2eFile, who string) {
		want := map[string][]byte{}
		for _, f := range fs {
			if f.Tamper == "" || !tampered {
				if b, ok := wgetDeliveredOr(f); ok {
					want[f.Name] = b
				}
			}
		}
		es, _ := os.ReadDir(dir)
		for _, e := range es {
			got, _ := os.ReadFile(filepath.Join(dir, e.Name()))
			exp, ok := want[e.Name()]
			switch {
			case !ok && anyTamper && tampered:
				c.Fail("corrupt-file-appeared-e2e:"+who, fmt.Sprintf("%s: after tampering a file %q of %d bytes appeared", r.label(), e.Name(), len(got)), "e2e", p, o)
			case !ok:
				c.Fail("extra-file-e2e:"+who, fmt.Sprintf("%s: unexpected %q of %d bytes", r.label(), e.Name(), len(got)), "e2e", p, o)
			case !bytes.Equal(got, exp):
				c.Fail("file-differs-e2e", fmt.Sprintf("%s: %s %q: got %d bytes, want %d; first difference at %d", r.label(), who, e.Name(), len(got), len(exp), fsimFirstDiff(got, exp)), "e2e", p, o)
			default:
				c.Count("e2e_files_ok", who)
			}
			delete(want, e.Name())
		}
		if terr == nil {
			for n := range want {
				c.Fail("file-differs-e2e", fmt.Sprintf("%s: %s %q did not arrive although TO2 succeeded", r.label(), who, n), "e2e", p, o)
			}
		} else {
			for n := range want {
				missing[n] = true
			}
		}
	}
	dl := append(append([]e2eFile(nil), r.Downloads...), r.Wgets...)
	check(dirs["devdest"], dl, "device")
	check(dirs["owndest"], r.Uploads, "owner")
	// the transfers run in order: the first file that is not there is the one TO2 failed on
	for i, fs := range [][]e2eFile{r.Downloads, r.Uploads, r.Wgets} {
		for _, f := range fs {
			if missing[f.Name] && firstMissing == "" {
				firstMissing = fmt.Sprintf("%s:%d/%d", []string{"download", "upload", "wget"}[i], len(f.Data), f.Chunk)
			}
		}
	}
	for _, n := range []string{"devtmp", "owntmp"} {
		if es, _ := os.ReadDir(dirs[n]); len(es) > 0 {
			c.Count("e2e_temp_left", n+":"+map[bool]string{true: "after-failure", false: "after-success"}[terr != nil])
		}
	}
	switch {
	case anyTamper && tampered:
		// the corruption must be reported: TO2 fails (MustDownload / upload digest / wget error)
		if terr == nil {
			c.Fail("tamper-unreported-e2e:"+r.Kind, fmt.Sprintf("%s: TO2 succeeded although %s was altered inside the tunnel", r.label(), p["downloads"]+p["uploads"]+p["wgets"]), "e2e", p, o)
		} else if ctx.Err() != nil {
			c.Count("e2e_tamper_outcome", r.Kind+":no-verdict-before-timeout")
		} else {
			c.Count("e2e_tamper_outcome", r.Kind+":to2-failed")
		}
	case anyTamper:
		c.Count("e2e_tamper_outcome", r.Kind+":tamper-did-not-apply")
		fallthrough
	default:
		if terr != nil && r.MayReject {
			c.Count("e2e_mtu_rejected", fmt.Sprintf("%s %d-%d: %s", r.Kind, r.DevMTU, r.OwnMTU, fsimClip(terr.Error()[strings.LastIndex(terr.Error(), "]")+1:], 160)))
		} else if terr != nil {
			if firstMissing == "" {
				firstMissing = r.Kind + ":-"
			}
			sig := fmt.Sprintf("to2-failed-e2e:%s/%d-%d", firstMissing, r.DevMTU, r.OwnMTU)
			if len(r.Uploads) > 0 && r.OwnMTU != 0 && r.OwnMTU <= 1041 && strings.Contains(terr.Error(), "fdo.upload:data") {
				// fsim.Upload always sends 1014-byte data chunks: with an owner size of 1041 or less the device's chunking
				// cuts one across two messages and the owner, which reassembles per message, cannot decode it
				sig = "upload-data-chunk-split-by-small-owner-mtu"
			}
			c.Fail(sig, terr.Error(), "e2e", p, o)
		} else {
			c.Count("e2e_ok", fmt.Sprintf("%s mtu=%d/%d", r.Kind, r.DevMTU, r.OwnMTU))
		}
	}
}

func wgetDeliveredOr(f e2eFile) ([]byte, bool) {
	if f.Variant == "" {
		return f.Data, true
	}
	return wgetDelivered(f.Variant, f.served())
}

func fsimFirstDiff(a, b []byte) int {
	for i := 0; i < len(a) && i < len(b); i++ {
		if a[i] != b[i] {
			return i
		}
	}
	return min(len(a), len(b))
}

func fsimBucket(n int) string {
	switch {
	case n < 10:
		return "<10"
	case n < 100:
		return "<100"
	case n < 1000:
		return "<1000"
	case n < 10000:
		return "<10000"
	}
	return ">=10000"
}

// dataRoom: the number of file bytes one "data" message of DownloadContents carries at the given MTU and chunk size.
func dataRoom(mtu uint16, chunk int) int {
	if mtu == 0 {
		mtu = serviceinfo.DefaultMTU
	}
	room := serviceinfo.NewProducer("fdo.download", mtu).Available("data") - 6
	c := 1014
	if chunk > 0 {
		c = chunk
	} else if chunk < 0 {
		c = 65535
	}
	return max(1, min(room, c))
}

// ---------------------------------------------------------------------------------------------------------------
// the runner
// ---------------------------------------------------------------------------------------------------------------

func RunC17(c *core.Ctx) {
	registerFsimKinds(c)
	c.Rep.Rule = "part 1, cases = (module, file size, chunk size, content seed, deviation): sizes {1,2,sz-1,sz,sz+1,2sz,1013,1014,1015,3000,70000} x chunk sizes {1,2,7,1014,65535} x " +
		fmt.Sprint(len(fsimDeviations)) + " deviations (length/digest/data/name/order/restart/unknown-message, and pairs) for fdo.download and fdo.upload receivers, names incl. empty and non-ASCII; " +
		"wget: sizes x {digest none/right/wrong/truncated/of-other-bytes} x " + fmt.Sprint(len(wgetVariants)) + " server behaviours x {name, no name, empty name}; " +
		"extracted dl_run / ul_run / wget_result vs fsim.Download / fsim.UploadRequest / fsim.Wget driven message by message; monitors: no file whose length or digest differs from the " +
		"announcement appears, every correct transfer delivers the identical bytes under the announced name, no panic. part 2 = complete TO2 onboardings (P-256) with fsim.DownloadContents " +
		"(several files in a row, ChunkSize {0,1,7,1014,3000,65535,-1}), fsim.UploadRequest/fsim.Upload and fsim.WgetCommand/fsim.Wget against a local HTTP server, MTUs {256,512,1300,4096,65535} " +
		"in both directions, sizes around chunk and message-room multiples, plus runs in which a wrapper alters data/digest/length inside the tunnel; monitors only. " +
		"non-trivial = at least one data message or an HTTP body; distinct = distinct case line"
	c.Trivial = func(o core.Obs) bool {
		return !strings.Contains(o.Line, "(data ") && !strings.HasPrefix(o.Line, "fsim.wget") && !strings.HasPrefix(o.Line, "fsim.upload.shortreads")
	}
	t0 := time.Now()
	quick := c.Quick()

	chunkSizes := []int{1, 2, 7, 1014, 65535}
	sizesFor := func(sz int) []int {
		set := map[int]bool{}
		var out []int
		for _, s := range []int{1, 2, sz - 1, sz, sz + 1, 2 * sz, 1013, 1014, 1015, 3000, 70000} {
			if s >= 1 && s <= 140000 && !set[s] {
				set[s] = true
				out = append(out, s)
			}
		}
		return out
	}
	names := []string{"a", "file.bin", "dir/sub/file", "", "naïve-ü.dat", "with space and \"quotes\"", strings.Repeat("n", 300), "../up", "x\x00y"}
	for _, n := range names {
		if !utf8.ValidString(n) {
			panic("harness: names must be valid UTF-8")
		}
	}
	// the extracted model appends to a list per message: quadratic in time and memory (12000 messages: 35 s, 1 GB);
	// beyond modelMsgs data messages the receivers run under the monitors only
	modelMsgs := 6000
	if quick {
		modelMsgs = 1600
	}
	type shape struct{ size, sz int }
	var shapes []shape
	for _, sz := range chunkSizes {
		for _, s := range sizesFor(sz) {
			if quick && (s+sz-1)/sz > 40000 {
				continue // 70000 one-byte messages: thorough tier only
			}
			shapes = append(shapes, shape{s, sz})
		}
	}
	msgsOf := func(sh shape) int { return (sh.size + sh.sz - 1) / sh.sz }
	c.Note("part 1: %d (size, chunk) shapes, %d deviations", len(shapes), len(fsimDeviations))

	doGen := func(mod string, sh shape, dev, name string) {
		p := core.Params{"size": strconv.Itoa(sh.size), "sz": strconv.Itoa(sh.sz), "cseed": strconv.FormatInt(c.Rng.Int63n(1<<40), 10),
			"dseed": strconv.FormatInt(c.Rng.Int63n(1<<40), 10), "dev": dev}
		if mod == "download" {
			p["name"] = name
		}
		ms, want, ok := fsimCase(mod, p)
		if !ok {
			c.Count("skipped_not_applicable", mod+":"+dev)
			return
		}
		kind := "fsim." + mod
		if len(fmIdx(ms, "data")) > modelMsgs {
			kind += ".impl"
		}
		tc := time.Now()
		o := c.Do(kind, p, mod+":"+dev)
		if os.Getenv("C17_TIMING") != "" {
			fmt.Fprintf(os.Stderr, "timing %s %d/%d %s %dms impl=%dms\n", kind, sh.size, sh.sz, dev, time.Since(tc).Milliseconds(), o.WallUs/1000)
		}
		c.Count("temp_left:"+mod, fmt.Sprintf("%s:%d", map[bool]string{true: "answered", false: "silent"}[strings.Contains(o.Impl, "error") || strings.Contains(o.Impl, "fail")], fsimTempLeft))
		benign := fsimBenign(mod, dev)
		if mod == "download" && name == "" {
			benign = false // no name: nothing may be delivered
		}
		fsimMonitor(c, mod, kind, p, ms, want, benign, o)
	}

	for _, mod := range []string{"download", "upload"} {
		// every shape honestly
		for _, sh := range shapes {
			if quick && msgsOf(sh) > 1100 && msgsOf(sh) <= modelMsgs && c.Rng.Intn(2) == 0 {
				continue
			}
			doGen(mod, sh, "honest", "file.bin")
		}
		if mod == "download" {
			for _, n := range names {
				doGen(mod, shape{1015, 7}, "honest", n)
				doGen(mod, shape{5, 2}, "twice", n)
			}
		}
		// every deviation
		var small, large []shape
		for _, sh := range shapes {
			switch n := msgsOf(sh); {
			case (quick && n <= 450) || (!quick && n <= 600):
				small = append(small, sh)
			default:
				large = append(large, sh)
			}
		}
		for _, dev := range fsimDeviations[1:] {
			if quick {
				for k := 0; k < 5; k++ {
					sh := small[c.Rng.Intn(len(small))]
					for sh.size > 3000 && c.Rng.Intn(6) != 0 {
						sh = small[c.Rng.Intn(len(small))] // the model spends ~0.5 s on a 70000-byte file: mostly small files in this tier
					}
					doGen(mod, sh, dev, names[c.Rng.Intn(3)])
				}
				continue
			}
			for _, sh := range small {
				doGen(mod, sh, dev, names[c.Rng.Intn(len(names))])
			}
		}
		// the shapes with many messages: a sample of deviations each
		for _, sh := range large {
			k := 8
			if quick {
				k = 1
				if msgsOf(sh) <= modelMsgs && c.Rng.Intn(3) != 0 {
					continue
				}
			}
			for ; k > 0; k-- {
				doGen(mod, sh, fsimDeviations[1+c.Rng.Intn(len(fsimDeviations)-1)], names[c.Rng.Intn(3)])
			}
		}
	}
	c.Note("part 1 download+upload: %d evaluations after %.1fs", c.Rep.Evaluations, time.Since(t0).Seconds())

	// wget
	wgetSizes := []int{1, 2, 1014, 3000, 70000}
	if !quick {
		wgetSizes = []int{1, 2, 6, 7, 8, 14, 1013, 1014, 1015, 2028, 3000, 65535, 70000, 131070}
	}
	nW := 0
	doWget := func(size int, sha, variant, name string, noname bool) {
		p := core.Params{"size": strconv.Itoa(size), "cseed": strconv.FormatInt(c.Rng.Int63n(1<<40), 10), "sha": sha, "variant": variant, "name": name}
		if noname {
			p["noname"] = "1"
		}
		o := c.Do("fsim.wget", p, "wget:"+variant+":"+sha)
		nW++
		switch {
		case strings.HasPrefix(o.Impl, "panic"):
			c.Fail("panic@fsim:wget", core.PanicText, "fsim.wget", p, o)
			return
		case o.Impl == "hang" || o.Impl == "no-answer":
			c.Fail("hang@fsim:wget", "", "fsim.wget", p, o)
			return
		}
		_, _, shaB, _, body := wgetCaseParams(p)
		delivered, ok := wgetDelivered(variant, body)
		honest := ok && (len(shaB) == 0 || bytes.Equal(shaB, fsimSha384(body))) && !noname && name != ""
		wantTxt := fmt.Sprintf("file:%x:%x:%x", name, len(delivered), fsimSha384(delivered))
		if strings.HasPrefix(o.Impl, "file:") {
			parts := strings.Split(o.Impl, ":")
			if len(parts) != 4 || (len(shaB) > 0 && parts[3] != hex.EncodeToString(shaB)) || !ok || o.Impl != wantTxt {
				c.Fail("corrupt-file-appeared:wget", fmt.Sprintf("variant %s, announced digest %x, %d bytes served: %s", variant, shaB, len(body), o.Impl), "fsim.wget", p, o)
			}
		}
		if honest && o.Impl != wantTxt {
			c.Fail("file-missing:wget", fmt.Sprintf("variant %s, %d bytes, digest %q: %s", variant, len(body), sha, o.Impl), "fsim.wget", p, o)
		}
	}
	for _, size := range wgetSizes {
		for _, variant := range wgetVariants {
			for _, sha := range []string{"", "right", "wrong", "trunc", "other", "half"} {
				if quick && (sha == "other" || sha == "half") && c.Rng.Intn(3) != 0 {
					continue
				}
				if quick && size > 3000 && c.Rng.Intn(2) == 0 {
					continue
				}
				doWget(size, sha, variant, names[c.Rng.Intn(3)], false)
			}
		}
		doWget(size, "right", "cl", "", true)
		doWget(size, "right", "cl", "", false)
		doWget(size, "", "stream", "", true)
		for _, n := range names[4:] {
			if quick && c.Rng.Intn(3) != 0 {
				continue
			}
			doWget(size, "right", "stream", n, false)
		}
	}
	runC17More(c) // short-read uploads, served length against announced length (fsimx_more.go)
	part1 := c.Rep.Evaluations
	c.Note("part 1: %d evaluations (%d wget) in %.1fs", part1, nW, time.Since(t0).Seconds())

	// ---- part 2 ----
	t1 := time.Now()
	e, err := env.New(WorkDir(), env.P256)
	if err != nil {
		c.Fail("harness:env", err.Error(), "e2e", nil, core.Obs{})
		return
	}
	defer e.Close()
	fx := &e2eFixture{e: e}
	fx.srv = httptest.NewServer(fx)
	defer fx.srv.Close()

	rb := func(n int) []byte { b := make([]byte, n); c.Rng.Read(b); return b }
	seq := 0
	file := func(size, chunk int) e2eFile {
		seq++
		return e2eFile{Name: fmt.Sprintf("f%03d-%d.bin", seq, size), Data: rb(size), Chunk: chunk}
	}
	around := func(room int, maxRounds int) []int {
		set := map[int]bool{}
		var out []int
		for _, s := range []int{1, room - 1, room, room + 1, 2*room - 1, 2 * room, 2*room + 1, 3*room + 5} {
			if s >= 1 && !set[s] && (s+room-1)/room <= maxRounds {
				set[s] = true
				out = append(out, s)
			}
		}
		return out
	}
	var runs []e2eRun
	mtus := []uint16{256, 512, 1300, 4096, 65535}
	chunks := []int{0, 1, 7, 1014, 3000, 65535, -1}
	if quick {
		// ~25 onboardings: every chunk size and every MTU at least once, all three modules, tampering
		pickM := func(i int) uint16 { return mtus[i%len(mtus)] }
		for i, ch := range chunks {
			m := pickM(i + 1)
			room := dataRoom(m, ch)
			var fs []e2eFile
			for _, s := range around(room, 40) {
				fs = append(fs, file(s, ch))
			}
			runs = append(runs, e2eRun{Kind: "download", DevMTU: m, OwnMTU: pickM(i + 3), Downloads: fs})
		}
		for i, m := range mtus {
			room := dataRoom(m, 0)
			fs := []e2eFile{file(room*3+1, 0), file(room, 0)}
			if i%2 == 0 {
				fs = append(fs, file(70000/(1+4*(i%3)), -1))
			}
			runs = append(runs, e2eRun{Kind: "download", DevMTU: m, OwnMTU: m, Downloads: fs})
		}
		for i, m := range mtus {
			ups := []e2eFile{file(1, 0), file(1014, 0), file(1015, 0), file(2028+i, 0), file(int(m)+i, 0)}
			runs = append(runs, e2eRun{Kind: "upload", DevMTU: pickM(i + 2), OwnMTU: m, Uploads: ups})
		}
		for i, m := range mtus[1:] {
			var ws []e2eFile
			for j, s := range []int{1, 1014, 70000} {
				f := file(s, 0)
				f.Variant = []string{"cl", "stream", "redirect", "closedelim"}[(i+j)%4]
				ws = append(ws, f)
			}
			runs = append(runs, e2eRun{Kind: "wget", DevMTU: m, OwnMTU: m, Wgets: ws})
		}
		runs = append(runs, e2eRun{Kind: "mixed", DevMTU: 1300, OwnMTU: 1300, Downloads: []e2eFile{file(2500, 0), file(1, 7)}, Uploads: []e2eFile{file(3000, 0)},
			Wgets: []e2eFile{func() e2eFile { f := file(5000, 0); f.Variant = "cl"; return f }()}})
		runs = append(runs, e2eRun{Kind: "mixed", DevMTU: 512, OwnMTU: 4096, Downloads: []e2eFile{file(1014, 1014)}, Uploads: []e2eFile{file(1, 0), file(5000, 0)},
			Wgets: []e2eFile{func() e2eFile { f := file(1, 0); f.Variant = "stream"; return f }()}})
	} else {
		for _, m := range mtus {
			for _, ch := range chunks {
				room := dataRoom(m, ch)
				var fs []e2eFile
				for _, s := range around(room, 700) {
					fs = append(fs, file(s, ch))
				}
				if room >= 7 {
					fs = append(fs, file(70000, ch))
				}
				for _, om := range []uint16{m, mtus[c.Rng.Intn(len(mtus))]} {
					runs = append(runs, e2eRun{Kind: "download", DevMTU: m, OwnMTU: om, Downloads: fs, Timeout: 10 * time.Minute})
				}
			}
		}
		for _, m := range mtus {
			for _, dm := range mtus {
				var ups []e2eFile
				for _, s := range []int{1, 2, 1013, 1014, 1015, 2027, 2028, 2029, int(m) - 1, int(m), int(m) + 1, 3000, 70000} {
					ups = append(ups, file(s, 0))
				}
				runs = append(runs, e2eRun{Kind: "upload", DevMTU: dm, OwnMTU: m, Uploads: ups, Timeout: 10 * time.Minute})
			}
		}
		for _, m := range mtus {
			var ws []e2eFile
			for _, v := range []string{"cl", "stream", "redirect", "closedelim"} {
				for _, s := range []int{1, 1014, 1015, 70000, 300000} {
					f := file(s, 0)
					f.Variant = v
					ws = append(ws, f)
				}
			}
			runs = append(runs, e2eRun{Kind: "wget", DevMTU: m, OwnMTU: m, Wgets: ws, Timeout: 10 * time.Minute})
		}
		for i := 0; i < 10; i++ {
			m, om := mtus[c.Rng.Intn(len(mtus))], mtus[c.Rng.Intn(len(mtus))]
			w := file(1+c.Rng.Intn(9000), 0)
			w.Variant = []string{"cl", "stream"}[i%2]
			runs = append(runs, e2eRun{Kind: "mixed", DevMTU: m, OwnMTU: om, Downloads: []e2eFile{file(1+c.Rng.Intn(5000), chunks[c.Rng.Intn(len(chunks))]), file(1+c.Rng.Intn(5000), 0)},
				Uploads: []e2eFile{file(1+c.Rng.Intn(5000), 0), file(1+c.Rng.Intn(5000), 0)}, Wgets: []e2eFile{w}, Timeout: 10 * time.Minute})
		}
	}
	// the owner receive MTU from which fsim.Upload's fixed 1014-byte chunks get through (counted, not reported)
	for m := uint16(1016); m <= 1060; m += 4 {
		runs = append(runs, e2eRun{Kind: "upload", DevMTU: 1300, OwnMTU: m, Uploads: []e2eFile{file(1014, 0)}, MayReject: true, Timeout: 20 * time.Second})
	}
	// the HTTP transport's default message limit (65535 bytes) against the largest MTU (counted, not reported)
	for _, ch := range []int{65535, -1, 0} {
		room := dataRoom(65535, ch)
		runs = append(runs, e2eRun{Kind: "download-default-http-limit", DevMTU: 65535, OwnMTU: 1300, Downloads: []e2eFile{file(room-100, ch), file(room, ch)}, MayReject: true, DefaultHTTP: true,
			Timeout: 20 * time.Second})
	}
	// the smallest MTU the library works with (counted, not reported)
	for _, m := range []uint16{64, 128, 192} {
		runs = append(runs, e2eRun{Kind: "download", DevMTU: m, OwnMTU: m, Downloads: []e2eFile{file(300, 0)}, MayReject: true, Timeout: 20 * time.Second})
	}
	// alterations inside the tunnel
	tam := func(kind, what string, size int, variant string) e2eRun {
		f := file(size, 0)
		f.Tamper, f.Variant = what, variant
		r := e2eRun{Kind: kind, DevMTU: 1300, OwnMTU: 1300, Timeout: 20 * time.Second}
		switch kind {
		case "download":
			r.Downloads = []e2eFile{f}
		case "upload":
			r.Uploads = []e2eFile{f}
		case "wget":
			r.Wgets = []e2eFile{f}
		}
		return r
	}
	runs = append(runs, tam("download", "data", 3000, ""), tam("download", "data2", 3000, ""), tam("download", "sha", 3000, ""), tam("download", "len-down", 3000, ""),
		tam("upload", "data", 3000, ""), tam("upload", "sha", 3000, ""), tam("upload", "len-down", 3000, ""), tam("wget", "sha", 3000, "cl"))
	if !quick {
		runs = append(runs, tam("download", "data", 1, ""), tam("download", "sha", 1, ""), tam("upload", "data2", 70000, ""), tam("upload", "sha", 1, ""), tam("wget", "sha", 70000, "stream"))
	}
	lu := tam("download", "len-up", 3000, "")
	lu.Timeout = 4 * time.Second
	lu2 := tam("upload", "len-up", 3000, "")
	lu2.Timeout = 4 * time.Second
	runs = append(runs, lu, lu2)
	runs = append(runs, fsimMoreE2E(c, file)...)

	for _, r := range runs {
		runE2E(c, fx, r)
	}
	c.Note("part 2: %d onboardings in %.1fs", c.Rep.Evaluations-part1, time.Since(t1).Seconds())
	for _, mod := range []string{"download", "upload"} {
		if h := c.Rep.Hist["no_verdict:"+mod]; len(h) > 0 {
			var ks []string
			for k := range h {
				ks = append(ks, k)
			}
			sort.Strings(ks)
			c.Note("fdo.%s receiver: after these deviations the sender has nothing more to send and the receiver neither delivers nor reports (it waits; model and implementation agree): %s",
				mod, strings.Join(ks, " "))
		}
	}
	if h := c.Rep.Hist["e2e_mtu_rejected"]; len(h) > 0 {
		var ks []string
		for k := range h {
			ks = append(ks, k)
		}
		sort.Strings(ks)
		c.Note("configurations probed and refused (TO2 fails, nothing delivered): %s", strings.Join(ks, " ;; "))
	}
}
