package props

import (
	"bytes"
	"context"
	"crypto"
	"crypto/ed25519"
	"crypto/hmac"
	"crypto/rand"
	"crypto/sha256"
	"crypto/sha512"
	"crypto/x509"
	"crypto/x509/pkix"
	"fmt"
	"io"
	"net/http"
	"net/http/httptest"
	"strconv"
	"time"

	fdo "github.com/fido-device-onboard/go-fdo"
	"github.com/fido-device-onboard/go-fdo/cbor"
	"github.com/fido-device-onboard/go-fdo/custom"
	fdohttp "github.com/fido-device-onboard/go-fdo/http"
	"github.com/fido-device-onboard/go-fdo/kex"
	"github.com/fido-device-onboard/go-fdo/protocol"

	"verifharness/internal/core"
	"verifharness/internal/env"
)

// Keys a peer may present that are well-formed but outside what FDO uses: other curves, other RSA sizes, another
// algorithm. Wherever a key of the peer is parsed, sized or hashed, the receiving role must answer with an error.

type oddK struct {
	name string
	priv crypto.Signer
	typ  protocol.KeyType // the FDO key type a peer would claim for it
}

func oddKeys(c *core.Ctx) []oddK {
	mk := func(name string, typ protocol.KeyType) oddK { return oddK{name, oddKey(name), typ} }
	out := []oddK{mk("RSA1024", protocol.Rsa2048RestrKeyType), mk("RSA1024", protocol.RsaPkcsKeyType), mk("P-224", protocol.Secp256r1KeyType),
		mk("P-521", protocol.Secp384r1KeyType)}
	if !c.Quick() {
		out = append(out, mk("RSA4096", protocol.RsaPkcsKeyType), mk("RSA4096", protocol.RsaPssKeyType))
	}
	_, ed, _ := ed25519.GenerateKey(rand.Reader)
	out = append(out, oddK{"Ed25519", ed, protocol.Secp256r1KeyType})
	return out
}

func x509Key(typ protocol.KeyType, pub crypto.PublicKey) (protocol.PublicKey, bool) {
	der, err := x509.MarshalPKIXPublicKey(pub)
	if err != nil {
		return protocol.PublicKey{}, false
	}
	body, _ := cbor.Marshal(der)
	return protocol.PublicKey{Type: typ, Encoding: protocol.X509KeyEnc, Body: body}, true
}

// fakeMfg answers DI.AppStart with a voucher header carrying the given manufacturer key.
type fakeMfg struct{ ovh fdo.VoucherHeader }

func (m *fakeMfg) Send(_ context.Context, msgType uint8, _ any, _ kex.Session) (uint8, io.ReadCloser, error) {
	switch msgType {
	case 10:
		b, _ := cbor.Marshal(struct{ OVH cbor.Bstr[fdo.VoucherHeader] }{*cbor.NewBstr(m.ovh)})
		return 11, io.NopCloser(bytes.NewReader(b)), nil
	case 12:
		return 13, io.NopCloser(bytes.NewReader([]byte{0x80})), nil
	}
	return 255, io.NopCloser(bytes.NewReader(nil)), nil
}

func guarded(limit time.Duration, f func()) (panicked string, hung bool) {
	done := make(chan string, 1)
	go func() {
		defer func() {
			if r := recover(); r != nil {
				done <- fmt.Sprint(r)
				return
			}
			done <- ""
		}()
		f()
	}()
	select {
	case p := <-done:
		return p, false
	case <-time.After(limit):
		return "", true
	}
}

// RunOddKeys: DI client against a manufacturer key of an odd size / curve; DI server against a CSR with such a key;
// partial deployments (a handler that serves only some protocols) against every message type and every error message.
func RunOddKeys(c *core.Ctx) {
	odd := oddKeys(c)
	// ---- DI client ----
	devSpecs := []env.KeySpec{env.P256, env.P384, env.RSA2048}
	if !c.Quick() {
		devSpecs = env.AllKeys
	}
	for _, ds := range devSpecs {
		devKey := env.Key(ds, "dev0")
		csrDER, err := x509.CreateCertificateRequest(rand.Reader, &x509.CertificateRequest{Subject: pkix.Name{CommonName: "device"}}, devKey)
		if err != nil {
			continue
		}
		csr, _ := x509.ParseCertificateRequest(csrDER)
		for _, ok := range odd {
			pk, good := x509Key(ok.typ, ok.priv.Public())
			if !good {
				continue
			}
			secret := make([]byte, 32)
			tr := &fakeMfg{ovh: fdo.VoucherHeader{Version: 101, DeviceInfo: "verif", ManufacturerKey: pk}}
			var derr error
			p, hung := guarded(10*time.Second, func() {
				_, derr = fdo.DI(context.Background(), tr, custom.DeviceMfgInfo{KeyType: ds.Type, KeyEncoding: protocol.X509KeyEnc, SerialNumber: "1",
					DeviceInfo: "verif", CertInfo: cbor.X509CertificateRequest(*csr)},
					fdo.DIConfig{HmacSha256: hmac.New(sha256.New, secret), HmacSha384: hmac.New(sha512.New384, secret), Key: devKey, PSS: ds.Type == protocol.RsaPssKeyType})
			})
			c.Rep.Evaluations++
			params := core.Params{"side": "client", "role": "DI", "device": ds.Name, "mfgkey": ok.name, "claimed": fmt.Sprint(int(ok.typ))}
			outcome := "error"
			switch {
			case p != "":
				outcome = "panic"
				c.Fail("panic@client:DI:11:odd-manufacturer-key", fmt.Sprintf("fdo.DI with device key %s and a %s manufacturer key (claimed type %d): %s", ds.Name, ok.name, ok.typ, p), "fuzz.oddkey", params, core.Obs{Impl: "panic"})
			case hung:
				outcome = "hang"
				c.Fail("hang@client:DI:11:odd-manufacturer-key", fmt.Sprintf("fdo.DI with device key %s and a %s manufacturer key", ds.Name, ok.name), "fuzz.oddkey", params, core.Obs{Impl: "hang"})
			case derr == nil:
				outcome = "success"
			}
			c.Count("oddkey_di_client", fmt.Sprintf("%s<-%s:%s", ds.Name, ok.name, outcome))
		}
	}
	// ---- DI server: AppStart whose CSR carries an odd key; partial deployments ----
	srvSpecs := []env.KeySpec{env.P256, env.RSA2048}
	if !c.Quick() {
		srvSpecs = env.AllKeys
	}
	for _, spec := range srvSpecs {
		e, err := env.New(WorkDir(), spec)
		if err != nil {
			c.Note("oddkeys env %s: %v", spec.Name, err)
			continue
		}
		func() {
			defer e.Close()
			for _, ok := range odd {
				der, err := x509.CreateCertificateRequest(rand.Reader, &x509.CertificateRequest{Subject: pkix.Name{CommonName: "device"}}, ok.priv)
				if err != nil {
					continue
				}
				csr, _ := x509.ParseCertificateRequest(der)
				for _, claimed := range []protocol.KeyType{spec.Type, ok.typ} {
					info := custom.DeviceMfgInfo{KeyType: claimed, KeyEncoding: protocol.X509KeyEnc, SerialNumber: "odd", DeviceInfo: "verif", CertInfo: cbor.X509CertificateRequest(*csr)}
					body, _ := cbor.Marshal(struct {
						Info *cbor.Bstr[custom.DeviceMfgInfo]
					}{cbor.NewBstr(info)})
					hdr := http.Header{}
					hdr.Set("Content-Type", "application/cbor")
					var resp *http.Response
					p, hung := guarded(10*time.Second, func() { resp = e.RT.Do(10, body, hdr) })
					c.Rep.Evaluations++
					params := core.Params{"side": "server", "pos": "10", "deployment": spec.Name, "csrkey": ok.name, "claimed": fmt.Sprint(int(claimed))}
					outcome := "?"
					if resp != nil {
						outcome = resp.Header.Get("Message-Type")
						_ = resp.Body.Close()
					}
					if log := e.RT.Log; len(log) > 0 && log[len(log)-1].Panic != "" {
						p = log[len(log)-1].Panic
					}
					switch {
					case p != "":
						outcome = "panic"
						c.Fail("panic@server:10:odd-csr-key", fmt.Sprintf("DI.AppStart with a CSR for a %s key (claimed type %d) in a %s deployment: %s", ok.name, claimed, spec.Name, p), "fuzz.oddkey", params, core.Obs{Impl: "panic"})
					case hung:
						outcome = "hang"
						c.Fail("hang@server:10:odd-csr-key", fmt.Sprintf("DI.AppStart with a CSR for a %s key", ok.name), "fuzz.oddkey", params, core.Obs{Impl: "hang"})
					}
					c.Count("oddkey_di_server", fmt.Sprintf("%s<-%s:%s", spec.Name, ok.name, outcome))
				}
			}
			// partial deployments
			subsets := []struct {
				name string
				h    fdohttp.Handler
			}{
				{"to2-only", fdohttp.Handler{Tokens: e.DB, TO2Responder: e.TO2S}},
				{"rv-only", fdohttp.Handler{Tokens: e.DB, TO0Responder: e.TO0S, TO1Responder: e.TO1S}},
				{"di-only", fdohttp.Handler{Tokens: e.DB, DIResponder: e.DIS}},
				{"none", fdohttp.Handler{Tokens: e.DB}},
			}
			msgs := []int{10, 12, 20, 22, 30, 32, 60, 62, 64, 66, 68, 70}
			for _, sub := range subsets {
				send := func(msg int, body []byte, what string) {
					req := httptest.NewRequest(http.MethodPost, "/fdo/101/msg/"+strconv.Itoa(msg), bytes.NewReader(body))
					req.Header.Set("Content-Type", "application/cbor")
					rr := httptest.NewRecorder()
					h := sub.h
					p, hung := guarded(10*time.Second, func() { h.ServeHTTP(rr, req) })
					c.Rep.Evaluations++
					params := core.Params{"side": "server", "deployment": sub.name, "msg": fmt.Sprint(msg), "what": what}
					outcome := rr.Header().Get("Message-Type")
					switch {
					case p != "":
						outcome = "panic"
						c.Fail(fmt.Sprintf("panic@server:%d:partial-deployment", msg), fmt.Sprintf("%s handler, message %d (%s): %s", sub.name, msg, what, p), "fuzz.partial", params, core.Obs{Impl: "panic"})
					case hung:
						outcome = "hang"
						c.Fail(fmt.Sprintf("hang@server:%d:partial-deployment", msg), fmt.Sprintf("%s handler, message %d (%s)", sub.name, msg, what), "fuzz.partial", params, core.Obs{Impl: "hang"})
					}
					c.Count("partial_deployment", fmt.Sprintf("%s:%d:%s", sub.name, msg, outcome))
				}
				for _, m := range msgs {
					send(m, []byte{0x80}, "empty-array")
				}
				for _, prev := range []int{0, 10, 12, 20, 22, 30, 32, 60, 64, 70, 99, 255} {
					b, _ := cbor.Marshal(protocol.ErrorMessage{Code: 100, PrevMsgType: uint8(prev), ErrString: "x", Timestamp: 1})
					send(255, b, fmt.Sprintf("error-message prev=%d", prev))
				}
			}
		}()
	}
}
