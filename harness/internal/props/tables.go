package props

import (
	"fmt"

	"github.com/fido-device-onboard/go-fdo/cbor"
	"github.com/fido-device-onboard/go-fdo/protocol"
)

// TableConst is one regenerated Gallina definition.
type TableConst struct{ Name, Type, Value string }

// Catalogue exposes the reflected type catalogue to gentables.
func Catalogue() []CatEntry { return append([]CatEntry(nil), catalogue...) }

func nlist(xs ...uint64) string {
	s := "["
	for i, x := range xs {
		if i > 0 {
			s += "; "
		}
		s += fmt.Sprint(x)
	}
	return s + "]"
}

var tableHooks []func() []TableConst

// TableConstants lists constants and finite tables taken from the compiled packages.
func TableConstants() []TableConst {
	out := []TableConst{
		{"max_array_decode_length", "N", fmt.Sprint(cbor.MaxArrayDecodeLength)},
		{"max_decode_depth", "N", fmt.Sprint(cbor.MaxDecodeDepth)},
		{"rv_vars", "list N", nlist(uint64(protocol.RVDevOnly), uint64(protocol.RVOwnerOnly), uint64(protocol.RVIPAddress), uint64(protocol.RVDevPort),
			uint64(protocol.RVOwnerPort), uint64(protocol.RVDns), uint64(protocol.RVSvCertHash), uint64(protocol.RVClCertHash), uint64(protocol.RVUserInput),
			uint64(protocol.RVWifiSsid), uint64(protocol.RVWifiPw), uint64(protocol.RVMedium), uint64(protocol.RVProtocol), uint64(protocol.RVDelaysec),
			uint64(protocol.RVBypass), uint64(protocol.RVExtRV))},
		{"rv_protocols", "list N", nlist(uint64(protocol.RVProtRest), uint64(protocol.RVProtHTTP), uint64(protocol.RVProtHTTPS), uint64(protocol.RVProtTCP),
			uint64(protocol.RVProtTLS), uint64(protocol.RVProtCoapTCP), uint64(protocol.RVProtCoapUDP))},
		{"rv_media_all", "list N", nlist(uint64(protocol.RVMedEthAll), uint64(protocol.RVMedWifiAll))},
	}
	// protocol.Of for every message type: 1 DI, 2 TO0, 3 TO1, 4 TO2, 0 anything else
	rows := ""
	for t := 0; t < 256; t++ {
		code := 0
		switch protocol.Of(uint8(t)) {
		case protocol.DIProtocol:
			code = 1
		case protocol.TO0Protocol:
			code = 2
		case protocol.TO1Protocol:
			code = 3
		case protocol.TO2Protocol:
			code = 4
		}
		if code != 0 {
			if rows != "" {
				rows += "; "
			}
			rows += fmt.Sprintf("(%d, %d)", t, code)
		}
	}
	out = append(out, TableConst{"proto_of_table", "list (N * N)", "[" + rows + "]"})
	for _, h := range tableHooks {
		out = append(out, h()...)
	}
	return out
}
