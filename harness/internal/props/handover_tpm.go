package props

// C03 with a device whose HMAC lives in a TPM (tpm.NewHmac on the software TPM, see device_tpm.go): device initialization
// while exactly one TPM command of the run fails. Whatever fails, and however it fails, either fdo.DI reports an error or
// the voucher the manufacturer stored verifies under the TPM's undisturbed HMAC: a DI that "succeeds" with an HMAC computed
// over part of the header (or with no key, or an empty one) leaves a device that refuses every owner.
//
// Kind handover.tpmdi (monitor only: the secret never leaves the TPM).

import (
	"context"
	"crypto/rand"
	"crypto/x509"
	"crypto/x509/pkix"
	"encoding/binary"
	"fmt"
	"io"
	"log/slog"
	"strconv"
	"strings"
	"time"

	fdo "github.com/fido-device-onboard/go-fdo"
	"github.com/fido-device-onboard/go-fdo/cbor"
	"github.com/fido-device-onboard/go-fdo/custom"
	"github.com/fido-device-onboard/go-fdo/protocol"
	"github.com/google/go-tpm/tpm2/transport"

	"verifharness/internal/core"
	"verifharness/internal/env"
)

const hoTpmKind = "handover.tpmdi"

// hoTpmFaultRT makes the k-th command (counted from 0) of a run fail, once.
//
//	io:      the command does not reach the TPM, the transport reports an error
//	retry:   the command does not reach the TPM, the answer is a well-formed TPM_RC_RETRY (0x922)
//	yielded: the same with TPM_RC_YIELDED (0x908)
//	lost:    the TPM executes the command, the answer is lost (transport error)
//	short:   the TPM executes the command, the answer arrives without its last byte
type hoTpmFaultRT struct {
	t     transport.TPM
	k     int
	how   string
	n     int
	log   []uint32
	sizes []int  // length of each command as sent
	fired string // name of the command that failed
}

func (w *hoTpmFaultRT) Send(in []byte) ([]byte, error) {
	var cc uint32
	if len(in) >= 10 {
		cc = binary.BigEndian.Uint32(in[6:10])
	}
	i := w.n
	w.n++
	w.log = append(w.log, cc)
	w.sizes = append(w.sizes, len(in))
	if i != w.k {
		return w.t.Send(in)
	}
	w.fired = tpmCmdName(cc)
	switch w.how {
	case "retry":
		return []byte{0x80, 0x01, 0, 0, 0, 10, 0, 0, 0x09, 0x22}, nil
	case "yielded":
		return []byte{0x80, 0x01, 0, 0, 0, 10, 0, 0, 0x09, 0x08}, nil
	case "lost":
		_, _ = w.t.Send(in)
		return nil, errTpmIO
	case "short":
		out, err := w.t.Send(in)
		if err != nil || len(out) == 0 {
			return out, err
		}
		return out[:len(out)-1], nil
	}
	return nil, errTpmIO
}

type hoTpmRes struct {
	harness string
	newHmac string // tpm.NewHmac failed (no HMAC object: the device cannot even start)
	diErr   string
	done    bool   // fdo.DI returned a credential and no error
	stored  string // "" (DI failed and nothing was stored) | ok | absent | mismatch: <error> | stored-although-di-failed
	closeEr string
	log     []uint32
	sizes   []int
	fired   string
}

var lastHoTpm hoTpmRes

// hoTpmBigRv: rendezvous info with one value of several TPM input buffers (the encoder hands it to the hash in one Write, which
// tpm.hmac splits into several SequenceUpdate commands) among ordinary directives.
func hoTpmBigRv() [][]protocol.RvInstruction {
	var rv [][]protocol.RvInstruction
	for i := 0; i < 3; i++ {
		rv = append(rv, hoRv(fmt.Sprintf("rv%02d.manufacturer.example.test", i), 8000+i)...)
	}
	long := make([]byte, 2600)
	for i := range long {
		long[i] = byte(i*7 + i/256)
	}
	rv = append(rv, []protocol.RvInstruction{{Variable: protocol.RVUserInput, Value: hoCBOR(long)}, {Variable: protocol.RVDns, Value: hoCBOR("last.example.test")}})
	return rv
}

func (w *hoWorld) tpmDI(cf hoCfg, big bool, how string, k int) (res hoTpmRes) {
	if err := tpmOpen(); err != nil {
		res.harness = "tpm simulator: " + err.Error()
		return res
	}
	pr, err := w.pair(cf.Spec)
	if err != nil {
		res.harness = err.Error()
		return res
	}
	e := pr[0]
	ctx, cancel := context.WithTimeout(context.Background(), time.Minute)
	defer cancel()
	oldRv := e.RvInfo
	if big {
		e.RvInfo = hoTpmBigRv()
	}
	defer func() { e.RvInfo = oldRv }()
	e.RT.Hook, e.RT.RespHook = nil, nil
	ft := &hoTpmFaultRT{t: tpmSim, k: k, how: how}
	defer func() {
		res.log, res.sizes, res.fired = ft.log, ft.sizes, ft.fired
		tpmFlushAll(tpmSim) // a run whose release was hit by the fault leaks handles; the TPM has three slots
	}()
	h256, h384, err := tpmHmacs(ft)
	if err != nil {
		res.newHmac = err.Error()
		return res
	}
	w.mu.Lock()
	w.nDev++
	n := w.nDev
	w.mu.Unlock()
	key := env.Key(cf.Dev, fmt.Sprintf("dev%d", n%4))
	csrDER, err := x509.CreateCertificateRequest(rand.Reader, &x509.CertificateRequest{Subject: pkix.Name{CommonName: "device"}}, key)
	if err != nil {
		res.harness = err.Error()
		return res
	}
	csr, _ := x509.ParseCertificateRequest(csrDER)
	j0 := e.Journal.Len()
	cred, derr := fdo.DI(ctx, e.Transport(), custom.DeviceMfgInfo{KeyType: cf.Spec.Type, KeyEncoding: cf.Enc, SerialNumber: fmt.Sprint("c03-tpm-", n),
		DeviceInfo: "verif-tpm", CertInfo: cbor.X509CertificateRequest(*csr)},
		fdo.DIConfig{HmacSha256: h256, HmacSha384: h384, Key: key, PSS: cf.Dev.Type == protocol.RsaPssKeyType})
	var ces []string
	for _, h := range []io.Closer{h256, h384} {
		if err := h.Close(); err != nil {
			ces = append(ces, err.Error())
		}
	}
	res.closeEr = strings.Join(ces, "; ")
	stored := ""
	for _, f := range e.Journal.Since(j0) {
		if f.Kind == "di-voucher" {
			stored = f.GUID
		}
	}
	if derr != nil || cred == nil {
		if derr != nil {
			res.diErr = derr.Error()
		} else {
			res.diErr = "no error and no credential"
		}
		if stored != "" {
			res.stored = "stored-although-di-failed"
		}
		return res
	}
	res.done = true
	ov, err := e.DB.Voucher(ctx, cred.GUID)
	if err != nil {
		res.stored = "absent"
		return res
	}
	tpmFlushAll(tpmSim)
	c256, c384, err := tpmHmacs(tpmSim) // the TPM undisturbed: the same primary key, made anew from the same seed and template
	if err != nil {
		res.harness = "tpm.NewHmac on the undisturbed TPM: " + err.Error()
		return res
	}
	res.stored = "ok"
	if err := ov.VerifyHeader(c256, c384); err != nil {
		res.stored = "mismatch: " + err.Error()
	}
	_, _ = c256.Close(), c384.Close()
	return res
}

func (r hoTpmRes) text() string {
	switch {
	case r.harness != "":
		return "err-harness " + r.harness
	case r.newHmac != "":
		return "ok di=no-hmac"
	case !r.done:
		return "ok di=failed stored=" + firstWordOf(r.stored+" ")
	}
	return "ok di=done stored=" + firstWordOf(r.stored)
}

func registerHandoverTpmKind(c *core.Ctx) {
	c.Register(&core.Kind{Name: hoTpmKind, NoModel: true, Eval: func(p core.Params) (string, string) {
		line := fmt.Sprintf("%s %s enc:%s big:%s fault:%s k:%s", hoTpmKind, p["spec"], p["enc"], p["big"], p["how"], p["k"])
		if p["lineonly"] != "" {
			return line, ""
		}
		w, done := hoWorldFor()
		defer done()
		k := -1
		if p["how"] != "" {
			k = hoInt(p, "k")
		}
		lastHoTpm = w.tpmDI(hoCfgOf(p), p["big"] == "1", p["how"], k)
		return line, lastHoTpm.text()
	}})
}

// runC03TPM: DI of the TPM-backed device under every single TPM command failure.
func runC03TPM(c *core.Ctx) {
	t0 := time.Now()
	n0 := c.Rep.Evaluations
	old := slog.Default()
	slog.SetDefault(slog.New(slog.NewTextHandler(io.Discard, nil))) // tpm.hmac logs the buffer size it assumes, once per HMAC
	defer slog.SetDefault(old)
	if err := tpmOpen(); err != nil {
		c.Fail("harness:err-tpm-simulator", err.Error(), hoTpmKind, core.Params{}, core.Obs{})
		return
	}
	defer tpmClose()
	c.Rep.Rule += " TPM-backed device (kind " + hoTpmKind + ", monitor only): fdo.DI with tpm.NewHmac HMAC-SHA256/384 on the software TPM while exactly the k-th TPM command of the run " +
		"(StartAuthSession x2, CreatePrimary, HmacStart, GetCapability, SequenceUpdate.., SequenceComplete, FlushContext..; k over every command, headers of one and of several " +
		"input buffers) fails once as a transport error / TPM_RC_RETRY / TPM_RC_YIELDED (thorough also: answer lost, answer truncated; more key types and encodings): either DI " +
		"fails, or the voucher the manufacturer stored verifies under the undisturbed TPM."
	type tcfg struct {
		cf  hoCfg
		big bool
	}
	cfgs := []tcfg{
		{hoCfg{Spec: env.P256, Dev: env.P256, Enc: protocol.X509KeyEnc}, false},
		{hoCfg{Spec: env.P384, Dev: env.P384, Enc: protocol.CoseKeyEnc}, true},
	}
	hows := []string{"io", "retry", "yielded"}
	if !c.Quick() {
		cfgs = append(cfgs,
			tcfg{hoCfg{Spec: env.P256, Dev: env.P256, Enc: protocol.X5ChainKeyEnc}, true},
			tcfg{hoCfg{Spec: env.P384, Dev: env.P384, Enc: protocol.X509KeyEnc}, false},
			tcfg{hoCfg{Spec: env.RSA2048, Dev: env.RSA2048, Enc: protocol.X5ChainKeyEnc}, false},
			tcfg{hoCfg{Spec: env.RSAPKCS, Dev: env.RSAPKCS, Enc: protocol.X509KeyEnc}, true})
		hows = append(hows, "lost", "short")
	}
	for _, tc := range cfgs {
		base := hoWith(tc.cf.params(), "big", hoBool(tc.big))
		try := func(how string, k int) (core.Obs, hoTpmRes) {
			p := hoWith(base, "how", how, "k", strconv.Itoa(k))
			meta := "tpm-di:nofault"
			if how != "" {
				meta = "tpm-di:" + how
			}
			lastHoTpm = hoTpmRes{}
			o := c.Do(hoTpmKind, p, meta)
			r := lastHoTpm
			fault := "nofault"
			if how != "" {
				fault = how + "@" + r.fired
				if r.fired == "" {
					fault = how + "@not-reached"
				}
			}
			c.Count("tpm_di", fault+" -> "+strings.TrimPrefix(o.Impl, "ok "))
			if r.closeEr != "" {
				c.Count("tpm_di_close_error", fault)
			}
			switch {
			case strings.HasPrefix(o.Impl, "panic"):
				c.Fail("panic@fdo.DI:tpm:"+fault, core.PanicText, hoTpmKind, p, o)
			case o.Timeout:
				c.Fail("hang@fdo.DI:tpm:"+fault, "", hoTpmKind, p, o)
			case r.harness != "" || strings.HasPrefix(o.Impl, "err"):
				c.Fail("harness:tpm-di", fmt.Sprintf("%s big=%v %s k=%d: %s", tc.cf.Spec.Name, tc.big, how, k, o.Impl), hoTpmKind, p, o)
			case how == "" && (!r.done || r.stored != "ok"):
				c.Fail("harness:tpm-di", fmt.Sprintf("%s big=%v: DI with the TPM's HMAC and no fault: %s %s %s", tc.cf.Spec.Name, tc.big, o.Impl, r.diErr, r.stored), hoTpmKind, p, o)
			case r.done && r.stored != "ok":
				c.Fail("stored-voucher-hmac-mismatch:tpm:"+fault, fmt.Sprintf("%s/enc%d: TPM command #%d of the device's DI run (%s) failed once (%s); fdo.DI returned a credential and no error, and the voucher the manufacturer "+
					"stored does not verify under the same TPM's HMAC: %s", tc.cf.Spec.Name, tc.cf.Enc, k, r.fired, how, r.stored), hoTpmKind, p, o)
			case !r.done && r.stored != "":
				c.Fail("credential-returned-after-cut:tpm:"+fault, fmt.Sprintf("%s: fdo.DI failed (%s) but the manufacturer stored a voucher", tc.cf.Spec.Name, r.diErr), hoTpmKind, p, o)
			case r.done && r.fired != "" && cmdOfHmac(r.fired+"/"):
				c.Count("tpm_di_completed_despite_failed_command", fault) // stored voucher verifies: the command's failure was made up for
			}
			return o, r
		}
		_, h := try("", -1)
		if !h.done || h.stored != "ok" {
			continue
		}
		nCmd := len(h.log)
		var names []string
		for i := 0; i < nCmd; {
			j := i
			for j < nCmd && h.log[j] == h.log[i] {
				j++
			}
			names = append(names, fmt.Sprintf("%s x%d", tpmCmdName(h.log[i]), j-i))
			i = j
		}
		full := 0
		for _, sz := range h.sizes {
			if sz > 500 {
				full++
			}
		}
		c.Note("tpm DI %s enc %d big=%v: %d TPM commands per run: %s; %d of them longer than 500 bytes (a Write split over several SequenceUpdates)", tc.cf.Spec.Name, tc.cf.Enc, tc.big, nCmd, strings.Join(names, ", "), full)
		// the positions k: every command of the run; quick (and, in thorough, runs of several hundred commands): of each stretch of
		// equal commands (the SequenceUpdates, one per Write of the CBOR encoder) the first two, the last two, the full-buffer ones and a few in between; quick tier: every k for runs of up to 60 commands
		var ks []int
		for i := 0; i < nCmd; {
			j := i
			for j < nCmd && h.log[j] == h.log[i] {
				j++
			}
			sample := (c.Quick() && nCmd > 60) || j-i > 120
			for k := i; k < j; k++ {
				// (a command of several hundred bytes is a SequenceUpdate with a full input buffer: one Write that tpm.hmac split;
				// those, and the remainder that follows them, are always taken)
				if !sample || k < i+2 || k >= j-2 || h.sizes[k] > 500 || h.sizes[k-1] > 500 {
					ks = append(ks, k)
				}
			}
			if sample && j-i > 4 {
				m := 4
				if !c.Quick() {
					m = 40
				}
				for x := 0; x < m; x++ {
					ks = append(ks, i+2+c.Rng.Intn(j-i-4))
				}
			}
			i = j
		}
		for _, k := range ks {
			for _, how := range hows {
				try(how, k)
			}
		}
	}
	c.Note("tpm DI: %d cases in %.1f s", c.Rep.Evaluations-n0, time.Since(t0).Seconds())
}
