package props

import (
	"bytes"
	"crypto"
	"crypto/rand"
	"crypto/rsa"
	"encoding"
	"encoding/hex"
	"fmt"
	"math/big"
	"regexp"
	"strconv"
	"strings"

	"github.com/fido-device-onboard/go-fdo/kex"

	"verifharness/internal/core"
)

func init() {
	extraOracles["modexp"] = func(a []string) string {
		if len(a) < 3 {
			return "0"
		}
		b, _ := new(big.Int).SetString(a[0], 16)
		e, _ := new(big.Int).SetString(a[1], 16)
		m, _ := new(big.Int).SetString(a[2], 16)
		if b == nil || e == nil || m == nil || m.Sign() == 0 {
			return "0"
		}
		return new(big.Int).Exp(b, e, m).Text(16)
	}
}

type sessKeys interface{ keys() ([]byte, []byte) }

func keysOf(s kex.Session) (sek, svk []byte) {
	switch x := s.(type) {
	case *kex.DHSession:
		return x.SEK, x.SVK
	case *kex.ECDHSession:
		return x.SEK, x.SVK
	case *kex.OAEPSession:
		return x.SEK, x.SVK
	}
	return nil, nil
}

var rePrime = regexp.MustCompile(`p\s+([0-9a-f]+)`)

func dhPrime(suite string) string {
	s := kex.Suite(suite).New(nil, kex.A128GcmCipher)
	m := rePrime.FindStringSubmatch(fmt.Sprint(s))
	if m == nil {
		return ""
	}
	return m[1]
}

func cipherSizes(id kex.CipherSuiteID) (ss, vs, h int) {
	c := id.Suite()
	ss = int(c.EncryptAlg.KeySize())
	if c.MacAlg != 0 {
		vs = int(c.MacAlg.KeySize())
	}
	h = 256
	if c.PRFHash == crypto.SHA384 {
		h = 384
	}
	return
}

var (
	persistFlip  bool
	persistSuite string // suite name of the sessions being restored (set by the callers that know it)
)

// persistRoundTrip serialises a session and restores it into a fresh object of the same type.
func persistRoundTrip(s kex.Session) (kex.Session, error) {
	m, ok := s.(encoding.BinaryMarshaler)
	if !ok {
		return nil, fmt.Errorf("not marshalable")
	}
	data, err := m.MarshalBinary()
	if err != nil {
		return nil, err
	}
	var fresh kex.Session
	switch s.(type) {
	case *kex.DHSession:
		fresh = new(kex.DHSession)
	case *kex.ECDHSession:
		fresh = new(kex.ECDHSession)
	case *kex.OAEPSession:
		fresh = new(kex.OAEPSession)
	}
	// the SQLite store restores into an object it creates with a FIXED cipher (kex.Suite(name).New(nil, 1)): the restored
	// session must not keep anything of the receiving object. Alternate between the two ways of making the receiver.
	persistFlip = !persistFlip
	if persistFlip && persistSuite != "" {
		if alt := kex.Suite(persistSuite).New(nil, kex.A128GcmCipher); alt != nil {
			fresh = alt
		}
	}
	if err := fresh.(encoding.BinaryUnmarshaler).UnmarshalBinary(data); err != nil {
		return nil, err
	}
	return fresh, nil
}

func registerKexKinds(c *core.Ctx) {
	c.Register(&core.Kind{Name: "kex.kdf", Eval: func(p core.Params) (string, string) {
		bits, _ := strconv.Atoi(p["bits"])
		line := fmt.Sprintf("kex.kdf n:%s b:%s b:%s n:%x", map[string]string{"256": "100", "384": "180"}[p["h"]], p["kin"], p["ctx"], bits)
		if p["lineonly"] != "" {
			return line, ""
		}
		kin, _ := hex.DecodeString(p["kin"])
		ctx, _ := hex.DecodeString(p["ctx"])
		h := crypto.SHA256
		if p["h"] == "384" {
			h = crypto.SHA384
		}
		return line, "ok b:" + hex.EncodeToString(kex.VerifKDF(h, kin, ctx, uint16(bits)))
	}})
	c.Register(&core.Kind{Name: "kex.dh", Eval: func(p core.Params) (string, string) {
		cid, _ := strconv.ParseInt(p["cipher"], 10, 64)
		cipher := kex.CipherSuiteID(cid)
		ss, vs, h := cipherSizes(cipher)
		prime := dhPrime(p["suite"])
		opt := func(k string) string {
			if p[k+"given"] != "" {
				return "b:" + p[k]
			}
			return "none"
		}
		again := "once"
		if p["again"] != "" {
			again = "again"
		}
		line := fmt.Sprintf("kex.dh n:2 n:%s n:%x b:%s b:%s n:%x n:%x n:%x %s %s %s", prime, len(prime)/2, p["ta"], p["tb"], ss, vs, h, opt("xa"), opt("xb"), again)
		if p["lineonly"] != "" {
			return line, ""
		}
		ta, _ := hex.DecodeString(p["ta"])
		tb, _ := hex.DecodeString(p["tb"])
		owner := kex.Suite(p["suite"]).New(nil, cipher)
		xA, err := owner.Parameter(&fixedReader{b: ta}, nil)
		if err != nil {
			return line, "owner-param-failed"
		}
		if p["xagiven"] != "" {
			xA, _ = hex.DecodeString(p["xa"])
			if xA == nil {
				xA = []byte{}
			}
		}
		var sb strings.Builder
		fmt.Fprintf(&sb, "xA b:%x dev ", xA)
		dev := kex.Suite(p["suite"]).New(xA, cipher)
		xB, err := dev.Parameter(&fixedReader{b: tb}, nil)
		if err != nil {
			sb.WriteString("err")
			xB = []byte{}
		} else {
			sek, svk := keysOf(dev)
			fmt.Fprintf(&sb, "ok b:%x b:%x b:%x", xB, sek, svk)
		}
		if p["xbgiven"] != "" {
			xB, _ = hex.DecodeString(p["xb"])
		}
		if p["persist"] != "" { // crash point: the owner session is stored and restored between the two steps
			if owner, err = persistRoundTrip(owner); err != nil {
				return line, "persist-failed " + err.Error()
			}
		}
		sb.WriteString(" own ")
		if err := owner.SetParameter(xB, nil); err != nil {
			sb.WriteString("err")
		} else {
			sek, svk := keysOf(owner)
			fmt.Fprintf(&sb, "ok b:%x b:%x", sek, svk)
		}
		if p["again"] != "" {
			sb.WriteString(" again ")
			if err := owner.SetParameter(xB, nil); err != nil {
				sb.WriteString("err")
			} else {
				sek, svk := keysOf(owner)
				fmt.Fprintf(&sb, "ok b:%x b:%x", sek, svk)
			}
		}
		return line, sb.String()
	}})
	c.Register(&core.Kind{Name: "kex.ecdhparam", Eval: func(p core.Params) (string, string) {
		line := "kex.ecdhparam b:" + p["b"]
		if p["lineonly"] != "" {
			return line, ""
		}
		b, _ := hex.DecodeString(p["b"])
		pub, rnd, re, err := kex.VerifECDHParam(b)
		if err != nil {
			return line, "err"
		}
		return line, fmt.Sprintf("ok b:%x b:%x b:%x", pub, rnd, re)
	}})
}

// RunC14: key exchange yields equal, fresh, correctly derived keys; survives persistence.
func RunC14(c *core.Ctx) {
	registerKexKinds(c)
	c.Rep.Rule = "cases = (a) KDF for both PRFs over every output length 8..1024 bits (thorough: ..8200 incl. the 'n too large' edge), several secrets/contexts; " +
		"(b) DH group 14/15 sessions x 7 ciphers through the public Session API with pinned randomness incl. leading-zero and tiny exponents, with the owner " +
		"session serialised/restored between the steps, peer values in {0,1,p-1,p,p+1,empty}, replayed SetParameter; (c) ECDH parameter codec over " +
		"well-formed, truncated and oversized encodings; model (extracted, HMAC and big.Int.Exp via stdlib oracle) vs implementation; " +
		"(d) implementation-only: ECDH256/384 and ASYMKEX2048/3072 sessions x 7 ciphers: both sides derive equal keys of the cipher's sizes, independent sessions " +
		"differ, persistence at each step does not change the outcome. non-trivial = derivation succeeded; distinct = distinct case line"
	c.Trivial = func(o core.Obs) bool { return !strings.Contains(o.Impl, "ok") }
	rnd := func(n int) []byte { b := make([]byte, n); c.Rng.Read(b); return b }
	// (a) KDF
	maxBits := 1024
	if !c.Quick() {
		maxBits = 8200
	}
	for _, h := range []string{"256", "384"} {
		for bits := 8; bits <= maxBits; bits += 8 {
			if bits > 1100 && bits%264 != 0 && bits < 8100 {
				continue
			}
			for _, ctxLen := range []int{0, 32} {
				p := core.Params{"h": h, "kin": hex.EncodeToString(rnd(1 + c.Rng.Intn(300))), "ctx": hex.EncodeToString(rnd(ctxLen)), "bits": fmt.Sprint(bits)}
				o := c.Do("kex.kdf", p, "kdf")
				if strings.HasPrefix(o.Impl, "ok b:") && (len(o.Impl)-5)/2 != bits/8 {
					c.Fail("kdf-length", fmt.Sprintf("asked for %d bits, got %d bytes", bits, (len(o.Impl)-5)/2), "kex.kdf", p, o)
				}
			}
		}
	}
	// (b) DH
	ciphers := allSuites()
	for _, suite := range []string{"DHKEXid14", "DHKEXid15"} {
		psize := map[string]int{"DHKEXid14": 32, "DHKEXid15": 96}[suite]
		prime, _ := new(big.Int).SetString(dhPrime(suite), 16)
		for cidx, ci := range ciphers {
			if c.Quick() && suite == "DHKEXid15" && cidx != 0 && cidx != 6 {
				continue
			}
			tapes := [][2][]byte{{rnd(psize), rnd(psize)}, {append(make([]byte, 5), rnd(psize-5)...), rnd(psize)}, {rnd(psize), append(make([]byte, psize-1), 3)},
				{make([]byte, psize), rnd(psize)}, {rnd(psize), append(make([]byte, psize-1), 1)}}
			if cidx == 0 || cidx == 6 {
				// exponents whose shared secret g^(ab) mod p starts with a zero byte (1 draw in 256): the KDF takes the
				// secret at the modulus' full length, leading zeros included
				ta := rnd(psize)
				gA := new(big.Int).Exp(big.NewInt(2), new(big.Int).SetBytes(ta), prime)
				for tries := 0; tries < 4000; tries++ {
					tb := rnd(psize)
					sh := new(big.Int).Exp(gA, new(big.Int).SetBytes(tb), prime)
					if len(sh.Bytes()) < (prime.BitLen()+7)/8 {
						tapes = append(tapes, [2][]byte{ta, tb})
						c.Count("dh_leading_zero_secret", suite)
						break
					}
				}
			}
			for ti, t := range tapes {
				if c.Quick() && ti > 2 && ti < 5 && cidx > 1 {
					continue
				}
				base := core.Params{"suite": suite, "cipher": fmt.Sprint(int64(ci.id)), "ta": hex.EncodeToString(t[0]), "tb": hex.EncodeToString(t[1])}
				o := c.Do("kex.dh", base, "dh-honest")
				// monitor: equal keys of the right size; persistence changes nothing
				if m := regexp.MustCompile(`dev ok b:\w* b:(\w*) b:(\w*) own ok b:(\w*) b:(\w*)`).FindStringSubmatch(o.Impl); m != nil {
					if m[1] != m[3] || m[2] != m[4] {
						c.Fail("dh-keys-differ:"+suite, "device and owner derived different keys", "kex.dh", base, o)
					}
					if len(m[1])/2 != ci.kSEK || len(m[2])/2 != ci.kSVK {
						c.Fail("dh-key-length:"+suite, "derived key sizes do not match the cipher", "kex.dh", base, o)
					}
				} else if ti < 2 {
					c.Fail("dh-honest-failed:"+suite, "an honest exchange failed: "+o.Impl, "kex.dh", base, o)
				}
				pp := core.Params{}
				for k, v := range base {
					pp[k] = v
				}
				pp["persist"] = "1"
				if op := core.EvalImpl(c.KindByName("kex.dh"), pp); op.Impl != o.Impl {
					c.Fail("dh-persist-changes-outcome:"+suite, "restoring the owner session between the steps changed the result: "+op.Impl, "kex.dh", pp, o)
				}
				if ti == 0 {
					ag := core.Params{"again": "1"}
					for k, v := range base {
						ag[k] = v
					}
					oa := c.Do("kex.dh", ag, "dh-replayed-setparameter")
					if strings.HasPrefix(oa.Impl, "panic") {
						c.Fail("panic@kex.DHSession.SetParameter", core.PanicText, "kex.dh", ag, oa)
					} else if strings.Contains(oa.Impl, "again ok") {
						c.Fail("dh-second-setparameter-accepted", "a replayed parameter produced keys again", "kex.dh", ag, oa)
					}
					for _, d := range []*big.Int{big.NewInt(0), big.NewInt(1), new(big.Int).Sub(prime, big.NewInt(1)), prime, new(big.Int).Add(prime, big.NewInt(1))} {
						for _, side := range []string{"xa", "xb"} {
							dp := core.Params{side: hex.EncodeToString(d.Bytes()), side + "given": "1"}
							for k, v := range base {
								dp[k] = v
							}
							od := c.Do("kex.dh", dp, "dh-degenerate")
							want := map[string]string{"xa": "dev err", "xb": "own err"}[side]
							if strings.HasPrefix(od.Impl, "panic") {
								c.Fail("panic@kex.dhSymmetricKey", core.PanicText, "kex.dh", dp, od)
							} else if !strings.Contains(od.Impl, want) {
								c.Fail("dh-degenerate-accepted:"+side, "a degenerate public value produced a key", "kex.dh", dp, od)
							}
						}
					}
				}
			}
		}
	}
	// (c) ECDH parameter codec
	var good [][]byte
	for _, n := range []int{32, 48} {
		x, y, r := rnd(n), rnd(n), rnd(n/2)
		x[0], y[0] = 0, 0 // leading zero coordinate bytes
		b := append([]byte{0, byte(n)}, x...)
		b = append(append(b, 0, byte(n)), y...)
		b = append(append(b, 0, byte(len(r))), r...)
		good = append(good, b)
		// minimal-length coordinates: leading zero bytes stripped (the length-prefixed format permits it)
		for _, strip := range [][2]int{{1, 0}, {0, 1}, {1, 1}, {2, 0}} {
			xs, ys := append([]byte{}, x...), append([]byte{}, y...)
			xs[1], ys[1] = 0, 0
			xs, ys = xs[strip[0]:], ys[strip[1]:]
			s := append([]byte{0, byte(len(xs))}, xs...)
			s = append(append(s, 0, byte(len(ys))), ys...)
			s = append(append(s, 0, byte(len(r))), r...)
			good = append(good, s)
		}
	}
	for _, g := range good {
		c.Do("kex.ecdhparam", core.Params{"b": hex.EncodeToString(g)}, "ecdhparam-valid")
		for i := 0; i <= len(g); i += 1 + len(g)/40 {
			o := c.Do("kex.ecdhparam", core.Params{"b": hex.EncodeToString(g[:i])}, "ecdhparam-truncated")
			if strings.HasPrefix(o.Impl, "panic") {
				c.Fail("panic@kex.ecdhParam.UnmarshalBinary", core.PanicText, "kex.ecdhparam", core.Params{"b": hex.EncodeToString(g[:i])}, o)
			}
		}
		for i := 0; i < 60; i++ {
			m := mutate(c.Rng, g)
			o := c.Do("kex.ecdhparam", core.Params{"b": hex.EncodeToString(m)}, "ecdhparam-mutated")
			if strings.HasPrefix(o.Impl, "panic") {
				c.Fail("panic@kex.ecdhParam.UnmarshalBinary", core.PanicText, "kex.ecdhparam", core.Params{"b": hex.EncodeToString(m)}, o)
			}
		}
	}
	// (d) implementation-only: ECDH and OAEP sessions
	rsaKeys := map[string]*rsa.PrivateKey{}
	for _, k := range testKeys() {
		if r, ok := k.Signer.(*rsa.PrivateKey); ok {
			rsaKeys[fmt.Sprint(r.N.BitLen())] = r
		}
	}
	type scen struct {
		suite string
		rsa   *rsa.PrivateKey
	}
	scens := []scen{{"ECDH256", nil}, {"ECDH384", nil}, {"ASYMKEX2048", rsaKeys["2048"]}, {"ASYMKEX3072", rsaKeys["3072"]}}
	seen := map[string]string{}
	for _, sc := range scens {
		for _, ci := range ciphers {
			for persist := 0; persist < 3; persist++ {
				id := fmt.Sprintf("%s/%s/persist%d", sc.suite, ci.id, persist)
				res := func() (res string) {
					defer func() {
						if r := recover(); r != nil {
							res = fmt.Sprint("panic ", r)
						}
					}()
					var pub *rsa.PublicKey
					if sc.rsa != nil {
						pub = &sc.rsa.PublicKey
					}
					persistSuite = sc.suite
					defer func() { persistSuite = "" }()
					owner := kex.Suite(sc.suite).New(nil, ci.id)
					xA, err := owner.Parameter(rand.Reader, pub)
					if err != nil {
						return "owner-param-err " + err.Error()
					}
					if persist == 1 {
						if owner, err = persistRoundTrip(owner); err != nil {
							return "persist-err " + err.Error()
						}
					}
					dev := kex.Suite(sc.suite).New(xA, ci.id)
					xB, err := dev.Parameter(rand.Reader, pub)
					if err != nil {
						return "dev-param-err " + err.Error()
					}
					if err := owner.SetParameter(xB, sc.rsa); err != nil {
						return "owner-set-err " + err.Error()
					}
					if persist == 2 {
						if owner, err = persistRoundTrip(owner); err != nil {
							return "persist-err " + err.Error()
						}
					}
					ds, dv := keysOf(dev)
					os, ov := keysOf(owner)
					if !bytes.Equal(ds, os) || !bytes.Equal(dv, ov) {
						return "keys-differ"
					}
					if len(ds) != ci.kSEK || len(dv) != ci.kSVK {
						return fmt.Sprintf("key-length %d/%d", len(ds), len(dv))
					}
					return "ok " + hex.EncodeToString(ds)
				}()
				c.Rep.Evaluations++
				c.Count("impl_sessions", strings.Fields(res)[0])
				if !strings.HasPrefix(res, "ok ") {
					c.Fail("session-failed:"+sc.suite+":"+strings.Fields(res)[0], id+": "+res, "kex.session", core.Params{"id": id}, core.Obs{Impl: res})
				} else if prev, dup := seen[res]; dup {
					c.Fail("sessions-share-keys", id+" derived the same SEK as "+prev, "kex.session", core.Params{"id": id}, core.Obs{Impl: res})
				} else {
					seen[res] = id
				}
			}
		}
	}
}
