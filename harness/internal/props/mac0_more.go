package props

import (
	"bytes"
	"crypto/hmac"
	"crypto/rand"
	"crypto/rsa"
	"crypto/sha256"
	"crypto/sha512"
	"encoding/hex"
	"fmt"
	"hash"
	"strings"

	"github.com/fido-device-onboard/go-fdo/cbor"
	"github.com/fido-device-onboard/go-fdo/kex"

	"verifharness/internal/core"
)

// COSE_Mac0 verification (C13 / C05). The only place the library VERIFIES a Mac0 is kex.SessionCrypter.Decrypt of the
// four encrypt-then-MAC cipher suites. Two real sessions (owner and device, keys from a real key exchange) exchange a
// genuine tunnel message in each direction; the receiver is then offered the same message with its Mac0 tag item
// replaced at the BYTE level (nothing of the library's encoder is involved in building the forgeries): every bit
// flipped, every truncation, extensions, tags computed under other keys / over other data, and items that are not a
// byte string at all — each with the ciphertext untouched and with the ciphertext altered. The receiver must refuse.
//
// The monitor runs the receiving session object itself and judges the outcome (independent of the model); the same
// bytes then go through the kind kex.decrypt so that the extracted crypter_decrypt and the library are compared too.
// Every message handed to the library is a freshly allocated slice, and after every forgery the genuine message is
// presented again (a refusal must not depend on what was seen before, nor an acceptance).

var m0xSuites = []kex.CipherSuiteID{kex.CoseAes128CbcCipher, kex.CoseAes128CtrCipher, kex.CoseAes256CbcCipher, kex.CoseAes256CtrCipher}

func m0xHead(b []byte) (mt byte, arg uint64, hl int, ok bool) {
	if len(b) == 0 {
		return
	}
	mt = b[0] >> 5
	ai := b[0] & 31
	switch {
	case ai < 24:
		return mt, uint64(ai), 1, true
	case ai <= 27:
		n := 1 << (ai - 24)
		if len(b) < 1+n {
			return
		}
		for i := 0; i < n; i++ {
			arg = arg<<8 | uint64(b[1+i])
		}
		return mt, arg, 1 + n, true
	}
	return
}

// m0xItemLen: total length of the definite-length CBOR item at the start of b.
func m0xItemLen(b []byte) (int, bool) {
	mt, arg, hl, ok := m0xHead(b)
	if !ok {
		return 0, false
	}
	switch mt {
	case 2, 3:
		if uint64(len(b)-hl) < arg {
			return 0, false
		}
		return hl + int(arg), true
	case 4, 5:
		n := arg
		if mt == 5 {
			n *= 2
		}
		off := hl
		for i := uint64(0); i < n; i++ {
			l, ok := m0xItemLen(b[off:])
			if !ok {
				return 0, false
			}
			off += l
		}
		return off, true
	case 6:
		l, ok := m0xItemLen(b[hl:])
		return hl + l, ok
	}
	return hl, true
}

// m0xMsg: where the parts of a genuine tag(17)[bstr protected, {unprotected}, bstr payload, bstr tag] message are.
type m0xMsg struct {
	wire           []byte
	arrOff         int // offset of the array(4) head
	protOff, protN int // content of the protected bucket
	payOff, payN   int // content of the payload byte string (the encoded COSE_Encrypt0)
	tagHead        int // offset of the head of the tag item (it is the last item of the message)
	tagOff, tagN   int
	ctOff, ctN     int // ciphertext (last item of the COSE_Encrypt0), absolute offsets
	ivOff, ivN     int // IV (unprotected header 5 of the COSE_Encrypt0)
}

func m0xParse(wire []byte) (*m0xMsg, error) {
	m := &m0xMsg{wire: wire}
	mt, arg, hl, ok := m0xHead(wire)
	if !ok || mt != 6 || arg != 17 {
		return nil, fmt.Errorf("not a tag 17")
	}
	off := hl
	m.arrOff = off
	mt, arg, hl, ok = m0xHead(wire[off:])
	if !ok || mt != 4 || arg != 4 {
		return nil, fmt.Errorf("not an array of 4")
	}
	off += hl
	bstr := func() (int, int, error) {
		mt, arg, hl, ok := m0xHead(wire[off:])
		if !ok || mt != 2 || uint64(len(wire)-off-hl) < arg {
			return 0, 0, fmt.Errorf("byte string expected at %d", off)
		}
		o, n := off+hl, int(arg)
		off = o + n
		return o, n, nil
	}
	var err error
	if m.protOff, m.protN, err = bstr(); err != nil {
		return nil, err
	}
	l, ok := m0xItemLen(wire[off:])
	if !ok {
		return nil, fmt.Errorf("unprotected header")
	}
	off += l
	if m.payOff, m.payN, err = bstr(); err != nil {
		return nil, err
	}
	m.tagHead = off
	if m.tagOff, m.tagN, err = bstr(); err != nil {
		return nil, err
	}
	if off != len(wire) {
		return nil, fmt.Errorf("trailing bytes")
	}
	// the COSE_Encrypt0 inside the payload
	pay := wire[m.payOff : m.payOff+m.payN]
	mt, arg, hl, ok = m0xHead(pay)
	if !ok || mt != 4 || arg != 3 {
		return nil, fmt.Errorf("payload is not an array of 3")
	}
	po := hl
	if l, ok = m0xItemLen(pay[po:]); !ok {
		return nil, fmt.Errorf("encrypt0 protected")
	}
	po += l
	// unprotected map: look for 5 => bstr
	mt, arg, hl, ok = m0xHead(pay[po:])
	if !ok || mt != 5 {
		return nil, fmt.Errorf("encrypt0 unprotected")
	}
	mo := po + hl
	for i := uint64(0); i < arg; i++ {
		kl, ok1 := m0xItemLen(pay[mo:])
		if !ok1 {
			return nil, fmt.Errorf("encrypt0 unprotected key")
		}
		isIV := kl == 1 && pay[mo] == 0x05
		mo += kl
		vmt, varg, vhl, ok2 := m0xHead(pay[mo:])
		vl, ok3 := m0xItemLen(pay[mo:])
		if !ok2 || !ok3 {
			return nil, fmt.Errorf("encrypt0 unprotected value")
		}
		if isIV && vmt == 2 {
			m.ivOff, m.ivN = m.payOff+mo+vhl, int(varg)
		}
		mo += vl
	}
	po = mo
	mt, arg, hl, ok = m0xHead(pay[po:])
	if !ok || mt != 2 || po+hl+int(arg) != len(pay) || arg == 0 {
		return nil, fmt.Errorf("ciphertext is not the last item of the payload")
	}
	m.ctOff, m.ctN = m.payOff+po+hl, int(arg)
	if m.ivN == 0 {
		return nil, fmt.Errorf("no IV")
	}
	return m, nil
}

// m0xMac: HMAC over the MAC_structure ["MAC0", bstr protected, bstr external_aad, bstr payload] (RFC 9052, 6.3), built by hand.
func m0xMac(nh func() hash.Hash, key []byte, context string, protected, aad, payload []byte) []byte {
	var s []byte
	s = append(s, 0x84)
	s = append(append(s, head(3, uint64(len(context)))...), context...)
	s = append(append(s, head(2, uint64(len(protected)))...), protected...)
	s = append(append(s, head(2, uint64(len(aad)))...), aad...)
	s = append(append(s, head(2, uint64(len(payload)))...), payload...)
	h := hmac.New(nh, key)
	h.Write(s)
	return h.Sum(nil)
}

type m0xVariant struct {
	what string
	item []byte // encoding of the fourth array element; nil = the element is absent and the array has three elements
	same bool   // carries the genuine tag bytes in another encoding: accepting it with the identical plaintext is no forgery
	info string
}

func m0xBstr(b []byte) []byte { return append(head(2, uint64(len(b))), b...) }

// m0xVariants: every tag item to be offered for a message whose (possibly altered) payload bytes are payload.
// tag = the genuine tag of the genuine message; otherTag = the genuine tag of another message of the same sender.
func m0xVariants(c *core.Ctx, round int, nh func() hash.Hash, svk, sek, protected, payload, genuinePayload, tag, otherTag []byte) []m0xVariant {
	n := len(tag)
	var out []m0xVariant
	right := m0xMac(nh, svk, "MAC0", protected, nil, payload) // the one tag that is valid for this payload: never offered as a forgery
	add := func(what, info string, content []byte) {
		if !bytes.Equal(content, right) {
			out = append(out, m0xVariant{what: what, item: m0xBstr(content), info: info})
		}
	}
	// 1. every byte, two bits (thorough: every bit). The bits rotate with the byte position and from one message to the
	// next, so that the quick tier too reaches every bit of every byte within four messages of a suite.
	for i := 0; i < n; i++ {
		bits := []int{(i + round) % 8, (i + round + 4) % 8}
		if !c.Quick() {
			bits = []int{0, 1, 2, 3, 4, 5, 6, 7}
		}
		for _, b := range bits {
			t := bytes.Clone(tag)
			t[i] ^= 1 << uint(b)
			add("bitflip", fmt.Sprintf("byte %d bit %d", i, b), t)
		}
	}
	// 2. every shorter length (a prefix; thorough: also the suffix of that length)
	for l := 0; l < n; l++ {
		what := "truncated"
		if l == 0 {
			what = "empty"
		}
		add(what, fmt.Sprintf("first %d of %d bytes", l, n), bytes.Clone(tag[:l]))
		if !c.Quick() && l > 0 {
			add("truncated-front", fmt.Sprintf("last %d of %d bytes", l, n), bytes.Clone(tag[n-l:]))
		}
	}
	// 3. longer: the tag followed (or preceded) by 1, n, 2n further bytes
	for _, k := range []int{1, n, 2 * n} {
		add("extended-zeros", fmt.Sprintf("+%d zero bytes", k), append(bytes.Clone(tag), make([]byte, k)...))
		add("extended-copy", fmt.Sprintf("+%d bytes of the tag again", k), append(bytes.Clone(tag), bytes.Repeat(tag, 2)[:k]...))
		add("prefixed-zeros", fmt.Sprintf("%d zero bytes in front", k), append(make([]byte, k), tag...))
	}
	// 4. right length, another key
	rk := make([]byte, len(svk))
	c.Rng.Read(rk)
	fk := bytes.Clone(svk)
	fk[c.Rng.Intn(len(fk))] ^= 1 << uint(c.Rng.Intn(8))
	for _, k := range []struct {
		name string
		key  []byte
	}{{"random key", rk}, {"SVK with one bit flipped", fk}, {"empty key", []byte{}}, {"all-zero key", make([]byte, len(svk))}, {"the encryption key SEK", sek},
		{"SVK reversed", m0xReverse(svk)}} {
		add("other-key", k.name, m0xMac(nh, k.key, "MAC0", protected, nil, payload))
	}
	// 5. right length, right key, other data
	if !bytes.Equal(payload, genuinePayload) {
		add("tag-of-unaltered-message", "the genuine tag, left in place", bytes.Clone(tag))
	} else {
		p2 := bytes.Clone(payload)
		p2[len(p2)-1] ^= 1
		add("other-payload", "tag over the payload with its last bit flipped", m0xMac(nh, svk, "MAC0", protected, nil, p2))
	}
	add("other-payload", "genuine tag of another message of the same session", bytes.Clone(otherTag))
	add("other-payload", "tag over the payload without the COSE_Encrypt0 array head", m0xMac(nh, svk, "MAC0", protected, nil, payload[1:]))
	add("other-payload", "tag over the empty payload", m0xMac(nh, svk, "MAC0", protected, nil, nil))
	add("other-protected", "tag over an empty protected bucket", m0xMac(nh, svk, "MAC0", nil, nil, payload))
	add("other-protected", "tag over a protected bucket {1: 4}", m0xMac(nh, svk, "MAC0", []byte{0xa1, 0x01, 0x04}, nil, payload))
	add("other-context", "context string MAC", m0xMac(nh, svk, "MAC", protected, nil, payload))
	add("other-context", "context string Signature1", m0xMac(nh, svk, "Signature1", protected, nil, payload))
	add("other-aad", "external AAD 00", m0xMac(nh, svk, "MAC0", protected, []byte{0}, payload))
	for _, oh := range []struct {
		name string
		nh   func() hash.Hash
	}{{"SHA-256", sha256.New}, {"SHA-384", sha512.New384}, {"SHA-512", sha512.New}} {
		t := m0xMac(oh.nh, svk, "MAC0", protected, nil, payload)
		t = append(t, make([]byte, 64)...)[:n] // cut or zero-padded to the expected length
		add("other-hash", "HMAC-"+oh.name+" cut/padded to the expected length", t)
	}
	h := nh()
	h.Write(payload)
	add("unkeyed-hash", "plain hash of the payload", h.Sum(nil))
	add("constant", "all zero", make([]byte, n))
	add("constant", "all ff", bytes.Repeat([]byte{0xff}, n))
	// 6. not a byte string
	raw := func(what, info string, item []byte) {
		out = append(out, m0xVariant{what: what, item: item, info: info})
	}
	raw("null", "CBOR null", []byte{0xf6})
	raw("undefined", "CBOR undefined", []byte{0xf7})
	raw("false", "CBOR false", []byte{0xf4})
	raw("integer", "0", []byte{0x00})
	raw("integer", "the tag length", head(0, uint64(n)))
	raw("text-string", "empty text string", []byte{0x60})
	// (the library's decoder does not check the major type against the target: a text string holding exactly the genuine
	// tag bytes is the genuine tag to it, see notes/cbor.md; it is judged like the re-encodings below and counted apart)
	out = append(out, m0xVariant{what: "text-string-same-bytes", info: "the tag bytes as a text string", same: true, item: append(head(3, uint64(n)), tag...)})
	ft := bytes.Clone(tag)
	ft[c.Rng.Intn(n)] ^= 1 << uint(c.Rng.Intn(8))
	raw("text-string", "the tag bytes with one bit flipped, as a text string", append(head(3, uint64(n)), ft...))
	raw("text-string", "the first n-1 tag bytes as a text string", append(head(3, uint64(n-1)), tag[:n-1]...))
	raw("text-string", "the tag in hex as a text string", append(head(3, uint64(2*n)), hex.EncodeToString(tag)...))
	raw("text-string", "n spaces", append(head(3, uint64(n)), bytes.Repeat([]byte{' '}, n)...))
	raw("array-wrapped", "[tag]", append([]byte{0x81}, m0xBstr(tag)...))
	raw("array-wrapped", "empty array", []byte{0x80})
	raw("map", "empty map", []byte{0xa0})
	raw("cbor-tagged", "24(tag)", append([]byte{0xd8, 0x18}, m0xBstr(tag)...))
	out = append(out, m0xVariant{what: "missing", item: nil, info: "array of three, no tag element"})
	// 7. the genuine tag bytes in another encoding of the byte string
	out = append(out,
		m0xVariant{what: "reencoded", info: "two-byte length", same: true, item: append([]byte{0x59, 0, byte(n)}, tag...)},
		m0xVariant{what: "reencoded", info: "four-byte length", same: true, item: append([]byte{0x5a, 0, 0, 0, byte(n)}, tag...)},
		m0xVariant{what: "reencoded", info: "indefinite length, one chunk", same: true, item: append(append([]byte{0x5f}, m0xBstr(tag)...), 0xff)},
		m0xVariant{what: "reencoded", info: "indefinite length, two chunks", same: true,
			item: append(append(append([]byte{0x5f}, m0xBstr(tag[:n/2])...), m0xBstr(tag[n/2:])...), 0xff)})
	return out
}

func m0xReverse(b []byte) []byte {
	out := make([]byte, len(b))
	for i := range b {
		out[len(b)-1-i] = b[i]
	}
	return out
}

// m0xSessions: an owner and a device session after a real key exchange.
func m0xSessions(suite kex.Suite, cipher kex.CipherSuiteID) (owner, dev kex.Session, err error) {
	var priv *rsa.PrivateKey
	var pub *rsa.PublicKey
	if strings.HasPrefix(string(suite), "ASYMKEX") {
		testKeys()
		priv, _ = keyBy["rs256"].Signer.(*rsa.PrivateKey)
		if suite == kex.ASYMKEX3072Suite {
			priv, _ = keyBy["rs384"].Signer.(*rsa.PrivateKey)
		}
		if priv == nil {
			return nil, nil, fmt.Errorf("no RSA key")
		}
		pub = &priv.PublicKey
	}
	defer func() {
		if r := recover(); r != nil {
			err = fmt.Errorf("panic: %v", r)
		}
	}()
	owner = suite.New(nil, cipher)
	xA, err := owner.Parameter(rand.Reader, pub)
	if err != nil {
		return nil, nil, err
	}
	dev = suite.New(xA, cipher)
	xB, err := dev.Parameter(rand.Reader, pub)
	if err != nil {
		return nil, nil, err
	}
	if err := owner.SetParameter(xB, priv); err != nil {
		return nil, nil, err
	}
	return owner, dev, nil
}

// m0xDecrypt runs the receiving session on a private copy of the message.
func m0xDecrypt(recv kex.Session, msg []byte) (pt []byte, err error, panicked string) {
	defer func() {
		if r := recover(); r != nil {
			panicked = fmt.Sprint(r)
		}
	}()
	pt, err = recv.Decrypt(rand.Reader, bytes.NewReader(bytes.Clone(msg)))
	return
}

// runMac0Verify is shared by RunC13 and RunC05. light = one plaintext size only (the caller has other work to do).
func runMac0Verify(c *core.Ctx, light bool) {
	registerCrypterKinds(c)
	kexSuites := []kex.Suite{kex.ECDH256Suite, kex.DHKEXid14Suite, kex.ECDH384Suite, kex.ASYMKEX2048Suite}
	sizes := []int{1, 16, 33}
	ctModes := []string{"untouched", "flip"}
	if light {
		sizes = []int{17}
	}
	if !c.Quick() {
		sizes = []int{1, 15, 16, 17, 33, 100, 1300}
		ctModes = []string{"untouched", "flip", "first-byte", "last-byte", "iv"}
		if light {
			sizes = []int{16, 100}
		}
	}
	mkPT := func(n int) []byte { // one CBOR byte string of total length n with random content
		var h []byte
		switch {
		case n <= 24:
			h = []byte{0x40 + byte(n-1)}
		case n <= 257:
			h = []byte{0x58, byte(n - 2)}
		default:
			h = []byte{0x59, byte((n - 3) >> 8), byte(n - 3)}
		}
		b := make([]byte, n-len(h))
		c.Rng.Read(b)
		return append(h, b...)
	}
	cases, refused := 0, 0
	for si, id := range m0xSuites {
		sname := id.String()
		round := si // rotates the flipped bit, see m0xVariants
		ks := []kex.Suite{kexSuites[si]}
		if !c.Quick() && !light { // every other key exchange too, with one plaintext size
			for _, o := range kexSuites {
				if o != kexSuites[si] {
					ks = append(ks, o)
				}
			}
		}
		for ki, ksuite := range ks {
			sizes := sizes
			if ki > 0 {
				sizes = []int{17}
			}
			owner, dev, err := m0xSessions(ksuite, id)
			if err != nil {
				c.Fail("harness:mac0-session:"+string(ksuite), err.Error(), "kex.decrypt", core.Params{"suite": sname}, core.Obs{})
				continue
			}
			for _, dir := range []string{"device->owner", "owner->device"} {
				send, recv := dev, owner
				if dir == "owner->device" {
					send, recv = owner, dev
				}
				sek, svk := keysOf(recv)
				sek, svk = bytes.Clone(sek), bytes.Clone(svk)
				c.Count("mac0_suite_direction", sname+":"+string(ksuite)+":"+dir)
				encrypt := func(pt []byte) ([]byte, error) {
					obj, err := send.Encrypt(rand.Reader, cbor.RawBytes(bytes.Clone(pt)))
					if err != nil {
						return nil, err
					}
					return cbor.Marshal(obj)
				}
				for _, n := range sizes {
					pt := mkPT(n)
					base := core.Params{"suite": fmt.Sprint(int64(id)), "sek": hex.EncodeToString(sek), "svk": hex.EncodeToString(svk)}
					wire, err := encrypt(pt)
					var g *m0xMsg
					if err == nil {
						g, err = m0xParse(wire)
					}
					if err != nil {
						c.Fail("mac0-genuine-malformed:"+sname, fmt.Sprintf("%s %s: the sender's message is not tag 17 [bstr, map, bstr COSE_Encrypt0, bstr]: %v", ksuite, dir, err),
							"kex.decrypt", core.Params{"suite": base["suite"], "wire": hex.EncodeToString(wire)}, core.Obs{})
						continue
					}
					other, err := encrypt(mkPT(n))
					var og *m0xMsg
					if err == nil {
						og, err = m0xParse(other)
					}
					if err != nil {
						c.Fail("mac0-genuine-malformed:"+sname, fmt.Sprintf("%s %s: second message: %v", ksuite, dir, err), "kex.decrypt", base, core.Obs{})
						continue
					}
					tag := bytes.Clone(wire[g.tagOff : g.tagOff+g.tagN])
					nh := sha256.New // HMAC 256/256 for the AES-128 suites, HMAC 384/384 for the AES-256 suites
					if strings.Contains(sname, "256") {
						nh = sha512.New384
					}
					if g.tagN != nh().Size() {
						c.Fail("mac0-tag-length:"+sname, fmt.Sprintf("%s %s: the sender's tag has %d bytes, the suite's HMAC %d", ksuite, dir, g.tagN, nh().Size()),
							"kex.decrypt", core.Params{"suite": base["suite"], "wire": hex.EncodeToString(wire)}, core.Obs{})
					}
					otherTag := bytes.Clone(other[og.tagOff : og.tagOff+og.tagN])
					protected := bytes.Clone(wire[g.protOff : g.protOff+g.protN])
					genuinePayload := bytes.Clone(wire[g.payOff : g.payOff+g.payN])
					withWire := func(w []byte) core.Params {
						p := core.Params{"wire": hex.EncodeToString(w), "direction": dir, "kex": string(ksuite)}
						for k, v := range base {
							p[k] = v
						}
						return p
					}
					// the genuine message: accepted by the receiving session, by a fresh crypter and by the model; its tag is
					// the HMAC over the hand-built MAC_structure and has the algorithm's length
					genuineOK := func(after string) bool {
						got, err, pan := m0xDecrypt(recv, wire)
						if pan == "" && err == nil && bytes.Equal(got, pt) {
							return true
						}
						sig, det := "mac0-honest-rejected:"+sname, fmt.Sprintf("%s %s: the genuine message was not decrypted to its plaintext: err=%v panic=%q", ksuite, dir, err, pan)
						if after != "" {
							sig, det = "mac0-honest-rejected-after-forgery:"+sname, det+" (right after a refused message: "+after+")"
						}
						c.Fail(sig, det, "kex.decrypt", withWire(wire), core.Obs{Impl: fmt.Sprintf("err=%v pt=%x", err, got)})
						return false
					}
					if !genuineOK("") {
						continue
					}
					if o := c.Do("kex.decrypt", withWire(wire), "mac0-genuine"); o.Impl != "ok b:"+hex.EncodeToString(pt) {
						c.Fail("mac0-honest-rejected:"+sname, "a crypter with the session's keys did not decrypt the genuine message: "+o.Impl, "kex.decrypt", withWire(wire), o)
						continue
					}
					if want := m0xMac(nh, svk, "MAC0", protected, nil, genuinePayload); !bytes.Equal(want, tag) {
						c.Fail("mac0-tag-not-hmac-of-mac-structure:"+sname, fmt.Sprintf("%s %s: sender's tag %x, HMAC(SVK, [\"MAC0\", protected, h'', payload]) = %x", ksuite, dir, tag, want),
							"kex.decrypt", withWire(wire), core.Obs{})
					}
					round++
					for _, mode := range ctModes {
						// the message up to the tag item, with the ciphertext (or IV) altered as asked
						pos, bit := -1, uint(c.Rng.Intn(8))
						switch mode {
						case "flip":
							pos = g.ctOff + c.Rng.Intn(g.ctN)
						case "first-byte":
							pos = g.ctOff
						case "last-byte":
							pos = g.ctOff + g.ctN - 1
						case "iv":
							pos = g.ivOff + c.Rng.Intn(g.ivN)
						}
						prefix := func(arr byte) []byte {
							b := make([]byte, g.tagHead, g.tagHead+3*g.tagN+16)
							copy(b, wire[:g.tagHead])
							if pos >= 0 {
								b[pos] ^= 1 << bit
							}
							if arr != 0 {
								b[g.arrOff] = arr
							}
							return b
						}
						payload := prefix(0)[g.payOff : g.payOff+g.payN]
						for _, v := range m0xVariants(c, round, nh, svk, sek, protected, payload, genuinePayload, tag, otherTag) {
							var msg []byte
							if v.item == nil {
								msg = prefix(0x83)
							} else {
								msg = append(prefix(0), v.item...)
							}
							if bytes.Equal(msg, wire) {
								continue // (cannot happen: every variant differs from the genuine item)
							}
							cases++
							meta := "mac0-" + v.what + "/ct-" + mode
							p := withWire(msg)
							mayAccept := v.same && mode == "untouched"
							desc := fmt.Sprintf("%s, %s, %s, plaintext of %d bytes; Mac0 tag item: %s (%s); ciphertext: %s", sname, ksuite, dir, n, v.what, v.info, mode)
							what := v.what
							if mode != "untouched" {
								what += "+ciphertext-altered"
							}
							failed := false
							got, err, pan := m0xDecrypt(recv, msg)
							outcome := "refused"
							switch {
							case pan != "":
								outcome, failed = "panic", true
								c.Fail("panic@kex.Session.Decrypt:mac0:"+sname+":"+v.what, pan+" — "+desc, "kex.decrypt", p, core.Obs{Impl: "panic"})
							case err == nil && mayAccept && bytes.Equal(got, pt):
								outcome = "same-tag-other-encoding-accepted"
							case err == nil:
								outcome, failed = "ACCEPTED", true
								det := "the receiver returned the sent plaintext"
								if !bytes.Equal(got, pt) {
									det = fmt.Sprintf("the receiver returned a DIFFERENT plaintext %x (sent %x)", got, pt)
								}
								c.Fail("mac0-tag-accepted:"+sname+":"+what, desc+": "+det, "kex.decrypt", p, core.Obs{Impl: "ok b:" + hex.EncodeToString(got)})
							default:
								refused++
							}
							c.Count("mac0_tag", v.what+":ct-"+mode+":"+outcome)
							// the same bytes through a fresh crypter holding the same keys, compared with the model
							o := c.Do("kex.decrypt", p, meta)
							switch {
							case failed:
							case strings.HasPrefix(o.Impl, "panic"):
								c.Fail("panic@kex.SessionCrypter.Decrypt:mac0:"+sname+":"+v.what, core.PanicText+" — "+desc, "kex.decrypt", p, o)
							case o.Impl == "hang":
								c.Fail("hang@kex.SessionCrypter.Decrypt:mac0:"+sname, desc, "kex.decrypt", p, o)
							case strings.HasPrefix(o.Impl, "ok") && !(mayAccept && o.Impl == "ok b:"+hex.EncodeToString(pt)):
								c.Fail("mac0-tag-accepted:"+sname+":"+what, desc+": a fresh SessionCrypter with the session's keys accepted it: "+o.Impl, "kex.decrypt", p, o)
							}
							// nothing of the refused message may stick to the session
							if !genuineOK(v.what + "/" + mode) {
								break
							}
						}
					}
				}
			}
		}
	}
	c.Note("COSE_Mac0 tag forgeries offered to the receiving session: %d (refused %d)", cases, refused)
}
