// C19, more: (a) the life of the goroutines the library starts for one TO2 run, under a transport fault at every message
// position; (b) the fsim Command device module with a process that writes shortly before it exits and a slow consumer.
package props

import (
	"bytes"
	"context"
	"errors"
	"fmt"
	"io"
	"iter"
	"net/http"
	"os"
	"path/filepath"
	"runtime"
	"sort"
	"strconv"
	"strings"
	"sync"
	"sync/atomic"
	"time"

	fdo "github.com/fido-device-onboard/go-fdo"
	"github.com/fido-device-onboard/go-fdo/cbor"
	"github.com/fido-device-onboard/go-fdo/fsim"
	fdohttp "github.com/fido-device-onboard/go-fdo/http"
	"github.com/fido-device-onboard/go-fdo/kex"
	"github.com/fido-device-onboard/go-fdo/protocol"
	"github.com/fido-device-onboard/go-fdo/serviceinfo"

	"verifharness/internal/core"
	"verifharness/internal/env"
)

// ---------------------------------------------------------------------------------------------------------------
// (a) goroutine lifecycle

const c19LibPrefix = "github.com/fido-device-onboard/go-fdo"

// c19Goroutines returns the stack dump of every goroutine, keyed by its id.
func c19Goroutines() map[string]string {
	buf := make([]byte, 4<<20)
	for {
		n := runtime.Stack(buf, true)
		if n < len(buf) {
			buf = buf[:n]
			break
		}
		buf = make([]byte, 2*len(buf))
	}
	m := map[string]string{}
	for _, g := range strings.Split(string(buf), "\n\n") {
		g = strings.TrimSpace(g)
		if !strings.HasPrefix(g, "goroutine ") {
			continue
		}
		id, _, _ := strings.Cut(g[len("goroutine "):], " ")
		m[id] = g
	}
	return m
}

// c19IsLibGoroutine: some FUNCTION of the stack (not a type argument of a generic harness or standard library function,
// not a file path) belongs to the library, or the library started the goroutine.
func c19IsLibGoroutine(stack string) bool {
	for _, l := range strings.Split(stack, "\n") {
		if strings.HasPrefix(l, "\t") || strings.HasPrefix(l, "goroutine ") {
			continue
		}
		if strings.HasPrefix(l, c19LibPrefix) || strings.HasPrefix(l, "created by "+c19LibPrefix) {
			return true
		}
	}
	return false
}

// c19StackBrief keeps the function names of a stack.
func c19StackBrief(stack string) string {
	var keep []string
	for i, l := range strings.Split(stack, "\n") {
		if strings.HasPrefix(l, "\t") {
			continue
		}
		if i > 0 {
			if j := strings.LastIndex(l, "("); j > 0 && !strings.HasPrefix(l, "created by") {
				l = l[:j]
			}
		}
		keep = append(keep, strings.ReplaceAll(l, "github.com/fido-device-onboard/", ""))
	}
	if len(keep) > 12 {
		keep = append(keep[:11], keep[len(keep)-1])
	}
	return strings.Join(keep, " < ")
}

// c19LibLeft waits until no goroutine that was not there before has a library frame (or was started by the library) and
// returns the stacks of those that are still there after the wait.
func c19LibLeft(before map[string]string, wait time.Duration) []string {
	dl := time.Now().Add(wait)
	for {
		var left []string
		for id, st := range c19Goroutines() {
			if _, old := before[id]; !old && c19IsLibGoroutine(st) {
				left = append(left, c19StackBrief(st))
			}
		}
		if len(left) == 0 || time.Now().After(dl) {
			sort.Strings(left)
			return left
		}
		time.Sleep(10 * time.Millisecond)
	}
}

// c19CheckLib is the monitor: three seconds after a run no goroutine of the library may be left.
func c19CheckLib(c *core.Ctx, before map[string]string, when, kind string, p core.Params, ob core.Obs) bool {
	left := c19LibLeft(before, 3*time.Second)
	if len(left) == 0 {
		return true
	}
	c.Fail("goroutine-leak:"+when, fmt.Sprintf("%d goroutine(s) of the library are still alive three seconds after TO2 returned:\n%s", len(left), clipS(strings.Join(left, "\n"), 1700)), kind, p, ob)
	return false
}

// c19FaultRT injects one transport fault at the nth request of one message type.
type c19FaultRT struct {
	inner http.RoundTripper
	at    int         // message type (0: no fault)
	nth   int         // 1-based
	fault string      // rt-error | conn-drop | msg255 | body-drop
	armed func() bool // when set: only requests made while it holds are counted towards nth
	mu    sync.Mutex
	seen  map[int]int
	hits  int
	fired atomic.Bool
}

var c19Faults = []string{"rt-error", "conn-drop", "msg255", "body-drop"}

type c19BrokenBody struct{ r io.Reader }

func (b *c19BrokenBody) Read(p []byte) (int, error) {
	n, err := b.r.Read(p)
	if err == io.EOF {
		return n, io.ErrUnexpectedEOF
	}
	return n, err
}
func (b *c19BrokenBody) Close() error { return nil }

func (t *c19FaultRT) RoundTrip(req *http.Request) (*http.Response, error) {
	parts := strings.Split(req.URL.Path, "/")
	mt, _ := strconv.Atoi(parts[len(parts)-1])
	t.mu.Lock()
	t.seen[mt]++
	k := t.seen[mt]
	if t.armed != nil {
		if mt == t.at && t.armed() {
			t.hits++
		}
		k = t.hits
	}
	t.mu.Unlock()
	if err := req.Context().Err(); err != nil {
		return nil, err
	}
	if t.at == 0 || mt != t.at || k != t.nth || !t.fired.CompareAndSwap(false, true) {
		return t.inner.RoundTrip(req)
	}
	switch t.fault {
	case "rt-error": // the request never leaves the device
		return nil, errors.New("injected: connect: connection refused")
	case "conn-drop": // the server handles the request, the connection dies before the response arrives
		if resp, err := t.inner.RoundTrip(req); err == nil {
			_, _ = io.Copy(io.Discard, resp.Body)
			_ = resp.Body.Close()
		}
		return nil, fmt.Errorf("injected: read tcp: connection reset by peer: %w", io.ErrUnexpectedEOF)
	case "msg255": // an error message instead of the response
		body, _ := cbor.Marshal(protocol.ErrorMessage{Code: protocol.InternalServerErrCode, PrevMsgType: uint8(mt), ErrString: "injected failure", Timestamp: time.Now().Unix()})
		return &http.Response{Status: "500 Internal Server Error", StatusCode: 500, Proto: "HTTP/1.1", ProtoMajor: 1, ProtoMinor: 1, Request: req,
			Header:        http.Header{"Content-Type": {"application/cbor"}, "Message-Type": {"255"}, "Content-Length": {strconv.Itoa(len(body))}},
			ContentLength: int64(len(body)), Body: io.NopCloser(bytes.NewReader(body))}, nil
	default: // body-drop: the response starts to arrive and the connection dies in the middle of the body
		resp, err := t.inner.RoundTrip(req)
		if err != nil {
			return nil, err
		}
		b, _ := io.ReadAll(resp.Body)
		_ = resp.Body.Close()
		resp.Body = &c19BrokenBody{r: bytes.NewReader(b[:len(b)/2])}
		return resp, nil
	}
}

// c19Life is the sweep of part (a).
type c19Life struct {
	c   *core.Ctx
	dp  *c19Deploy
	n   int
	dev map[string]*env.Device // per configuration: a device whose voucher the owner still holds
}

type c19LifeCfg struct {
	name    string
	nmods   int
	size    int
	inYield bool
	fsim    string // "": the tagged stream module; otherwise the script fsim.RunCommand asks the device to run (next to fdo.upload / fdo.download)
}

const c19LifeKind = "concurrent.lifecycle"

// one runs one TO2 with (at most) one fault and applies the monitor. It returns the number of requests per message type.
func (lf *c19Life) one(cfg c19LifeCfg, at, nth int, fault string) (counts map[int]int, ok bool) {
	c, dp := lf.c, lf.dp
	lf.n++
	tag := fmt.Sprintf("c19-l%d", lf.n)
	where := "none"
	if at != 0 {
		where = strconv.Itoa(at)
		if at == 68 {
			where = fmt.Sprintf("68#%d", nth)
		}
	}
	p := core.Params{"config": cfg.name, "extra_modules": strconv.Itoa(cfg.nmods), "stream_bytes": strconv.Itoa(cfg.size), "in_yield": boolTF(cfg.inYield), "fault": fault, "fault_at": where, "tag": tag, "fsim_script": cfg.fsim}
	c.Rep.Evaluations++
	c.Count("lifecycle_fault", fault+"@"+strings.SplitN(where, "#", 2)[0])
	c.Count("lifecycle_config", cfg.name)
	dp.trDelay.Store(0)
	dp.e.OwnerMTU = 0
	ctx, cancel := context.WithTimeout(context.Background(), 60*time.Second)
	defer cancel()
	dev := lf.dev[cfg.name]
	if dev == nil {
		var err error
		if dev, err = dp.newDevice(ctx, env.P256, protocol.X509KeyEnc, tag); err != nil {
			c.Fail("pipeline-setup-failed", "DI: "+err.Error(), c19LifeKind, p, core.Obs{})
			return nil, false
		}
		lf.dev[cfg.name] = dev
	}
	var to2cfg fdo.TO2Config
	var marker, script string
	if cfg.fsim == "" {
		pl := &c19Plan{Tag: tag, Spec: env.P256, Enc: protocol.X509KeyEnc, Suite: kex.ECDH256Suite, Cipher: kex.A128GcmCipher, DevSize: cfg.size, OwnSize: cfg.size,
			InYield: cfg.inYield, Seed: 7, Fix: true} // (fixed seed: the same number of messages 68 in every run of a configuration)
		var t *c19TO2
		to2cfg, t = dp.to2Config(dev, pl, tag)
		// extra module names of the length of the stream module's name: the devmod module list is cut into messages at the same
		// places whatever order the map gives the names in
		for i := 0; i < cfg.nmods; i++ {
			to2cfg.DeviceModules[fmt.Sprintf("x.%07d", i)] = serviceinfo.UnknownModule{}
		}
		dp.reg.add(t.tag, t.sess)
		defer dp.reg.drop(t.tag)
	} else {
		dir, err := os.MkdirTemp(WorkDir(), "c19-life-")
		if err != nil {
			c.Note("harness: %v", err)
			return nil, false
		}
		defer os.RemoveAll(dir)
		data := make([]byte, 3000)
		newC19Gen(tag, 'f').fill(data, 0)
		_ = os.WriteFile(filepath.Join(dir, "up.bin"), data, 0o644)
		prev := dp.e.OwnerModules
		defer func() { dp.e.OwnerModules = prev }()
		dp.e.OwnerModules = func(context.Context, protocol.GUID, serviceinfo.Devmod, []string) iter.Seq2[string, serviceinfo.OwnerModule] {
			return func(yield func(string, serviceinfo.OwnerModule) bool) {
				if !yield("fdo.download", &fsim.DownloadContents[*bytes.Reader]{Name: "down.bin", Contents: bytes.NewReader(data), MustDownload: true}) {
					return
				}
				if !yield("fdo.upload", &fsim.UploadRequest{Dir: dir, Name: "up.bin", Rename: "got.bin"}) {
					return
				}
				yield("fdo.command", &fsim.RunCommand{Command: "/bin/sh", Args: []string{"-c", script}, MayFail: true, Stdout: io.Discard, Stderr: io.Discard})
			}
		}
		marker = filepath.Join(dir, "started")
		script = strings.ReplaceAll(cfg.fsim, "STARTED", marker)
		to2cfg = dev.TO2Config(kex.ECDH256Suite, kex.A128GcmCipher)
		to2cfg.Devmod.Serial = []byte(tag)
		to2cfg.DeviceModules = map[string]serviceinfo.DeviceModule{
			"fdo.download": &fsim.Download{NameToPath: func(n string) string { return filepath.Join(dir, "dl-"+filepath.Base(n)) }},
			"fdo.upload":   &fsim.Upload{FS: os.DirFS(dir)},
			"fdo.command":  &fsim.Command{Timeout: 40 * time.Second},
		}
		for i := 0; i < cfg.nmods; i++ {
			to2cfg.DeviceModules[fmt.Sprintf("x.%s.%03d", tag, i)] = serviceinfo.UnknownModule{}
		}
	}
	rt := &c19FaultRT{inner: dp.e.RT, at: at, nth: nth, fault: fault, seen: map[int]int{}}
	if marker != "" && strings.Contains(cfg.fsim, "STARTED") {
		// the nth 68 after the process the command module runs has started
		rt.armed = func() bool { _, err := os.Stat(marker); return err == nil }
	}
	tr := &fdohttp.Transport{BaseURL: "http://fdo.test", Client: &http.Client{Transport: rt}}
	before := c19Goroutines()
	type out struct {
		cred *fdo.DeviceCredential
		err  error
		pan  string
	}
	done := make(chan out, 1)
	go func() {
		var o out
		defer func() {
			if r := recover(); r != nil {
				o.pan = fmt.Sprint(r)
			}
			done <- o
		}()
		o.cred, o.err = fdo.TO2(ctx, tr, nil, to2cfg)
	}()
	var o out
	select {
	case o = <-done:
	case <-time.After(30 * time.Second):
		c.Fail("deadlock@device-pipeline:fault-at-"+strings.SplitN(where, "#", 2)[0], fmt.Sprintf("TO2 did not return within 30 s after a %s at message %s (%s)\n%s", fault, where, cfg.name, c19FdoStacks(1600)), c19LifeKind, p, core.Obs{Impl: "hang"})
		cancel()
		select {
		case <-done:
		case <-time.After(10 * time.Second):
		}
		delete(lf.dev, cfg.name)
		return nil, false
	}
	counts = map[int]int{}
	rt.mu.Lock()
	for k, v := range rt.seen {
		counts[k] = v
	}
	rt.mu.Unlock()
	ob := core.Obs{Impl: fmt.Sprintf("err=%v fired=%v requests=%v", o.err, rt.fired.Load(), counts)}
	if o.pan != "" {
		c.Fail("panic@device-pipeline", o.pan, c19LifeKind, p, ob)
	}
	msg := strings.SplitN(where, "#", 2)[0]
	switch {
	case at == 0 && o.err != nil && cfg.nmods > 100 && strings.Contains(o.err.Error(), "devmod:modules"):
		// (a module list that needs more than one devmod:modules message fails for some list lengths, fault or not: see the note
		// in c19Pipe.run; the configuration is then left out)
		c.Count("lifecycle_outcome", "fault-free-run-failed:long-devmod-list")
	case at == 0 && o.err != nil:
		c.Count("lifecycle_outcome", "fault-free-run-failed")
		c.Fail("pipeline-run-failed:lifecycle", fmt.Sprintf("fault-free TO2 (%s) failed: %v", cfg.name, o.err), c19LifeKind, p, ob)
	case at == 0:
		c.Count("lifecycle_outcome", "ok")
	case !rt.fired.Load():
		c.Count("lifecycle_outcome", "fault-point-not-reached")
		c.Count("lifecycle_not_reached", cfg.name+":"+fault+"@"+where)
	case o.err == nil:
		c.Count("lifecycle_outcome", "fault-ignored")
		c.Fail("transport-failure-ignored", fmt.Sprintf("a %s at message %s and TO2 reported success (%s)", fault, where, cfg.name), c19LifeKind, p, ob)
	default:
		c.Count("lifecycle_outcome", "failed-as-it-must")
	}
	// whatever the server may have done with a Done it received: the next run of this configuration starts from a fresh device
	if o.err == nil || counts[70] > 0 {
		delete(lf.dev, cfg.name)
	}
	when := "after-fault-at-" + msg
	if at == 0 {
		when = "after-success"
	}
	// (the caller's context is still live: the goroutines must end because TO2 returned, not because the caller gave up)
	if !c19CheckLib(c, before, when, c19LifeKind, p, ob) {
		c.Count("lifecycle_leak", fault+"@"+where)
	}
	for _, s := range dp.reg.takeStray() {
		c.Note("lifecycle run %s: owner modules requested for an unknown serial %s", tag, s)
	}
	return counts, o.err == nil
}

func (lf *c19Life) run() {
	c := lf.c
	quick := c.Quick()
	t0 := time.Now()
	cfgs := []c19LifeCfg{
		{name: "stream+2", nmods: 2, size: 3000},
		{name: "stream+150", nmods: 150, size: 1500, inYield: true}, // the module list needs several devmod messages
	}
	if !quick {
		cfgs = append(cfgs, c19LifeCfg{name: "stream+40", nmods: 40, size: 20000})
	}
	runs := 0
	for ci, cfg := range cfgs {
		counts, ok := lf.one(cfg, 0, 0, "none")
		runs++
		if !ok {
			continue
		}
		n68 := counts[68]
		c.Count("lifecycle_68_per_run", fmt.Sprintf("%s:%d", cfg.name, n68))
		type pos struct{ at, nth int }
		var poss []pos
		for _, mt := range []int{60, 62, 64, 66} {
			poss = append(poss, pos{mt, 1})
		}
		ks := map[int]bool{}
		if quick {
			for _, k := range []int{1, 2, (n68 + 1) / 2, n68} {
				if k >= 1 && k <= n68 {
					ks[k] = true
				}
			}
			if cfg.nmods > 100 && n68 >= 3 {
				ks[3] = true // the third devmod message
			}
		} else {
			for k := 1; k <= n68; k++ {
				ks[k] = true
			}
		}
		var kl []int
		for k := range ks {
			kl = append(kl, k)
		}
		sort.Ints(kl)
		for _, k := range kl {
			poss = append(poss, pos{68, k})
		}
		poss = append(poss, pos{70, 1})
		for pi, ps := range poss {
			for fi, f := range c19Faults {
				// quick tier: the first configuration takes an error from the RoundTripper, a 255 reply and a dropped connection (before
				// or inside the response body, alternating) at every position; the others rotate the faults
				if quick && ci > 0 && fi != (pi+ci)%len(c19Faults) {
					continue
				}
				if quick && ci == 0 && ((f == "conn-drop" && pi%2 == 1) || (f == "body-drop" && pi%2 == 0)) {
					continue
				}
				lf.one(cfg, ps.at, ps.nth, f)
				runs++
			}
		}
	}
	// the library's own device modules: a process that is still running when the transport fails
	// (download and upload come first; the fault hits the kth 68 after the process was started)
	long := c19LifeCfg{name: "fsim+sleeping-command", nmods: 2, fsim: "echo started; echo > STARTED; exec sleep 30"}
	ks := []int{1, 2, 4}
	if !quick {
		ks = []int{1, 2, 3, 4, 5, 6, 7, 8}
	}
	for i, k := range ks {
		lf.one(long, 68, k, c19Faults[i%len(c19Faults)])
		runs++
	}
	lf.one(c19LifeCfg{name: "fsim+short-command", nmods: 2, fsim: "echo done"}, 0, 0, "none")
	runs++
	c.Note("goroutine lifecycle: %d TO2 runs (fault at 60/62/64/66/68#k/70 x %v, fault-free, fsim modules) in %.1fs", runs, c19Faults, time.Since(t0).Seconds())
}

// ---------------------------------------------------------------------------------------------------------------
// (b) fsim.Command: output written before the exit reaches the owner module before the exit code

const c19CmdKind = "concurrent.command"

// c19CmdCase is one process and one consumer.
type c19CmdCase struct {
	Script       string        // run as /bin/sh -c Script
	Line         string        // the complete line the process writes to stdout just before it exits
	Code         int           // its exit code
	WantErr      bool          // the owner asks for stderr as well
	RespondDelay time.Duration // respond(name) sleeps before it hands out the writer
	WriteDelay   time.Duration // every Write of the module into that writer sleeps
	Gap          time.Duration // pause between two Yields (the round trip)
	// Go: a file the script waits for before it writes its last line and exits; the consumer creates it when it is asked
	// for the stderr writer, i.e. while the module is in the middle of a Yield, after it looked at stdout
	Go string
	// OnlyStderr: RespondDelay applies to the stderr writer only
	OnlyStderr bool
}

func (k *c19CmdCase) params() core.Params {
	return core.Params{"script": k.Script, "last_line": k.Line, "exit_code": fmt.Sprint(k.Code), "return_stderr": boolTF(k.WantErr),
		"respond_delay": k.RespondDelay.String(), "write_delay": k.WriteDelay.String(), "yield_gap": k.Gap.String(), "released_by_consumer": boolTF(k.Go != ""), "only_stderr_slow": boolTF(k.OnlyStderr)}
}

// c19CmdResult is what one drive of device module against owner module gave.
type c19CmdResult struct {
	out, errOut string // what fsim.RunCommand had written to its Stdout / Stderr when the exit code arrived
	code        int
	gotCode     bool
	fail        string // the module or the owner module returned an error / the drive timed out
	yields      int
	multi       int // service infos whose value held more than one CBOR item
	trace       []string
}

type c19LockedBuf struct {
	mu sync.Mutex
	b  bytes.Buffer
}

func (b *c19LockedBuf) Write(p []byte) (int, error) {
	b.mu.Lock()
	defer b.mu.Unlock()
	return b.b.Write(p)
}

func (b *c19LockedBuf) String() string {
	b.mu.Lock()
	defer b.mu.Unlock()
	return b.b.String()
}

type writerFunc func([]byte) (int, error)

func (f writerFunc) Write(p []byte) (int, error) { return f(p) }

// slowRespond wraps a respond callback as the case says.
func (k *c19CmdCase) slowRespond(respond func(string) io.Writer) func(string) io.Writer {
	return func(name string) io.Writer {
		if name == "stderr" && k.Go != "" {
			_ = os.WriteFile(k.Go, nil, 0o644)
		}
		if k.RespondDelay > 0 && name != "exitcode" && (name == "stderr" || !k.OnlyStderr) {
			time.Sleep(k.RespondDelay)
		}
		w := respond(name)
		if k.WriteDelay <= 0 {
			return w
		}
		return writerFunc(func(p []byte) (int, error) { time.Sleep(k.WriteDelay); return w.Write(p) })
	}
}

// c19SplitCBOR cuts a value into its CBOR items.
func c19SplitCBOR(b []byte) [][]byte {
	var items [][]byte
	dec := cbor.NewDecoder(bytes.NewReader(b))
	for {
		var raw cbor.RawBytes
		if err := dec.Decode(&raw); err != nil {
			break
		}
		items = append(items, []byte(raw))
	}
	return items
}

// c19DriveCommand plays the TO2 service info loop between the library's fdo.command owner module (fsim.RunCommand) and
// device module (fsim.Command) without a network: what the owner module produces is handed to Receive, then the device
// module is yielded to as exchangeServiceInfo does once per round, through a respond callback that is as slow as the case
// says, and every service info it wrote is handed to HandleInfo in order (a service info without a value is dropped, as
// the chunker does). strict: a value that holds several CBOR items is handed over as it is and the rest HandleInfo leaves
// unread is an error, as in TO2Server.ownerServiceInfo; otherwise it is handed over item by item (and counted), so that
// the question "did the output arrive before the exit code" can be answered independently of that.
func c19DriveCommand(k *c19CmdCase, strict bool) (res c19CmdResult) {
	defer func() {
		if r := recover(); r != nil {
			res.fail = fmt.Sprintf("panic: %v", r)
		}
	}()
	ctx, cancel := context.WithTimeout(context.Background(), 25*time.Second)
	defer cancel()
	t0 := time.Now()
	var so, se c19LockedBuf
	exit := make(chan int, 1)
	own := &fsim.RunCommand{Command: "/bin/sh", Args: []string{"-c", k.Script}, MayFail: true, Stdout: &so, ExitChan: exit}
	if k.WantErr {
		own.Stderr = &se
	}
	dev := &fsim.Command{Timeout: 20 * time.Second}
	defer func() { _ = dev.Transition(false) }() // kills a process that is still there
	type msg struct {
		name string
		body *bytes.Buffer
	}
	var pending []msg
	respond := k.slowRespond(func(name string) io.Writer {
		pending = append(pending, msg{name, &bytes.Buffer{}})
		return pending[len(pending)-1].body
	})
	yield := func() {}
	active := false
	for {
		if ctx.Err() != nil {
			res.fail = "no exit code within 25 s"
			return
		}
		// owner -> device
		p := serviceinfo.NewProducer("fdo.command", serviceinfo.DefaultMTU)
		_, done, err := own.ProduceInfo(ctx, p)
		if err != nil {
			res.fail = "owner ProduceInfo: " + err.Error()
			return
		}
		for _, kv := range p.ServiceInfo() {
			_, name, _ := strings.Cut(kv.Key, ":")
			if name == "active" {
				if !active {
					if err := dev.Transition(true); err != nil {
						res.fail = "Transition: " + err.Error()
						return
					}
					active = true
				}
				continue
			}
			body := bytes.NewReader(kv.Val)
			if err := dev.Receive(ctx, name, body, respond, yield); err != nil {
				res.fail = fmt.Sprintf("device Receive(%s): %v", name, err)
				return
			}
			if body.Len() > 0 {
				res.fail = fmt.Sprintf("device module did not read the full body of %q", name)
				return
			}
		}
		if done {
			break
		}
		// device: one yield per round
		res.yields++
		if err := dev.Yield(ctx, respond, yield); err != nil {
			res.fail = "device Yield: " + err.Error()
			return
		}
		// device -> owner, in order
		for _, m := range pending {
			if m.body.Len() == 0 {
				continue
			}
			if len(res.trace) < 30 {
				res.trace = append(res.trace, fmt.Sprintf("y%d@%dms:%s:%x", res.yields, time.Since(t0).Milliseconds(), m.name, clipB(m.body.Bytes(), 24)))
			}
			parts := [][]byte{m.body.Bytes()}
			if items := c19SplitCBOR(m.body.Bytes()); len(items) > 1 {
				res.multi++
				if !strict {
					parts = items
				}
			}
			for _, part := range parts {
				body := bytes.NewReader(part)
				if err := own.HandleInfo(ctx, m.name, body); err != nil {
					res.fail = fmt.Sprintf("owner HandleInfo(%s): %v", m.name, err)
					return
				}
				if body.Len() > 0 {
					res.fail = fmt.Sprintf("owner module did not read full body of message 'fdo.command:%s' (%d of %d bytes left)", m.name, body.Len(), len(part))
					return
				}
			}
			if m.name == "exitcode" {
				// what the owner module has at the moment it learns the exit code
				select {
				case res.code = <-exit:
					res.gotCode = true
				default:
				}
				res.out, res.errOut = so.String(), se.String()
			}
		}
		pending = pending[:0]
		if !res.gotCode && k.Gap > 0 {
			time.Sleep(k.Gap)
		}
	}
	if !res.gotCode {
		res.fail = "owner module reported done without an exit code"
	}
	return
}

func clipB(b []byte, n int) []byte {
	if len(b) > n {
		return b[:n]
	}
	return b
}

// c19CommandCases: the process waits, writes its last (and only) complete stdout line and exits at once, while the
// consumer's delays are swept. (One complete line per stream only: see c19CommandNotes for what the module does with more.)
func c19CommandCases(quick bool, dir string) []*c19CmdCase {
	var l []*c19CmdCase
	consumer := []time.Duration{0, 50 * time.Millisecond, 500 * time.Millisecond, 2 * time.Second}
	sleeps := []string{"0.2", "0.45", "0.7", "0.95"}
	if !quick {
		sleeps = nil
		for ms := 50; ms <= 2400; ms += 90 {
			sleeps = append(sleeps, fmt.Sprintf("%d.%03d", ms/1000, ms%1000))
		}
	}
	n := 0
	add := func(k c19CmdCase) {
		n++
		k.Line = fmt.Sprintf("late-%d", n)
		k.Script = strings.ReplaceAll(k.Script, "LATE", k.Line)
		if k.Gap == 0 {
			k.Gap = 5 * time.Millisecond
		}
		if k.Go != "" {
			k.Go = filepath.Join(dir, fmt.Sprintf("go-%d", n))
			k.Script = strings.ReplaceAll(k.Script, "GOFILE", k.Go)
		}
		l = append(l, &k)
	}
	for _, d := range consumer {
		for _, where := range []string{"respond", "write", "both"} {
			if d == 0 && where != "respond" {
				continue
			}
			if d >= 2*time.Second && where != "respond" && quick {
				continue // (time: every Write of a yield would sleep two seconds)
			}
			rd, wd := d, d
			if where == "write" {
				rd = 0
			}
			if where == "respond" {
				wd = 0
			}
			// free running: the moment of the last write relative to the consumer's rhythm is swept
			for si, s := range sleeps {
				long := d >= 2*time.Second
				if long && quick && si > 1 {
					continue
				}
				add(c19CmdCase{Script: "sleep " + s + "; echo LATE", WantErr: !long, RespondDelay: rd, WriteDelay: wd})
				if !long || !quick {
					add(c19CmdCase{Script: "echo warning >&2; sleep " + s + "; echo LATE", WantErr: true, RespondDelay: rd, WriteDelay: wd})
				}
				if si == 0 {
					add(c19CmdCase{Script: "sleep " + s + "; echo LATE", WantErr: false, RespondDelay: rd, WriteDelay: wd})
				}
			}
			// released by the consumer while the module is inside Yield, between its look at stdout and the end of the Yield
			// (with the two second consumer only the stderr writer is slow: time)
			if !(d >= 2*time.Second && quick) || where == "respond" {
				add(c19CmdCase{Script: "while [ ! -e GOFILE ]; do sleep 0.01; done; echo LATE", WantErr: true, RespondDelay: rd, WriteDelay: wd, Go: "x", OnlyStderr: d >= 2*time.Second})
			}
		}
	}
	// a process that is done before the first Yield
	add(c19CmdCase{Script: "echo LATE", WantErr: true})
	add(c19CmdCase{Script: "echo LATE", RespondDelay: 50 * time.Millisecond})
	return l
}

// c19CommandStart drives all cases at once in the background (they mostly sleep); the returned function waits and judges.
func c19CommandStart(c *core.Ctx) func() {
	t0 := time.Now()
	dir, err := os.MkdirTemp(WorkDir(), "c19-cmd-")
	if err != nil {
		c.Note("harness: %v", err)
		return func() {}
	}
	cases := c19CommandCases(c.Quick(), dir)
	results := make([]c19CmdResult, len(cases))
	var wg sync.WaitGroup
	sem := make(chan struct{}, 48)
	for i, k := range cases {
		wg.Add(1)
		go func() {
			defer wg.Done()
			sem <- struct{}{}
			defer func() { <-sem }()
			results[i] = c19DriveCommand(k, false)
		}()
	}
	return func() {
		wg.Wait()
		_ = os.RemoveAll(dir)
		for i, k := range cases {
			r := results[i]
			c.Rep.Evaluations++
			p := k.params()
			ob := core.Obs{Impl: fmt.Sprintf("stdout=%q stderr=%q code=%d(%v) fail=%q yields=%d trace=%s", r.out, r.errOut, r.code, r.gotCode, r.fail, r.yields, strings.Join(r.trace, " "))}
			c.Count("command_consumer", fmt.Sprintf("respond=%v write=%v", k.RespondDelay, k.WriteDelay))
			if r.multi > 0 {
				c.Count("command_module_observed", "several-cbor-items-in-one-service-info (sweep)")
			}
			switch {
			case r.fail != "":
				c.Count("command_outcome", "failed")
				c.Fail("command-run-failed", fmt.Sprintf("sh -c %q (consumer: respond %v, write %v): %s", k.Script, k.RespondDelay, k.WriteDelay, r.fail), c19CmdKind, p, ob)
			case !strings.Contains(r.out, k.Line+"\n"):
				c.Count("command_outcome", "output-lost")
				c.Fail("command-output-lost", fmt.Sprintf("sh -c %q wrote the line %q to stdout and exited with %d; when the owner module (fsim.RunCommand) got the exit code %d its stdout was %q (consumer: respond %v, write %v)",
					k.Script, k.Line, k.Code, r.code, r.out, k.RespondDelay, k.WriteDelay), c19CmdKind, p, ob)
			case strings.Contains(k.Script, "warning") && !strings.Contains(r.errOut, "warning\n"):
				c.Count("command_outcome", "stderr-lost")
				c.Fail("command-output-lost:stderr", fmt.Sprintf("sh -c %q wrote \"warning\" to stderr; when the owner module got the exit code its stderr was %q", k.Script, r.errOut), c19CmdKind, p, ob)
			case r.code != k.Code:
				c.Count("command_outcome", "code-differs")
				c.Fail("command-exit-code-differs", fmt.Sprintf("sh -c %q exited with %d, the owner module got %d", k.Script, k.Code, r.code), c19CmdKind, p, ob)
			default:
				c.Count("command_outcome", "ok")
			}
		}
		c.Note("fsim.Command with a slow consumer: %d cases, done %.1fs after they were started", len(cases), time.Since(t0).Seconds())
	}
}

// ---- the same through a real TO2 ----

// c19SlowMod hands the library's device module a respond callback as slow as the case says.
type c19SlowMod struct {
	inner serviceinfo.DeviceModule
	k     *c19CmdCase
}

func (m *c19SlowMod) Transition(active bool) error { return m.inner.Transition(active) }

func (m *c19SlowMod) Receive(ctx context.Context, name string, body io.Reader, respond func(string) io.Writer, yield func()) error {
	return m.inner.Receive(ctx, name, body, m.k.slowRespond(respond), yield)
}

func (m *c19SlowMod) Yield(ctx context.Context, respond func(string) io.Writer, yield func()) error {
	return m.inner.Yield(ctx, m.k.slowRespond(respond), yield)
}

// c19CommandTO2 runs one case through DI and a real TO2 against the deployment's owner service with fsim.RunCommand.
func c19CommandTO2(dp *c19Deploy, k *c19CmdCase, serial string) (res c19CmdResult) {
	ctx, cancel := context.WithTimeout(context.Background(), 40*time.Second)
	defer cancel()
	var so, se c19LockedBuf
	exit := make(chan int, 1)
	prev := dp.e.OwnerModules
	defer func() { dp.e.OwnerModules = prev }()
	dp.e.OwnerModules = func(context.Context, protocol.GUID, serviceinfo.Devmod, []string) iter.Seq2[string, serviceinfo.OwnerModule] {
		return func(yield func(string, serviceinfo.OwnerModule) bool) {
			own := &fsim.RunCommand{Command: "/bin/sh", Args: []string{"-c", k.Script}, MayFail: true, Stdout: &so, ExitChan: exit}
			if k.WantErr {
				own.Stderr = &se
			}
			yield("fdo.command", own)
		}
	}
	dp.trDelay.Store(0)
	dp.e.OwnerMTU = 0
	dev, err := dp.newDevice(ctx, env.P256, protocol.X509KeyEnc, serial)
	if err != nil {
		res.fail = "DI: " + err.Error()
		return
	}
	cfg := dev.TO2Config(kex.ECDH256Suite, kex.A128GcmCipher)
	cfg.DeviceModules = map[string]serviceinfo.DeviceModule{"fdo.command": &c19SlowMod{inner: &fsim.Command{Timeout: 20 * time.Second}, k: k}}
	_, err = dp.e.TO2(ctx, dev, nil, cfg)
	if err != nil {
		res.fail = "TO2: " + c19StripTime(err.Error())
	}
	select {
	case res.code = <-exit:
		res.gotCode = true
	default:
	}
	res.out, res.errOut = so.String(), se.String()
	return
}

// c19CommandTO2Runs: a few of the cases end to end, and what the module does with output that is not one complete line
// per round. The latter is recorded (histogram command_module_observed and notes), not judged: no property speaks about
// the line format of the fdo.command module, and the sweep above is built so that it does not depend on it.
func c19CommandTO2Runs(c *core.Ctx, dp *c19Deploy) {
	t0 := time.Now()
	n := 0
	run := func(k *c19CmdCase) c19CmdResult {
		n++
		c.Rep.Evaluations++
		return c19CommandTO2(dp, k, fmt.Sprintf("c19-cmd%d", n))
	}
	for _, k := range []*c19CmdCase{
		{Script: "sleep 0.2; echo late-to2-1", Line: "late-to2-1", WantErr: true, RespondDelay: 50 * time.Millisecond},
	} {
		r := run(k)
		p := k.params()
		p["through"] = "TO2"
		ob := core.Obs{Impl: fmt.Sprintf("stdout=%q stderr=%q code=%d(%v) fail=%q", r.out, r.errOut, r.code, r.gotCode, r.fail)}
		switch {
		case r.fail != "" || !r.gotCode:
			c.Count("command_outcome", "to2-failed")
			c.Fail("command-run-failed", fmt.Sprintf("TO2 with fdo.command running sh -c %q: %s (exit code received: %v)", k.Script, r.fail, r.gotCode), c19CmdKind, p, ob)
		case !strings.Contains(r.out, k.Line+"\n"):
			c.Count("command_outcome", "to2-output-lost")
			c.Fail("command-output-lost", fmt.Sprintf("through TO2: sh -c %q wrote the line %q and exited with %d; the owner module got the exit code %d and stdout %q", k.Script, k.Line, k.Code, r.code, r.out), c19CmdKind, p, ob)
		case r.code != k.Code:
			c.Count("command_outcome", "to2-code-differs")
			c.Fail("command-exit-code-differs", fmt.Sprintf("through TO2: sh -c %q exited with %d, the owner module got %d", k.Script, k.Code, r.code), c19CmdKind, p, ob)
		default:
			c.Count("command_outcome", "to2-ok")
		}
	}
	// observations
	direct := func(k *c19CmdCase) c19CmdResult {
		c.Rep.Evaluations++
		k.Gap = 5 * time.Millisecond
		return c19DriveCommand(k, true)
	}
	if r := direct(&c19CmdCase{Script: "echo only"}); r.fail == "" && r.out != "only\n" {
		c.Count("command_module_observed", "doubled-newline")
		c.Note("observed (not judged): fdo.command device module, `sh -c 'echo only'`: the owner module's stdout is %q (cborEncodeBuffer appends a newline to what ReadBytes('\\n') returned with its newline)", r.out)
	} else {
		c.Count("command_module_observed", "line-arrives-as-written")
	}
	if r := run(&c19CmdCase{Script: "echo a; echo b"}); r.fail != "" {
		c.Count("command_module_observed", "multi-line-aborts-to2")
		c.Note("observed (not judged): fdo.command device module, `sh -c 'echo a; echo b'`: %s; owner stdout %q (two lines available at one Yield are written as two CBOR byte strings into ONE service info value, "+
			"fsim.RunCommand decodes one and TO2Server.ownerServiceInfo rejects the unread rest)", clipS(r.fail, 300), r.out)
	} else {
		c.Count("command_module_observed", "multi-line-ok")
	}
	if r := direct(&c19CmdCase{Script: "printf abc; sleep 0.3; printf 'def\\n'"}); r.fail == "" && !strings.Contains(r.out, "abcdef") {
		c.Count("command_module_observed", "partial-line-dropped")
		c.Note("observed (not judged): fdo.command device module, `printf abc; sleep 0.3; printf 'def\\n'`: the owner module's stdout is %q (a partial line that ReadBytes consumed at a Yield is dropped)", r.out)
	} else {
		c.Count("command_module_observed", "partial-line-kept")
	}
	if r := direct(&c19CmdCase{Script: "printf nonl"}); r.fail == "" && !strings.Contains(r.out, "nonl") {
		c.Count("command_module_observed", "unterminated-last-line-dropped")
		c.Note("observed (not judged): fdo.command device module, `printf nonl`: exit code %d arrived, the owner module's stdout is %q (output that does not end in a newline is never sent)", r.code, r.out)
	} else {
		c.Count("command_module_observed", "unterminated-last-line-kept")
	}
	if r := direct(&c19CmdCase{Script: "echo bye; exit 3"}); r.fail != "" && !r.gotCode {
		c.Count("command_module_observed", "nonzero-exit-aborts-despite-may-fail")
		c.Note("observed (not judged): fdo.command device module, `echo bye; exit 3` with may_fail set: %s; owner stdout %q, no exit code (Yield returns the *exec.ExitError that cmd.Wait() gives for a "+
			"non-zero exit as \"command failed to execute\" before it looks at may_fail, so the exitcode message is only ever sent for 0)", clipS(r.fail, 200), r.out)
	} else {
		c.Count("command_module_observed", "nonzero-exit-reported")
	}
	c.Note("fsim.Command through TO2: %d runs, %.1fs with the direct probes", n, time.Since(t0).Seconds())
}

// c19More is called by RunC19 with the deployment of part 2.
func c19More(c *core.Ctx, dp *c19Deploy) {
	c.Rep.Rule += " GOROUTINE LIFECYCLE (concurrent_more.go): fdo.TO2 against the real owner service with one transport fault (error from the RoundTripper / reply 255 / connection dropped " +
		"before the response or inside its body) at each message position in turn (60, 62, 64, 66, the first, second, middle and last 68 - every 68 in the thorough tier -, 70), device modules: " +
		"the tagged stream module plus 2 or 150 extra names (devmod needs two resp. three messages), and the library's fdo.download / fdo.upload / fdo.command with a process that is still running; " +
		"also fault-free runs and every run of part 2: while the caller's context is still live, within 3 s after TO2 returned no goroutine that did not exist before may have a function of the library " +
		"on its stack or have been started by it (runtime.Stack of all goroutines before and after): goroutine-leak:after-fault-at-<msg> / after-success / after-<mode>; a fault that TO2 does not " +
		"report: transport-failure-ignored. FDO.COMMAND (concurrent_more.go): fsim.Command driven by fsim.RunCommand (directly, round by round as exchangeServiceInfo does, and through TO2) with `sh -c` " +
		"scripts that write one complete line and exit at once, after 0.2-0.95 s (thorough: 0.05-2.4 s in steps of 90 ms) or when the consumer releases them in the middle of a Yield, while the respond " +
		"callback and/or the Writes into its writer sleep 0 / 50 ms / 500 ms / 2 s: when fsim.RunCommand receives the exit code its Stdout must contain the line (command-output-lost), stderr likewise, " +
		"the exit code must be the process's (command-exit-code-differs), the drive must not fail (command-run-failed). What the module does with output that is not one complete line per round is recorded in " +
		"the histogram command_module_observed and in notes, not judged."
	(&c19Life{c: c, dp: dp, dev: map[string]*env.Device{}}).run()
	// the command cases mostly sleep: they run while the TO2 runs below are made (nothing here counts goroutines)
	wait := c19CommandStart(c)
	c19CommandTO2Runs(c, dp)
	wait()
	c19PluginStops(c, dp)
}

// development aids: `implrun -prop C19-MORE`, `-prop C19-COMMAND`
func init() {
	Registry["C19-MORE"] = func(c *core.Ctx) {
		dp, err := newC19Deploy([]env.KeySpec{env.P256}, false)
		if err != nil {
			c.Note("env: %v", err)
			return
		}
		defer dp.e.Close()
		c19More(c, dp)
	}
	Registry["C19-COMMAND"] = func(c *core.Ctx) { c19CommandStart(c)() }
}
