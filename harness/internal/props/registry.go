package props

import "verifharness/internal/core"

// Registry maps property ids to their runners.
var Registry = map[string]func(*core.Ctx){
	"C01":   RunC01,
	"C02":   RunC02,
	"C03":   RunC03,
	"C04":   RunC04,
	"C06":   RunC06,
	"C07":   RunC07,
	"C05":   RunC05,
	"C08":   RunC08,
	"C09":   RunC09,
	"C10":   RunC10,
	"C11":   RunC11,
	"C12":   RunC12,
	"C13":   RunC13,
	"C14":   RunC14,
	"C15":   RunC15,
	"C16":   RunC16,
	"C17":   RunC17,
	"C18":   RunC18,
	"C19":   RunC19,
	"C20":   RunC20,
	"SMOKE": RunSmoke,
}

// RegisterOnly registers every case kind (for replays).
func RegisterOnly(c *core.Ctx) {
	registerCborKinds(c)
	registerRvKinds(c)
	registerCoseKinds(c)
	registerCrypterKinds(c)
	registerKexKinds(c)
	registerChunkKinds(c)
	registerVoucherKinds(c)
	registerServerKinds(c)
	registerRedirectKind(c)
	registerDeviceKinds(c)
	registerMatrixKinds(c)
	registerStoreKinds(c)
	registerFsimKinds(c)
	registerHandoverKinds(c)
	registerSvcKinds(c)
}
