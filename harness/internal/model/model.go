// Package model drives the extracted Rocq model (modelrun) over a line protocol.
package model

import (
	"bufio"
	"fmt"
	"io"
	"os/exec"
	"strings"
	"sync"
)

// Oracle answers a question of the model with the Go standard library.
type Oracle func(query string) string

type Runner struct {
	mu     sync.Mutex
	cmd    *exec.Cmd
	in     io.WriteCloser
	out    *bufio.Reader
	Oracle Oracle
	Calls  int
	Asked  int
}

func Start(path string, oracle Oracle) (*Runner, error) {
	cmd := exec.Command(path)
	in, err := cmd.StdinPipe()
	if err != nil {
		return nil, err
	}
	out, err := cmd.StdoutPipe()
	if err != nil {
		return nil, err
	}
	if err := cmd.Start(); err != nil {
		return nil, err
	}
	return &Runner{cmd: cmd, in: in, out: bufio.NewReaderSize(out, 1<<20), Oracle: oracle}, nil
}

// Call evaluates one case line "<kind> <sexp>..." and returns the model's result text.
func (r *Runner) Call(line string) (string, error) {
	r.mu.Lock()
	defer r.mu.Unlock()
	r.Calls++
	if _, err := io.WriteString(r.in, line+"\n"); err != nil {
		return "", err
	}
	for {
		resp, err := r.out.ReadString('\n')
		if err != nil {
			return "", fmt.Errorf("model runner died: %w", err)
		}
		resp = strings.TrimRight(resp, "\n")
		switch {
		case strings.HasPrefix(resp, "RESULT "):
			return resp[len("RESULT "):], nil
		case strings.HasPrefix(resp, "ORACLE "):
			r.Asked++
			ans := "err"
			if r.Oracle != nil {
				ans = r.Oracle(resp[len("ORACLE "):])
			}
			if _, err := io.WriteString(r.in, ans+"\n"); err != nil {
				return "", err
			}
		default:
			return "", fmt.Errorf("unexpected line from model: %q", resp)
		}
	}
}

func (r *Runner) Close() {
	r.mu.Lock()
	defer r.mu.Unlock()
	_, _ = io.WriteString(r.in, "QUIT\n")
	_ = r.in.Close()
	_ = r.cmd.Wait()
}
