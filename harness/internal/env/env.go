// Package env builds a complete in-process FDO deployment (manufacturer DI service, rendezvous server, owner service
// behind the real http.Handler, on the real SQLite backend) plus devices, with a RoundTripper hook through which the
// property runners observe and alter every message, and a journal of the server-side effects.
package env

import (
	"bytes"
	"context"
	"crypto"
	"crypto/ecdsa"
	"crypto/elliptic"
	"crypto/hmac"
	"crypto/rand"
	"crypto/rsa"
	"crypto/sha256"
	"crypto/sha512"
	"crypto/x509"
	"crypto/x509/pkix"
	"errors"
	"fmt"
	"io"
	"iter"
	"math/big"
	"net/http"
	"net/http/httptest"
	"os"
	"path/filepath"
	"strconv"
	"strings"
	"sync"
	"sync/atomic"
	"time"

	fdo "github.com/fido-device-onboard/go-fdo"
	"github.com/fido-device-onboard/go-fdo/cbor"
	"github.com/fido-device-onboard/go-fdo/cose"
	"github.com/fido-device-onboard/go-fdo/custom"
	fdohttp "github.com/fido-device-onboard/go-fdo/http"
	"github.com/fido-device-onboard/go-fdo/kex"
	"github.com/fido-device-onboard/go-fdo/protocol"
	"github.com/fido-device-onboard/go-fdo/serviceinfo"
	"github.com/fido-device-onboard/go-fdo/sqlite"
)

// KeySpec names one of the key types the library supports.
type KeySpec struct {
	Name string
	Type protocol.KeyType
	Bits int // RSA size; 0 for EC
}

var (
	P256    = KeySpec{"P-256", protocol.Secp256r1KeyType, 0}
	P384    = KeySpec{"P-384", protocol.Secp384r1KeyType, 0}
	RSA2048 = KeySpec{"RSA2048RESTR", protocol.Rsa2048RestrKeyType, 2048}
	RSAPKCS = KeySpec{"RSAPKCS-3072", protocol.RsaPkcsKeyType, 3072}
	RSAPSS2 = KeySpec{"RSAPSS-2048", protocol.RsaPssKeyType, 2048}
	RSAPSS3 = KeySpec{"RSAPSS-3072", protocol.RsaPssKeyType, 3072}
	AllKeys = []KeySpec{P256, P384, RSA2048, RSAPKCS, RSAPSS2, RSAPSS3}
)

var (
	keyMu    sync.Mutex
	keyCache = map[string]crypto.Signer{}
)

// Key returns a cached private key of the given spec for a role ("mfg", "owner", "owner2", "dev0", ...).
func Key(spec KeySpec, role string) crypto.Signer {
	id := spec.Name + "/" + role
	keyMu.Lock()
	if k, ok := keyCache[id]; ok {
		keyMu.Unlock()
		return k
	}
	keyMu.Unlock()
	// generate outside the lock (RSA-3072 takes seconds; callers may warm the cache in parallel); first store wins
	var k crypto.Signer
	switch spec.Type {
	case protocol.Secp256r1KeyType:
		k, _ = ecdsa.GenerateKey(elliptic.P256(), rand.Reader)
	case protocol.Secp384r1KeyType:
		k, _ = ecdsa.GenerateKey(elliptic.P384(), rand.Reader)
	default:
		k, _ = rsa.GenerateKey(rand.Reader, spec.Bits)
	}
	keyMu.Lock()
	defer keyMu.Unlock()
	if prev, ok := keyCache[id]; ok {
		return prev
	}
	keyCache[id] = k
	return k
}

// SelfSigned makes a one-certificate chain for a key.
func SelfSigned(key crypto.Signer, cn string) []*x509.Certificate {
	tmpl := &x509.Certificate{SerialNumber: big.NewInt(time.Now().UnixNano()), Subject: pkix.Name{CommonName: cn},
		NotBefore: time.Now().Add(-time.Hour), NotAfter: time.Now().Add(30 * 365 * 24 * time.Hour), BasicConstraintsValid: true, IsCA: true,
		KeyUsage: x509.KeyUsageCertSign | x509.KeyUsageDigitalSignature}
	der, err := x509.CreateCertificate(rand.Reader, tmpl, tmpl, key.Public(), key)
	if err != nil {
		panic(err)
	}
	c, _ := x509.ParseCertificate(der)
	return []*x509.Certificate{c}
}

// Chain makes a two-certificate chain [leaf for key, CA]: the leaf is what an X5CHAIN public key stands for.
func Chain(key crypto.Signer, cn string) []*x509.Certificate {
	ca := Key(P256, cn+"-ca")
	caChain := SelfSigned(ca, cn+" CA")
	tmpl := &x509.Certificate{SerialNumber: big.NewInt(time.Now().UnixNano()), Subject: pkix.Name{CommonName: cn},
		NotBefore: time.Now().Add(-time.Hour), NotAfter: time.Now().Add(30 * 365 * 24 * time.Hour),
		KeyUsage: x509.KeyUsageDigitalSignature}
	der, err := x509.CreateCertificate(rand.Reader, tmpl, caChain[0], key.Public(), ca)
	if err != nil {
		panic(err)
	}
	c, _ := x509.ParseCertificate(der)
	return []*x509.Certificate{c, caChain[0]}
}

// faultyTokens lets a check make token invalidation fail (a fault of the token store): while Env.InvalFail > 0 every
// InvalidateToken call decrements it and returns an error without invalidating anything.
type faultyTokens struct {
	protocol.TokenService
	e *Env
}

func (t faultyTokens) InvalidateToken(ctx context.Context) error {
	if atomic.LoadInt32(&t.e.InvalFail) > 0 {
		atomic.AddInt32(&t.e.InvalFail, -1)
		return errors.New("injected fault: token store unavailable")
	}
	return t.TokenService.InvalidateToken(ctx)
}

// ---- message hook ----

// Exchange is one observed request/response pair.
type Exchange struct {
	MsgType  int
	Status   int
	RespType int
	ReqLen   int
	RespLen  int
	Panic    string
}

// Hook may return a response to short-circuit, or nil to let the (possibly altered) request through with do.
type Hook func(msgType int, req *http.Request, body []byte, do func(body []byte, hdr http.Header) *http.Response) *http.Response

type HookRT struct {
	H    http.Handler
	Hook Hook
	mu   sync.Mutex
	Log  []Exchange
	// RespHook may alter a response on its way to the client.
	RespHook func(msgType int, resp *http.Response, body []byte) []byte
	// Chunked: requests reach the handler without a Content-Length (ContentLength -1, Transfer-Encoding chunked).
	Chunked bool
	// cancelCur cancels the context of the request being served (see CancelCurrent): a client that hangs up.
	cancelCur context.CancelFunc
}

// CancelCurrent cancels the context of the request that is being served right now, if any.
func (rt *HookRT) CancelCurrent() {
	rt.mu.Lock()
	c := rt.cancelCur
	rt.mu.Unlock()
	if c != nil {
		c()
	}
}

func (rt *HookRT) add(e Exchange) {
	rt.mu.Lock()
	rt.Log = append(rt.Log, e)
	rt.mu.Unlock()
}

func (rt *HookRT) Reset() {
	rt.mu.Lock()
	rt.Log = nil
	rt.mu.Unlock()
}

// Do sends one raw request through the handler, recovering handler panics.
func (rt *HookRT) Do(msgType int, body []byte, hdr http.Header) *http.Response {
	req := httptest.NewRequest(http.MethodPost, "/fdo/101/msg/"+strconv.Itoa(msgType), bytes.NewReader(body))
	req.ContentLength = int64(len(body))
	if rt.Chunked {
		req.ContentLength = -1
		req.TransferEncoding = []string{"chunked"}
	}
	for k, v := range hdr {
		req.Header[k] = v
	}
	rctx, rcancel := context.WithCancel(req.Context())
	defer rcancel()
	req = req.WithContext(rctx)
	rt.mu.Lock()
	rt.cancelCur = rcancel
	rt.mu.Unlock()
	defer func() {
		rt.mu.Lock()
		rt.cancelCur = nil
		rt.mu.Unlock()
	}()
	var buf bytes.Buffer
	rr := &httptest.ResponseRecorder{Body: &buf}
	ex := Exchange{MsgType: msgType, ReqLen: len(body)}
	func() {
		defer func() {
			if r := recover(); r != nil {
				ex.Panic = fmt.Sprint(r)
				rr = &httptest.ResponseRecorder{Body: &buf}
				rr.WriteHeader(599)
			}
		}()
		rt.H.ServeHTTP(rr, req)
	}()
	resp := rr.Result()
	ex.Status = resp.StatusCode
	ex.RespType, _ = strconv.Atoi(resp.Header.Get("Message-Type"))
	ex.RespLen = buf.Len()
	rt.add(ex)
	return resp
}

func (rt *HookRT) RoundTrip(req *http.Request) (*http.Response, error) {
	body, _ := io.ReadAll(req.Body)
	parts := strings.Split(req.URL.Path, "/")
	mt, _ := strconv.Atoi(parts[len(parts)-1])
	do := func(b []byte, hdr http.Header) *http.Response {
		h := req.Header.Clone()
		for k, v := range hdr {
			h[k] = v
		}
		resp := rt.Do(mt, b, h)
		resp.Request = req
		return resp
	}
	var resp *http.Response
	if rt.Hook != nil {
		resp = rt.Hook(mt, req, body, do)
	}
	if resp == nil {
		resp = do(body, nil)
	}
	if rt.RespHook != nil {
		rb, _ := io.ReadAll(resp.Body)
		nb := rt.RespHook(mt, resp, rb)
		resp.Body = io.NopCloser(bytes.NewReader(nb))
		resp.ContentLength = int64(len(nb))
		resp.Header.Set("Content-Length", strconv.Itoa(len(nb)))
	}
	return resp, nil
}

// ---- journal of server-side effects ----

type Effect struct {
	Kind string // di-voucher, rv-blob, module-invoke, voucher-replace, voucher-remove
	GUID string
	Info string
}

type Journal struct {
	mu sync.Mutex
	E  []Effect
	// OnAdd (optional) runs right after an effect was recorded, i.e. inside the request that caused it.
	OnAdd func(kind string)
}

func (j *Journal) Add(kind, guid, info string) {
	j.mu.Lock()
	j.E = append(j.E, Effect{kind, guid, info})
	f := j.OnAdd
	j.mu.Unlock()
	if f != nil {
		f(kind)
	}
}
func (j *Journal) Len() int { j.mu.Lock(); defer j.mu.Unlock(); return len(j.E) }
func (j *Journal) Since(n int) []Effect {
	j.mu.Lock()
	defer j.mu.Unlock()
	return append([]Effect(nil), j.E[n:]...)
}

// jstate wraps the SQLite backend and records the effects the properties speak about.
type jstate struct {
	*sqlite.DB
	j *Journal
	e *Env
}

func (s jstate) AddVoucher(ctx context.Context, ov *fdo.Voucher) error {
	err := s.DB.AddVoucher(ctx, ov)
	if err == nil {
		s.j.Add("di-voucher", fmt.Sprintf("%x", ov.Header.Val.GUID[:]), fmt.Sprint(len(ov.Entries)))
	}
	return err
}
func (s jstate) SetRVBlob(ctx context.Context, ov *fdo.Voucher, to1d *cose.Sign1[protocol.To1d, []byte], exp time.Time) error {
	err := s.DB.SetRVBlob(ctx, ov, to1d, exp)
	if err == nil {
		s.j.Add("rv-blob", fmt.Sprintf("%x", ov.Header.Val.GUID[:]), strconv.FormatInt(int64(time.Until(exp).Round(time.Second)/time.Second), 10))
	}
	return err
}
func (s jstate) ReplaceVoucher(ctx context.Context, guid protocol.GUID, ov *fdo.Voucher) error {
	if s.e != nil {
		if h := s.e.BeforeReplace; h != nil {
			s.e.BeforeReplace = nil // one shot: whatever the hook does may itself replace a voucher
			h()
		}
	}
	err := s.DB.ReplaceVoucher(ctx, guid, ov)
	if err == nil {
		s.j.Add("voucher-replace", fmt.Sprintf("%x", guid[:]), fmt.Sprintf("%x", ov.Header.Val.GUID[:]))
	}
	return err
}
func (s jstate) RemoveVoucher(ctx context.Context, guid protocol.GUID) (*fdo.Voucher, error) {
	ov, err := s.DB.RemoveVoucher(ctx, guid)
	if err == nil {
		s.j.Add("voucher-remove", fmt.Sprintf("%x", guid[:]), "")
	}
	return ov, err
}

// jsess wraps the TO2 session state and records, in a journal of its own (Env.Sess; the effect journal is unchanged),
// the replacement values the owner's TO2 session holds: "to2-replacement-guid" (GUID = the new GUID) and "to2-rvinfo"
// (Info = hex of the CBOR of the rendezvous info).
type jsess struct {
	*sqlite.DB
	j *Journal
}

func (s jsess) SetReplacementGUID(ctx context.Context, guid protocol.GUID) error {
	err := s.DB.SetReplacementGUID(ctx, guid)
	if err == nil {
		s.j.Add("to2-replacement-guid", fmt.Sprintf("%x", guid[:]), "")
	}
	return err
}

func (s jsess) SetRvInfo(ctx context.Context, rvInfo [][]protocol.RvInstruction) error {
	err := s.DB.SetRvInfo(ctx, rvInfo)
	if err == nil {
		b, _ := cbor.Marshal(rvInfo)
		s.j.Add("to2-rvinfo", "", fmt.Sprintf("%x", b))
	}
	return err
}

// ---- owner module state machine (per token), as applications write it ----

type OwnerModules func(ctx context.Context, guid protocol.GUID, devmod serviceinfo.Devmod, supported []string) iter.Seq2[string, serviceinfo.OwnerModule]

type modState struct {
	name string
	impl serviceinfo.OwnerModule
	next func() (string, serviceinfo.OwnerModule, bool)
	stop func()
}

type modSM struct {
	e   *Env
	mu  sync.Mutex
	cur map[string]*modState
}

func (s *modSM) key(ctx context.Context) string { t, _ := s.e.DB.TokenFromContext(ctx); return t }

func (s *modSM) Module(ctx context.Context) (string, serviceinfo.OwnerModule, error) {
	s.mu.Lock()
	defer s.mu.Unlock()
	m := s.cur[s.key(ctx)]
	if m == nil || m.impl == nil {
		return "", nil, fmt.Errorf("no module")
	}
	return m.name, m.impl, nil
}

func (s *modSM) NextModule(ctx context.Context) (bool, error) {
	s.mu.Lock()
	defer s.mu.Unlock()
	k := s.key(ctx)
	if m := s.cur[k]; m != nil {
		var ok bool
		m.name, m.impl, ok = m.next()
		return ok, nil
	}
	guid, _ := s.e.DB.GUID(ctx)
	dm, mods, _, _ := s.e.DB.Devmod(ctx)
	seq := func(func(string, serviceinfo.OwnerModule) bool) {}
	if s.e.OwnerModules != nil {
		seq = s.e.OwnerModules(ctx, guid, dm, mods)
	}
	next, stop := iter.Pull2(iter.Seq2[string, serviceinfo.OwnerModule](seq))
	n, i, ok := next()
	s.cur[k] = &modState{n, i, next, stop}
	return ok, nil
}

func (s *modSM) CleanupModules(ctx context.Context) {
	s.mu.Lock()
	defer s.mu.Unlock()
	k := s.key(ctx)
	if m := s.cur[k]; m != nil {
		m.stop()
		delete(s.cur, k)
	}
}

// ---- the deployment ----

type Env struct {
	Dir     string
	File    string
	DB      *sqlite.DB
	Spec    KeySpec
	Journal *Journal
	RT      *HookRT
	Handler *fdohttp.Handler
	DIS     *fdo.DIServer[custom.DeviceMfgInfo]
	TO0S    *fdo.TO0Server
	TO1S    *fdo.TO1Server
	TO2S    *fdo.TO2Server

	OwnerModules OwnerModules
	OwnerMTU     uint16
	Reuse        bool
	RvInfo       [][]protocol.RvInstruction
	// TO2RvInfo, when not nil, is the rendezvous info the owner service puts into replacement credentials (default: RvInfo)
	TO2RvInfo [][]protocol.RvInstruction
	// Sess records what the owner's TO2 sessions stored as replacement GUID / rendezvous info (see jsess)
	Sess      *Journal
	AcceptTTL func(requested uint32) (uint32, error)
	// BeforeReplace (one shot) runs inside the owner's TO2.Done handling right before the voucher store is asked to replace
	// the voucher: whatever it does happens between that session's voucher lookup and its replacement (an interleaving
	// with another request made deterministic)
	BeforeReplace func()
	InvalFail     int32 // number of upcoming InvalidateToken calls that fail (see faultyTokens)
	devCA         crypto.Signer
	devCAChain    []*x509.Certificate
	nDev          int
	// OwnerRole names the cached key (see Key) the owner service signs with: "owner" unless made by NewWithOwner.
	OwnerRole string
	// Opt holds the optional settings of NewWithOptions (zero value: the defaults of New).
	Opt Options
}

// Options are optional deployment settings; the zero value is what New builds.
type Options struct {
	// OwnerRole: see NewWithOwner ("" = "owner").
	OwnerRole string
	// Extra lists further key types: the deployment registers a manufacturer key and an owner key of each of them (next to
	// Spec's), so that devices of several key types can be manufactured and onboarded by the one deployment. With Extra
	// set, the RSA size of the manufacturer key for a device is taken from the size of the device's own (CSR) key.
	Extra []KeySpec
	// PoolConns leaves database/sql's default connection pool in place (sqlite.Open's own behaviour) instead of the
	// single connection every other deployment uses.
	PoolConns bool
}

// NewWithOptions is New with optional settings.
func NewWithOptions(baseDir string, spec KeySpec, opt Options) (*Env, error) {
	if opt.OwnerRole == "" {
		opt.OwnerRole = "owner"
	}
	return newEnv(baseDir, spec, opt)
}

var dirSeq int
var dirMu sync.Mutex

// New creates a deployment whose manufacturer and owner keys have the given type. baseDir must be writable.
func New(baseDir string, spec KeySpec) (*Env, error) { return NewWithOwner(baseDir, spec, "owner") }

// NewWithOwner is New with the owner service's key taken from another role ("owner2": the buyer in a resale).
func NewWithOwner(baseDir string, spec KeySpec, ownerRole string) (*Env, error) {
	return newEnv(baseDir, spec, Options{OwnerRole: ownerRole})
}

func newEnv(baseDir string, spec KeySpec, opt Options) (*Env, error) {
	ownerRole := opt.OwnerRole
	dirMu.Lock()
	dirSeq++
	dir := filepath.Join(baseDir, fmt.Sprintf("env-%d-%d", os.Getpid(), dirSeq))
	dirMu.Unlock()
	if err := os.MkdirAll(dir, 0o755); err != nil {
		return nil, err
	}
	e := &Env{Dir: dir, File: filepath.Join(dir, "fdo.db"), Spec: spec, Journal: &Journal{}, OwnerRole: ownerRole, Opt: opt}
	if err := e.open(true); err != nil {
		return nil, err
	}
	return e, nil
}

// open (re)opens the database and rebuilds every server object from it: nothing survives but the file.
func (e *Env) open(first bool) error {
	db, err := sqlite.Open(e.File, "verif")
	if err != nil {
		return err
	}
	if !e.Opt.PoolConns {
		db.DB().SetMaxOpenConns(1)
	}
	// the single connection skips fsync: the harness never crashes the operating system, and restarts reopen the file
	_, _ = db.DB().Exec("PRAGMA synchronous=OFF")
	e.DB = db
	if first {
		mk, ok := Key(e.Spec, "mfg"), Key(e.Spec, e.OwnerRole)
		if err := db.AddManufacturerKey(e.Spec.Type, mk, Chain(mk, "mfg")); err != nil {
			return err
		}
		if err := db.AddOwnerKey(e.Spec.Type, ok, Chain(ok, e.OwnerRole)); err != nil {
			return err
		}
		for _, x := range e.Opt.Extra {
			mk, ok := Key(x, "mfg"), Key(x, e.OwnerRole)
			if err := db.AddManufacturerKey(x.Type, mk, Chain(mk, "mfg")); err != nil {
				return err
			}
			if err := db.AddOwnerKey(x.Type, ok, Chain(ok, e.OwnerRole)); err != nil {
				return err
			}
		}
		e.devCA = Key(P384, "devca")
		e.devCAChain = SelfSigned(e.devCA, "device CA")
	}
	st := jstate{db, e.Journal, e}
	if e.Sess == nil {
		e.Sess = &Journal{}
	}
	e.DIS = &fdo.DIServer[custom.DeviceMfgInfo]{
		Session: db, Vouchers: st,
		SignDeviceCertificate: custom.SignDeviceCertificate(e.devCA, e.devCAChain),
		DeviceInfo: func(ctx context.Context, info *custom.DeviceMfgInfo, _ []*x509.Certificate) (string, protocol.PublicKey, error) {
			bits := e.Spec.Bits
			if len(e.Opt.Extra) > 0 {
				if pub, isRSA := info.CertInfo.PublicKey.(*rsa.PublicKey); isRSA {
					bits = pub.N.BitLen()
				}
			}
			k, chain, err := db.ManufacturerKey(ctx, info.KeyType, bits)
			if err != nil {
				return "", protocol.PublicKey{}, err
			}
			var pk *protocol.PublicKey
			switch info.KeyEncoding {
			case protocol.X5ChainKeyEnc:
				pk, err = protocol.NewPublicKey(info.KeyType, chain, false)
			default:
				switch pub := k.Public().(type) {
				case *ecdsa.PublicKey:
					pk, err = protocol.NewPublicKey(info.KeyType, pub, info.KeyEncoding == protocol.CoseKeyEnc)
				case *rsa.PublicKey:
					pk, err = protocol.NewPublicKey(info.KeyType, pub, info.KeyEncoding == protocol.CoseKeyEnc)
				}
			}
			if err != nil {
				return "", protocol.PublicKey{}, err
			}
			return "verif-device", *pk, nil
		},
		RvInfo: func(context.Context, *fdo.Voucher) ([][]protocol.RvInstruction, error) { return e.rvInfo(), nil },
		BeforeVoucherPersist: func(ctx context.Context, ov *fdo.Voucher) error {
			return fdo.AllInOne{DIAndOwner: db}.Extend(ctx, ov)
		},
	}
	e.TO0S = &fdo.TO0Server{Session: db, RVBlobs: st}
	e.TO0S.AcceptVoucher = func(_ context.Context, _ fdo.Voucher, req uint32) (uint32, error) {
		if e.AcceptTTL != nil {
			return e.AcceptTTL(req)
		}
		return req, nil
	}
	e.TO1S = &fdo.TO1Server{Session: db, RVBlobs: st}
	e.TO2S = &fdo.TO2Server{
		Session: jsess{db, e.Sess}, Vouchers: st, OwnerKeys: db, VouchersForExtension: st,
		Modules: &modSM{e: e, cur: map[string]*modState{}},
		RvInfo: func(context.Context, fdo.Voucher) ([][]protocol.RvInstruction, error) {
			if e.TO2RvInfo != nil {
				return e.TO2RvInfo, nil
			}
			return e.rvInfo(), nil
		},
		ReuseCredential: func(context.Context, fdo.Voucher) (bool, error) { return e.Reuse, nil },
		MaxDeviceServiceInfoSize: func(context.Context, fdo.Voucher) (uint16, error) {
			if e.OwnerMTU == 0 {
				return serviceinfo.DefaultMTU, nil
			}
			return e.OwnerMTU, nil
		},
	}
	e.Handler = &fdohttp.Handler{Tokens: faultyTokens{TokenService: db, e: e}, DIResponder: e.DIS, TO0Responder: e.TO0S, TO1Responder: e.TO1S, TO2Responder: e.TO2S}
	if e.RT == nil {
		e.RT = &HookRT{}
	}
	e.RT.H = e.Handler
	return nil
}

func (e *Env) rvInfo() [][]protocol.RvInstruction {
	if e.RvInfo != nil {
		return e.RvInfo
	}
	return [][]protocol.RvInstruction{}
}

// Restart closes the database and rebuilds all server objects from the file (crash/restart point).
func (e *Env) Restart() error {
	_ = e.DB.Close()
	return e.open(false)
}

func (e *Env) Close() {
	_ = e.DB.Close()
	_ = os.RemoveAll(e.Dir)
}

func (e *Env) Transport() *fdohttp.Transport {
	return &fdohttp.Transport{BaseURL: "http://fdo.test", Client: &http.Client{Transport: e.RT}}
}

// ---- devices ----

type Device struct {
	Spec   KeySpec
	Enc    protocol.KeyEncoding
	Key    crypto.Signer
	Secret []byte
	Cred   *fdo.DeviceCredential
}

func (d *Device) Hmacs() (h256, h384 interface {
	io.Writer
	Sum([]byte) []byte
	Reset()
	Size() int
	BlockSize() int
}) {
	return hmac.New(sha256.New, d.Secret), hmac.New(sha512.New384, d.Secret)
}

// NewDevice runs DI for a fresh device of the deployment's key type.
func (e *Env) NewDevice(ctx context.Context, enc protocol.KeyEncoding) (*Device, error) {
	e.nDev++
	d := &Device{Spec: e.Spec, Enc: enc, Key: Key(e.Spec, fmt.Sprintf("dev%d", e.nDev%4)), Secret: make([]byte, 32)}
	_, _ = rand.Read(d.Secret)
	csrDER, err := x509.CreateCertificateRequest(rand.Reader, &x509.CertificateRequest{Subject: pkix.Name{CommonName: "device"}}, d.Key)
	if err != nil {
		return nil, err
	}
	csr, _ := x509.ParseCertificateRequest(csrDER)
	cred, err := fdo.DI(ctx, e.Transport(), custom.DeviceMfgInfo{KeyType: e.Spec.Type, KeyEncoding: enc, SerialNumber: fmt.Sprint(e.nDev),
		DeviceInfo: "verif", CertInfo: cbor.X509CertificateRequest(*csr)},
		fdo.DIConfig{HmacSha256: hmac.New(sha256.New, d.Secret), HmacSha384: hmac.New(sha512.New384, d.Secret), Key: d.Key, PSS: e.Spec.Type == protocol.RsaPssKeyType})
	if err != nil {
		return nil, err
	}
	d.Cred = cred
	return d, nil
}

// DefaultKex returns a key exchange suite that is valid for the key type.
func DefaultKex(spec KeySpec) kex.Suite {
	switch spec.Type {
	case protocol.Secp256r1KeyType:
		return kex.ECDH256Suite
	case protocol.Secp384r1KeyType:
		return kex.ECDH384Suite
	}
	if spec.Bits >= 3072 {
		return kex.DHKEXid15Suite
	}
	return kex.DHKEXid14Suite
}

func (d *Device) TO2Config(suite kex.Suite, cipher kex.CipherSuiteID) fdo.TO2Config {
	return fdo.TO2Config{Cred: *d.Cred, HmacSha256: hmac.New(sha256.New, d.Secret), HmacSha384: hmac.New(sha512.New384, d.Secret), Key: d.Key,
		PSS:         d.Spec.Type == protocol.RsaPssKeyType,
		Devmod:      serviceinfo.Devmod{Os: "linux", Arch: "amd64", Version: "1", Device: "verif", FileSep: "/", Bin: "amd64"},
		KeyExchange: suite, CipherSuite: cipher}
}

// TO0 registers a redirect blob for the device's GUID with the rendezvous server.
func (e *Env) TO0(ctx context.Context, guid protocol.GUID, addrs []protocol.RvTO2Addr) (uint32, error) {
	c := &fdo.TO0Client{Vouchers: e.DB, OwnerKeys: e.DB}
	return c.RegisterBlob(ctx, e.Transport(), guid, addrs)
}

func (e *Env) TO1(ctx context.Context, d *Device) (*cose.Sign1[protocol.To1d, []byte], error) {
	return fdo.TO1(ctx, e.Transport(), *d.Cred, d.Key, &fdo.TO1Options{PSS: d.Spec.Type == protocol.RsaPssKeyType})
}

func (e *Env) TO2(ctx context.Context, d *Device, to1d *cose.Sign1[protocol.To1d, []byte], cfg fdo.TO2Config) (*fdo.DeviceCredential, error) {
	return fdo.TO2(ctx, e.Transport(), to1d, cfg)
}
