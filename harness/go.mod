module verifharness

go 1.25.0

require (
	github.com/fido-device-onboard/go-fdo v0.0.0
	github.com/fido-device-onboard/go-fdo/fsim v0.0.0
	github.com/fido-device-onboard/go-fdo/sqlite v0.0.0
)

replace github.com/fido-device-onboard/go-fdo => /repo

replace github.com/fido-device-onboard/go-fdo/sqlite => /repo/sqlite

replace github.com/fido-device-onboard/go-fdo/fsim => /repo/fsim
