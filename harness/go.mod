module verifharness

go 1.25.0

require (
	github.com/fido-device-onboard/go-fdo v0.0.0
	github.com/fido-device-onboard/go-fdo/fsim v0.0.0
	github.com/fido-device-onboard/go-fdo/sqlite v0.0.0
	github.com/fido-device-onboard/go-fdo/tpm v0.0.0
	github.com/google/go-tpm v0.9.8
)

require (
	github.com/google/go-tpm-tools v0.4.7 // indirect
	github.com/ncruces/go-sqlite3 v0.30.5 // indirect
	github.com/ncruces/julianday v1.0.0 // indirect
	github.com/tetratelabs/wazero v1.11.0 // indirect
	golang.org/x/crypto v0.47.0 // indirect
	golang.org/x/sys v0.40.0 // indirect
)

replace github.com/fido-device-onboard/go-fdo => /repo

replace github.com/fido-device-onboard/go-fdo/sqlite => /repo/sqlite

replace github.com/fido-device-onboard/go-fdo/fsim => /repo/fsim

replace github.com/fido-device-onboard/go-fdo/tpm => /repo/tpm
