(* Base/Bytes.v — bytes, big-endian integers, hex text.  Model + its basic lemmas. *)
From Coq Require Export List NArith ZArith Lia Bool.
From Coq Require Export ZifyN ZifyNat ZifyBool.
From Coq Require Export Strings.Byte.
Export ListNotations.
Ltac Zify.zify_post_hook ::= Z.div_mod_to_equations.

Definition bytes := list byte.

Definition byte_of_N (n : N) : byte :=
  match Byte.of_N (n mod 256) with Some b => b | None => x00 end.

Lemma to_of_N n : (n < 256)%N -> Byte.to_N (byte_of_N n) = n.
Proof.
  intros H. unfold byte_of_N. rewrite N.mod_small by lia.
  destruct (Byte.of_N n) eqn:E.
  - apply Byte.to_of_N in E. exact E.
  - apply Byte.of_N_None_iff in E. lia.
Qed.

Lemma of_to_N' b : byte_of_N (Byte.to_N b) = b.
Proof.
  unfold byte_of_N. pose proof (Byte.to_N_bounded b).
  rewrite N.mod_small by lia. now rewrite Byte.of_to_N.
Qed.

Lemma to_N_lt b : (Byte.to_N b < 256)%N.
Proof. pose proof (Byte.to_N_bounded b). lia. Qed.

Definition byte_eqb (a b : byte) : bool := N.eqb (Byte.to_N a) (Byte.to_N b).

Lemma byte_eqb_eq a b : byte_eqb a b = true <-> a = b.
Proof.
  unfold byte_eqb. rewrite N.eqb_eq. split; [|now intros ->].
  intros H. rewrite <- (of_to_N' a), <- (of_to_N' b). now rewrite H.
Qed.

Fixpoint bytes_eqb (a b : bytes) : bool :=
  match a, b with
  | [], [] => true
  | x :: a', y :: b' => byte_eqb x y && bytes_eqb a' b'
  | _, _ => false
  end.

Lemma bytes_eqb_eq a b : bytes_eqb a b = true <-> a = b.
Proof.
  revert b; induction a as [|x a IH]; intros [|y b]; simpl; split; try congruence; auto.
  - rewrite andb_true_iff, byte_eqb_eq, IH. now intros [-> ->].
  - intros E; inversion E; subst. rewrite andb_true_iff, byte_eqb_eq, IH. auto.
Qed.

Lemma bytes_eqb_refl a : bytes_eqb a a = true.
Proof. now apply bytes_eqb_eq. Qed.

(* ---- big endian ---- *)
Fixpoint be (k : nat) (n : N) : bytes :=
  match k with
  | O => []
  | S k' => be k' (n / 256) ++ [byte_of_N n]
  end.

Fixpoint of_be_acc (acc : N) (l : bytes) : N :=
  match l with
  | [] => acc
  | b :: l' => of_be_acc (acc * 256 + Byte.to_N b) l'
  end.
Definition of_be := of_be_acc 0.

Lemma of_be_acc_app acc l1 l2 : of_be_acc acc (l1 ++ l2) = of_be_acc (of_be_acc acc l1) l2.
Proof. revert acc; induction l1 as [|b l IH]; intros; simpl; auto. Qed.

Lemma of_be_acc_shift acc l : of_be_acc acc l = (acc * 256 ^ N.of_nat (length l) + of_be_acc 0 l)%N.
Proof.
  revert acc; induction l as [|b l IH]; intros acc.
  - simpl. lia.
  - cbn [of_be_acc length]. rewrite IH. rewrite (IH (0 * 256 + Byte.to_N b)%N).
    rewrite Nat2N.inj_succ, N.pow_succ_r by lia. lia.
Qed.

Lemma be_length k n : length (be k n) = k.
Proof. revert n; induction k as [|k IH]; intros; simpl; auto. rewrite app_length, IH. simpl. lia. Qed.

Lemma of_be_be k n : (n < 256 ^ N.of_nat k)%N -> of_be (be k n) = n.
Proof.
  unfold of_be. revert n; induction k as [|k IH]; intros n H.
  - simpl in *. lia.
  - cbn [be]. rewrite of_be_acc_app. rewrite IH.
    + cbn [of_be_acc]. unfold byte_of_N.
      assert (Hm: (n mod 256 < 256)%N) by (apply N.mod_lt; lia).
      pose proof (to_of_N (n mod 256) Hm) as E. unfold byte_of_N in E.
      rewrite N.mod_mod in E by lia. rewrite E.
      pose proof (N.div_mod n 256). lia.
    + rewrite Nat2N.inj_succ, N.pow_succ_r in H by lia.
      apply N.div_lt_upper_bound; lia.
Qed.

Lemma of_be_bound l : (of_be l < 256 ^ N.of_nat (length l))%N.
Proof.
  unfold of_be. induction l as [|b l IH] using rev_ind.
  - simpl. lia.
  - rewrite of_be_acc_app, app_length. cbn [of_be_acc length].
    pose proof (to_N_lt b). replace (length l + 1)%nat with (S (length l)) by lia.
    rewrite Nat2N.inj_succ, N.pow_succ_r by lia. lia.
Qed.

Lemma be_of_be l : be (length l) (of_be l) = l.
Proof.
  unfold of_be. induction l as [|b l IH] using rev_ind.
  - reflexivity.
  - rewrite app_length. simpl length. replace (length l + 1)%nat with (S (length l)) by lia.
    cbn [be]. rewrite of_be_acc_app. cbn [of_be_acc].
    pose proof (to_N_lt b).
    replace ((of_be_acc 0 l * 256 + Byte.to_N b) / 256)%N with (of_be_acc 0 l) by lia.
    rewrite IH. f_equal. f_equal.
    unfold byte_of_N.
    replace ((of_be_acc 0 l * 256 + Byte.to_N b) mod 256)%N with (Byte.to_N b) by lia.
    now rewrite Byte.of_to_N.
Qed.

(* ---- take ---- *)
Definition take {A} (k : nat) (b : list A) : option (list A * list A) :=
  if Nat.leb k (length b) then Some (firstn k b, skipn k b) else None.

Lemma take_app {A} k (a r : list A) : length a = k -> take k (a ++ r) = Some (a, r).
Proof.
  intros H. unfold take. rewrite app_length.
  destruct (Nat.leb_spec k (length a + length r)); [|lia].
  subst k. rewrite firstn_app, Nat.sub_diag, firstn_all, skipn_app, skipn_all, Nat.sub_diag. simpl.
  now rewrite app_nil_r.
Qed.

Lemma take_spec {A} k (b a r : list A) : take k b = Some (a, r) -> b = a ++ r /\ length a = k.
Proof.
  unfold take. destruct (Nat.leb_spec k (length b)); [|discriminate].
  intros E; inversion E; subst. split; [now rewrite firstn_skipn|].
  now apply firstn_length_le.
Qed.

Lemma take_none {A} k (b : list A) : take k b = None <-> (length b < k)%nat.
Proof. unfold take. destruct (Nat.leb_spec k (length b)); split; intros; first [discriminate | reflexivity | lia]. Qed.

(* ---- hex text (ASCII) — used by the dispatcher to render results and oracle queries ---- *)
Definition hex_digit (n : N) : byte :=
  if (n <? 10)%N then byte_of_N (48 + n) else byte_of_N (87 + n).

Definition hex_of_byte (b : byte) : bytes :=
  let v := Byte.to_N b in [hex_digit (v / 16); hex_digit (v mod 16)].

Definition hex (b : bytes) : bytes := flat_map hex_of_byte b.

Definition unhex_digit (c : byte) : option N :=
  let v := Byte.to_N c in
  if (48 <=? v)%N && (v <=? 57)%N then Some (v - 48)%N
  else if (97 <=? v)%N && (v <=? 102)%N then Some (v - 87)%N
  else None.

Fixpoint unhex (s : bytes) : option bytes :=
  match s with
  | [] => Some []
  | a :: b :: r =>
    match unhex_digit a, unhex_digit b, unhex r with
    | Some x, Some y, Some t => Some (byte_of_N (x * 16 + y) :: t)
    | _, _, _ => None
    end
  | _ => None
  end.

(* minimal big-endian representation of n (big.Int.Bytes): [] for 0 *)
Fixpoint be_min_fuel (fuel : nat) (n : N) (acc : bytes) : bytes :=
  match fuel with
  | O => acc
  | S f => if (n =? 0)%N then acc else be_min_fuel f (n / 256) (byte_of_N n :: acc)
  end.
Definition be_min (n : N) : bytes := be_min_fuel (S (N.to_nat (N.log2 n))) n [].

(* N rendered as lower-case hex without leading zeros ("0" for 0) *)
Fixpoint hexnum_fuel (fuel : nat) (n : N) (acc : bytes) : bytes :=
  match fuel with
  | O => acc
  | S f => if (n =? 0)%N then acc else hexnum_fuel f (n / 16) (hex_digit (n mod 16) :: acc)
  end.
Definition hexnum (n : N) : bytes :=
  if (n =? 0)%N then [byte_of_N 48] else hexnum_fuel (S (N.to_nat (N.log2 n))) n [].
Definition hexnumZ (z : Z) : bytes :=
  if (z <? 0)%Z then byte_of_N 45 :: hexnum (Z.to_N (- z)) else hexnum (Z.to_N z).
