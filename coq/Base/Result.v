(* Base/Result.v — outcomes of modelled Go operations: value, error, panic (a value!), out of fuel. *)
From FDO Require Export Base.Bytes.

(* Error classes are deliberately coarse: the correspondence check compares classes, never strings. *)
Inductive err :=
| EEOF            (* io.EOF / unexpected EOF while reading *)
| ETooLong        (* declared length above the documented limit *)
| EType           (* unsupported / mismatching target type, overflow, wrong count *)
| ETrailing       (* Unmarshal: bytes left over *)
| ENull           (* null/undefined where not allowed *)
| EOther.

(* Panic sites (classes of Go run-time panics the model mirrors). *)
Inductive psite :=
| PMakeSlice      (* make([]byte, n) with n out of range *)
| PIndex          (* index / slice bounds *)
| PNil            (* nil dereference *)
| PExplicit       (* explicit panic(...) in library code *)
| PRegistry.      (* registry lookup that panics *)

Inductive outcome (A : Type) :=
| Ok (a : A)
| Err (e : err)
| Panic (p : psite)
| OutOfFuel.
Arguments Ok {A} a.
Arguments Err {A} e.
Arguments Panic {A} p.
Arguments OutOfFuel {A}.

Definition bind {A B} (x : outcome A) (f : A -> outcome B) : outcome B :=
  match x with
  | Ok a => f a
  | Err e => Err e
  | Panic p => Panic p
  | OutOfFuel => OutOfFuel
  end.
Notation "'let*' x ':=' e 'in' f" := (bind e (fun x => f)) (at level 200, x pattern, e at level 100, f at level 200).

Definition is_ok {A} (x : outcome A) : bool := match x with Ok _ => true | _ => false end.
Definition is_panic {A} (x : outcome A) : bool := match x with Panic _ => true | _ => false end.
Definition is_oof {A} (x : outcome A) : bool := match x with OutOfFuel => true | _ => false end.
Definition total {A} (x : outcome A) : Prop := match x with Ok _ | Err _ => True | _ => False end.

Definition err_code (e : err) : N :=
  match e with EEOF => 1 | ETooLong => 2 | EType => 3 | ETrailing => 4 | ENull => 5 | EOther => 6 end.
Definition psite_code (p : psite) : N :=
  match p with PMakeSlice => 1 | PIndex => 2 | PNil => 3 | PExplicit => 4 | PRegistry => 5 end.
