(* Fsim/TransferFacts.v — files arrive bit-identical under the announced name, or not at all. *)
From FDO Require Import Fsim.Transfer.
From Coq Require Import Lia.
Local Open Scope Z_scope.

Section Facts.
  Variable sha384 : bytes -> bytes.
  Notation dl_step := (dl_step sha384).
  Notation dl_run := (dl_run sha384).
  Notation ul_step := (ul_step sha384).
  Notation ul_run := (ul_run sha384).

  (* ---- receivers: a file appears only if length and digest match what was announced ---- *)
  Theorem dl_sound s m s' rp n c : dl_step s m = (s', rp, Some (n, c)) ->
    exists chunks, m = MData chunks false /\ c = r_buf s ++ concat chunks /\ blen c = r_length s /\
      (r_sha s <> [] -> sha384 c = r_sha s) /\ n = r_name s /\ n <> [] /\ rp = Some (RDone (blen c)) /\ s' = r0.
  Proof.
    destruct m as [x|l|d|chunks bad|]; cbn [Transfer.dl_step]; try (intros H; discriminate H).
    destruct bad; [intros H; discriminate H|]. cbn [r_length r_buf r_name r_sha].
    destruct (r_length s <=? blen (r_buf s ++ concat chunks)) eqn:GE; [|intros H; discriminate H].
    unfold dl_finalize; cbn [r_length r_buf r_name r_sha].
    destruct (r_length s <? blen (r_buf s ++ concat chunks)) eqn:GT; [intros H; discriminate H|].
    destruct (negb (Nat.eqb (length (r_sha s)) 0) && negb (bytes_eqb (sha384 (r_buf s ++ concat chunks)) (r_sha s)))%bool eqn:SH; [intros H; discriminate H|].
    destruct (Nat.eqb (length (r_name s)) 0) eqn:NM; [intros H; discriminate H|].
    intros H; inversion H; subst; clear H. exists chunks.
    apply Z.leb_le in GE. apply Z.ltb_ge in GT.
    repeat split; auto; try lia.
    - intros NE. apply andb_false_iff in SH as [SH|SH].
      + apply negb_false_iff, Nat.eqb_eq in SH. destruct (r_sha s); [contradiction|discriminate].
      + apply negb_false_iff, bytes_eqb_eq in SH. exact SH.
    - intros E. rewrite E in NM. discriminate.
  Qed.

  Theorem ul_sound s m s' c : ul_step s m = (s', Some (inr c)) ->
    m = UTick /\ c = u_buf s /\ blen c = u_length s /\ sha384 c = u_sha s /\ u_sha s <> [] /\ u_over s' = true.
  Proof.
    unfold Transfer.ul_step. destruct (u_over s); [intros H; discriminate H|].
    destruct m as [[x|l|d|chunks bad|]|]; try (intros H; discriminate H).
    - destruct bad; intros H; discriminate H.
    - destruct (negb (Nat.eqb (length (u_sha s)) 0) && (0 <? u_length s) && (u_length s <=? blen (u_buf s)))%bool eqn:C; [|intros H; discriminate H].
      destruct (u_length s <? blen (u_buf s)) eqn:GT; [intros H; discriminate H|].
      destruct (negb (bytes_eqb (u_sha s) (sha384 (u_buf s)))) eqn:SH; [intros H; discriminate H|].
      intros H; inversion H; subst; clear H.
      apply andb_true_iff in C as [C GE]. apply andb_true_iff in C as [NE _].
      apply Z.leb_le in GE. apply Z.ltb_ge in GT. apply negb_false_iff, bytes_eqb_eq in SH.
      repeat split; auto; try lia.
      intros E. rewrite E in NE. discriminate.
  Qed.

  Theorem wget_sound name sha body n c : wget_result sha384 name sha body = Some (n, c) ->
    body = Some c /\ n = name /\ n <> [] /\ (sha <> [] -> sha384 c = sha).
  Proof.
    unfold wget_result. destruct body as [b|]; [|discriminate].
    destruct (negb (Nat.eqb (length sha) 0) && negb (bytes_eqb (sha384 b) sha))%bool eqn:SH; [discriminate|].
    destruct (Nat.eqb (length name) 0) eqn:NM; [discriminate|].
    intros H; inversion H; subst. repeat split; auto.
    - intros E. rewrite E in NM. discriminate.
    - intros NE. apply andb_false_iff in SH as [SH|SH].
      + apply negb_false_iff, Nat.eqb_eq in SH. destruct sha; [contradiction|discriminate].
      + apply negb_false_iff, bytes_eqb_eq in SH. exact SH.
  Qed.

  (* ---- senders: chunking loses nothing, for every chunk size >= 1 ---- *)
  Lemma chunks_fuel_concat fuel sz data : (1 <= sz)%nat -> (length data <= fuel)%nat -> concat (chunks_fuel fuel sz data) = data.
  Proof.
    revert data. induction fuel as [|f IH]; intros data SZ LE.
    - destruct data; [reflexivity|cbn in LE; lia].
    - cbn [chunks_fuel]. destruct data as [|x r]; [reflexivity|]. cbn [concat].
      rewrite IH; [apply firstn_skipn|exact SZ|].
      rewrite skipn_length. cbn [length] in *. lia.
  Qed.
  Theorem chunks_concat sz data : (1 <= sz)%nat -> concat (chunks sz data) = data.
  Proof. intros H. apply chunks_fuel_concat; auto. Qed.

  Lemma chunks_fuel_bounds fuel sz data : (1 <= sz)%nat -> Forall (fun c => (1 <= length c <= sz)%nat) (chunks_fuel fuel sz data).
  Proof.
    revert data. induction fuel as [|f IH]; intros data SZ; [constructor|].
    cbn [chunks_fuel]. destruct data as [|x r]; constructor; [|now apply IH].
    rewrite firstn_length. cbn [length]. lia.
  Qed.
  Theorem chunks_bounds sz data : (1 <= sz)%nat -> Forall (fun c => (1 <= length c <= sz)%nat) (chunks sz data).
  Proof. apply chunks_fuel_bounds. Qed.

  (* ---- end to end, download: the receiver fed the sender's messages produces exactly the file, once, at the end ---- *)
  Definition quiet (n : nat) : list (option reply * option (bytes * bytes)) := repeat (None, None) n.

  Lemma blen_app a b : blen (a ++ b) = blen a + blen b.
  Proof. unfold blen. rewrite app_length. lia. Qed.

  Lemma dl_chunks name cs : name <> [] -> Forall (fun c => (1 <= length c)%nat) cs -> cs <> [] ->
    forall p, dl_run (mkr name (blen p + blen (concat cs)) (sha384 (p ++ concat cs)) p) (map (fun c => MData [c] false) cs) =
              (r0, quiet (length cs - 1) ++ [(Some (RDone (blen (p ++ concat cs))), Some (name, p ++ concat cs))]).
  Proof.
    intros NM. induction cs as [|c cs IH]; intros ALL NE p; [contradiction|].
    inversion ALL as [|? ? C1 ALL']; subst.
    cbn [map Transfer.dl_run]. cbn [Transfer.dl_step r_length r_buf r_name r_sha concat]. rewrite app_nil_r.
    destruct cs as [|c2 cs].
    - (* last chunk *)
      cbn [concat map Transfer.dl_run length Nat.sub quiet repeat app]. rewrite !app_nil_r.
      replace (blen p + blen c <=? blen (p ++ c)) with true by (symmetry; apply Z.leb_le; rewrite blen_app; lia).
      unfold dl_finalize; cbn [r_length r_buf r_name r_sha].
      replace (blen p + blen c <? blen (p ++ c)) with false by (symmetry; apply Z.ltb_ge; rewrite blen_app; lia).
      rewrite bytes_eqb_refl. cbn [negb]. rewrite andb_false_r.
      destruct (Nat.eqb (length name) 0) eqn:E; [apply Nat.eqb_eq in E; destruct name; [contradiction|discriminate]|].
      reflexivity.
    - (* more to come: the announced length is not reached yet *)
      assert (L2 : (1 <= length c2)%nat) by (inversion ALL'; assumption).
      replace (blen p + blen (c ++ concat (c2 :: cs)) <=? blen (p ++ c)) with false.
      2:{ symmetry. apply Z.leb_gt. rewrite !blen_app. cbn [concat]. rewrite blen_app. unfold blen. lia. }
      specialize (IH ALL' ltac:(discriminate) (p ++ c)).
      replace (blen (p ++ c) + blen (concat (c2 :: cs))) with (blen p + blen (c ++ concat (c2 :: cs))) in IH by (rewrite !blen_app; lia).
      rewrite <- app_assoc in IH. rewrite IH.
      cbn [length Nat.sub]. rewrite !Nat.sub_0_r. reflexivity.
  Qed.

  Theorem download_end_to_end name sz data : name <> [] -> data <> [] -> (1 <= sz)%nat ->
    dl_run r0 (download_messages sha384 name sz data) =
      (r0, quiet (3 + (length (chunks sz data) - 1)) ++ [(Some (RDone (blen data)), Some (name, data))]).
  Proof.
    intros NM ND SZ. unfold download_messages. cbn [app Transfer.dl_run Transfer.dl_step r_name r_length r_sha r_buf r0].
    pose proof (chunks_concat sz data SZ) as CC.
    assert (NE : chunks sz data <> []).
    { intros E. rewrite E in CC. cbn in CC. congruence. }
    assert (ALL : Forall (fun c => (1 <= length c)%nat) (chunks sz data)).
    { eapply Forall_impl; [|apply (chunks_bounds sz data SZ)]. cbn. intros; lia. }
    pose proof (dl_chunks name (chunks sz data) NM ALL NE []) as D. rewrite CC in D. cbn [app] in D.
    change (blen [] + blen data) with (blen data) in D.
    rewrite D. reflexivity.
  Qed.

  (* ---- end to end, upload: the owner receiver fed the device's messages stores exactly the file, at the last tick ---- *)
  Definition quiet2 (cs : list bytes) : list (option (unit + bytes)) := flat_map (fun _ => [None; None]) cs.

  Lemma ul_chunks cs : forall l b,
    ul_run (mku l [] b false) (flat_map (fun c => [UMsg (MData [c] false); UTick]) cs) =
      (mku l [] (b ++ concat cs) false, quiet2 cs).
  Proof.
    induction cs as [|c cs IH]; intros l b; cbn [flat_map app Transfer.ul_run concat quiet2].
    - now rewrite app_nil_r.
    - cbn [Transfer.ul_step u_over u_length u_sha u_buf concat]. rewrite app_nil_r.
      cbn [length Nat.eqb negb andb]. rewrite IH. rewrite <- app_assoc. reflexivity.
  Qed.

  Lemma ul_run_app a : forall s b,
    ul_run s (a ++ b) = (fst (ul_run (fst (ul_run s a)) b), snd (ul_run s a) ++ snd (ul_run (fst (ul_run s a)) b)).
  Proof.
    induction a as [|m a IH]; intros s b; cbn [app Transfer.ul_run].
    - cbn [fst snd app]. now destruct (ul_run s b).
    - destruct (ul_step s m) as [s1 x]. rewrite IH.
      destruct (ul_run s1 a) as [s2 o2]. cbn [fst snd]. destruct (ul_run s2 b) as [s3 o3]. reflexivity.
  Qed.

  Theorem upload_end_to_end sz data : data <> [] -> sha384 data <> [] -> (1 <= sz)%nat ->
    snd (ul_run u0 (upload_messages sha384 sz data)) =
      [None; None] ++ quiet2 (chunks sz data) ++ [None; Some (inr data)].
  Proof.
    intros ND NS SZ. unfold upload_messages, u0.
    cbn [app Transfer.ul_run Transfer.ul_step u_over u_length u_sha u_buf length Nat.eqb negb andb].
    rewrite ul_run_app, ul_chunks. cbn [fst snd app].
    rewrite (chunks_concat sz data SZ).
    cbn [Transfer.ul_run Transfer.ul_step u_over u_length u_sha u_buf].
    assert (L : length (sha384 data) <> 0%nat) by (destruct (sha384 data); [contradiction|discriminate]).
    destruct (Nat.eqb (length (sha384 data)) 0) eqn:E; [apply Nat.eqb_eq in E; contradiction|]. cbn [negb andb].
    assert (P : 0 < blen data) by (unfold blen; destruct data; [contradiction|cbn [length]; lia]).
    replace (0 <? blen data) with true by (symmetry; now apply Z.ltb_lt).
    replace (blen data <=? blen data) with true by (symmetry; apply Z.leb_refl).
    replace (blen data <? blen data) with false by (symmetry; apply Z.ltb_irrefl).
    rewrite bytes_eqb_refl. cbn [negb andb snd]. reflexivity.
  Qed.
End Facts.

