(* Fsim/Transfer.v — the file-transfer service-info modules as state machines over decoded messages:
   receivers fsim.Download (device, fdo.download), fsim.UploadRequest (owner, fdo.upload) and fsim.Wget (device,
   fdo.wget), and the chunking of the senders (DownloadContents.sendData / Upload.upload).  The SHA-384 function is a
   parameter.  A receiver's observable effects are the messages it answers and the file that appears at the
   destination (name, contents); temporary files are internal. *)
From FDO Require Export Base.Bytes.
Local Open Scope Z_scope.

Inductive rmsg :=
| MName (n : bytes)
| MLength (l : Z)
| MSha (d : bytes)
| MData (chunks : list bytes) (bad : bool)     (* the byte strings decoded from one "data" message, in order; bad: then an undecodable item *)
| MUnknown.

Inductive reply := RDone (n : Z) | RFail | RError.      (* done <written> | done -1 | the module returns an error *)

Record rstate := mkr { r_name : bytes; r_length : Z; r_sha : bytes; r_buf : bytes }.
Definition r0 : rstate := mkr [] 0 [] [].

Definition blen (b : bytes) : Z := Z.of_nat (length b).

Section Recv.
  Variable sha384 : bytes -> bytes.

  (* ---- fsim.Download.receive / finalize ---- *)
  Definition dl_finalize (s : rstate) : rstate * option reply * option (bytes * bytes) :=
    if r_length s <? blen (r_buf s) then (r0, Some RFail, None)
    else if negb (Nat.eqb (length (r_sha s)) 0) && negb (bytes_eqb (sha384 (r_buf s)) (r_sha s)) then (r0, Some RFail, None)
    else if Nat.eqb (length (r_name s)) 0 then (r0, Some RError, None)
    else (r0, Some (RDone (blen (r_buf s))), Some (r_name s, r_buf s)).

  Definition dl_step (s : rstate) (m : rmsg) : rstate * option reply * option (bytes * bytes) :=
    match m with
    | MName n => (mkr n (r_length s) (r_sha s) (r_buf s), None, None)
    | MLength l => (mkr (r_name s) l (r_sha s) (r_buf s), None, None)
    | MSha d => (mkr (r_name s) (r_length s) d (r_buf s), None, None)
    | MData chunks bad =>
      let s' := mkr (r_name s) (r_length s) (r_sha s) (r_buf s ++ concat chunks) in
      if bad then (r0, Some RFail, None)
      else if r_length s' <=? blen (r_buf s') then dl_finalize s' else (s', None, None)
    | MUnknown => (r0, Some RError, None)
    end.

  Fixpoint dl_run (s : rstate) (ms : list rmsg) : rstate * list (option reply * option (bytes * bytes)) :=
    match ms with
    | [] => (s, [])
    | m :: r => let '(s1, rp, f) := dl_step s m in let '(s2, out) := dl_run s1 r in (s2, (rp, f) :: out)
    end.

  (* ---- fsim.UploadRequest.HandleInfo, then ProduceInfo (a tick after every batch of messages) ---- *)
  Inductive umsg := UMsg (m : rmsg) | UTick.
  Record ustate := mku { u_length : Z; u_sha : bytes; u_buf : bytes; u_over : bool }.   (* u_over: module finished or failed *)
  Definition u0 : ustate := mku 0 [] [] false.

  (* result of a step: None = nothing observable; Some (inl tt) = the module returned an error (TO2 fails);
     Some (inr content) = the file appears under the requested name and the module is done *)
  Definition ul_step (s : ustate) (m : umsg) : ustate * option (unit + bytes) :=
    if u_over s then (s, None) else
    match m with
    | UMsg (MLength l) => (mku l (u_sha s) (u_buf s) false, None)
    | UMsg (MSha d) => (mku (u_length s) d (u_buf s) false, None)
    | UMsg (MData chunks bad) =>
      let s' := mku (u_length s) (u_sha s) (u_buf s ++ concat chunks) false in
      if bad then (mku (u_length s') (u_sha s') (u_buf s') true, Some (inl tt)) else (s', None)
    | UMsg (MName _) | UMsg MUnknown => (mku (u_length s) (u_sha s) (u_buf s) true, Some (inl tt))
    | UTick =>
      if negb (Nat.eqb (length (u_sha s)) 0) && (0 <? u_length s) && (u_length s <=? blen (u_buf s)) then
        if u_length s <? blen (u_buf s) then (mku (u_length s) (u_sha s) (u_buf s) true, Some (inl tt))
        else if negb (bytes_eqb (u_sha s) (sha384 (u_buf s))) then (mku (u_length s) (u_sha s) (u_buf s) true, Some (inl tt))
        else (mku (u_length s) (u_sha s) (u_buf s) true, Some (inr (u_buf s)))
      else (s, None)
    end.

  Fixpoint ul_run (s : ustate) (ms : list umsg) : ustate * list (option (unit + bytes)) :=
    match ms with
    | [] => (s, [])
    | m :: r => let '(s1, x) := ul_step s m in let '(s2, out) := ul_run s1 r in (s2, x :: out)
    end.

  (* ---- fsim.Wget.download: the body the HTTP server delivered (None: the transfer broke), name and optional digest ---- *)
  Definition wget_result (name sha : bytes) (body : option bytes) : option (bytes * bytes) :=
    match body with
    | None => None
    | Some b =>
      if negb (Nat.eqb (length sha) 0) && negb (bytes_eqb (sha384 b) sha) then None
      else if Nat.eqb (length name) 0 then None
      else Some (name, b)
    end.

  (* ---- senders: the file cut into chunks of at most [sz] bytes (sz >= 1), one chunk per "data" message ---- *)
  Fixpoint chunks_fuel (fuel : nat) (sz : nat) (data : bytes) : list bytes :=
    match fuel with
    | O => []
    | S f => match data with
             | [] => []
             | _ => firstn sz data :: chunks_fuel f sz (skipn sz data)
             end
    end.
  Definition chunks (sz : nat) (data : bytes) : list bytes := chunks_fuel (length data) sz data.

  Definition download_messages (name : bytes) (sz : nat) (data : bytes) : list rmsg :=
    [MName name; MLength (blen data); MSha (sha384 data)] ++ map (fun c => MData [c] false) (chunks sz data).
  Definition upload_messages (sz : nat) (data : bytes) : list umsg :=
    [UMsg (MLength (blen data)); UTick] ++ flat_map (fun c => [UMsg (MData [c] false); UTick]) (chunks sz data) ++ [UMsg (MSha (sha384 data)); UTick].
End Recv.
