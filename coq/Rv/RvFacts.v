(* Rv/RvFacts.v — theorems about the rendezvous-instruction interpreter model (Rv/RvImpl.v). *)
From FDO Require Import Cbor.Typed Cbor.DecFacts Rv.RvImpl.
From Coq Require Import Permutation.
Local Open Scope N_scope.

(* ---- totality: no sub-decoder ever panics or runs out of fuel ---- *)
Lemma try_unm_ok t b : exists o, try_unm t b = Ok o.
Proof.
  unfold try_unm, unm. pose proof (unmarshal_total (fun _ _ => true) (fun _ => None) t b) as T.
  destruct (unmarshal _ _ t b); try contradiction; eexists; reflexivity.
Qed.

Lemma array_shift_ok data : exists p, array_shift data = Ok p.
Proof.
  unfold array_shift. destruct data as [|x data]; [eexists; reflexivity|].
  pose proof (read_head_total (x :: data)) as TH.
  destruct (read_head (x :: data)) as [[h r]| | |]; try contradiction; try (eexists; reflexivity).
  destruct (is_null_hd h); [eexists; reflexivity|].
  destruct (negb _); [eexists; reflexivity|].
  destruct (_ =? 0); [eexists; reflexivity|].
  assert (T : total (dec_raw (fuel_for r) 0 r)) by (apply dec_raw_total; unfold fuel_for; lia).
  destruct (dec_raw (fuel_for r) 0 r) as [[a b]| | |]; try contradiction; eexists; reflexivity.
Qed.

Ltac use_try :=
  match goal with
  | |- context [try_unm ?t ?b] =>
    let o := fresh "o" in let E := fresh "E" in
    destruct (try_unm_ok t b) as [o E]; rewrite E; cbn [bind]
  end.

Lemma url_step_ok dev st i : exists st', url_step dev st i = Ok st'.
Proof.
  unfold url_step.
  repeat match goal with
  | |- context [if ?c then _ else _] => destruct c
  | |- exists _, Ok _ = Ok _ => eexists; reflexivity
  | |- context [try_unm _ _] => use_try
  | |- context [match ?o with Some _ => _ | None => _ end] => destruct o
  | |- context [match ?v with VInt _ => _ | _ => _ end] => destruct v
  end.
Qed.

Lemma foldM_ok {A B} (f : A -> B -> outcome A) l :
  (forall a x, exists a', f a x = Ok a') -> forall a, exists a', foldM f l a = Ok a'.
Proof.
  intros Hf. induction l as [|x l IH]; intros a; cbn [foldM]; [eexists; reflexivity|].
  destruct (Hf a x) as [a' ->]. cbn [bind]. apply IH.
Qed.

Lemma dir_step_ok dev d i : exists o, dir_step dev d i = Ok o.
Proof.
  unfold dir_step.
  repeat match goal with
  | |- context [if ?c then _ else _] => destruct c
  | |- exists _, Ok _ = Ok _ => eexists; reflexivity
  | |- context [try_unm _ _] => use_try
  | |- context [array_shift ?x] =>
    let p := fresh "p" in let E := fresh "E" in
    destruct (array_shift_ok x) as [[? ?] E]; rewrite E; cbn [bind]
  | |- context [match ?o with Some _ => _ | None => _ end] => destruct o
  | |- context [match ?v with VInt _ => _ | _ => _ end] => destruct v
  | |- context [match ?l with [] => _ | _ :: _ => _ end] => destruct l
  end.
Qed.

Lemma dir_loop_ok dev l : forall d, exists o, dir_loop dev l d = Ok o.
Proof.
  induction l as [|i l IH]; intros d; cbn [dir_loop]; [eexists; reflexivity|].
  destruct (dir_step_ok dev d i) as [[d'|] ->]; cbn [bind]; [apply IH|eexists; reflexivity].
Qed.

Theorem interp_total ipstring l dev : exists d, interp ipstring l dev = Ok d.
Proof.
  unfold interp, parse_urls.
  destruct (foldM_ok (url_step dev) l (url_step_ok dev) (mkurlst s_tls [] [] [])) as [st ->]. cbn [bind].
  destruct (dir_loop_ok dev l (mkdir (assemble ipstring st) false None None [] [] [] [] 0 None None)) as [[d|] ->];
    cbn [bind]; eexists; reflexivity.
Qed.

(* ---- role filter ---- *)
Definition other_marker (dev : bool) : N := if dev then 1 else 0.

Lemma dir_step_marker dev d i : rv_var i = other_marker dev -> dir_step dev d i = Ok None.
Proof. unfold dir_step, other_marker. destruct dev; intros ->; reflexivity. Qed.

Lemma dir_loop_marker dev l : forall d,
  (exists i, In i l /\ rv_var i = other_marker dev) -> dir_loop dev l d = Ok None.
Proof.
  induction l as [|i l IH]; intros d [j [Hin Hv]]; [contradiction|]. cbn [dir_loop].
  destruct (N.eq_dec (rv_var i) (other_marker dev)) as [E|NE].
  - rewrite (dir_step_marker _ _ _ E). reflexivity.
  - destruct Hin as [->|Hin]; [contradiction|].
    destruct (dir_step_ok dev d i) as [[d'|] ->]; cbn [bind]; [|reflexivity].
    apply IH. eauto.
Qed.

Theorem interp_other_role ipstring l dev :
  (exists i, In i l /\ rv_var i = other_marker dev) -> interp ipstring l dev = Ok zero_dir.
Proof.
  intros H. unfold interp, parse_urls.
  destruct (foldM_ok (url_step dev) l (url_step_ok dev) (mkurlst s_tls [] [] [])) as [st ->]. cbn [bind].
  rewrite (dir_loop_marker dev l _ H). reflexivity.
Qed.

(* ---- malformed values are ignored ---- *)
Definition fails (t : ty) (b : bytes) : Prop := try_unm t b = Ok None.

(* what "malformed" means per variable (the Go target type each value must decode into) *)
Definition malformed (i : rvi) : Prop :=
  let v := rv_var i in let b := rv_val i in
  (v = 11 \/ v = 12) /\ fails (TInt KU8) b \/
  (v = 3 \/ v = 4) /\ fails (TInt KU16) b \/
  (v = 5 \/ v = 9 \/ v = 10) /\ fails TText b \/
  v = 2 /\ (fails TBytes b \/ exists a, try_unm TBytes b = Ok (Some (VBytes a)) /\ length a <> 4%nat /\ length a <> 16%nat) \/
  v = 13 /\ fails (TInt KI64) b \/
  (v = 6 \/ v = 7) /\ fails t_hash b \/
  v = 15 /\ (exists args, array_shift b = Ok ([], args) \/ exists m, array_shift b = Ok (m, args) /\ m <> [] /\ fails TText m).

Lemma url_step_malformed dev st i : malformed i -> url_step dev st i = Ok st.
Proof.
  unfold malformed, url_step, fails.
  intros [[[-> | ->] H] | [[[-> | ->] H] | [[[-> | [-> | ->]] H] | [[-> H] | [[-> H] | [[[-> | ->] H] | [-> H]]]]]]];
    cbn [N.eqb Pos.eqb orb andb]; try rewrite H; cbn [bind]; try reflexivity.
  - destruct dev; cbn [andb negb orb]; try rewrite H; reflexivity.
  - destruct dev; cbn [andb negb orb]; try rewrite H; reflexivity.
  - destruct H as [H | [a [H [L4 L16]]]]; rewrite H; cbn [bind]; [reflexivity|].
    destruct (Nat.eqb_spec (length a) 4); [contradiction|]. destruct (Nat.eqb_spec (length a) 16); [contradiction|]. reflexivity.
Qed.

Lemma dir_step_malformed dev d i : malformed i -> dir_step dev d i = Ok (Some d).
Proof.
  unfold malformed, dir_step, fails.
  intros [[[-> | ->] H] | [[[-> | ->] H] | [[[-> | [-> | ->]] H] | [[-> H] | [[-> H] | [[[-> | ->] H] | [-> H]]]]]]];
    cbn [N.eqb Pos.eqb orb andb]; try rewrite H; cbn [bind]; try reflexivity.
  destruct H as [args [H | [m [H [Hm Hf]]]]]; rewrite H; cbn [bind]; [reflexivity|].
  destruct m; [contradiction|]. rewrite Hf. reflexivity.
Qed.

Lemma foldM_app {A B} (f : A -> B -> outcome A) l1 l2 a :
  foldM f (l1 ++ l2) a = let* a' := foldM f l1 a in foldM f l2 a'.
Proof.
  revert a; induction l1 as [|x l1 IH]; intros a; cbn [foldM app bind]; [reflexivity|].
  destruct (f a x); cbn [bind]; auto.
Qed.

Lemma dir_loop_app dev l1 l2 d :
  dir_loop dev (l1 ++ l2) d =
  let* o := dir_loop dev l1 d in match o with None => Ok None | Some d' => dir_loop dev l2 d' end.
Proof.
  revert d; induction l1 as [|x l1 IH]; intros d; cbn [dir_loop app bind]; [reflexivity|].
  destruct (dir_step dev d x) as [[d'|]| | |]; cbn [bind]; auto.
Qed.

Theorem interp_malformed_ignored ipstring l l' i dev :
  malformed i -> interp ipstring (l ++ i :: l') dev = interp ipstring (l ++ l') dev.
Proof.
  intros M. unfold interp, parse_urls.
  rewrite !foldM_app. cbn [foldM].
  assert (EU : forall st, (let* a' := url_step dev st i in foldM (url_step dev) l' a') = foldM (url_step dev) l' st).
  { intros st. rewrite (url_step_malformed dev st i M). reflexivity. }
  assert (E1 : (let* a' := foldM (url_step dev) l (mkurlst s_tls [] [] []) in
                let* a'0 := url_step dev a' i in foldM (url_step dev) l' a'0)
               = (let* a' := foldM (url_step dev) l (mkurlst s_tls [] [] []) in foldM (url_step dev) l' a')).
  { destruct (foldM (url_step dev) l _); cbn [bind]; auto. }
  rewrite E1.
  destruct (let* a' := foldM (url_step dev) l (mkurlst s_tls [] [] []) in foldM (url_step dev) l' a') as [st| | |];
    cbn [bind]; try reflexivity.
  rewrite !dir_loop_app. cbn [dir_loop].
  destruct (dir_loop dev l _) as [[d|]| | |]; cbn [bind]; try reflexivity.
  rewrite (dir_step_malformed dev d i M). reflexivity.
Qed.

(* ---- order independence of distinct instructions ---- *)
Lemma dec_digits_S f n acc :
  dec_digits (S f) n acc =
  if n / 10 =? 0 then byte_of_N (48 + n mod 10) :: acc else dec_digits f (n / 10) (byte_of_N (48 + n mod 10) :: acc).
Proof. reflexivity. Qed.

Lemma dec_digits_nonempty f : forall m acc, acc <> [] -> dec_digits f m acc <> [].
Proof.
  induction f as [|f IH]; intros m acc Ha; [exact Ha|].
  rewrite dec_digits_S. destruct (_ =? 0); [discriminate|]. apply IH. discriminate.
Qed.

Lemma itoa_nonempty n : itoa n <> [].
Proof.
  unfold itoa. change 20%nat with (S 19). rewrite dec_digits_S.
  destruct (_ =? 0); [discriminate|]. apply dec_digits_nonempty. discriminate.
Qed.

Lemma default_port_nonempty st p q : u_port st = q -> q <> [] -> default_port st p = q.
Proof. unfold default_port. intros -> H. destruct q; [contradiction|reflexivity]. Qed.

Ltac split_var x :=
  repeat match goal with
  | |- context [x =? ?k] => destruct (N.eqb_spec x k); [subst x|]
  end.

Ltac crunch :=
  repeat match goal with
  | |- ?a = ?a => reflexivity
  | H : ?x <> ?x |- _ => contradiction H; reflexivity
  | |- context [try_unm ?t ?b] =>
    let o := fresh "o" in let E := fresh "E" in
    destruct (try_unm_ok t b) as [o E]; rewrite !E; cbn [bind]; clear E
  | |- context [array_shift ?x] =>
    let E := fresh "E" in
    destruct (array_shift_ok x) as [[? ?] E]; rewrite !E; cbn [bind]; clear E
  | |- context [match ?o with Some _ => _ | None => _ end] => destruct o
  | |- context [match ?v with VInt _ => _ | _ => _ end] => destruct v
  | |- context [match ?l with [] => _ | _ :: _ => _ end] => destruct l
  | |- context [if ?c then _ else _] => destruct c
  | _ => progress cbn [bind d_urls d_bypass d_eth d_wlan d_ssid d_pass d_extmech d_extargs d_delay d_svcert d_clcert
                       u_scheme u_port u_dns u_ip N.eqb Pos.eqb orb andb negb]
  end.

Lemma url_step_comm dev st i j : rv_var i <> rv_var j ->
  (let* a := url_step dev st i in url_step dev a j) = (let* a := url_step dev st j in url_step dev a i).
Proof.
  intros NE. destruct i as [vi bi], j as [vj bj]. cbn [rv_var rv_val] in *. unfold url_step. cbn [rv_var rv_val].
  split_var vi; split_var vj; cbn [N.eqb Pos.eqb orb andb negb];
    try (contradiction NE; reflexivity);
    destruct dev; cbn [andb orb negb];
    crunch;
    unfold default_port; cbn [u_port];
    try reflexivity;
    repeat match goal with
    | |- context [match itoa ?n with _ => _ end] =>
      let E := fresh in destruct (itoa n) eqn:E; [exfalso; exact (itoa_nonempty _ E)|]
    end; try reflexivity.
Qed.

Definition dir_step' (dev : bool) (o : option rvdir) (i : rvi) : outcome (option rvdir) :=
  match o with None => Ok None | Some d => dir_step dev d i end.

Lemma dir_loop_fold dev l : forall d, dir_loop dev l d = foldM (dir_step' dev) l (Some d).
Proof.
  induction l as [|i l IH]; intros d; cbn [dir_loop foldM dir_step']; [reflexivity|].
  destruct (dir_step dev d i) as [[d'|]| | |]; cbn [bind]; auto.
  clear. induction l as [|j l IH]; cbn [foldM dir_step' bind]; auto.
Qed.

Lemma dir_step_comm dev d i j : rv_var i <> rv_var j ->
  (let* a := dir_step dev d i in dir_step' dev a j) = (let* a := dir_step dev d j in dir_step' dev a i).
Proof.
  intros NE. destruct i as [vi bi], j as [vj bj]. cbn [rv_var rv_val] in *.
  unfold dir_step', dir_step. cbn [rv_var rv_val].
  split_var vi; split_var vj; cbn [N.eqb Pos.eqb orb andb negb];
    try (contradiction NE; reflexivity);
    destruct dev; crunch; reflexivity.
Qed.

Lemma dir_step'_comm dev o i j : rv_var i <> rv_var j ->
  (let* a := dir_step' dev o i in dir_step' dev a j) = (let* a := dir_step' dev o j in dir_step' dev a i).
Proof. destruct o as [d|]; [apply dir_step_comm|reflexivity]. Qed.

Lemma foldM_perm {A} (f : A -> rvi -> outcome A) :
  (forall a x y, rv_var x <> rv_var y -> (let* a' := f a x in f a' y) = (let* a' := f a y in f a' x)) ->
  forall l l', Permutation l l' -> NoDup (map rv_var l) -> forall a, foldM f l a = foldM f l' a.
Proof.
  intros Hc l l' P. induction P as [|x l l' P IH|x y l|l l' l'' P1 IH1 P2 IH2]; intros ND a.
  - reflexivity.
  - cbn [foldM]. cbn [map] in ND. inversion ND; subst. destruct (f a x); cbn [bind]; auto.
  - cbn [foldM]. cbn [map] in ND. inversion ND as [|? ? Hn ND']; subst.
    assert (NE : rv_var y <> rv_var x) by (intros E; apply Hn; left; auto).
    pose proof (Hc a y x NE) as C.
    destruct (f a y) as [a1| | |] eqn:E1; destruct (f a x) as [a2| | |] eqn:E2; cbn [bind] in *;
      try rewrite C; try rewrite <- C; try reflexivity.
    all: try (destruct (f a1 x); cbn [bind]; congruence).
    all: try (destruct (f a2 y); cbn [bind]; congruence).
  - rewrite IH1 by assumption. apply IH2.
    eapply Permutation_NoDup; [apply Permutation_map; exact P1|assumption].
Qed.

Theorem interp_perm ipstring l l' dev :
  Permutation l l' -> NoDup (map rv_var l) -> interp ipstring l dev = interp ipstring l' dev.
Proof.
  intros P ND. unfold interp, parse_urls.
  rewrite (foldM_perm (url_step dev) (url_step_comm dev) l l' P ND).
  destruct (foldM (url_step dev) l' _) as [st| | |]; cbn [bind]; try reflexivity.
  rewrite !dir_loop_fold.
  rewrite (foldM_perm (dir_step' dev) (dir_step'_comm dev) l l' P ND). reflexivity.
Qed.
