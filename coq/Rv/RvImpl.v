(* Rv/RvImpl.v — executable mirror of protocol.parseDirective / parseURLs / cbor.ArrayShift (protocol/rv.go,
   cbor/array.go).  Values are decoded with the CBOR model's [unmarshal]; Panic / OutOfFuel of a sub-decoder
   would propagate (Rv/RvFacts.v proves they never occur). *)
From FDO Require Export Cbor.Typed.
Local Open Scope N_scope.

Record rvi := mkrvi { rv_var : N; rv_val : bytes }.

Record rvdir := mkdir {
  d_urls : list (bytes * bytes);        (* scheme, host[:port] *)
  d_bypass : bool;
  d_eth : option N; d_wlan : option N;
  d_ssid : bytes; d_pass : bytes;
  d_extmech : bytes; d_extargs : bytes;
  d_delay : Z;                          (* nanoseconds, int64 *)
  d_svcert : option (Z * bytes); d_clcert : option (Z * bytes) }.

Definition zero_dir : rvdir := mkdir [] false None None [] [] [] [] 0 None None.

(* no certificate / timestamp targets are used here, so the oracles are irrelevant *)
Definition unm (t : ty) (b : bytes) : outcome val := unmarshal (fun _ _ => true) (fun _ => None) t b.

(* a decode attempt whose error is ignored by the caller: Some v / None; Panic and OutOfFuel propagate *)
Definition try_unm (t : ty) (b : bytes) : outcome (option val) :=
  match unm t b with
  | Ok v => Ok (Some v)
  | Err _ => Ok None
  | Panic p => Panic p
  | OutOfFuel => OutOfFuel
  end.

(* decimal rendering (strconv.Itoa of a uint16) *)
Fixpoint dec_digits (fuel : nat) (n : N) (acc : bytes) : bytes :=
  match fuel with
  | O => acc
  | S f => let acc' := byte_of_N (48 + n mod 10) :: acc in
           if n / 10 =? 0 then acc' else dec_digits f (n / 10) acc'
  end.
Definition itoa (n : N) : bytes := dec_digits 20 n [].

Definition ascii_colon : byte := byte_of_N 58.
Definition has_colon (h : bytes) : bool := existsb (byte_eqb ascii_colon) h.
Definition join_host_port (host port : bytes) : bytes :=
  match port with
  | [] => host
  | _ => if has_colon host then (byte_of_N 91 :: host) ++ [byte_of_N 93; ascii_colon] ++ port
         else host ++ [ascii_colon] ++ port
  end.

Definition str (l : list N) : bytes := map byte_of_N l.
Definition s_tls := str [116;108;115].
Definition s_http := str [104;116;116;112].
Definition s_https := str [104;116;116;112;115].
Definition s_tcp := str [116;99;112].
Definition s_coaptcp := str [99;111;97;112;43;116;99;112].
Definition s_coap := str [99;111;97;112].
Definition p80 := str [56;48].
Definition p443 := str [52;52;51].
Definition p5683 := str [53;54;56;51].

Record urlst := mkurlst { u_scheme : bytes; u_port : bytes; u_dns : bytes; u_ip : bytes }.

Definition default_port (st : urlst) (p : bytes) : bytes := match u_port st with [] => p | q => q end.

Definition url_step (device : bool) (st : urlst) (i : rvi) : outcome urlst :=
  let v := rv_var i in
  if v =? 12 then
    let* r := try_unm (TInt KU8) (rv_val i) in
    match r with
    | Some (VInt p) =>
      Ok (if (p =? 1)%Z then mkurlst s_http (default_port st p80) (u_dns st) (u_ip st)
          else if (p =? 2)%Z then mkurlst s_https (default_port st p443) (u_dns st) (u_ip st)
          else if (p =? 3)%Z then mkurlst s_tcp (u_port st) (u_dns st) (u_ip st)
          else if (p =? 4)%Z then mkurlst s_tls (u_port st) (u_dns st) (u_ip st)
          else if (p =? 5)%Z then mkurlst s_coaptcp (default_port st p5683) (u_dns st) (u_ip st)
          else if (p =? 6)%Z then mkurlst s_coap (default_port st p5683) (u_dns st) (u_ip st)
          else st)
    | _ => Ok st
    end
  else if (v =? 3) || (v =? 4) then
    if (device && (v =? 3)) || (negb device && (v =? 4)) then
      let* r := try_unm (TInt KU16) (rv_val i) in
      match r with
      | Some (VInt p) => Ok (mkurlst (u_scheme st) (itoa (Z.to_N p)) (u_dns st) (u_ip st))
      | _ => Ok st
      end
    else Ok st
  else if v =? 5 then
    let* r := try_unm TText (rv_val i) in
    match r with
    | Some (VText d) => Ok (mkurlst (u_scheme st) (u_port st) d (u_ip st))
    | _ => Ok st
    end
  else if v =? 2 then
    let* r := try_unm TBytes (rv_val i) in
    match r with
    | Some (VBytes a) =>
      if Nat.eqb (length a) 4 || Nat.eqb (length a) 16
      then Ok (mkurlst (u_scheme st) (u_port st) (u_dns st) a) else Ok st
    | _ => Ok st
    end
  else Ok st.

Fixpoint foldM {A B} (f : A -> B -> outcome A) (l : list B) (a : A) : outcome A :=
  match l with
  | [] => Ok a
  | x :: r => let* a' := f a x in foldM f r a'
  end.

Section Rv.
  Variable ipstring : bytes -> bytes.    (* net.IP.String of a 4- or 16-byte address: standard library, via oracle *)

  Definition assemble (st : urlst) : list (bytes * bytes) :=
    (match u_dns st with [] => [] | d => [(u_scheme st, join_host_port d (u_port st))] end) ++
    (match u_ip st with [] => [] | a => [(u_scheme st, join_host_port (ipstring a) (u_port st))] end).

  Definition parse_urls (vars : list rvi) (device : bool) : outcome (list (bytes * bytes)) :=
    let* st := foldM (url_step device) vars (mkurlst s_tls [] [] []) in Ok (assemble st).

  (* cbor.ArrayShift *)
  Definition array_shift (data : bytes) : outcome (bytes * bytes) :=
    match data with
    | [] => Ok ([], data)
    | _ =>
      match read_head data with
      | Ok (h, r) =>
        if is_null_hd h then Ok ([], data)
        else if negb (h_mt h =? 4) then Ok ([], data)
        else if arg_unwrap h =? 0 then Ok ([], data)
        else match dec_raw (fuel_for r) 0 r with
             | Ok (first, rest) => Ok (first, head 4 (arg_unwrap h - 1) ++ rest)
             | Err _ => Ok ([], data)
             | Panic p => Panic p
             | OutOfFuel => OutOfFuel
             end
      | Err _ => Ok ([], data)
      | Panic p => Panic p
      | OutOfFuel => OutOfFuel
      end
    end.

  Definition wrap_i64 (z : Z) : Z := ((z + 9223372036854775808) mod 18446744073709551616 - 9223372036854775808)%Z.

  Definition t_hash : ty := TStruct [(false, TInt KI64); (false, TBytes)].

  (* one iteration of parseDirective's loop; None = "return nil" *)
  Definition dir_step (device : bool) (d : rvdir) (i : rvi) : outcome (option rvdir) :=
    let v := rv_var i in
    let upd f := Ok (Some f) in
    if v =? 0 then (if device then upd d else Ok None)
    else if v =? 1 then (if device then Ok None else upd d)
    else if v =? 14 then upd (mkdir (d_urls d) true (d_eth d) (d_wlan d) (d_ssid d) (d_pass d) (d_extmech d) (d_extargs d) (d_delay d) (d_svcert d) (d_clcert d))
    else if v =? 11 then
      let* r := try_unm (TInt KU8) (rv_val i) in
      match r with
      | Some (VInt m) =>
        let m := Z.to_N m in
        if m <? 10 then upd (mkdir (d_urls d) (d_bypass d) (Some m) (d_wlan d) (d_ssid d) (d_pass d) (d_extmech d) (d_extargs d) (d_delay d) (d_svcert d) (d_clcert d))
        else if m <? 20 then upd (mkdir (d_urls d) (d_bypass d) (d_eth d) (Some (m - 10)) (d_ssid d) (d_pass d) (d_extmech d) (d_extargs d) (d_delay d) (d_svcert d) (d_clcert d))
        else if m =? 20 then upd (mkdir (d_urls d) (d_bypass d) (Some m) (d_wlan d) (d_ssid d) (d_pass d) (d_extmech d) (d_extargs d) (d_delay d) (d_svcert d) (d_clcert d))
        else if m =? 21 then upd (mkdir (d_urls d) (d_bypass d) (d_eth d) (Some m) (d_ssid d) (d_pass d) (d_extmech d) (d_extargs d) (d_delay d) (d_svcert d) (d_clcert d))
        else upd d
      | _ => upd d
      end
    else if v =? 9 then
      let* r := try_unm TText (rv_val i) in
      match r with
      | Some (VText x) => upd (mkdir (d_urls d) (d_bypass d) (d_eth d) (d_wlan d) x (d_pass d) (d_extmech d) (d_extargs d) (d_delay d) (d_svcert d) (d_clcert d))
      | _ => upd d
      end
    else if v =? 10 then
      let* r := try_unm TText (rv_val i) in
      match r with
      | Some (VText x) => upd (mkdir (d_urls d) (d_bypass d) (d_eth d) (d_wlan d) (d_ssid d) x (d_extmech d) (d_extargs d) (d_delay d) (d_svcert d) (d_clcert d))
      | _ => upd d
      end
    else if v =? 15 then
      let* (mech, args) := array_shift (rv_val i) in
      match mech with
      | [] => upd d
      | _ =>
        let* r := try_unm TText mech in
        match r with
        | Some (VText x) => upd (mkdir (d_urls d) (d_bypass d) (d_eth d) (d_wlan d) (d_ssid d) (d_pass d) x args (d_delay d) (d_svcert d) (d_clcert d))
        | _ => upd d
        end
      end
    else if v =? 13 then
      let* r := try_unm (TInt KI64) (rv_val i) in
      match r with
      | Some (VInt x) => upd (mkdir (d_urls d) (d_bypass d) (d_eth d) (d_wlan d) (d_ssid d) (d_pass d) (d_extmech d) (d_extargs d) (wrap_i64 (x * 1000000000)) (d_svcert d) (d_clcert d))
      | _ => upd d
      end
    else if v =? 6 then
      let* r := try_unm t_hash (rv_val i) in
      match r with
      | Some (VList [VInt a; VBytes x]) => upd (mkdir (d_urls d) (d_bypass d) (d_eth d) (d_wlan d) (d_ssid d) (d_pass d) (d_extmech d) (d_extargs d) (d_delay d) (Some (a, x)) (d_clcert d))
      | _ => upd d
      end
    else if v =? 7 then
      let* r := try_unm t_hash (rv_val i) in
      match r with
      | Some (VList [VInt a; VBytes x]) => upd (mkdir (d_urls d) (d_bypass d) (d_eth d) (d_wlan d) (d_ssid d) (d_pass d) (d_extmech d) (d_extargs d) (d_delay d) (d_svcert d) (Some (a, x)))
      | _ => upd d
      end
    else upd d.

  Fixpoint dir_loop (device : bool) (vars : list rvi) (d : rvdir) : outcome (option rvdir) :=
    match vars with
    | [] => Ok (Some d)
    | i :: r =>
      let* o := dir_step device d i in
      match o with
      | None => Ok None
      | Some d' => dir_loop device r d'
      end
    end.

  (* protocol.parseDirective + the caller's treatment of nil (zero directive) *)
  Definition interp (vars : list rvi) (device : bool) : outcome rvdir :=
    let* urls := parse_urls vars device in
    let* o := dir_loop device vars (mkdir urls false None None [] [] [] [] 0 None None) in
    match o with Some d => Ok d | None => Ok zero_dir end.
End Rv.
