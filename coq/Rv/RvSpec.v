(* Rv/RvSpec.v — the specification's tables for address formation (FDO 1.1 section 3.7, RVProtocolValue /
   RVDevPort / RVOwnerPort), written independently of the fold in RvImpl.v, and a finite check that the
   interpreter model realises them for every protocol value, both roles, every presence/absence combination of
   the role's port, the other role's port, and both relative orders. *)
From FDO Require Import Cbor.Typed Rv.RvImpl.
Local Open Scope N_scope.

Definition spec_scheme (p : N) : bytes :=
  if p =? 1 then s_http else if p =? 2 then s_https else if p =? 3 then s_tcp
  else if p =? 4 then s_tls else if p =? 5 then s_coaptcp else if p =? 6 then s_coap else s_tls.
Definition spec_default_port (p : N) : bytes :=
  if p =? 1 then p80 else if p =? 2 then p443 else if (p =? 5) || (p =? 6) then p5683 else [].

(* CBOR encodings of small test values *)
Definition enc_u (n : N) : bytes := head 0 n.
Definition dns_ab : bytes := str [97; 46; 98].
Definition enc_dns : bytes := head 3 3 ++ dns_ab.
Definition ip_lo : bytes := str [127; 0; 0; 1].
Definition enc_ip : bytes := head 2 4 ++ ip_lo.

Definition mk_case (dev : bool) (p : N) (with_proto role_port other_port proto_first : bool) : list rvi :=
  let protos := if with_proto then [mkrvi 12 (enc_u p)] else [] in
  let ports := (if role_port then [mkrvi (if dev then 3 else 4) (enc_u 8080)] else []) ++
               (if other_port then [mkrvi (if dev then 4 else 3) (enc_u 9090)] else []) in
  [mkrvi 5 enc_dns] ++ (if proto_first then protos ++ ports else ports ++ protos) ++ [mkrvi 2 enc_ip].

Definition expected (p : N) (with_proto role_port : bool) : urlst :=
  mkurlst (if with_proto then spec_scheme p else s_tls)
          (if role_port then itoa 8080 else if with_proto then spec_default_port p else [])
          dns_ab ip_lo.

Definition urlst_eqb (a b : urlst) : bool :=
  bytes_eqb (u_scheme a) (u_scheme b) && bytes_eqb (u_port a) (u_port b) &&
  bytes_eqb (u_dns a) (u_dns b) && bytes_eqb (u_ip a) (u_ip b).

Definition bools := [true; false].
Definition protos : list N := [0; 1; 2; 3; 4; 5; 6; 7; 255].

Definition defaults_check : bool :=
  forallb (fun dev => forallb (fun p => forallb (fun wp => forallb (fun rp => forallb (fun op => forallb (fun pf =>
    match foldM (url_step dev) (mk_case dev p wp rp op pf) (mkurlst s_tls [] [] []) with
    | Ok st => urlst_eqb st (expected p wp rp)
    | _ => false
    end) bools) bools) bools) bools) protos) bools.

Lemma defaults_table : defaults_check = true.
Proof. vm_compute. reflexivity. Qed.

(* variables that do not take part in address formation leave the URL state alone *)
Lemma url_step_other dev st i :
  rv_var i <> 2 -> rv_var i <> 3 -> rv_var i <> 4 -> rv_var i <> 5 -> rv_var i <> 12 -> url_step dev st i = Ok st.
Proof.
  intros H2 H3 H4 H5 H12. unfold url_step.
  destruct (N.eqb_spec (rv_var i) 12); [contradiction|].
  destruct (N.eqb_spec (rv_var i) 3); [contradiction|].
  destruct (N.eqb_spec (rv_var i) 4); [contradiction|]. cbn [orb].
  destruct (N.eqb_spec (rv_var i) 5); [contradiction|].
  destruct (N.eqb_spec (rv_var i) 2); [contradiction|]. reflexivity.
Qed.

(* host assembly: DNS name first, then the IP address, each with the port appended when there is one *)
Lemma assemble_spec ipstring st :
  assemble ipstring st =
  (match u_dns st with [] => [] | d => [(u_scheme st, join_host_port d (u_port st))] end) ++
  (match u_ip st with [] => [] | a => [(u_scheme st, join_host_port (ipstring a) (u_port st))] end).
Proof. reflexivity. Qed.
