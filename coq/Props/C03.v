(* Props/C03.v — ownership handover leaves device credential and stored voucher in agreement.
   Model: Fdo/Handover.v (what device and owner each compute at the end of DI and of TO2: header, HMAC, credential) on
   top of Fdo/Voucher.v's verification functions; Fdo/Server.v for "the voucher store is touched only when Done is
   accepted".  [agrees secret c hdr hm]: the voucher header hdr with HMAC hm verifies against credential c: header MAC
   under the device secret, manufacturer-key hash, and GUID / rendezvous info / device info / version equal. *)
From FDO Require Import Cbor.Typed Fdo.Voucher Fdo.Handover Fdo.HandoverFacts Fdo.Server Fdo.ServerFacts.
Local Open Scope Z_scope.

(* after DI (and after TO2): whatever header the device adopts, storing exactly that header with the HMAC the device
   sent yields a voucher that verifies against the credential the device keeps *)
Theorem C03_adopt_agrees : forall O_hash O_hmac secret alg hdr hm c,
  device_adopts O_hash O_hmac secret alg hdr = Ok (hm, c) -> agrees O_hash O_hmac secret c hdr hm.
Proof. exact adopt_agrees. Qed.
Print Assumptions C03_adopt_agrees.

(* TO2 with replacement: device and owner assemble the same header from the voucher the device was shown and the
   session's GUID, rendezvous info and owner key; the result agrees and carries the session's GUID and rendezvous info *)
Theorem C03_replacement_same : forall hdr g r k, device_replacement hdr g r k = owner_replacement hdr g r k.
Proof. exact replacement_same. Qed.
Print Assumptions C03_replacement_same.

Theorem C03_round_agrees : forall O_hash O_hmac secret alg hdr g r k hdr' hm' c',
  owner_replacement hdr g r k = Some hdr' -> device_replacement hdr g r k = Some hdr' ->
  device_adopts O_hash O_hmac secret alg hdr' = Ok (hm', c') ->
  agrees O_hash O_hmac secret c' hdr' hm' /\ c_guid c' = g /\ c_rvinfo c' = r.
Proof. exact round_agrees. Qed.
Print Assumptions C03_round_agrees.

(* any number of rounds of (reuse | replace): agreement is an invariant, the device-certificate hash never changes *)
Theorem C03_rounds_agree : forall O_hash O_hmac secret c hdr hm c' hdr' hm',
  agrees O_hash O_hmac secret c hdr hm -> rounds O_hash O_hmac secret c hdr hm c' hdr' hm' -> agrees O_hash O_hmac secret c' hdr' hm'.
Proof. exact rounds_agree. Qed.
Print Assumptions C03_rounds_agree.

Theorem C03_rounds_keep_cert_hash : forall O_hash O_hmac secret c hdr hm c' hdr' hm' cch,
  rounds O_hash O_hmac secret c hdr hm c' hdr' hm' -> header_cch_of hdr = Some cch -> header_cch_of hdr' = Some cch.
Proof. exact rounds_keep_cch. Qed.
Print Assumptions C03_rounds_keep_cert_hash.

(* a TO2 that fails before the owner accepted Done leaves the voucher store untouched: the store is written only in the
   step that answers 71 to an in-tunnel Done passing every check (server machine, any history) *)
Theorem C03_store_touched_only_at_done : forall st h r st' t eff,
  reach st h -> handle st r = (st', RType t, eff) -> In EReplace eff ->
  exists id, r_tok r = TSess id /\ r_type r = 70%N /\ r_ok r = true /\ r_enc r = true /\
    started_by h id PTO2 /\ proved_by h id /\ hmac_by h id.
Proof. exact replace_chain_partial. Qed.
Print Assumptions C03_store_touched_only_at_done.
