(* Props/C13.v — COSE signatures and MACs verify exactly what was signed, with the right key.
   Model: Cose/Sign1.v (mirror of cose.Sign1.Verify / Mac0.Digest on top of the CBOR codec model).  The signature,
   hash and HMAC primitives are universally quantified oracles; unforgeability is a property of the primitives and is
   not claimed.  The algorithm registries come from Gen/Tables.v, regenerated from the compiled package. *)
From FDO Require Import Cbor.Typed Cose.Sign1 Cose.Sign1Facts Gen.Tables.

(* never panics: any object, key, payload, AAD, oracle behaviour *)
Theorem C13_no_panic : forall O_der O_rfc O_verify tP tA key prot stored detached sig aad p,
  sign1_verify O_der O_rfc O_verify tP tA key prot stored detached sig aad <> Panic p.
Proof. exact sign1_verify_no_panic. Qed.
Print Assumptions C13_no_panic.

(* acceptance = the primitive said yes for exactly: this key, the hash of the protected algorithm, the Sig_structure
   of (re-encoded protected header, external AAD, effective payload), this signature (ECDSA: exactly 2n bytes split at n) *)
Theorem C13_exact : forall O_der O_rfc O_verify tP tA key prot stored detached sig aad,
  sign1_verify O_der O_rfc O_verify tP tA key prot stored detached sig aad = Ok true ->
  exists payload alg h tbs,
    (match detached with Some p => Some p | None => stored end) = Some payload /\
    parse_alg O_der O_rfc prot = Ok (Some alg) /\ sig_alg_hash alg = Some h /\
    tbs_bytes ctx_signature1 tP tA prot aad payload = Ok tbs /\
    ((exists n id, key = PubEC n id /\ length sig = (2 * n)%nat /\
                   O_verify id SchEcdsa h tbs [firstn n sig; skipn n sig] = true) \/
     (exists id, key = PubRSA id /\
                 (is_rs alg = true /\ O_verify id SchPkcs1 h tbs [sig] = true \/
                  is_rs alg = false /\ is_ps alg = true /\ O_verify id SchPss h tbs [sig] = true))).
Proof. exact sign1_verify_exact. Qed.
Print Assumptions C13_exact.

(* completeness, ECDSA: the fixed-width r||s encoding round-trips for all r, s < 256^n (leading zero bytes) *)
Theorem C13_complete_ec : forall O_der O_rfc O_verify tP tA n id prot stored detached payload aad alg h tbs r s
        (ec_ok : bytes -> N -> bytes -> N -> N -> bool),
  (forall id h tbs R S, O_verify id SchEcdsa h tbs [R; S] = ec_ok id h tbs (of_be R) (of_be S)) ->
  (match detached with Some p => Some p | None => stored end) = Some payload ->
  parse_alg O_der O_rfc prot = Ok (Some alg) -> sig_alg_hash alg = Some h ->
  tbs_bytes ctx_signature1 tP tA prot aad payload = Ok tbs ->
  (1 <= n)%nat -> (r < 256 ^ N.of_nat n)%N -> (s < 256 ^ N.of_nat n)%N ->
  ec_ok id h tbs r s = true ->
  sign1_verify O_der O_rfc O_verify tP tA (PubEC n id) prot stored detached (be n r ++ be n s) aad = Ok true.
Proof. exact sign1_complete_ec. Qed.
Print Assumptions C13_complete_ec.

Theorem C13_complete_rsa : forall O_der O_rfc O_verify tP tA id prot stored detached payload aad alg h tbs sig,
  (match detached with Some p => Some p | None => stored end) = Some payload ->
  parse_alg O_der O_rfc prot = Ok (Some alg) -> sig_alg_hash alg = Some h ->
  tbs_bytes ctx_signature1 tP tA prot aad payload = Ok tbs ->
  (2 <= length sig)%nat -> Nat.even (length sig) = true ->
  (is_rs alg = true /\ O_verify id SchPkcs1 h tbs [sig] = true \/
   is_rs alg = false /\ is_ps alg = true /\ O_verify id SchPss h tbs [sig] = true) ->
  sign1_verify O_der O_rfc O_verify tP tA (PubRSA id) prot stored detached sig aad = Ok true.
Proof. exact sign1_complete_rsa. Qed.
Print Assumptions C13_complete_rsa.

(* MAC0: the tag is the HMAC under the given key of exactly the MAC_structure; other key sizes are refused *)
Theorem C13_mac_exact : forall O_hmac tP tA alg key prot payload aad prot' tag,
  mac0_digest O_hmac tP tA alg key prot payload aad = Ok (prot', tag) ->
  exists h ksz m, mac_alg_hash alg = Some (h, ksz) /\ length key = ksz /\
    prot' = map_insert (VInt 1) (VInt alg) prot /\
    tbs_bytes ctx_mac0 tP tA prot' aad payload = Ok m /\ tag = O_hmac h key m.
Proof. exact mac0_exact. Qed.
Print Assumptions C13_mac_exact.

(* the registries the model consults are the ones compiled into the library: ES/RS/PS 256/384/512 and HMAC 256/384 *)
Theorem C13_registry :
  map (fun a => sig_alg_hash a) [-7; -35; -36; -257; -258; -259; -37; -38; -39; 0; -8]%Z =
  [Some 256; Some 384; Some 512; Some 256; Some 384; Some 512; Some 256; Some 384; Some 512; None; None]%N /\
  mac_alg_hash 5 = Some (256%N, 16%nat) /\ mac_alg_hash 6 = Some (384%N, 32%nat).
Proof. vm_compute. repeat split; reflexivity. Qed.
Print Assumptions C13_registry.

(* non-vacuity: with an oracle that accepts, an ES256-shaped object verifies; with an unknown algorithm it errs *)
Example C13_example_accept :
  sign1_verify (fun _ _ => true) (fun _ => None) (fun _ _ _ _ _ => true) TRaw TBytes (PubEC 2 [])
    [(VInt 1, VInt (-7))] (Some (VRaw [x01])) None [x00; x01; x02; x03] (VBytes []) = Ok true.
Proof. vm_compute. reflexivity. Qed.
Example C13_example_unknown_alg :
  sign1_verify (fun _ _ => true) (fun _ => None) (fun _ _ _ _ _ => true) TRaw TBytes (PubEC 2 [])
    [(VInt 1, VInt 0)] (Some (VRaw [x01])) None [x00; x01; x02; x03] (VBytes []) = Err EOther.
Proof. vm_compute. reflexivity. Qed.
