(* Props/C18.v — the SQLite server state is a faithful, session-isolated store across restarts.
   Model: Store/Store.v, the reference store (token-keyed session fields, vouchers by GUID, rendezvous blobs with expiry)
   against which the real sqlite.DB is run operation by operation, including closing and reopening the database file
   between any two operations.  [proj n f] is what token n can observe of field f. *)
From FDO Require Import Store.Store Store.StoreFacts Store.Token Store.TokenFacts.
Local Open Scope Z_scope.

(* session isolation, for every history: the store seen through one token and field evolves as a one-cell machine that
   reacts only to operations presenting that token (and to the count of issued tokens); every other token's
   operations, voucher and blob operations and restarts are invisible to it *)
Theorem C18_isolation : forall n f ops, f <> 1%N -> forall st, proj n f (fst (run st ops)) = fold_left (astep n f) ops (proj n f st).
Proof. exact proj_run. Qed.
Print Assumptions C18_isolation.

Theorem C18_frame : forall n f c o, mentions n o = false -> (forall p, o <> ONew p) -> astep n f c o = c.
Proof. exact astep_frame. Qed.
Print Assumptions C18_frame.

Theorem C18_new_tokens_do_not_disturb : forall n f c p, (n < c_count c)%nat ->
  astep n f c (ONew p) = mkc (S (c_count c)) (c_alive c) (c_val c).
Proof. exact astep_new_frame. Qed.
Print Assumptions C18_new_tokens_do_not_disturb.

(* what is read is what the cell holds: the last value written through this token, if the token is still valid *)
Theorem C18_read : forall n f st, snd (step st (OGet (TId n) f)) = aget n (proj n f st).
Proof. exact get_is_cell. Qed.
Print Assumptions C18_read.

Theorem C18_read_your_write : forall n f c x, c_alive c = true -> (f <> 0%N /\ f <> 2%N \/ c_val c = None) ->
  aget n (astep n f c (OSet (TId n) f x)) = RVal x.
Proof. exact cell_set_get. Qed.
Print Assumptions C18_read_your_write.

(* the full statement (every stored value is what is later read) is FALSE for two fields, in the model as in the code:
   a second SetDeviceCertChain reports success but the first chain stays (plain INSERT, open known finding
   overwrite-keeps-first-value); a second SetIncompleteVoucherHeader is refused with an error (write-once) *)
Theorem C18_overwrite_refuted : forall n f c x y, c_alive c = true -> c_val c = Some y -> (f = 0%N \/ f = 2%N) ->
  aget n (astep n f c (OSet (TId n) f x)) = RVal y.
Proof. exact first_write_stays. Qed.
Print Assumptions C18_overwrite_refuted.

(* tokens the store did not issue or that were invalidated grant nothing and change nothing, for ever *)
Theorem C18_bad_token : forall st t, live st t = None ->
  (forall f v, fst (step st (OSet t f v)) = st /\ forall x, snd (step st (OSet t f v)) <> RVal x) /\
  (forall f, fst (step st (OGet t f)) = st /\ forall x, snd (step st (OGet t f)) <> RVal x) /\
  fst (step st (OInval t)) = st.
Proof. exact bad_token_nothing. Qed.
Print Assumptions C18_bad_token.

Theorem C18_never_issued : forall st f v,
  step st (OSet TBad f v) = (st, RInvalid) /\ step st (OGet TBad f) = (st, RInvalid) /\ step st (OInval TBad) = (st, RNotFound).
Proof. exact never_issued_invalid. Qed.
Print Assumptions C18_never_issued.

Theorem C18_unissued : forall st n, (length (st_sess st) <= n)%nat -> live st (TId n) = None.
Proof. exact unissued_is_bad. Qed.
Print Assumptions C18_unissued.

Theorem C18_invalidated : forall st t n s, live st t = Some (n, s) -> live (fst (step st (OInval t))) t = None.
Proof. exact invalidated_is_bad. Qed.
Print Assumptions C18_invalidated.

Theorem C18_dead_stays_dead : forall n f c o, (n < c_count c)%nat -> c_alive c = false -> c_alive (astep n f c o) = false.
Proof. exact cell_dead_stays. Qed.
Print Assumptions C18_dead_stays_dead.

(* vouchers and rendezvous blobs *)
Theorem C18_replace_voucher : forall st g g' v st',
  bget g (st_vouchers st) <> None -> step st (OReplV g g' v) = (st', ROk) ->
  snd (step st' (OGetV g')) = RVal v /\ (g <> g' -> snd (step st' (OGetV g)) = RNotFound) /\
  (forall h, h <> g -> h <> g' -> snd (step st' (OGetV h)) = snd (step st (OGetV h))).
Proof. exact replace_voucher. Qed.
Print Assumptions C18_replace_voucher.

Theorem C18_replace_missing : forall st g g' v, bget g (st_vouchers st) = None -> fst (step st (OReplV g g' v)) = st.
Proof. exact replace_missing. Qed.
Print Assumptions C18_replace_missing.

Theorem C18_blob_expiry : forall st g now b, snd (step st (OGetBlob g now)) = RVal b ->
  exists e, bget g (st_blobs st) = Some (b, e) /\ now <= e * 1000.
Proof. exact blob_expiry. Qed.
Print Assumptions C18_blob_expiry.

Theorem C18_blob_latest : forall st g b e now, now <= e * 1000 ->
  snd (step (fst (step st (OSetBlob g b e))) (OGetBlob g now)) = RVal b.
Proof. exact blob_set_get. Qed.
Print Assumptions C18_blob_latest.

(* a restart is invisible *)
Theorem C18_restart : forall st, step st ORestart = (st, ROk).
Proof. exact restart_identity. Qed.
Print Assumptions C18_restart.

Example C18_example :
  snd (run empty [ONew 2; ONew 4; OSet (TId 0) 5 [x01]; OSet (TId 1) 5 [x02]; ORestart; OGet (TId 0) 5; OInval (TId 1);
                  OGet (TId 1) 5; OGet (TId 0) 5; OGet TBad 5; OSetBlob [x0a] [x0b] 10; OGetBlob [x0a] 10000; OGetBlob [x0a] 10001]%byte) =
  [RTok 0; RTok 1; ROk; ROk; ROk; RVal [x01]; ROk; RNotFound; RVal [x01]; RInvalid; ROk; RVal [x0b]; RNotFound]%byte.
Proof. vm_compute. reflexivity. Qed.

(* ---- what "a token the store did not issue" means in bytes (sqlite.go NewToken / sessionID; kind store.token runs the real
   check, through a hook, on token texts of every decoded length and every one-character change of a genuine token) ---- *)

(* the check is total: no token text, of any length, slices out of range *)
Theorem C18_token_total : forall O_b64dec O_mac secret token, exists r, session_id O_b64dec O_mac secret token = Ok r.
Proof. exact session_id_total. Qed.
Print Assumptions C18_token_total.

(* an accepted token decodes to id || HMAC(secret, id): whoever presents it has the MAC of its first 16 bytes under the
   store's secret *)
Theorem C18_token_sound : forall O_b64dec O_mac secret token id,
  session_id O_b64dec O_mac secret token = Ok (Some id) ->
  exists raw, O_b64dec token = Some raw /\ raw = id ++ O_mac secret id /\ length id = session_id_size.
Proof. exact session_id_sound. Qed.
Print Assumptions C18_token_sound.

(* every issued token names its own session, and two sessions never share a token *)
Theorem C18_token_issued : forall O_b64dec O_b64enc O_mac secret id,
  (forall x, O_b64dec (O_b64enc x) = Some x) -> length id = session_id_size ->
  session_id O_b64dec O_mac secret (new_token O_b64enc O_mac secret id) = Ok (Some id).
Proof. exact new_token_accepted. Qed.
Print Assumptions C18_token_issued.

Theorem C18_tokens_distinct : forall O_b64dec O_b64enc O_mac secret id1 id2,
  (forall x, O_b64dec (O_b64enc x) = Some x) -> length id1 = session_id_size -> length id2 = session_id_size ->
  new_token O_b64enc O_mac secret id1 = new_token O_b64enc O_mac secret id2 -> id1 = id2.
Proof. exact tokens_distinct. Qed.
Print Assumptions C18_tokens_distinct.
