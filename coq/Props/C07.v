(* Props/C07.v — TO1 releases the registered redirect, unmodified, only to the proven device.
   Model: Fdo/Server.v for the session discipline; Cose/Sign1.v (C13) for what "signed with the key" means, both for the
   device's token at the rendezvous server and for the owner's signature on the blob that the device checks in TO2.
   The fact [r_ok] of a ProveToRV (32) request stands for: token signed by the key of the registered voucher's device
   certificate for the claimed GUID, nonce = the one issued in this session, registration not expired.  Expiry and the
   device-side check are exercised on the implementation (clock positions around the expiry second; altered blobs). *)
From FDO Require Import Cbor.Typed Cose.Sign1 Cose.Sign1Facts Fdo.Server Fdo.ServerFacts Fdo.Owner Fdo.OwnerFacts Fdo.OwnerHonest Cbor.RoundTripWf.
Local Open Scope N_scope.

(* RVRedirect (33) answers only a 32 passing every check, with the token of a TO1 session whose HelloRV was answered *)
Theorem C07_release_gate : forall st h r st' eff,
  reach st h -> handle st r = (st', RType 33, eff) ->
  exists id, r_tok r = TSess id /\ r_ok r = true /\ started_by h id PTO1 /\ r_type r = 32.
Proof.
  intros st h r st' eff RCH H.
  destruct (second_message_gate _ _ _ _ _ _ RCH H (or_intror (or_intror eq_refl))) as [id [p [TK [OK [SB [[_ [_ [_ T]]]|[[_ [_ [_ T]]]|[_ [-> T]]]]]]]]]; try discriminate.
  exists id. auto.
Qed.
Print Assumptions C07_release_gate.

Theorem C07_bad_token : forall st r st' resp eff,
  lookup st (r_tok r) = None -> is_start (r_type r) = false -> handle st r = (st', resp, eff) ->
  st' = st /\ eff = [] /\ (resp = RType 255 \/ resp = RNoBody \/ resp = RType 0).
Proof. exact bad_token_no_effect. Qed.
Print Assumptions C07_bad_token.

(* a token is good for one release: the final response ends the session *)
Theorem C07_single_use : forall st r st' eff id s,
  handle st r = (st', RType 33, eff) -> lookup st (r_tok r) = Some (id, s) -> is_start (r_type r) = false ->
  lookup st' (TSess id) = None.
Proof. intros st r st' eff id s H L IS. eapply dead_after_final_or_error; eauto. Qed.
Print Assumptions C07_single_use.

(* "signed with the key": acceptance of a COSE_Sign1 is exactly the primitive's yes for this key, the protected
   algorithm's hash and the Sig_structure of the re-encoded protected header and payload (device token and owner blob) *)
Theorem C07_signature_exact : forall O_der O_rfc O_verify tP tA key prot stored detached sig aad,
  sign1_verify O_der O_rfc O_verify tP tA key prot stored detached sig aad = Ok true ->
  exists payload alg h tbs,
    (match detached with Some p => Some p | None => stored end) = Some payload /\
    parse_alg O_der O_rfc prot = Ok (Some alg) /\ sig_alg_hash alg = Some h /\
    tbs_bytes ctx_signature1 tP tA prot aad payload = Ok tbs /\
    ((exists n id, key = PubEC n id /\ length sig = (2 * n)%nat /\
                   O_verify id SchEcdsa h tbs [firstn n sig; skipn n sig] = true) \/
     (exists id, key = PubRSA id /\
                 (is_rs alg = true /\ O_verify id SchPkcs1 h tbs [sig] = true \/
                  is_rs alg = false /\ is_ps alg = true /\ O_verify id SchPss h tbs [sig] = true))).
Proof. exact sign1_verify_exact. Qed.
Print Assumptions C07_signature_exact.

(* what [r_ok] of a 32 means in bytes: the body the rendezvous server accepted is a COSE_Sign1 over a claims map whose
   nonce claim is the nonce of this session and whose UEID is 0x01 followed by a 16-byte GUID that has a live
   registration, and the signature verifies under the device key of THAT registration (correspondence: kind srv.proof) *)
Theorem C07_proof_bytes : forall O_der O_rfc O_verify registered nonce body,
  prove_to_rv_ok O_der O_rfc O_verify registered nonce body = true ->
  exists prot unprot pl sig eat guid key,
    open_token O_der O_rfc body = Some (prot, unprot, pl, sig, eat) /\
    claim 10 eat = Some (VBytes nonce) /\ claim 256 eat = Some (VBytes (byte_of_N 1 :: guid)) /\ length guid = 16%nat /\
    registered guid = Some key /\
    sign1_verify O_der O_rfc O_verify TRaw TBytes key prot (Some (VRaw pl)) None sig (VBytes []) = Ok true.
Proof. exact prove_to_rv_sound. Qed.
Print Assumptions C07_proof_bytes.

(* conversely the rendezvous server demands nothing else of the token *)
Theorem C07_proof_bytes_complete : forall O_der O_rfc O_verify registered nonce body prot unprot pl sig eat guid key,
  open_token O_der O_rfc body = Some (prot, unprot, pl, sig, eat) ->
  claim 10 eat = Some (VBytes nonce) -> claim 256 eat = Some (VBytes (byte_of_N 1 :: guid)) -> length guid = 16%nat ->
  registered guid = Some key ->
  sign1_verify O_der O_rfc O_verify TRaw TBytes key prot (Some (VRaw pl)) None sig (VBytes []) = Ok true ->
  prove_to_rv_ok O_der O_rfc O_verify registered nonce body = true.
Proof. exact prove_to_rv_complete. Qed.
Print Assumptions C07_proof_bytes_complete.

(* the honest device is never refused: its well-formed token, ENCODED, passes (codec round trip + completeness) *)
Theorem C07_honest_accepted : forall O_der O_rfc O_verify registered nonce fe fe' prot unprot pl sig eat body guid key,
  RoundTripWf.wf O_der 0 ty_token (VList [VMap prot; VMap unprot; VRaw pl; VBytes sig]) ->
  enc fe ty_token (VList [VMap prot; VMap unprot; VRaw pl; VBytes sig]) = Ok body ->
  RoundTripWf.wf O_der 0 ty_eat (VMap eat) -> enc fe' ty_eat (VMap eat) = Ok pl ->
  claim 10 eat = Some (VBytes nonce) -> claim 256 eat = Some (VBytes (byte_of_N 1 :: guid)) -> length guid = 16%nat ->
  registered guid = Some key ->
  sign1_verify O_der O_rfc O_verify TRaw TBytes key prot (Some (VRaw pl)) None sig (VBytes []) = Ok true ->
  prove_to_rv_ok O_der O_rfc O_verify registered nonce body = true.
Proof. exact honest_prove_to_rv. Qed.
Print Assumptions C07_honest_accepted.

Example C07_run :
  snd (run [] [mkreq 30 TInvalid true false false; mkreq 32 (TSess 0) false false false;
               mkreq 30 TInvalid true false false; mkreq 32 (TSess 1) true false false; mkreq 32 (TSess 1) true false false]) =
  [(RType 31, []); (RType 255, []); (RType 31, []); (RType 33, []); (RType 255, [])].
Proof. vm_compute. reflexivity. Qed.
