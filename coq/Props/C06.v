(* Props/C06.v — the rendezvous server registers a redirect only for the voucher's current owner.
   Model: Fdo/Server.v for the session discipline, Fdo/Voucher.v (C04) for the entry chain, Cose/Sign1.v (C13) for the
   blob signature.  The fact [r_ok] of an OwnerSign (22) request stands for: voucher with >= 1 entry whose chain
   verifies, to0d hash equals the hash in the blob, nonce = the one issued in this session, blob signed by the key the
   voucher's last entry names, accepted TTL non-zero.  The TTL / expiry arithmetic is checked on the implementation. *)
From FDO Require Import Cbor.Typed Cose.Sign1 Fdo.Voucher Fdo.VoucherFacts Fdo.Server Fdo.ServerFacts Fdo.Owner Fdo.OwnerFacts Fdo.OwnerHonest Cbor.RoundTripWf.
Local Open Scope N_scope.

(* a blob is stored only for a 22 passing every check, with the token of a TO0 session whose Hello was answered *)
Theorem C06_store_gate : forall st h r st' t eff,
  reach st h -> handle st r = (st', RType t, eff) -> In ERVBlob eff ->
  exists id, r_tok r = TSess id /\ r_ok r = true /\ started_by h id PTO0 /\ r_type r = 22 /\ t = 23.
Proof.
  intros st h r st' t eff RCH H C.
  destruct (second_message_gate _ _ _ _ _ _ RCH H (or_intror (or_introl C))) as [id [p [TK [OK [SB [[X _]|[[_ [-> [T1 T2]]]|[T [-> _]]]]]]]]].
  - destruct (handle_cases _ _ _ _ _ H) as [[E _]|[[rt [s2 [IS [R [NE Y]]]]]|[id' [s [rt [s2 [IS [L [P [R [NE [Y GT]]]]]]]]]]]].
    + subst. contradiction.
    + destruct (respond_start _ _ _ _ _ _ IS eq_refl R) as [E _]. subst. contradiction.
    + destruct (respond_spec _ _ _ _ _ _ R) as [S1 [S2 _]]. destruct (S1 X) as [P1 _]. destruct (S2 C) as [P2 _]. congruence.
  - exists id. auto.
  - destruct (handle_cases _ _ _ _ _ H) as [[E _]|[[rt [s2 [IS [R [NE Y]]]]]|[id' [s [rt [s2 [IS [L [P [R [NE [Y GT]]]]]]]]]]]].
    + subst. contradiction.
    + destruct (respond_start _ _ _ _ _ _ IS eq_refl R) as [E _]. subst. contradiction.
    + destruct (respond_spec _ _ _ _ _ _ R) as [_ [S2 _]]. destruct (S2 C) as [_ [_ [RT _]]]. inversion Y; subst. discriminate.
Qed.
Print Assumptions C06_store_gate.

(* a 22 replayed in another session, or presented with a finished / errored / foreign token, stores nothing *)
Theorem C06_bad_token : forall st r st' resp eff,
  lookup st (r_tok r) = None -> is_start (r_type r) = false -> handle st r = (st', resp, eff) ->
  st' = st /\ eff = [] /\ (resp = RType 255 \/ resp = RNoBody \/ resp = RType 0).
Proof. exact bad_token_no_effect. Qed.
Print Assumptions C06_bad_token.

(* what "the entry chain verifies" and "the voucher's current owner" mean: C04's characterisation *)
Theorem C06_chain : forall O_der O_rfc O_verify O_hash O_pubkey hdr hm e0 rest,
  verify_entries O_der O_rfc O_verify O_hash O_pubkey hdr hm (e0 :: rest) = Ok tt ->
  exists mk mfg alg h info hb mb,
    header_mfg_key hdr = Some mk /\ O_pubkey mk = Some mfg /\ hash_of_alg alg = Some h /\
    header_info hdr = Some info /\ enc enc_fuel ty_header hdr = Ok hb /\ enc enc_fuel ty_hash hm = Ok mb /\
    Forall (fun en => e_payload en <> None) (e0 :: rest) /\
    chain_ok O_der O_rfc O_verify O_hash O_pubkey alg h (O_hash h info) mfg (O_hash h (hb ++ mb)) (e0 :: rest).
Proof. exact verify_entries_chain. Qed.
Print Assumptions C06_chain.

Theorem C06_owner_is_last : forall O_pubkey hdr l en, owner_key O_pubkey hdr (l ++ [en]) = entry_key O_pubkey en.
Proof. exact owner_key_last. Qed.
Print Assumptions C06_owner_is_last.

(* what [r_ok] of a 22 means in bytes: the accepted body decodes to (to0d, to1d) where the to1d blob carries the hash of
   the to0d as re-encoded, the voucher inside the to0d has at least one entry and its chain verifies, the blob is signed
   by the key that chain ENDS in (the current owner, not an earlier one), the nonce is this session's and the requested
   wait passed the deployment's policy (correspondence: kind srv.proof) *)
Theorem C06_proof_bytes : forall O_der O_rfc O_verify O_hash O_pubkey nonce ttl_ok body,
  owner_sign_ok O_der O_rfc O_verify O_hash O_pubkey nonce ttl_ok body = true ->
  exists v0 hdr hm v3 ents wait tprot tun t0 halg hval tsig h tb e0 rest owner,
    sdec O_der O_rfc ty_owner_sign body =
      Ok (VList [VList [VList [v0; hdr; hm; v3; VList ents]; VInt wait; VBytes nonce];
                 VList [VMap tprot; tun; VList [t0; VList [VInt halg; VBytes hval]]; VBytes tsig]]) /\
    any_hash_of_alg halg = Some h /\
    enc Sign1.enc_fuel ty_to0d (VList [VList [v0; hdr; hm; v3; VList ents]; VInt wait; VBytes nonce]) = Ok tb /\
    O_hash h tb = hval /\
    entries_of_vals ents = Some (e0 :: rest) /\
    (exists r, verify_entries O_der O_rfc O_verify O_hash O_pubkey hdr hm (e0 :: rest) = Ok r) /\
    owner_key O_pubkey hdr (e0 :: rest) = Ok owner /\
    sign1_verify O_der O_rfc O_verify ty_to1d_payload TBytes owner tprot
      (Some (VList [t0; VList [VInt halg; VBytes hval]])) None tsig (VBytes []) = Ok true /\
    ttl_ok wait = true.
Proof. exact owner_sign_sound. Qed.
Print Assumptions C06_proof_bytes.

(* conversely the rendezvous server demands nothing else, and an honest registration, ENCODED, is accepted *)
Theorem C06_honest_accepted : forall O_der O_rfc O_verify O_hash O_pubkey nonce ttl_ok fe body v0 hdr hm v3 ents wait tprot tun t0 halg hval tsig h tb e0 rest owner,
  let v := VList [VList [VList [v0; hdr; hm; v3; VList ents]; VInt wait; VBytes nonce];
                  VList [VMap tprot; tun; VList [t0; VList [VInt halg; VBytes hval]]; VBytes tsig]] in
  RoundTripWf.wf O_der 0 ty_owner_sign v -> enc fe ty_owner_sign v = Ok body ->
  any_hash_of_alg halg = Some h ->
  enc Sign1.enc_fuel ty_to0d (VList [VList [v0; hdr; hm; v3; VList ents]; VInt wait; VBytes nonce]) = Ok tb ->
  O_hash h tb = hval ->
  entries_of_vals ents = Some (e0 :: rest) ->
  verify_entries O_der O_rfc O_verify O_hash O_pubkey hdr hm (e0 :: rest) = Ok tt ->
  owner_key O_pubkey hdr (e0 :: rest) = Ok owner ->
  sign1_verify O_der O_rfc O_verify ty_to1d_payload TBytes owner tprot
    (Some (VList [t0; VList [VInt halg; VBytes hval]])) None tsig (VBytes []) = Ok true ->
  ttl_ok wait = true ->
  owner_sign_ok O_der O_rfc O_verify O_hash O_pubkey nonce ttl_ok body = true.
Proof. exact honest_owner_sign. Qed.
Print Assumptions C06_honest_accepted.

Example C06_run :
  snd (run [] [mkreq 20 TInvalid true false false; mkreq 22 (TSess 0) false false false;
               mkreq 20 TInvalid true false false; mkreq 22 (TSess 1) true false false; mkreq 22 (TSess 1) true false false]) =
  [(RType 21, []); (RType 255, []); (RType 21, []); (RType 23, [ERVBlob]); (RType 255, [])].
Proof. vm_compute. reflexivity. Qed.
