(* Props/C04.v — ownership vouchers verify iff untampered.
   Model: Fdo/Voucher.v (mirror of Voucher.VerifyHeader / VerifyManufacturerKey / VerifyCertChainHash / VerifyEntries /
   validateNextEntry / OwnerPublicKey over the CBOR codec model and the COSE Sign1 model; the voucher layout is the
   descriptor reflected from fdo.Voucher in Gen/Types.v).  Hashes, HMAC, signature verification and public-key parsing
   are universally quantified oracles: "some step fails" is proved up to what the primitives guarantee, i.e. every
   accepted alteration is shown to need an equal hash of different encodings or an accepting signature oracle.
   ExtendVoucher is exercised on the implementation only (correspondence monitors), not modelled. *)
From FDO Require Import Cbor.Typed Cose.Sign1 Fdo.Voucher Fdo.VoucherFacts Fdo.Extend Fdo.ExtendFacts Gen.Types.

(* the layouts the model decodes with are the ones the compiled package reports *)
Theorem C04_layout : ty_voucher = ty_fdo_Voucher /\ ty_entry = ty_fdo_VoucherEntry /\ ty_header = ty_fdo_VoucherHeader.
Proof. exact (conj ty_voucher_is_code (conj ty_entry_is_code ty_header_is_code)). Qed.
Print Assumptions C04_layout.

(* acceptance of a chain of any length means: the manufacturer key parses; every entry carries a payload, is signed by
   the key named by its predecessor (the manufacturer key for entry 0), repeats the hash algorithm of entry 0, carries
   the hash of GUID||DeviceInfo and the hash of the complete encoding of its predecessor (header||HMAC for entry 0) *)
Theorem C04_chain : forall O_der O_rfc O_verify O_hash O_pubkey hdr hm e0 rest,
  verify_entries O_der O_rfc O_verify O_hash O_pubkey hdr hm (e0 :: rest) = Ok tt ->
  exists mk mfg alg h info hb mb,
    header_mfg_key hdr = Some mk /\ O_pubkey mk = Some mfg /\ hash_of_alg alg = Some h /\
    header_info hdr = Some info /\ enc enc_fuel ty_header hdr = Ok hb /\ enc enc_fuel ty_hash hm = Ok mb /\
    Forall (fun en => e_payload en <> None) (e0 :: rest) /\
    chain_ok O_der O_rfc O_verify O_hash O_pubkey alg h (O_hash h info) mfg (O_hash h (hb ++ mb)) (e0 :: rest).
Proof. exact verify_entries_chain. Qed.
Print Assumptions C04_chain.

(* any position of any chain: replacing a non-final entry (payload, protected or unprotected header, signature; hence
   also swapping, duplicating or splicing entries) keeps the voucher valid only if two entry encodings hash equal *)
Theorem C04_entry_bound : forall O_der O_rfc O_verify O_hash O_pubkey l1 k alg h ph ih en en' e2 rest,
  validate O_der O_rfc O_verify O_hash O_pubkey k alg h ph ih (l1 ++ en :: e2 :: rest) = Ok tt ->
  validate O_der O_rfc O_verify O_hash O_pubkey k alg h ph ih (l1 ++ en' :: e2 :: rest) = Ok tt ->
  exists hv, entry_hash O_hash h en = Ok hv /\ entry_hash O_hash h en' = Ok hv.
Proof. exact alter_nonlast_needs_collision. Qed.
Print Assumptions C04_entry_bound.

(* header, header HMAC and device info are bound by entry 0 *)
Theorem C04_header_bound : forall O_der O_rfc O_verify O_hash O_pubkey hdr hm hdr' hm' e0 rest,
  verify_entries O_der O_rfc O_verify O_hash O_pubkey hdr hm (e0 :: rest) = Ok tt ->
  verify_entries O_der O_rfc O_verify O_hash O_pubkey hdr' hm' (e0 :: rest) = Ok tt ->
  exists h hb mb hb' mb' info info',
    enc enc_fuel ty_header hdr = Ok hb /\ enc enc_fuel ty_hash hm = Ok mb /\
    enc enc_fuel ty_header hdr' = Ok hb' /\ enc enc_fuel ty_hash hm' = Ok mb' /\
    header_info hdr = Some info /\ header_info hdr' = Some info' /\
    O_hash h (hb ++ mb) = O_hash h (hb' ++ mb') /\ O_hash h info = O_hash h info'.
Proof. exact alter_header_needs_collision. Qed.
Print Assumptions C04_header_bound.

(* the owner reported is the key named by the last entry *)
Theorem C04_owner_is_last : forall O_pubkey hdr l en, owner_key O_pubkey hdr (l ++ [en]) = entry_key O_pubkey en.
Proof. exact owner_key_last. Qed.
Print Assumptions C04_owner_is_last.

(* whatever the voucher and whatever the primitives answer, verification fails or passes: it never panics *)
Theorem C04_no_panic : forall O_der O_rfc O_verify O_hash O_pubkey hdr hm l p,
  verify_entries O_der O_rfc O_verify O_hash O_pubkey hdr hm l <> Panic p.
Proof. exact verify_entries_no_panic. Qed.
Print Assumptions C04_no_panic.

(* only the current owner can extend: ExtendVoucher's guard (model: extend_guard; compared with the library on every
   signer role x next key x chain length, kind voucher.extendcase) passes only for a signer whose key IS the key the
   voucher currently ends in, and only among keys of one kind and size *)
Theorem C04_extend_only_owner : forall O_pubkey mfg signer next signer_key hdr es,
  extend_guard O_pubkey mfg signer next signer_key hdr es = true ->
  owner_key O_pubkey hdr es = Ok signer_key /\ mfg = signer /\ signer = next /\ signer <> KOtherKey.
Proof. exact extend_guard_owner. Qed.
Print Assumptions C04_extend_only_owner.

(* "verify iff untampered", the other direction for extension: a voucher whose entries verify, extended by an entry
   whose payload is the one ExtendVoucher builds and whose signature verifies under the current owner key, verifies
   again, for chains of any length (the first extension, by the manufacturer, included) *)
Theorem C04_extension_verifies : forall O_der O_rfc O_verify O_hash O_pubkey hdr hm es alg extra next_pk pl prot unprot sig k,
  verify_entries O_der O_rfc O_verify O_hash O_pubkey hdr hm es = Ok tt ->
  owner_key O_pubkey hdr es = Ok k ->
  match es with
  | [] => True
  | e0 :: _ => exists pl0 pv hh pk, e_payload e0 = Some pl0 /\ payload_fields pl0 = Some (alg, pv, hh, pk)
  end ->
  extend_payload O_hash alg hdr hm es extra next_pk = Ok pl ->
  sign1_verify O_der O_rfc O_verify ty_entry_payload TBytes k prot (Some pl) None sig (VBytes []) = Ok true ->
  verify_entries O_der O_rfc O_verify O_hash O_pubkey hdr hm (extend_with es prot unprot pl sig) = Ok tt.
Proof. exact extend_verifies. Qed.
Print Assumptions C04_extension_verifies.

(* and its owner is the key named in the new entry *)
Theorem C04_extension_owner : forall O_pubkey hdr es prot unprot sig alg ph ih extra next_pk,
  owner_key O_pubkey hdr
    (extend_with es prot unprot (VList [VList [VInt alg; VBytes ph]; VList [VInt alg; VBytes ih]; extra; next_pk]) sig) =
  match O_pubkey next_pk with Some nk => Ok nk | None => Err EOther end.
Proof. exact extend_owner. Qed.
Print Assumptions C04_extension_owner.
