(* Props/C01.v — the device completes TO2 only with the owner its voucher chain designates.
   Model: Fdo/Device.v, the device's verifyOwner (checks on TO2.ProveOVHdr, fetching of every TO2.OVNextEntry, the
   voucher checks of Fdo/Voucher.v, owner key = last entry's key, to1d signature), over the bytes the device sent and
   received, decoded with the descriptors reflected from the library's message types.  [Proceed k n] is the only
   verdict after which the device sends its own ProveDevice token (and later talks to modules / returns a credential);
   [Abort] makes TO2 return an error.  Hash, HMAC, signature verification and key parsing are universally quantified. *)
From FDO Require Import Cbor.Typed Cose.Sign1 Fdo.Voucher Fdo.VoucherFacts Fdo.Device Fdo.DeviceFacts.
Local Open Scope Z_scope.

(* whatever the peer and the network deliver: the device goes on only if every check the property lists passed *)
Theorem C01_proceeds_only_if_checked : forall O_der O_rfc O_verify O_hash O_hmac O_pubkey d t61 b61 resps to1d k pdn,
  verify_owner O_der O_rfc O_verify O_hash O_hmac O_pubkey d (t61, b61) resps to1d = Proceed k pdn ->
  t61 = 61%N /\ checked O_der O_rfc O_verify O_hash O_hmac O_pubkey d b61 resps to1d k pdn.
Proof. exact verify_owner_sound. Qed.
Print Assumptions C01_proceeds_only_if_checked.

(* [checked] contains verify_entries = Ok: the chain verifies link by link from the manufacturer key (C04) *)
Theorem C01_chain : forall O_der O_rfc O_verify O_hash O_pubkey hdr hm e0 rest,
  verify_entries O_der O_rfc O_verify O_hash O_pubkey hdr hm (e0 :: rest) = Ok tt ->
  exists mk mfg alg h info hb mb,
    header_mfg_key hdr = Some mk /\ O_pubkey mk = Some mfg /\ hash_of_alg alg = Some h /\
    header_info hdr = Some info /\ enc enc_fuel ty_header hdr = Ok hb /\ enc enc_fuel ty_hash hm = Ok mb /\
    Forall (fun en => e_payload en <> None) (e0 :: rest) /\
    chain_ok O_der O_rfc O_verify O_hash O_pubkey alg h (O_hash h info) mfg (O_hash h (hb ++ mb)) (e0 :: rest).
Proof. exact verify_entries_chain. Qed.
Print Assumptions C01_chain.

(* ... and owner_key = Ok k: k is the key named by the chain's last entry, the key ProveOVHdr and the to1d blob verify under *)
Theorem C01_owner_is_last : forall O_pubkey hdr l en, owner_key O_pubkey hdr (l ++ [en]) = entry_key O_pubkey en.
Proof. exact owner_key_last. Qed.
Print Assumptions C01_owner_is_last.

(* a response of any other message type, or one entry response short, never leads on *)
Theorem C01_wrong_type_aborts : forall O_der O_rfc O_verify O_hash O_hmac O_pubkey d t b resps to1d,
  t <> 61%N -> verify_owner O_der O_rfc O_verify O_hash O_hmac O_pubkey d (t, b) resps to1d = Abort.
Proof.
  intros. unfold verify_owner. destruct (t =? 61)%N eqn:E; [apply N.eqb_eq in E; contradiction|reflexivity].
Qed.
Print Assumptions C01_wrong_type_aborts.

(* ... and conversely: when every one of those checks holds the device does go on, so [checked] is exactly the
   device's criterion (no hidden further condition, no check that silently never fires) *)
Theorem C01_proceeds_if_checked : forall O_der O_rfc O_verify O_hash O_hmac O_pubkey d b61 resps to1d k pdn,
  k <> PubOther ->
  checked O_der O_rfc O_verify O_hash O_hmac O_pubkey d b61 resps to1d k pdn ->
  verify_owner O_der O_rfc O_verify O_hash O_hmac O_pubkey d (61%N, b61) resps to1d = Proceed k pdn.
Proof. exact verify_owner_complete. Qed.
Print Assumptions C01_proceeds_if_checked.
