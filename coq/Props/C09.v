(* Props/C09.v — every supported crypto configuration onboards; forbidden ones are refused.
   Model: Kex/Valid.v, mirror of kex.Suite.Valid / kex.Available, with the table of FDO 1.1 section 3.6.5 written down
   independently; cipher registrations regenerated from the code (Gen/Tables.v).  The decision function is compared with
   the code on its whole finite domain on every run; the end-to-end statement (every allowed tuple completes DI,
   extension, TO0, TO1, TO2, resale, TO2 over the HTTP transport with the tunnel encrypted; every refused tuple ends in
   an error on both sides) is exercised on the implementation over the product of configurations. *)
From FDO Require Import Kex.Valid.

(* for EC device keys the library allows exactly the combinations of the specification's table *)
Theorem C09_valid_is_spec : forall d o s, d <> DevRSA -> suite_valid d o s = spec_allows d o s.
Proof. exact valid_is_spec. Qed.
Print Assumptions C09_valid_is_spec.

Theorem C09_valid_is_spec_table : forallb (fun d => forallb (fun o => forallb (fun s =>
    match d with DevRSA => true | _ => Bool.eqb (suite_valid d o s) (spec_allows d o s) end) all_suites) all_own) all_dev = true.
Proof. exact valid_iff_spec_ec. Qed.
Print Assumptions C09_valid_is_spec_table.

(* RSA device keys: the specification's table has no row; the library leaves every suite open (documented decision) *)
Theorem C09_rsa_device_open : forall o s, suite_valid DevRSA o s = true.
Proof. exact rsa_device_any_suite. Qed.
Print Assumptions C09_rsa_device_open.

(* nothing is silently negotiated to something else: an accepted suite fixes the owner key family *)
Theorem C09_suite_matches_owner : forall d o s, d <> DevRSA -> suite_valid d o s = true ->
  match s with
  | DHKEXid14 | ASYMKEX2048 => o = OwnRSA2048
  | DHKEXid15 | ASYMKEX3072 => o = OwnRSA3072
  | ECDH256 => o = OwnP256
  | ECDH384 => o = OwnP384
  | SuiteOther => False
  end.
Proof. exact valid_suite_matches_owner. Qed.
Print Assumptions C09_suite_matches_owner.
