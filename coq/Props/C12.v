(* Props/C12.v — CBOR decoding of arbitrary bytes is total, bounded and exact.
   Only statements, closed by [exact], each followed by Print Assumptions.
   The decoder model is Cbor/Typed.v ([dec], [unmarshal], [dec_raw]); oracles (X.509 parsing, RFC 3339
   parsing) are universally quantified: the theorems hold whatever they answer. *)
From FDO Require Import Cbor.Typed Cbor.DecFacts Gen.Tables Gen.TablesOk.

(* For every target shape, every byte string, every oracle behaviour: decoding with the fuel the runner
   uses neither panics nor runs out of fuel — it returns a value or an error. *)
Theorem C12_total : forall O_der O_rfc t b, total (dec O_der O_rfc (fuel_for b) 0 t b).
Proof. exact dec_fuel_for_total. Qed.
Print Assumptions C12_total.

Theorem C12_unmarshal_total : forall O_der O_rfc t b, total (unmarshal O_der O_rfc t b).
Proof. exact unmarshal_total. Qed.
Print Assumptions C12_unmarshal_total.

Theorem C12_raw_total : forall d b, total (dec_raw (fuel_for b) d b).
Proof. intros d b. apply dec_raw_total. unfold fuel_for. lia. Qed.
Print Assumptions C12_raw_total.

(* Exactness: a successful decode consumed a non-empty prefix and leaves exactly the rest of the stream. *)
Theorem C12_exact : forall O_der O_rfc f d t b v r,
  dec O_der O_rfc f d t b = Ok (v, r) -> exists p, b = p ++ r /\ p <> [].
Proof. exact dec_exact. Qed.
Print Assumptions C12_exact.

(* Whole-buffer decoding never succeeds with bytes left over. *)
Theorem C12_unmarshal_no_trailing : forall O_der O_rfc t b v,
  unmarshal O_der O_rfc t b = Ok v -> dec O_der O_rfc (fuel_for b) 0 t b = Ok (v, []).
Proof. exact unmarshal_whole. Qed.
Print Assumptions C12_unmarshal_no_trailing.

(* Declared lengths at or above the documented limit are rejected on the head alone: the error does not
   depend on (and the model reads none of) the bytes after the head. *)
Theorem C12_limit : forall O_der O_rfc f d t b h r,
  generic_ty t = true -> read_head b = Ok (h, r) ->
  ((h_mt h = 2 \/ h_mt h = 3 \/ h_mt h = 4) /\ max_len <= arg_val h \/ h_mt h = 5 /\ 50000 <= arg_val h)%N ->
  exists e, dec O_der O_rfc (S f) d t b = Err e.
Proof. exact dec_limit. Qed.
Print Assumptions C12_limit.

Theorem C12_limit_wrapped : forall O_der O_rfc f d t b h r,
  (t = TBWBytes \/ exists c, t = TDer c) -> read_head b = Ok (h, r) ->
  (h_mt h = 2 \/ h_mt h = 3)%N -> is_null_hd h = false -> (max_len <= arg_unwrap h)%N ->
  exists e, dec O_der O_rfc (S f) d t b = Err e.
Proof. exact dec_limit_wrapped. Qed.
Print Assumptions C12_limit_wrapped.

(* Nesting beyond MaxDecodeDepth is rejected (this is what bounds recursion and error-wrapping work). *)
Theorem C12_depth_limit : forall O_der O_rfc f t b h r,
  generic_ty t = true -> read_head b = Ok (h, r) -> (h_mt h = 4 \/ h_mt h = 5)%N ->
  exists e, dec O_der O_rfc (S f) max_depth t b = Err e.
Proof. exact dec_depth_limit. Qed.
Print Assumptions C12_depth_limit.

(* The limits the theorems speak about are the ones compiled into the library today (regenerated table). *)
Theorem C12_limits_are_the_codes :
  max_len = max_array_decode_length /\ N.of_nat max_depth = max_decode_depth.
Proof. exact (conj max_len_is_code max_depth_is_code). Qed.
Print Assumptions C12_limits_are_the_codes.

(* Non-vacuity: the hypotheses are met by concrete inputs; a deep nest is rejected, an honest item decodes. *)
Example C12_example_ok :
  dec (fun _ _ => true) (fun _ => None) (fuel_for [x82; x01; x41; x05; xff]) 0 TAny [x82; x01; x41; x05; xff]
  = Ok (VList [VInt 1; VBytes [x05]], [xff]).
Proof. vm_compute. reflexivity. Qed.

Example C12_example_limit :
  exists e, dec (fun _ _ => true) (fun _ => None) 9 0 TBytes [x5a; x00; x01; x86; xa0] = Err e.
Proof. vm_compute. eexists; reflexivity. Qed.
