(* Props/C19.v — concurrent onboardings through one server are isolated.
   What is proved: under ANY interleaving of the (atomic) requests of any number of sessions, a session is untouched by
   requests that do not present its token, and what a request presenting its token gets depends on that session's own
   state only (Fdo/Server.v); the same for the state store seen through one token (Store/Store.v, C18).  Requests are
   atomic in the models: true parallelism inside the library (data races, goroutine scheduling of the device pipeline,
   deadlocks) is not expressible here and is exercised under the Go race detector by the concurrency harness. *)
From FDO Require Import Fdo.Server Fdo.ServerFacts Store.Store Store.StoreFacts.

(* a request that does not present session id's token leaves that session exactly as it was *)
Theorem C19_server_frame : forall st r st' resp eff id,
  (id < length st)%nat -> (forall s, lookup st (r_tok r) <> Some (id, s)) ->
  handle st r = (st', resp, eff) -> nth_error st' id = nth_error st id.
Proof. exact handle_frame. Qed.
Print Assumptions C19_server_frame.

(* the outcome of a session's own request — response, effects, next state — is a function of that session's state:
   it is what the device would obtain alone *)
Theorem C19_server_local : forall st1 st2 r id,
  r_tok r = TSess id -> is_start (r_type r) = false -> nth_error st1 id = nth_error st2 id ->
  (id < length st1)%nat -> (id < length st2)%nat ->
  snd (fst (handle st1 r)) = snd (fst (handle st2 r)) /\ snd (handle st1 r) = snd (handle st2 r) /\
  nth_error (fst (fst (handle st1 r))) id = nth_error (fst (fst (handle st2 r))) id.
Proof. exact handle_local. Qed.
Print Assumptions C19_server_local.

(* the state store: no session observes another session's values, for every interleaved history *)
Theorem C19_store_isolation : forall n f ops, f <> 1%N -> forall st, proj n f (fst (run st ops)) = fold_left (astep n f) ops (proj n f st).
Proof. exact proj_run. Qed.
Print Assumptions C19_store_isolation.

Theorem C19_store_frame : forall n f c o, mentions n o = false -> (forall p, o <> ONew p) -> astep n f c o = c.
Proof. exact astep_frame. Qed.
Print Assumptions C19_store_frame.
