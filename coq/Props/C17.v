(* Props/C17.v — FSIM file transfers deliver identical files or nothing.
   Model: Fsim/Transfer.v, the receivers fsim.Download (device), fsim.UploadRequest (owner), fsim.Wget (device) as state
   machines over decoded messages and the senders' chunking; SHA-384 is a universally quantified function.  A file
   "appears" when the module renames its temporary file to the destination. *)
From FDO Require Import Fsim.Transfer Fsim.TransferFacts.
Local Open Scope Z_scope.

(* download, receiver: a file appears only under the announced (non-empty) name, with exactly the announced length,
   the announced digest (when one was announced), and it is the concatenation of the bytes received *)
Theorem C17_download_only_if_matching : forall sha384 s m s' rp n c, dl_step sha384 s m = (s', rp, Some (n, c)) ->
  exists chunks, m = MData chunks false /\ c = r_buf s ++ concat chunks /\ blen c = r_length s /\
    (r_sha s <> [] -> sha384 c = r_sha s) /\ n = r_name s /\ n <> [] /\ rp = Some (RDone (blen c)) /\ s' = r0.
Proof. exact dl_sound. Qed.
Print Assumptions C17_download_only_if_matching.

(* upload, receiver (owner): the file appears only with the announced length and the announced digest *)
Theorem C17_upload_only_if_matching : forall sha384 s m s' c, ul_step sha384 s m = (s', Some (inr c)) ->
  m = UTick /\ c = u_buf s /\ blen c = u_length s /\ sha384 c = u_sha s /\ u_sha s <> [] /\ u_over s' = true.
Proof. exact ul_sound. Qed.
Print Assumptions C17_upload_only_if_matching.

(* wget: the file is the delivered body, under the announced name, and matches the digest when one was announced *)
Theorem C17_wget_only_if_matching : forall sha384 name sha body n c, wget_result sha384 name sha body = Some (n, c) ->
  body = Some c /\ n = name /\ n <> [] /\ (sha <> [] -> sha384 c = sha).
Proof. exact wget_sound. Qed.
Print Assumptions C17_wget_only_if_matching.

(* senders: every chunk size >= 1 cuts the file into non-empty pieces of at most that size whose concatenation is the file *)
Theorem C17_chunks_lossless : forall sz data, (1 <= sz)%nat -> concat (chunks sz data) = data.
Proof. exact (chunks_concat (fun x => x)). Qed.
Print Assumptions C17_chunks_lossless.

Theorem C17_chunks_bounded : forall sz data, (1 <= sz)%nat -> Forall (fun c => (1 <= length c <= sz)%nat) (chunks sz data).
Proof. exact (chunks_bounds (fun x => x)). Qed.
Print Assumptions C17_chunks_bounded.

(* end to end, every content of at least one byte, every chunk size: the download receiver fed the sender's messages
   answers nothing until the last chunk, then reports the length and the identical file appears, exactly once *)
Theorem C17_download_end_to_end : forall sha384 name sz data, name <> [] -> data <> [] -> (1 <= sz)%nat ->
  dl_run sha384 r0 (download_messages sha384 name sz data) =
    (r0, quiet (3 + (length (chunks sz data) - 1)) ++ [(Some (RDone (blen data)), Some (name, data))]).
Proof. exact download_end_to_end. Qed.
Print Assumptions C17_download_end_to_end.

(* end to end, upload: the owner's receiver fed the device's messages (length, data chunks, digest last, a ProduceInfo tick
   after each) stores exactly the file, at the last tick, for every content of at least one byte and every chunk size *)
Theorem C17_upload_end_to_end : forall sha384 sz data, data <> [] -> sha384 data <> [] -> (1 <= sz)%nat ->
  snd (ul_run sha384 u0 (upload_messages sha384 sz data)) =
    [None; None] ++ quiet2 (chunks sz data) ++ [None; Some (inr data)].
Proof. exact upload_end_to_end. Qed.
Print Assumptions C17_upload_end_to_end.
