(* Props/C16.v — TO2 service info is delivered exactly once, in order, until modules finish.
   Models: Svi/Devmod.v (the device cuts its module list into devmod:modules chunks fitting the MTU; the owner puts
   them together), Svi/Modules.v (the owner walks through devmod and its modules, one ProduceInfo per
   DeviceServiceInfo without IsMoreServiceInfo, IsDone with the last completion), Svi/Chunk.v (a module's message
   bytes are cut into key/value entries and batched into protocol messages: C15).  Module activation on the device
   and the concurrency of its pipes are exercised on the implementation (scripted modules through real TO2 runs). *)
From FDO Require Import Svi.Devmod Svi.DevmodFacts Svi.Modules Svi.ModulesFacts Svi.Chunk Svi.ChunkFacts.

(* the owner obtains exactly the device's module list, whatever the MTU cuts it into and however many names there are *)
Theorem C16_module_list_roundtrip : forall fits names cs,
  (forall x, In x names -> x <> []) -> Devmod.split fits names = Some cs ->
  collect (repeat [] (length names)) cs = Some names /\ concat (map snd cs) = names.
Proof. exact devmod_roundtrip. Qed.
Print Assumptions C16_module_list_roundtrip.

(* the cutting always succeeds when every single name fits on its own, and every chunk it sends fits *)
Theorem C16_module_list_total : forall fits names,
  (forall st m, In m names -> fits st [m] = true) -> Devmod.split fits names <> None.
Proof. exact devmod_split_total. Qed.
Print Assumptions C16_module_list_total.

Theorem C16_module_list_chunks_fit : forall fits fuel start cur rest cs,
  (cur = [] \/ fits start cur = true) -> split_go fits fuel start cur rest = Some cs ->
  Forall (fun c => snd c = [] \/ fits (fst c) (snd c) = true) cs.
Proof. exact split_fits. Qed.
Print Assumptions C16_module_list_chunks_fit.

(* owner modules run one after another to completion: for every plan (calls each module needs) and every pattern of
   IsMoreServiceInfo flags from the device, the modules that produce form, in order, a prefix of
   devmod^k0, module1^k1, module2^k2, ... *)
Theorem C16_modules_in_order : forall flags s,
  exists n, produced (snd (orun s flags)) = firstn n (ideal (o_done s) (o_rest s)).
Proof. exact produced_is_prefix. Qed.
Print Assumptions C16_modules_in_order.

(* IsDone goes out at most once, and exactly in the reply in which the last module reports completion *)
Theorem C16_done_at_most_once : forall flags s, dones (snd (orun s flags)) <= 1.
Proof. exact done_at_most_once. Qed.
Print Assumptions C16_done_at_most_once.

Theorem C16_done_exactly_when_all_completed : forall flags s, o_rest s <> [] ->
  dones (snd (orun s flags)) = (if ModulesFacts.total (o_rest s) <=? ModulesFacts.produce_rounds flags then 1 else 0).
Proof. exact done_iff_all_completed. Qed.
Print Assumptions C16_done_exactly_when_all_completed.

(* the bytes a module writes reach the peer complete, in order, exactly once, over any number of protocol messages
   and any sizes the reader is offered (C15's lossless theorem on the chunking pipeline) *)
Theorem C16_message_bytes_lossless : forall st sizes emitted last st',
  wf_state st -> drain st sizes = (emitted, last, st') ->
  last <> CErr /\ norm (emitted ++ flat st') = norm (flat st).
Proof. exact drain_lossless. Qed.
Print Assumptions C16_message_bytes_lossless.

Example C16_sequence_example :
  snd (orun (start [1; 2; 1]) [false; true; false; false; false; false]) =
  [OProduced 0 false; ONothing; OProduced 1 false; OProduced 1 false; OProduced 2 true; OError].
Proof. vm_compute. reflexivity. Qed.
