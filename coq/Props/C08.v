(* Props/C08.v — server effects happen only through in-order, session-bound message sequences.
   Model: Fdo/Server.v, the abstract machine of http.Handler (token minting / lookup / invalidation, tunnel before
   dispatch) + the four responders over the session store.  Requests carry FACTS (ok / enc / hmac) about their body
   relative to the session their token names; the harness establishes them by construction when it builds the bytes.
   [reach st h]: st is the session table after the history h of (session count, request, response, effects). *)
From FDO Require Import Fdo.Server Fdo.ServerFacts.
Local Open Scope N_scope.

(* every state [run] goes through is reachable, so the step theorems below hold along every history of any length *)
Theorem C08_histories : forall rs st h, reach st h -> reach (fst (run_from st h rs)) (snd (run_from st h rs)).
Proof. exact run_reach. Qed.
Print Assumptions C08_histories.

Theorem C08_histories_are_runs : forall rs st h, fst (run_from st h rs) = fst (run st rs) /\
  map (fun e : entry => (snd (fst e), snd e)) (snd (run_from st h rs)) = map (fun e : entry => (snd (fst e), snd e)) h ++ snd (run st rs).
Proof. exact run_from_run. Qed.
Print Assumptions C08_histories_are_runs.

(* storing a DI voucher, storing a rendezvous blob (and releasing one): only for the protocol's second message, passing
   every check, presented with the token of a session of that protocol whose first message was accepted *)
Theorem C08_second_message : forall st h r st' t eff,
  reach st h -> handle st r = (st', RType t, eff) ->
  (In EDIVoucher eff \/ In ERVBlob eff \/ t = 33) ->
  exists id p, r_tok r = TSess id /\ r_ok r = true /\ started_by h id p /\
    ((In EDIVoucher eff /\ p = PDI /\ r_type r = 12 /\ t = 13) \/
     (In ERVBlob eff /\ p = PTO0 /\ r_type r = 22 /\ t = 23) \/
     (t = 33 /\ p = PTO1 /\ r_type r = 32)).
Proof. exact second_message_gate. Qed.
Print Assumptions C08_second_message.

(* invoking an owner module: only for an in-tunnel 68 of a session that was started, proved the device and sent 66 *)
Theorem C08_module : forall st h r st' t eff,
  reach st h -> handle st r = (st', RType t, eff) -> In EModule eff ->
  exists id, r_tok r = TSess id /\ r_type r = 68 /\ t = 69 /\ r_ok r = true /\ r_enc r = true /\
    proved_by h id /\ ready_by h id.
Proof. exact module_gate. Qed.
Print Assumptions C08_module.

(* replacing a voucher: only for an in-tunnel 70 in a session with accepted 60, 64 and a 66 carrying the HMAC *)
Theorem C08_replace_partial : forall st h r st' t eff,
  reach st h -> handle st r = (st', RType t, eff) -> In EReplace eff ->
  exists id, r_tok r = TSess id /\ r_type r = 70 /\ r_ok r = true /\ r_enc r = true /\
    started_by h id PTO2 /\ proved_by h id /\ hmac_by h id.
Proof. exact replace_chain_partial. Qed.
Print Assumptions C08_replace_partial.

(* the full statement would also demand the service-info exchange (68) before 70.  It is FALSE of the faithful model
   and of the code: Done is accepted right after DeviceServiceInfoReady (known finding served-without:serviceinfo) *)
Theorem C08_replace_without_serviceinfo_refuted :
  exists rs, (forall r, In r rs -> r_type r <> 68) /\
             exists st out, run [] rs = (st, out) /\ In (RType 71, [EReplace]) out.
Proof. exact replace_without_serviceinfo_refuted. Qed.
Print Assumptions C08_replace_without_serviceinfo_refuted.

(* missing / forged / damaged / finished / errored token on anything but a first message: error, no effect, no change *)
Theorem C08_bad_token : forall st r st' resp eff,
  lookup st (r_tok r) = None -> is_start (r_type r) = false -> handle st r = (st', resp, eff) ->
  st' = st /\ eff = [] /\ (resp = RType 255 \/ resp = RNoBody \/ resp = RType 0).
Proof. exact bad_token_no_effect. Qed.
Print Assumptions C08_bad_token.

(* after an error response or a final response the token no longer resolves, and it never resolves again *)
Theorem C08_dead_after : forall st r st' t eff id s,
  handle st r = (st', RType t, eff) -> lookup st (r_tok r) = Some (id, s) -> is_start (r_type r) = false ->
  (t = 255 /\ proto_of (r_type r) <> PNone) \/ is_final t = true -> lookup st' (TSess id) = None.
Proof. exact dead_after_final_or_error. Qed.
Print Assumptions C08_dead_after.

Theorem C08_dead_forever : forall st r st' resp eff id,
  (id < length st)%nat -> lookup st (TSess id) = None -> handle st r = (st', resp, eff) -> lookup st' (TSess id) = None.
Proof. exact dead_forever. Qed.
Print Assumptions C08_dead_forever.

(* non-vacuity: the honest runs do reach their effects *)
Definition hon (t : N) (id : nat) (enc hm : bool) := mkreq t (TSess id) true enc hm.
Example C08_honest_runs :
  snd (run [] [hon 10 0 false false; hon 12 0 false false; hon 20 1 false false; hon 22 1 false false;
               hon 60 2 false false; hon 62 2 false false; hon 64 2 false false; hon 66 2 true true;
               hon 68 2 true false; hon 68 2 true false; hon 70 2 true false; hon 70 2 true false]) =
  [(RType 11, []); (RType 13, [EDIVoucher]); (RType 21, []); (RType 23, [ERVBlob]);
   (RType 61, []); (RType 63, []); (RType 65, []); (RType 67, []); (RType 69, []); (RType 69, [EModule]);
   (RType 71, [EReplace]); (RType 255, [])].
Proof. vm_compute. reflexivity. Qed.
