(* Props/C05.v — TO2 messages after ProveDevice are confidential and tamper-evident.
   Model: Kex/Crypter.v (mirror of kex.SessionCrypter.Encrypt/Decrypt, cose.Encrypt0, the AES-GCM/CTR/CBC crypters and
   cose.Mac0 on top of the CBOR codec model).  AES and HMAC are universally quantified oracles; secrecy and
   unforgeability of the primitives are not claimed.  Suite and algorithm registries: Gen/Tables.v. *)
From FDO Require Import Cbor.Typed Cose.Sign1 Cose.Sign1Facts Kex.Crypter Kex.CrypterFacts Gen.Tables.

(* What acceptance means.  AEAD suites accept only a COSE_Encrypt0 (tag 16); encrypt-then-MAC suites accept only a
   COSE_Mac0 (tag 17) whose tag equals the HMAC, under SVK, of the MAC_structure of the re-encoded inner COSE_Encrypt0
   (so ciphertext, IV and headers are all covered), and only then decrypt. *)
Theorem C05_authentic : forall O_der O_rfc O_hmac O_aead_open O_ctr O_cbc_dec s sek svk wire pt,
  crypter_decrypt O_der O_rfc O_hmac O_aead_open O_ctr O_cbc_dec s sek svk wire = Ok pt ->
  exists n raw rest, dec O_der O_rfc (fuel_for wire) 0 (TTag TRaw) wire = Ok (VTag n (VRaw raw), rest) /\
  ((s_mac s = 0%Z /\ n = 16%N /\
    exists prot unprot ctv, unmarshal O_der O_rfc ty_encrypt0 raw = Ok (VList [VMap prot; VMap unprot; ctv]) /\
      encrypt0_decrypt O_der O_rfc O_aead_open O_ctr O_cbc_dec (s_enc s) sek prot unprot
                       (match ctv with VBytes c => Some c | _ => None end) = Ok pt) \/
   (s_mac s <> 0%Z /\ n = 17%N /\
    exists mprot u value prot unprot ctv prot',
      unmarshal O_der O_rfc ty_mac0_enc0 raw = Ok (VList [VMap mprot; u; VList [VMap prot; VMap unprot; ctv]; VBytes value]) /\
      mac0_digest O_hmac ty_encrypt0 TBytes (s_mac s) svk mprot (VList [VMap prot; VMap unprot; ctv]) (VBytes []) = Ok (prot', value) /\
      encrypt0_decrypt O_der O_rfc O_aead_open O_ctr O_cbc_dec (s_enc s) sek prot unprot
                       (match ctv with VBytes c => Some c | _ => None end) = Ok pt)).
Proof. exact crypter_decrypt_authentic. Qed.
Print Assumptions C05_authentic.

(* The inner COSE_Encrypt0: algorithm header pinned to the suite's algorithm (protected for AEAD), key of the
   algorithm's size, IV of the cipher's size, AEAD opened over the Enc_structure of the protected header. *)
Theorem C05_encrypt0_authentic : forall O_der O_rfc O_aead_open O_ctr O_cbc_dec alg key prot unprot ct x,
  encrypt0_decrypt O_der O_rfc O_aead_open O_ctr O_cbc_dec alg key prot unprot ct = Ok x ->
  exists ad ksz c iv p,
    enc_alg_info alg = Some (ad, ksz) /\ length key = ksz /\
    parse_hdr O_der O_rfc (TInt KI64) 1 (if ad then prot else unprot) = Ok (Some (VInt alg)) /\
    ct = Some c /\ parse_hdr O_der O_rfc TBytes 5 unprot = Ok (Some (VBytes iv)) /\
    unmarshal O_der O_rfc TRaw p = Ok (VRaw x) /\
    match enc_alg_mode alg with
    | MGcm => length iv = 12%nat /\ exists aad, (if ad then enc_structure prot else Ok []) = Ok aad /\ O_aead_open key iv aad c = Some p
    | MCtr => length iv = 16%nat /\ p = O_ctr key iv c
    | MCbc => length iv = 16%nat /\ length c <> 0%nat /\ Nat.modulo (length c) 16 = 0%nat /\
              let q := O_cbc_dec key iv c in
              (1 <= last_byte q <= 16)%N /\ p = firstn (length q - N.to_nat (last_byte q)) q
    | MUnimplemented => False
    end.
Proof. exact (fun O_der O_rfc => encrypt0_decrypt_authentic O_der O_rfc (fun _ _ _ => [])). Qed.
Print Assumptions C05_encrypt0_authentic.

(* No wire message, key or oracle behaviour makes decryption panic, for every registered cipher suite. *)
Theorem C05_no_panic : forall O_der O_rfc O_hmac O_aead_open O_ctr O_cbc_dec s sek svk wire p,
  In s all_suites -> crypter_decrypt O_der O_rfc O_hmac O_aead_open O_ctr O_cbc_dec s sek svk wire <> Panic p.
Proof.
  intros. apply crypter_decrypt_no_panic. apply suite_ok_b_spec.
  pose proof all_suites_ok as A. rewrite forallb_forall in A. now apply A.
Qed.
Print Assumptions C05_no_panic.

(* The suite table is the library's: 3 AEAD suites without MAC, 4 AES-CTR/CBC suites with HMAC-256/384. *)
Theorem C05_suites :
  map (fun r => fst r) cipher_suite_table = [1; 2; 3; -17760703; -17760704; -17760705; -17760706]%Z /\
  forallb (fun s => match enc_alg_mode (s_enc s) with MGcm => (s_mac s =? 0)%Z | MCtr | MCbc => negb (s_mac s =? 0)%Z | _ => false end)
          all_suites = true.
Proof. vm_compute. split; reflexivity. Qed.
Print Assumptions C05_suites.

(* ---- protocol level (Fdo/Server.v): messages 66..71 exist only inside the tunnel, and a message that fails to
   decrypt ends the session ---- *)
From FDO Require Fdo.Server Fdo.ServerFacts.

Theorem C05_only_inside_tunnel : forall st h r st' t eff,
  ServerFacts.reach st h -> Server.handle st r = (st', Server.RType t, eff) ->
  (t = 67 \/ t = 69 \/ t = 71 \/ In Server.EModule eff \/ In Server.EReplace eff)%N ->
  exists id, Server.r_tok r = Server.TSess id /\ Server.r_enc r = true /\ ServerFacts.proved_by h id.
Proof. exact ServerFacts.to2_tunnel_gate. Qed.
Print Assumptions C05_only_inside_tunnel.

Theorem C05_failed_message_ends_session : forall st r st' t eff id s,
  Server.handle st r = (st', Server.RType t, eff) -> Server.lookup st (Server.r_tok r) = Some (id, s) ->
  Server.is_start (Server.r_type r) = false ->
  (t = 255%N /\ Server.proto_of (Server.r_type r) <> Server.PNone) \/ Server.is_final t = true ->
  Server.lookup st' (Server.TSess id) = None.
Proof. exact ServerFacts.dead_after_final_or_error. Qed.
Print Assumptions C05_failed_message_ends_session.
