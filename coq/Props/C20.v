(* Props/C20.v — Rendezvous instructions are interpreted totally and per role as specified.
   Model: Rv/RvImpl.v ([interp] mirrors protocol.parseDirective/parseURLs/cbor.ArrayShift on top of the CBOR
   decoder model).  [ipstring] (net.IP.String, standard library) is universally quantified. *)
From FDO Require Import Cbor.Typed Rv.RvImpl Rv.RvFacts Rv.RvSpec Gen.Tables Gen.TablesOk.
From Coq Require Import Permutation.

(* never panics, never diverges: every instruction list, both roles, yields a directive *)
Theorem C20_total : forall ipstring l dev, exists d, interp ipstring l dev = Ok d.
Proof. exact interp_total. Qed.
Print Assumptions C20_total.

(* a directive marked for the other role contributes nothing (no addresses, zero directive) *)
Theorem C20_role : forall ipstring l dev,
  (exists i, In i l /\ rv_var i = other_marker dev) -> interp ipstring l dev = Ok zero_dir.
Proof. exact interp_other_role. Qed.
Print Assumptions C20_role.

(* independent of the order of distinct instructions *)
Theorem C20_perm : forall ipstring l l' dev,
  Permutation l l' -> NoDup (map rv_var l) -> interp ipstring l dev = interp ipstring l' dev.
Proof. exact interp_perm. Qed.
Print Assumptions C20_perm.

(* malformed values (per-variable target type does not decode, wrong address length, ExtRV without a text
   mechanism) are ignored rather than misread: the result is that of the list without the instruction *)
Theorem C20_malformed_ignored : forall ipstring l l' i dev,
  malformed i -> interp ipstring (l ++ i :: l') dev = interp ipstring (l ++ l') dev.
Proof. exact interp_malformed_ignored. Qed.
Print Assumptions C20_malformed_ignored.

(* scheme and port tables: role-specific port, else the protocol's default; finite and exhaustive over
   9 protocol values x 2 roles x presence of protocol / role port / other role's port x both orders (288 rows) *)
Theorem C20_defaults_table : defaults_check = true.
Proof. exact defaults_table. Qed.
Print Assumptions C20_defaults_table.

Theorem C20_other_variables_do_not_touch_addresses : forall dev st i,
  rv_var i <> 2%N -> rv_var i <> 3%N -> rv_var i <> 4%N -> rv_var i <> 5%N -> rv_var i <> 12%N -> url_step dev st i = Ok st.
Proof. exact url_step_other. Qed.
Print Assumptions C20_other_variables_do_not_touch_addresses.

(* the variable / protocol / medium numbering the model dispatches on is the library's (regenerated table) *)
Theorem C20_numbering_is_the_codes :
  rv_vars = [0; 1; 2; 3; 4; 5; 6; 7; 8; 9; 10; 11; 12; 13; 14; 15]%N /\
  rv_protocols = [0; 1; 2; 3; 4; 5; 6]%N /\ rv_media_all = [20; 21]%N.
Proof. exact rv_numbering_is_code. Qed.
Print Assumptions C20_numbering_is_the_codes.

(* non-vacuity *)
Example C20_example :
  interp (fun a => a) [mkrvi 12 [x01]; mkrvi 5 [x63; x61; x2e; x62]; mkrvi 14 []; mkrvi 3 [x19; x1f; x90]] true
  = Ok (mkdir [(s_http, str [97; 46; 98; 58; 56; 48; 56; 48]%N)] true None None [] [] [] [] 0 None None).
Proof. vm_compute. reflexivity. Qed.

Example C20_example_malformed : malformed (mkrvi 5 [x63; x61]).   (* truncated text *)
Proof. unfold malformed. right. right. left. split; [left; reflexivity|]. vm_compute. reflexivity. Qed.
