(* Props/C15.v — Service-info chunking is lossless, ordered and within the MTU.
   Model: Svi/Chunk.v (mirror of serviceinfo.ChunkReader.ReadChunk, KV.Size, the batching loop of
   exchangeServiceInfoRound and the receiver's reassembly).  [wf_state]: every queued message starts with a CBOR text
   key in its canonical encoding (what UnchunkWriter.NextServiceInfo writes).  [flat]: the logical content not yet
   delivered; [norm]: drop byte-less entries and concatenate consecutive equal keys (what ChunkWriter/UnchunkReader do).
   The model is sequential; the producing goroutine is assumed to have finished the message being read. *)
From FDO Require Import Cbor.Typed Svi.Chunk Svi.ChunkFacts.

(* every emitted chunk fits the size budget it was given, and carries at least one byte *)
Theorem C15_chunk_fits : forall st size k v st',
  wf_state st -> read_chunk st size = (CKV k v, st') -> (kv_size k v <= size)%Z.
Proof. exact read_chunk_fits. Qed.
Print Assumptions C15_chunk_fits.

Theorem C15_chunk_nonempty : forall st size k v st',
  wf_state st -> read_chunk st size = (CKV k v, st') -> v <> [].
Proof. exact read_chunk_nonempty. Qed.
Print Assumptions C15_chunk_nonempty.

(* reading never fails for a well-formed producer, whatever size is offered (0, smaller than the key, huge) *)
Theorem C15_never_fails : forall st size r st',
  wf_state st -> read_chunk st size = (r, st') -> r <> CErr /\ wf_state st'.
Proof. intros st size r st' W E. split; [exact (read_chunk_no_err st size r st' W E)|exact (read_chunk_wf st size r st' W E)]. Qed.
Print Assumptions C15_never_fails.

(* lossless, ordered, nothing duplicated or truncated: for EVERY schedule of size budgets (every MTU, every
   remainder before the budget is exhausted), what has been emitted together with what is still pending reassembles
   to the original stream; at end of stream the emitted chunks alone do *)
Theorem C15_lossless : forall st sizes emitted last st',
  wf_state st -> drain st sizes = (emitted, last, st') ->
  last <> CErr /\ norm (emitted ++ flat st') = norm (flat st).
Proof. exact drain_lossless. Qed.
Print Assumptions C15_lossless.

Theorem C15_complete_at_eof : forall st sizes emitted last st',
  wf_state st -> drain st sizes = (emitted, last, st') -> last = CEOF -> norm emitted = norm (flat st).
Proof. exact drain_complete. Qed.
Print Assumptions C15_complete_at_eof.

(* every batch packed into one DeviceServiceInfo fits the MTU, packing terminates, and loses nothing *)
Theorem C15_batch_fits : forall st mtu kvs more st',
  wf_state st -> (0 <= mtu)%Z -> round st mtu = RRound kvs more st' ->
  (fold_right (fun kv a => kv_size (fst kv) (snd kv) + a) 0 kvs <= mtu)%Z /\ wf_state st' /\
  norm (kvs ++ flat st') = norm (flat st).
Proof. exact round_fits. Qed.
Print Assumptions C15_batch_fits.

Theorem C15_batch_total : forall st mtu,
  wf_state st -> (0 <= mtu)%Z -> round st mtu <> ROutOfFuel.
Proof. exact round_total. Qed.
Print Assumptions C15_batch_total.

(* the one way a round fails: a pending key does not fit even an empty message of that size (outside the usable MTU
   range); the device then reports an error instead of dropping the entry *)
Theorem C15_fails_only_on_unsendable_key : forall st mtu,
  wf_state st -> (0 <= mtu)%Z -> round st mtu = RFail ->
  exists st1 st2 c, wf_state st1 /\ read_chunk st1 mtu = (CTooSmall, st2) /\ cs_cur st2 = Some c.
Proof. exact round_fails_only_on_unsendable_key. Qed.
Print Assumptions C15_fails_only_on_unsendable_key.

(* a forced message break (yield) ends the current DeviceServiceInfo with IsMoreServiceInfo set once the message holds an
   entry; at the very start of a message there is nothing to separate and the round goes on as if it were not there
   (nothing is dropped) *)
Theorem C15_yield_ends_message : forall fuel st max_read mtu acc q,
  cs_cur st = None -> cs_queue st = [] :: q -> max_read <> mtu ->
  round_loop (S fuel) st max_read mtu acc = RRound (rev acc) true (mkcs None q).
Proof. exact yield_ends_message. Qed.
Print Assumptions C15_yield_ends_message.

Theorem C15_leading_yield_skipped : forall st mtu q,
  cs_cur st = None -> cs_queue st = [] :: q -> round st mtu = round (mkcs None q) mtu.
Proof. exact yield_round. Qed.
Print Assumptions C15_leading_yield_skipped.


(* non-vacuity: three devmod messages are a well-formed state and drain completely under an awkward schedule *)
Example C15_example_wf : wf_state ex_st.
Proof. exact ex_wf. Qed.

(* the message as a whole: exchangeServiceInfo hands the round the negotiated size minus 5; whatever the number of KVs, the
   encoded TO2.DeviceServiceInfo [IsMoreServiceInfo, [KV...]] then fits the negotiated size (kind chunk.exchange runs
   exchangeServiceInfo itself and measures whole messages filled to the brim with 0..1000 KVs) *)
Theorem C15_message_fits : forall st mtu kvs more st',
  wf_state st -> (5 <= mtu < 65536)%Z -> round st (exchange_budget mtu) = RRound kvs more st' ->
  (message_size kvs <= mtu)%Z.
Proof. exact message_fits. Qed.
Print Assumptions C15_message_fits.
