(* Props/C14.v — Key exchange yields equal, fresh, correctly derived keys; survives persistence.
   Model: Kex/Kdf.v (mirror of internal/nistkdf.KDF, kex/dh.go, the ECDH parameter codec).  HMAC (the PRF) and
   big.Int.Exp are parameters; what is assumed of them is written in each statement. *)
From FDO Require Import Cbor.Typed Kex.Kdf Kex.KdfFacts Kex.Crypter Kex.CrypterFacts Gen.Tables.

(* The derivation loop (which iterates L/h times with h in BYTES, i.e. up to 8x more often than needed, and
   truncates) equals SP 800-108 counter mode: leftmost L bits of K(1)||...||K(ceil(L/h)), K(i) = PRF(kIn,
   [i]8 || "FIDO-KDF" || 0x00 || "AutomaticOnboardTunnel" || context || [L]16), whenever it does not hit the
   8-bit counter guard. *)
Theorem C14_kdf_spec : forall prf hbytes, (forall k m, length (prf k m) = hbytes) -> (0 < hbytes)%nat ->
  forall kin ctx L, (kdf_iterations hbytes L <= 255)%N -> kdf prf hbytes kin ctx L = Ok (kdf_spec prf hbytes kin ctx L).
Proof. exact kdf_refines_spec. Qed.
Print Assumptions C14_kdf_spec.

Theorem C14_kdf_length : forall prf hbytes, (forall k m, length (prf k m) = hbytes) -> (0 < hbytes)%nat ->
  forall kin ctx L k, kdf prf hbytes kin ctx L = Ok k -> length k = N.to_nat (L / 8).
Proof. exact kdf_length. Qed.
Print Assumptions C14_kdf_length.

(* Diffie-Hellman: whenever both sides complete, they hold the same SEK and SVK, for every group, generator,
   exponents and cipher sizes — given only that Exp is modular exponentiation. *)
Theorem C14_dh_agree : forall modexp prf hbytes, (forall b e m, modexp b e m = ((b ^ e) mod m)%N) ->
  forall g p plen a b ss vs xB kd ko, (0 < p)%N ->
  dh_device_param modexp prf hbytes g p plen (dh_owner_param modexp g p a) b ss vs = Ok (xB, kd) ->
  dh_owner_set modexp prf hbytes p plen (Some a) xB ss vs = Ok ko -> kd = ko.
Proof. exact dh_agree. Qed.
Print Assumptions C14_dh_agree.

Theorem C14_dh_key_lengths : forall modexp prf hbytes other own p plen ss vs sek svk,
  (forall k m, length (prf k m) = hbytes) -> (0 < hbytes)%nat ->
  dh_symmetric_key modexp prf hbytes other own p plen ss vs = Ok (sek, svk) -> length sek = ss /\ length svk = vs.
Proof. exact dh_key_lengths. Qed.
Print Assumptions C14_dh_key_lengths.

(* degenerate peer values are rejected instead of producing a key; a replayed parameter is an error *)
Theorem C14_dh_reject : forall modexp prf hbytes p plen own other ss vs,
  (4 <= p)%N -> (other = 0 \/ other = 1 \/ other = p - 1 \/ other = p \/ other = p + 1)%N ->
  exists e, dh_symmetric_key modexp prf hbytes other own p plen ss vs = Err e.
Proof. exact dh_reject. Qed.
Print Assumptions C14_dh_reject.

Theorem C14_dh_second_set : forall modexp prf hbytes p plen xB ss vs,
  dh_owner_set modexp prf hbytes p plen None xB ss vs = Err EOther.
Proof. exact dh_second_set. Qed.
Print Assumptions C14_dh_second_set.

(* ECDH parameters: a length-prefixed field is read back exactly (all lengths below 2^16) *)
Theorem C14_ecdh_field : forall a r, (N.of_nat (length a) < 65536)%N ->
  take16 (be 2 (N.of_nat (length a)) ++ a ++ r) = Ok (a, r).
Proof. exact take16_be. Qed.
Print Assumptions C14_ecdh_field.

(* key sizes per cipher suite come from the regenerated tables: SEK = encryption key size, SVK = MAC key size *)
Theorem C14_suite_key_sizes :
  map (fun s => (enc_alg_info (s_enc s), Cose.Sign1.mac_alg_hash (s_mac s))) all_suites =
  [(Some (true, 16%nat), None); (Some (true, 24%nat), None); (Some (true, 32%nat), None);
   (Some (false, 16%nat), Some (256%N, 16%nat)); (Some (false, 16%nat), Some (256%N, 16%nat));
   (Some (false, 32%nat), Some (384%N, 32%nat)); (Some (false, 32%nat), Some (384%N, 32%nat))].
Proof. vm_compute. reflexivity. Qed.
Print Assumptions C14_suite_key_sizes.

(* non-vacuity: a toy group run with an identity "PRF" completes on both sides with equal keys *)
Example C14_example :
  let modexp := fun b e m => ((b ^ e) mod m)%N in
  let prf := fun (k m : bytes) => firstn 4 (k ++ m) in
  exists xB k, dh_device_param modexp prf 4 5 23 1 (dh_owner_param modexp 5 23 6) 15 2 1 = Ok (xB, k) /\
               dh_owner_set modexp prf 4 23 1 (Some 6%N) xB 2 1 = Ok k.
Proof. vm_compute. do 2 eexists. split; reflexivity. Qed.
