(* Props/C02.v — the owner serves only a peer that proved the device key for this session.
   Model: Fdo/Server.v.  The fact [r_ok] of a ProveDevice (64) request stands for: the token's signature verifies under
   the public key of the voucher's device certificate (COSE model, C13), its nonce is the one issued in this session,
   its UEID names the voucher's GUID, and the key-exchange parameter is well formed; the harness constructs requests
   with and without each of these and reports the fact accordingly. *)
From FDO Require Import Cbor.Typed Cose.Sign1 Fdo.Server Fdo.ServerFacts Fdo.Owner Fdo.OwnerFacts Fdo.OwnerHonest Cbor.RoundTripWf.
Local Open Scope N_scope.

(* SetupDevice (65) answers only a ProveDevice that passes every check, in a TO2 session opened by an accepted 60 *)
Theorem C02_setup_gate : forall st h r st' eff,
  reach st h -> handle st r = (st', RType 65, eff) ->
  r_type r = 64 /\ r_ok r = true /\ exists id, r_tok r = TSess id /\ started_by h id PTO2.
Proof. exact to2_setup_gate. Qed.
Print Assumptions C02_setup_gate.

(* 67 / 69 / 71, module invocation and voucher replacement: only inside the tunnel of a session that proved the device *)
Theorem C02_tunnel_gate : forall st h r st' t eff,
  reach st h -> handle st r = (st', RType t, eff) ->
  (t = 67 \/ t = 69 \/ t = 71 \/ In EModule eff \/ In EReplace eff) ->
  exists id, r_tok r = TSess id /\ r_enc r = true /\ proved_by h id.
Proof. exact to2_tunnel_gate. Qed.
Print Assumptions C02_tunnel_gate.

(* whatever is sent and in whatever order, over any number of sessions: without a ProveDevice passing every check the
   peer sees only 61 / 63 (served to anyone naming the GUID), errors and empty replies, and nothing happens *)
Theorem C02_no_proof_no_service : forall st h,
  reach st h ->
  (forall n r resp e, In (n, r, resp, e) h -> r_type r = 64 -> r_ok r = false) ->
  forall x, In x h -> ~ served_beyond_header x.
Proof. exact no_proof_no_service. Qed.
Print Assumptions C02_no_proof_no_service.

(* the tunnel keys exist only after an accepted ProveDevice, which needs the accepted HelloDevice of the same session *)
Theorem C02_proved_started : forall st h, reach st h ->
  forall id s, nth_error st id = Some s -> s_proved s = true -> s_started s = true.
Proof. exact proved_started. Qed.
Print Assumptions C02_proved_started.

Theorem C02_histories : forall rs st h, reach st h -> reach (fst (run_from st h rs)) (snd (run_from st h rs)).
Proof. exact run_reach. Qed.
Print Assumptions C02_histories.

(* what [r_ok] of a 64 means in bytes: the body the owner accepted is a COSE_Sign1 signed under the key of the voucher's
   device certificate, over a claims map whose nonce claim is the ProveDevice nonce of THIS session, whose UEID names the
   session's GUID, and whose FDO claim is one key-exchange parameter that the session's key exchange accepted
   (correspondence: kind srv.proof, the bytes on the wire against the responder's answer) *)
Theorem C02_proof_bytes : forall O_der O_rfc O_verify devkey guid nonce xb_ok body,
  prove_device_ok O_der O_rfc O_verify devkey guid nonce xb_ok body = true ->
  exists prot unprot pl sig eat xb,
    open_token O_der O_rfc body = Some (prot, unprot, pl, sig, eat) /\
    sign1_verify O_der O_rfc O_verify TRaw TBytes devkey prot (Some (VRaw pl)) None sig (VBytes []) = Ok true /\
    claim 10 eat = Some (VBytes nonce) /\ claim 256 eat = Some (VBytes (byte_of_N 1 :: guid)) /\
    claim (-257) eat = Some (VList [VBytes xb]) /\ xb_ok xb = true.
Proof. exact prove_device_sound. Qed.
Print Assumptions C02_proof_bytes.

(* conversely the owner demands nothing else of the token (besides a SetupDevice nonce in the unprotected header) *)
Theorem C02_proof_bytes_complete : forall O_der O_rfc O_verify devkey guid nonce xb_ok body prot unprot pl sig eat xb sn,
  open_token O_der O_rfc body = Some (prot, unprot, pl, sig, eat) ->
  Crypter.parse_hdr O_der O_rfc (TFixed 16) (-259)%Z unprot = Ok (Some sn) ->
  sign1_verify O_der O_rfc O_verify TRaw TBytes devkey prot (Some (VRaw pl)) None sig (VBytes []) = Ok true ->
  claim 10 eat = Some (VBytes nonce) -> claim 256 eat = Some (VBytes (byte_of_N 1 :: guid)) ->
  claim (-257) eat = Some (VList [VBytes xb]) -> xb_ok xb = true ->
  prove_device_ok O_der O_rfc O_verify devkey guid nonce xb_ok body = true.
Proof. exact prove_device_complete. Qed.
Print Assumptions C02_proof_bytes_complete.

(* the honest device is never refused: its well-formed token, ENCODED, passes (codec round trip + completeness) *)
Theorem C02_honest_accepted : forall O_der O_rfc O_verify devkey guid nonce xb_ok fe fe' prot unprot pl sig eat body xb sn,
  RoundTripWf.wf O_der 0 ty_token (VList [VMap prot; VMap unprot; VRaw pl; VBytes sig]) ->
  enc fe ty_token (VList [VMap prot; VMap unprot; VRaw pl; VBytes sig]) = Ok body ->
  RoundTripWf.wf O_der 0 ty_eat (VMap eat) -> enc fe' ty_eat (VMap eat) = Ok pl ->
  Crypter.parse_hdr O_der O_rfc (TFixed 16) (-259)%Z unprot = Ok (Some sn) ->
  sign1_verify O_der O_rfc O_verify TRaw TBytes devkey prot (Some (VRaw pl)) None sig (VBytes []) = Ok true ->
  claim 10 eat = Some (VBytes nonce) -> claim 256 eat = Some (VBytes (byte_of_N 1 :: guid)) ->
  claim (-257) eat = Some (VList [VBytes xb]) -> xb_ok xb = true ->
  prove_device_ok O_der O_rfc O_verify devkey guid nonce xb_ok body = true.
Proof. exact honest_prove_device. Qed.
Print Assumptions C02_honest_accepted.

(* non-vacuity: with the proof, service; without (wrong signer / replayed token / plaintext 66), errors only *)
Example C02_with_and_without :
  snd (run [] [mkreq 60 TInvalid true false false; mkreq 64 (TSess 0) true false false; mkreq 66 (TSess 0) true true true;
               mkreq 60 TInvalid true false false; mkreq 64 (TSess 1) false false false; mkreq 66 (TSess 1) true false false]) =
  [(RType 61, []); (RType 65, []); (RType 67, []); (RType 61, []); (RType 255, []); (RType 255, [])].
Proof. vm_compute. reflexivity. Qed.
