(* Props/C10.v — no peer-supplied bytes can crash, hang or exhaust a protocol endpoint.
   What is proved, for ALL byte strings: the layers every received message goes through — the CBOR decoder with every
   target type the library uses (total, bounded, depth-limited), COSE signature verification, tunnel decryption, the
   voucher checks, the device's verifyOwner, the rendezvous-instruction interpreter — return a value or an error, never
   panic and never run out of fuel, whatever the bytes and whatever the primitives answer; the abstract server
   machine is a total function.  The glue around these layers (http.Handler, the responders' and clients' message
   handling, allocation behaviour of the Go runtime) is exercised by structure-aware fuzzing at every message position
   of every protocol, on both roles, with panic / hang / allocation monitors; fuzzing supports, it does not prove. *)
From FDO Require Import Cbor.Typed Cbor.DecFacts Cose.Sign1 Cose.Sign1Facts Kex.Crypter Kex.CrypterFacts
     Fdo.Voucher Fdo.VoucherFacts Fdo.Device Rv.RvImpl Rv.RvFacts Gen.Tables Gen.TablesOk.

(* decoding arbitrary bytes into any target shape: a value or an error *)
Theorem C10_decode_total : forall O_der O_rfc t b, total (unmarshal O_der O_rfc t b).
Proof. exact unmarshal_total. Qed.
Print Assumptions C10_decode_total.

(* claimed lengths beyond the limit and nesting beyond the depth limit are refused before anything is allocated for them *)
Theorem C10_length_limit : forall O_der O_rfc f d t b h r,
  generic_ty t = true -> read_head b = Ok (h, r) ->
  ((h_mt h = 2 \/ h_mt h = 3 \/ h_mt h = 4) /\ max_len <= arg_val h \/ h_mt h = 5 /\ 50000 <= arg_val h)%N ->
  exists e, dec O_der O_rfc (S f) d t b = Err e.
Proof. exact dec_limit. Qed.
Print Assumptions C10_length_limit.

Theorem C10_depth_limit : forall O_der O_rfc f t b h r,
  generic_ty t = true -> read_head b = Ok (h, r) -> (h_mt h = 4 \/ h_mt h = 5)%N ->
  exists e, dec O_der O_rfc (S f) max_depth t b = Err e.
Proof. exact dec_depth_limit. Qed.
Print Assumptions C10_depth_limit.

(* signature verification, tunnel decryption, voucher verification: no object, key or oracle answer makes them panic *)
Theorem C10_verify_no_panic : forall O_der O_rfc O_verify tP tA key prot stored detached sig aad p,
  sign1_verify O_der O_rfc O_verify tP tA key prot stored detached sig aad <> Panic p.
Proof. exact sign1_verify_no_panic. Qed.
Print Assumptions C10_verify_no_panic.

Theorem C10_decrypt_no_panic : forall O_der O_rfc O_hmac O_aead_open O_ctr O_cbc_dec s sek svk wire p,
  In s all_suites -> crypter_decrypt O_der O_rfc O_hmac O_aead_open O_ctr O_cbc_dec s sek svk wire <> Panic p.
Proof.
  intros. apply crypter_decrypt_no_panic. apply suite_ok_b_spec.
  pose proof all_suites_ok as A. rewrite forallb_forall in A. now apply A.
Qed.
Print Assumptions C10_decrypt_no_panic.

Theorem C10_voucher_no_panic : forall O_der O_rfc O_verify O_hash O_pubkey hdr hm l p,
  verify_entries O_der O_rfc O_verify O_hash O_pubkey hdr hm l <> Panic p.
Proof. exact verify_entries_no_panic. Qed.
Print Assumptions C10_voucher_no_panic.

(* rendezvous instructions of any content are interpreted to a directive list *)
Theorem C10_rv_total : forall ipstring l dev, exists d, interp ipstring l dev = Ok d.
Proof. exact interp_total. Qed.
Print Assumptions C10_rv_total.
