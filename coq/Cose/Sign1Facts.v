(* Cose/Sign1Facts.v — theorems about the COSE_Sign1 / COSE_Mac0 model. *)
From FDO Require Import Cbor.Typed Cbor.DecFacts Cose.Sign1.
Local Open Scope N_scope.

(* the encoder model has no Panic outcome *)
Lemma mapM_no_panic {A B} (f : A -> outcome B) l p :
  (forall x, f x <> Panic p) -> mapM f l <> Panic p.
Proof.
  intros Hf. induction l as [|x l IH]; cbn [mapM]; [discriminate|].
  specialize (Hf x). destruct (f x); cbn [bind]; try congruence.
  destruct (mapM f l); cbn [bind]; congruence.
Qed.

Lemma enc_no_panic f : forall t v p, enc f t v <> Panic p.
Proof.
  induction f as [|f IH]; intros t v p; cbn [enc]; [discriminate|].
  assert (M : forall t' l, mapM (enc f t') l <> Panic p) by (intros; apply mapM_no_panic; intros; apply IH).
  assert (M2 : forall l, mapM (fun tv : ty * val => enc f (fst tv) (snd tv)) l <> Panic p)
    by (intros; apply mapM_no_panic; intros; apply IH).
  assert (M3 : forall tk tv l, mapM (fun kv : val * val => let* k := enc f tk (fst kv) in let* x := enc f tv (snd kv) in Ok (k, x)) l <> Panic p).
  { intros. apply mapM_no_panic. intros x. pose proof (IH tk (fst x) p). pose proof (IH tv (snd x) p).
    destruct (enc f tk (fst x)); cbn [bind]; try congruence. destruct (enc f tv (snd x)); cbn [bind]; congruence. }
  destruct t, v; try discriminate; try apply IH;
    repeat match goal with
    | |- Ok _ <> _ => discriminate
    | |- Err _ <> _ => discriminate
    | |- (if ?c then _ else _) <> _ => destruct c
    | |- (match ?x with _ => _ end) <> _ => destruct x eqn:?
    | |- bind ?x _ <> _ =>
      let H := fresh in
      assert (H : x <> Panic p) by first [apply IH | apply M | apply M2 | apply M3];
      destruct x; cbn [bind]; try congruence
    end.
Qed.

Section Facts.
  Variable O_der : bool -> bytes -> bool.
  Variable O_rfc : bytes -> option Z.
  Variable O_verify : bytes -> sigscheme -> N -> bytes -> list bytes -> bool.
  Notation verify := (sign1_verify O_der O_rfc O_verify).

  Lemma parse_alg_no_panic prot p : parse_alg O_der O_rfc prot <> Panic p.
  Proof.
    unfold parse_alg. destruct (assoc (VInt 1) prot) as [v|]; [|discriminate].
    destruct v; try discriminate;
    match goal with |- bind ?x _ <> _ => pose proof (enc_no_panic enc_fuel TAny) as E end;
    match goal with |- bind (enc enc_fuel TAny ?v) _ <> _ => specialize (E v p); destruct (enc enc_fuel TAny v); cbn [bind]; try congruence end;
    match goal with |- bind (unmarshal _ _ ?t ?b) _ <> _ =>
      pose proof (unmarshal_total O_der O_rfc t b) as T; destruct (unmarshal O_der O_rfc t b) as [[]| | |]; cbn [bind]; try contradiction; discriminate end.
  Qed.

  (* Verification never panics, whatever the object, key, payload and AAD are. *)
  Theorem sign1_verify_no_panic tP tA key prot stored detached sig aad p :
    verify tP tA key prot stored detached sig aad <> Panic p.
  Proof.
    unfold sign1_verify.
    destruct (match detached with Some p0 => Some p0 | None => stored end); [|discriminate].
    destruct (Nat.ltb _ _); [discriminate|]. destruct (negb _); [discriminate|].
    pose proof (parse_alg_no_panic prot p) as PA.
    destruct (parse_alg O_der O_rfc prot) as [[alg|]| | |]; cbn [bind]; try congruence; try discriminate.
    destruct (sig_alg_hash alg); [|discriminate].
    unfold tbs_bytes.
    match goal with |- bind (enc ?f ?t ?v) _ <> _ => pose proof (enc_no_panic f t v p); destruct (enc f t v); cbn [bind]; try congruence end.
    destruct key; try discriminate.
    - destruct (negb _); discriminate.
    - destruct (is_rs alg); [discriminate|]. destruct (is_ps alg); discriminate.
  Qed.

  (* Exactness: acceptance means the primitive was asked about exactly the Sig_structure built from the
     re-encoded protected header, the external AAD and the effective payload, with the hash of the protected
     algorithm, under the given key, and answered yes. *)
  Theorem sign1_verify_exact tP tA key prot stored detached sig aad :
    verify tP tA key prot stored detached sig aad = Ok true ->
    exists payload alg h tbs,
      (match detached with Some p => Some p | None => stored end) = Some payload /\
      parse_alg O_der O_rfc prot = Ok (Some alg) /\ sig_alg_hash alg = Some h /\
      tbs_bytes ctx_signature1 tP tA prot aad payload = Ok tbs /\
      ((exists n id, key = PubEC n id /\ length sig = (2 * n)%nat /\
                     O_verify id SchEcdsa h tbs [firstn n sig; skipn n sig] = true) \/
       (exists id, key = PubRSA id /\
                   (is_rs alg = true /\ O_verify id SchPkcs1 h tbs [sig] = true \/
                    is_rs alg = false /\ is_ps alg = true /\ O_verify id SchPss h tbs [sig] = true))).
  Proof.
    unfold sign1_verify.
    destruct (match detached with Some p0 => Some p0 | None => stored end) as [payload|] eqn:EP; [|discriminate].
    destruct (Nat.ltb _ _); [discriminate|]. destruct (negb (Nat.even _)); [discriminate|].
    destruct (parse_alg O_der O_rfc prot) as [[alg|]| | |] eqn:EA; cbn [bind]; try discriminate.
    destruct (sig_alg_hash alg) as [h|] eqn:EH; [|discriminate].
    destruct (tbs_bytes ctx_signature1 tP tA prot aad payload) as [tbs| | |] eqn:ET; cbn [bind]; try discriminate.
    intros H. exists payload, alg, h, tbs.
    split; [reflexivity|]. split; [reflexivity|]. split; [exact EH|]. split; [exact ET|].
    destruct key as [n id|id|]; try discriminate.
    - left. exists n, id. destruct (Nat.eqb_spec (length sig) (2 * n)); cbn [negb] in H; [|discriminate].
      inversion H. auto.
    - right. exists id. split; [reflexivity|].
      destruct (is_rs alg); [left; inversion H; auto|].
      destruct (is_ps alg); [right; inversion H; auto|discriminate].
  Qed.

  (* Completeness for ECDSA incl. leading zeros: the fixed-width r||s encoding produced by the signer is split
     back into the same two numbers, for every coordinate size and all r, s below 256^n. *)
  Lemma split_fixed n r s :
    (r < 256 ^ N.of_nat n) -> (s < 256 ^ N.of_nat n) ->
    let sig := be n r ++ be n s in
    length sig = (2 * n)%nat /\ of_be (firstn n sig) = r /\ of_be (skipn n sig) = s.
  Proof.
    intros Hr Hs sig. unfold sig. repeat split.
    - rewrite app_length, !be_length. lia.
    - rewrite firstn_app, be_length, Nat.sub_diag, firstn_O, app_nil_r.
      rewrite firstn_all2 by (rewrite be_length; lia). now apply of_be_be.
    - rewrite skipn_app, be_length, Nat.sub_diag. cbn [skipn].
      rewrite skipn_all2 by (rewrite be_length; lia). cbn [app]. now apply of_be_be.
  Qed.

  Theorem sign1_complete_ec tP tA n id prot stored detached payload aad alg h tbs r s
          (ec_ok : bytes -> N -> bytes -> N -> N -> bool) :
    (forall id h tbs R S, O_verify id SchEcdsa h tbs [R; S] = ec_ok id h tbs (of_be R) (of_be S)) ->
    (match detached with Some p => Some p | None => stored end) = Some payload ->
    parse_alg O_der O_rfc prot = Ok (Some alg) -> sig_alg_hash alg = Some h ->
    tbs_bytes ctx_signature1 tP tA prot aad payload = Ok tbs ->
    (1 <= n)%nat -> r < 256 ^ N.of_nat n -> s < 256 ^ N.of_nat n ->
    ec_ok id h tbs r s = true ->
    verify tP tA (PubEC n id) prot stored detached (be n r ++ be n s) aad = Ok true.
  Proof.
    intros HO HP HA HH HT Hn Hr Hs Hok. unfold sign1_verify. rewrite HP.
    destruct (split_fixed n r s Hr Hs) as [L [F S]].
    rewrite L. destruct (Nat.ltb_spec (2 * n) 2); [lia|].
    replace (Nat.even (2 * n)) with true by (symmetry; apply Nat.even_spec; exists n; lia). cbn [negb].
    rewrite HA. cbn [bind]. rewrite HH, HT. cbn [bind]. rewrite Nat.eqb_refl. cbn [negb].
    rewrite HO, F, S, Hok. reflexivity.
  Qed.

  Theorem sign1_complete_rsa tP tA id prot stored detached payload aad alg h tbs sig :
    (match detached with Some p => Some p | None => stored end) = Some payload ->
    parse_alg O_der O_rfc prot = Ok (Some alg) -> sig_alg_hash alg = Some h ->
    tbs_bytes ctx_signature1 tP tA prot aad payload = Ok tbs ->
    (2 <= length sig)%nat -> Nat.even (length sig) = true ->
    (is_rs alg = true /\ O_verify id SchPkcs1 h tbs [sig] = true \/
     is_rs alg = false /\ is_ps alg = true /\ O_verify id SchPss h tbs [sig] = true) ->
    verify tP tA (PubRSA id) prot stored detached sig aad = Ok true.
  Proof.
    intros HP HA HH HT L E Hok. unfold sign1_verify. rewrite HP.
    destruct (Nat.ltb_spec (length sig) 2); [lia|]. rewrite E. cbn [negb].
    rewrite HA. cbn [bind]. rewrite HH, HT. cbn [bind].
    destruct Hok as [[R V] | [R [P V]]].
    - rewrite R. apply f_equal. exact V.
    - rewrite R, P. apply f_equal. exact V.
  Qed.

End Facts.

Section MacFacts.
  Variable O_hmac : N -> bytes -> bytes -> bytes.
  (* MAC: the tag is the HMAC, under the given key, of exactly the MAC_structure; wrong key sizes are refused *)
  Theorem mac0_exact tP tA alg key prot payload aad prot' tag :
    mac0_digest O_hmac tP tA alg key prot payload aad = Ok (prot', tag) ->
    exists h ksz m, mac_alg_hash alg = Some (h, ksz) /\ length key = ksz /\
      prot' = map_insert (VInt 1) (VInt alg) prot /\
      tbs_bytes ctx_mac0 tP tA prot' aad payload = Ok m /\ tag = O_hmac h key m.
  Proof.
    unfold mac0_digest. destruct (mac_alg_hash alg) as [[h ksz]|]; [|discriminate].
    destruct (Nat.eqb_spec (length key) ksz); cbn [negb]; [|discriminate].
    destruct (tbs_bytes _ _ _ _ _ _) as [m| | |] eqn:E; cbn [bind]; try discriminate.
    intros H; inversion H; subst. exists h, (length key), m. repeat split; auto.
  Qed.
End MacFacts.
