(* Cose/Sign1.v — executable mirror of cose.Sign1.Sign / Verify and cose.Mac0.Digest (cose/sign.go, mac.go).
   Cryptographic primitives are oracle parameters; everything that is CBOR is computed with the codec model. *)
From FDO Require Export Cbor.Typed.
From FDO Require Gen.Tables.
Local Open Scope N_scope.

(* public keys as the library distinguishes them: the ECDSA coordinate size n = ceil(bitlen(N)/8), RSA, other *)
Inductive pubkey :=
| PubEC (n : nat) (id : bytes)
| PubRSA (id : bytes)
| PubOther.

Inductive sigscheme := SchEcdsa | SchPkcs1 | SchPss.

(* registered signature algorithms and their hash (256 / 384 / 512): the table is regenerated from the
   compiled cose package on every run (Gen/Tables.v) *)
Fixpoint zassoc {A} (k : Z) (l : list (Z * A)) : option A :=
  match l with [] => None | (k', v) :: r => if (k =? k')%Z then Some v else zassoc k r end.
Definition sig_alg_hash (alg : Z) : option N := zassoc alg Gen.Tables.sig_alg_table.
Definition is_rs (alg : Z) : bool := (alg =? -257)%Z || (alg =? -258)%Z || (alg =? -259)%Z.
Definition is_ps (alg : Z) : bool := (alg =? -37)%Z || (alg =? -38)%Z || (alg =? -39)%Z.

Definition txt (l : list N) : bytes := map byte_of_N l.
Definition ctx_signature1 : bytes := txt [83;105;103;110;97;116;117;114;101;49].   (* "Signature1" *)
Definition ctx_mac0 : bytes := txt [77;65;67;48].                                   (* "MAC0" *)

Definition enc_fuel : nat := 4096.

Fixpoint assoc (k : val) (m : list (val * val)) : option val :=
  match m with
  | [] => None
  | (k', v) :: m' => if val_eqb k k' then Some v else assoc k m'
  end.

Section Cose.
  Variable O_der : bool -> bytes -> bool.
  Variable O_rfc : bytes -> option Z.
  (* ecdsa.Verify / rsa.VerifyPKCS1v15 / rsa.VerifyPSS over hash_h(tbs): key id, scheme, hash id, to-be-signed bytes,
     signature parts (r and s for ECDSA, [sig] for RSA) *)
  Variable O_verify : bytes -> sigscheme -> N -> bytes -> list bytes -> bool.
  Variable O_hmac : N -> bytes -> bytes -> bytes.       (* hash id, key, message *)

  Notation unmarshal := (unmarshal O_der O_rfc).

  (* tP: target shape of the payload type parameter, tA: of the external-AAD type parameter.
     ByteWrap[[]byte] is TBWBytes, ByteWrap[T] is TBstr T. *)
  Definition wrap_ty (t : ty) : ty := match t with TBytes => TBWBytes | _ => TBstr t end.

  Definition ty_sig_structure (tP tA : ty) : ty :=
    TStruct [(false, TText); (false, TProtHdr); (false, wrap_ty tA); (false, wrap_ty tP)].

  (* Sig_structure / MAC_structure bytes from the re-encoded parts *)
  Definition tbs_bytes (ctx : bytes) (tP tA : ty) (prot : list (val * val)) (aad payload : val) : outcome bytes :=
    enc enc_fuel (ty_sig_structure tP tA) (VList [VText ctx; VMap prot; aad; payload]).

  (* HeaderMap.Parse(AlgLabel, &alg): absent or nil -> missing; else re-marshal and unmarshal into int64 *)
  Definition parse_alg (prot : list (val * val)) : outcome (option Z) :=
    match assoc (VInt 1) prot with
    | None | Some VNull => Ok None
    | Some v =>
      let* b := enc enc_fuel TAny v in
      let* a := unmarshal (TInt KI64) b in
      match a with VInt z => Ok (Some z) | _ => Err EType end
    end.

  (* cose.Sign1.Verify.  [stored]: the Payload field (None = nil); [detached]: the payload argument. *)
  Definition sign1_verify (tP tA : ty) (key : pubkey) (prot : list (val * val)) (stored detached : option val)
             (sig : bytes) (aad : val) : outcome bool :=
    match (match detached with Some p => Some p | None => stored end) with
    | None => Err EOther
    | Some payload =>
      if Nat.ltb (length sig) 2 then Err EOther
      else if negb (Nat.even (length sig)) then Err EOther
      else
        let* oalg := parse_alg prot in
        match oalg with
        | None => Err EOther
        | Some alg =>
          match sig_alg_hash alg with
          | None => Err EOther                     (* unregistered algorithm *)
          | Some h =>
            let* tbs := tbs_bytes ctx_signature1 tP tA prot aad payload in
            match key with
            | PubEC n id =>
              if negb (Nat.eqb (length sig) (2 * n)) then Err EOther
              else Ok (O_verify id SchEcdsa h tbs [firstn n sig; skipn n sig])
            | PubRSA id =>
              if is_rs alg then Ok (O_verify id SchPkcs1 h tbs [sig])
              else if is_ps alg then Ok (O_verify id SchPss h tbs [sig])
              else Err EOther
            | PubOther => Err EOther
            end
          end
        end
    end.

  (* cose.Mac0.Digest: MAC over the MAC_structure; algorithm table (hash, key size, tag length) from Gen/Tables.v;
     hash id 0 marks registered algorithms that are not plain HMACs (AES-CBC-MAC, truncated) — not modelled *)
  Definition mac_alg_hash (alg : Z) : option (N * nat) :=
    match zassoc alg Gen.Tables.mac_alg_table with
    | Some (h, ksz, _) => Some (h, N.to_nat ksz)
    | None => None
    end.

  Definition mac0_digest (tP tA : ty) (alg : Z) (key : bytes) (prot : list (val * val)) (payload aad : val)
    : outcome (list (val * val) * bytes) :=
    match mac_alg_hash alg with
    | None => Panic PRegistry                       (* MacAlgorithm.KeySize panics on unregistered ids *)
    | Some (h, ksz) =>
      let prot' := map_insert (VInt 1) (VInt alg) prot in
      if negb (Nat.eqb (length key) ksz) then Err EOther
      else
        let* m := tbs_bytes ctx_mac0 tP tA prot' aad payload in
        Ok (prot', O_hmac h key m)
    end.
End Cose.
