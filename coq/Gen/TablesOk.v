(* Gen/TablesOk.v — hand-written, stable: connects the regenerated tables (Gen/Tables.v, dumped from the
   compiled packages on every run) to the constants the model and its theorems use.  If go-fdo changes a
   constant, one of these stops compiling and the differing value is the input to replay. *)
From FDO Require Import Cbor.Typed Gen.Tables Rv.RvImpl.
Local Open Scope N_scope.

Lemma max_len_is_code : max_len = max_array_decode_length.
Proof. reflexivity. Qed.

Lemma max_depth_is_code : N.of_nat max_depth = max_decode_depth.
Proof. reflexivity. Qed.

(* rendezvous variable numbering used by the interpreter model (0 DevOnly .. 15 ExtRV), protocol values 0..6,
   media "all" markers 20/21 *)
Lemma rv_numbering_is_code :
  rv_vars = [0; 1; 2; 3; 4; 5; 6; 7; 8; 9; 10; 11; 12; 13; 14; 15] /\
  rv_protocols = [0; 1; 2; 3; 4; 5; 6] /\ rv_media_all = [20; 21].
Proof. repeat split; reflexivity. Qed.
