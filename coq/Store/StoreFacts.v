(* Store/StoreFacts.v — what one token sees of the store depends only on what was done with that token. *)
From FDO Require Import Store.Store.
From Coq Require Import Lia.
Local Open Scope Z_scope.

(* ---- association lists ---- *)
Lemma fget_fset_same f v l : fget f (fset f v l) = Some v.
Proof. induction l as [|[k x] r IH]; cbn; [now rewrite N.eqb_refl|]. destruct (k =? f)%N eqn:E; cbn; rewrite E; auto. Qed.
Lemma fget_fset_other f g v l : f <> g -> fget g (fset f v l) = fget g l.
Proof.
  intros NE. induction l as [|[k x] r IH]; cbn.
  - destruct (f =? g)%N eqn:E; [apply N.eqb_eq in E; contradiction|reflexivity].
  - destruct (k =? f)%N eqn:E; cbn.
    + apply N.eqb_eq in E. subst k. destruct (f =? g)%N eqn:E2; [apply N.eqb_eq in E2; contradiction|reflexivity].
    + destruct (k =? g)%N; auto.
Qed.

Lemma bget_bdel_same {A} g (l : list (bytes * A)) : bget g (bdel g l) = None.
Proof. induction l as [|[k x] r IH]; cbn; auto. destruct (bytes_eqb k g) eqn:E; cbn; [auto|now rewrite E]. Qed.
Lemma bget_bdel_other {A} g h (l : list (bytes * A)) : g <> h -> bget h (bdel g l) = bget h l.
Proof.
  intros NE. induction l as [|[k x] r IH]; cbn; auto.
  destruct (bytes_eqb k g) eqn:E; cbn.
  - apply bytes_eqb_eq in E. subst k. destruct (bytes_eqb g h) eqn:E2; [apply bytes_eqb_eq in E2; contradiction|exact IH].
  - destruct (bytes_eqb k h); auto.
Qed.
Lemma bget_bput_same {A} g (v : A) l : bget g (bput g v l) = Some v.
Proof. unfold bput; cbn. now rewrite bytes_eqb_refl. Qed.
Lemma bget_bput_other {A} g h (v : A) l : g <> h -> bget h (bput g v l) = bget h l.
Proof.
  intros NE. unfold bput; cbn. destruct (bytes_eqb g h) eqn:E; [apply bytes_eqb_eq in E; contradiction|].
  now apply bget_bdel_other.
Qed.

Lemma upd_length {A} (l : list A) : forall n x, length (upd l n x) = length l.
Proof. induction l as [|y r IH]; intros [|n] x; cbn; auto. Qed.
Lemma nth_upd_same {A} (l : list A) : forall n x, (n < length l)%nat -> nth_error (upd l n x) n = Some x.
Proof. induction l as [|y r IH]; intros [|n] x H; cbn in *; try lia; auto. apply IH. lia. Qed.
Lemma nth_upd_other {A} (l : list A) : forall n m x, n <> m -> nth_error (upd l n x) m = nth_error l m.
Proof. induction l as [|y r IH]; intros [|n] [|m] x H; cbn; auto; congruence. Qed.

Lemma live_some st t n s : live st t = Some (n, s) -> t = TId n /\ nth_error (st_sess st) n = Some s /\ s_alive s = true /\ (n < length (st_sess st))%nat.
Proof.
  unfold live. destruct t as [|m]; [discriminate|].
  destruct (nth_error (st_sess st) m) as [x|] eqn:E; [|discriminate]. destruct (s_alive x) eqn:A; [|discriminate].
  intros H; inversion H; subst. repeat split; auto. apply nth_error_Some. congruence.
Qed.

(* ---- the store seen through one token and one field: an abstract one-cell machine ---- *)
Record cell := mkc { c_count : nat; c_alive : bool; c_val : option bytes }.

Definition proj (n : nat) (f : N) (st : store) : cell :=
  mkc (length (st_sess st))
      (match nth_error (st_sess st) n with Some s => s_alive s | None => false end)
      (match nth_error (st_sess st) n with Some s => if s_alive s then fget f (s_fields s) else None | None => None end).

(* only the ops that mention this token (and, for writes, this field) and the count of issued tokens matter *)
Definition astep (n : nat) (f : N) (c : cell) (o : op) : cell :=
  match o with
  | ONew _ => if Nat.eqb (c_count c) n then mkc (S (c_count c)) true None else mkc (S (c_count c)) (c_alive c) (c_val c)
  | OSet (TId m) g x =>
    if Nat.eqb m n && c_alive c && (g =? f)%N then
      (* field 0 keeps its first value, field 2 is write-once, the others are overwritten *)
      match c_val c with
      | Some _ => if (f =? 0)%N || (f =? 2)%N then c else mkc (c_count c) true (Some x)
      | None => mkc (c_count c) true (Some x)
      end
    else c
  | OInval (TId m) => if Nat.eqb m n && c_alive c then mkc (c_count c) false None else c
  | _ => c
  end.

(* what a read through token n returns: its value; not-found for an unset field and for an invalidated token (the
   token's MAC still verifies, the session row is gone); invalid for a token the store never issued *)
Definition aget (n : nat) (c : cell) : res :=
  if c_alive c then match c_val c with Some v => RVal v | None => RNotFound end
  else if Nat.ltb n (c_count c) then RNotFound else RInvalid.

Lemma nth_app_new {A} (l : list A) x n :
  nth_error (l ++ [x]) n = if Nat.eqb (length l) n then Some x else nth_error l n.
Proof.
  destruct (Nat.eqb (length l) n) eqn:E.
  - apply Nat.eqb_eq in E. subst n. rewrite nth_error_app2 by lia. now rewrite Nat.sub_diag.
  - apply Nat.eqb_neq in E. destruct (Nat.lt_ge_cases n (length l)) as [LT|GE].
    + now rewrite nth_error_app1.
    + rewrite nth_error_app2 by lia. destruct (n - length l)%nat eqn:D; [lia|].
      cbn. destruct n0; cbn; symmetry; apply nth_error_None; lia.
Qed.

(* isolation as a refinement: one step of the store, seen through (n, f), is one step of the cell *)
Theorem proj_step n f st o : f <> 1%N -> proj n f (fst (step st o)) = astep n f (proj n f st) o.
Proof.
  intros F1.
  destruct o as [p|t g x|t g|t|g v|g g' v|g|g|g b e|g now|]; cbn [step fst astep];
    try reflexivity;
    try (destruct (bget _ _) as [?|]; reflexivity).
  - (* ONew *)
    unfold proj; cbn [st_sess c_count c_alive c_val]. rewrite app_length; cbn [length]. rewrite Nat.add_1_r, nth_app_new.
    destruct (Nat.eqb (length (st_sess st)) n); reflexivity.
  - (* OSet *)
    destruct t as [|m]; [reflexivity|].
    destruct (live st (TId m)) as [[m' s]|] eqn:L; cbn [fst].
    + apply live_some in L as [E [N [A LT]]]. inversion E; subst m'.
      destruct (set_field g x (s_fields s)) as [l r] eqn:SF. cbn [fst].
      unfold proj; cbn [st_sess c_count c_alive c_val]. rewrite upd_length.
      destruct (Nat.eqb m n) eqn:MN.
      * apply Nat.eqb_eq in MN. subst m. rewrite nth_upd_same by exact LT. rewrite N, A. cbn [s_alive s_fields andb].
        unfold set_field in SF.
        destruct (g =? f)%N eqn:GF.
        -- apply N.eqb_eq in GF. subst g.
           destruct (f =? 0)%N eqn:F0.
           ++ apply N.eqb_eq in F0. subst f. cbn [orb].
              destruct (fget 0 (s_fields s)) eqn:G0; inversion SF; subst; [now rewrite G0|now rewrite fget_fset_same].
           ++ destruct (f =? 1)%N eqn:F1'; [apply N.eqb_eq in F1'; contradiction|].
              destruct (f =? 2)%N eqn:F2.
              ** apply N.eqb_eq in F2. subst f. cbn [orb].
                 destruct (fget 2 (s_fields s)) eqn:G2; inversion SF; subst; [now rewrite G2|now rewrite fget_fset_same].
              ** cbn [orb]. inversion SF; subst. rewrite fget_fset_same. destruct (fget f (s_fields s)); reflexivity.
        -- apply N.eqb_neq in GF.
           destruct (g =? 0)%N eqn:G0.
           ++ apply N.eqb_eq in G0. subst g. destruct (fget 0 (s_fields s)); inversion SF; subst; [reflexivity|now rewrite fget_fset_other].
           ++ destruct (g =? 1)%N eqn:G1.
              ** apply N.eqb_eq in G1. subst g. destruct (fget 0 (s_fields s)); inversion SF; subst; [now rewrite fget_fset_other|reflexivity].
              ** destruct (g =? 2)%N eqn:G2.
                 --- apply N.eqb_eq in G2. subst g. destruct (fget 2 (s_fields s)); inversion SF; subst; [reflexivity|now rewrite fget_fset_other].
                 --- inversion SF; subst. now rewrite fget_fset_other.
      * apply Nat.eqb_neq in MN. rewrite nth_upd_other by exact MN. reflexivity.
    + destruct (Nat.eqb m n) eqn:MN; [|reflexivity]. apply Nat.eqb_eq in MN. subst m.
      unfold live in L. unfold proj; cbn [c_alive].
      destruct (nth_error (st_sess st) n) as [s|]; [|reflexivity]. destruct (s_alive s); [discriminate|reflexivity].
  - (* OGet *)
    destruct (live st t) as [[? ?]|]; reflexivity.
  - (* OInval *)
    destruct t as [|m]; [reflexivity|].
    destruct (live st (TId m)) as [[m' s]|] eqn:L; cbn [fst].
    + apply live_some in L as [E [N [A LT]]]. inversion E; subst m'.
      unfold proj; cbn [st_sess c_count c_alive c_val]. rewrite upd_length.
      destruct (Nat.eqb m n) eqn:MN.
      * apply Nat.eqb_eq in MN. subst m. rewrite nth_upd_same by exact LT. rewrite N, A. reflexivity.
      * apply Nat.eqb_neq in MN. rewrite nth_upd_other by exact MN. reflexivity.
    + destruct (Nat.eqb m n) eqn:MN; [|reflexivity]. apply Nat.eqb_eq in MN. subst m.
      unfold live in L. unfold proj; cbn [c_alive].
      destruct (nth_error (st_sess st) n) as [s|]; [|reflexivity]. destruct (s_alive s); [discriminate|reflexivity].
  - (* OReplV *)
    destruct (bget g' (st_vouchers st)); [reflexivity|]. destruct (bget g (st_vouchers st)); reflexivity.
Qed.

(* a read through a token returns what the cell holds *)
Theorem get_is_cell n f st : snd (step st (OGet (TId n) f)) = aget n (proj n f st).
Proof.
  cbn [step]. unfold live, dead, proj, aget; cbn [c_alive c_val c_count].
  destruct (nth_error (st_sess st) n) as [s|] eqn:N.
  - destruct (s_alive s); cbn [snd negb]; [reflexivity|].
    assert (LT : (n < length (st_sess st))%nat) by (apply nth_error_Some; congruence).
    apply Nat.ltb_lt in LT. rewrite LT. reflexivity.
  - cbn [snd]. apply nth_error_None in N.
    destruct (Nat.ltb n (length (st_sess st))) eqn:E; [apply Nat.ltb_lt in E; lia|reflexivity].
Qed.

(* over whole histories, any interleaving with other tokens' operations, voucher and blob operations and restarts *)
Theorem proj_run n f ops : f <> 1%N -> forall st, proj n f (fst (run st ops)) = fold_left (astep n f) ops (proj n f st).
Proof.
  intros F1. induction ops as [|o r IH]; intros st; cbn [run fold_left]; [reflexivity|].
  destruct (step st o) as [st1 x] eqn:S. destruct (run st1 r) as [st2 xs] eqn:R. cbn [fst].
  replace st2 with (fst (run st1 r)) by now rewrite R. rewrite IH. f_equal.
  replace st1 with (fst (step st o)) by now rewrite S. now apply proj_step.
Qed.

(* operations that do not mention the token leave its cell alone (apart from counting issued tokens) *)
Definition mentions (n : nat) (o : op) : bool :=
  match o with OSet (TId m) _ _ | OInval (TId m) => Nat.eqb m n | _ => false end.
Theorem astep_frame n f c o : mentions n o = false -> (forall p, o <> ONew p) -> astep n f c o = c.
Proof.
  destruct o as [p|t g x|t g|t|g v|g g' v|g|g|g b e|g now|]; cbn; intros M NN; try reflexivity.
  - exfalso. now apply (NN p).
  - destruct t; [reflexivity|]. now rewrite M.
  - destruct t; [reflexivity|]. now rewrite M.
Qed.
(* issuing further tokens never touches an existing one *)
Theorem astep_new_frame n f c p : (n < c_count c)%nat -> astep n f c (ONew p) = mkc (S (c_count c)) (c_alive c) (c_val c).
Proof. intros H. cbn. destruct (Nat.eqb (c_count c) n) eqn:E; [apply Nat.eqb_eq in E; lia|reflexivity]. Qed.

(* read-your-writes, and death is final *)
Theorem cell_set_get n f c x : c_alive c = true -> (f <> 0%N /\ f <> 2%N \/ c_val c = None) ->
  aget n (astep n f c (OSet (TId n) f x)) = RVal x.
Proof.
  intros A H. unfold astep. rewrite Nat.eqb_refl, A, N.eqb_refl. cbn [andb].
  destruct (c_val c) eqn:V.
  - destruct H as [[F0 F2]|H]; [|discriminate].
    apply N.eqb_neq in F0, F2. rewrite F0, F2. cbn [orb]. unfold aget. cbn [c_alive c_val]. reflexivity.
  - unfold aget. cbn [c_alive c_val]. reflexivity.
Qed.
(* the two write-once fields: a second value written through a live token is not what is read back (device
   certificate chain: the call even reports success) — the store is not an overwrite store for them *)
Theorem first_write_stays n f c x y : c_alive c = true -> c_val c = Some y -> (f = 0%N \/ f = 2%N) ->
  aget n (astep n f c (OSet (TId n) f x)) = RVal y.
Proof.
  intros A V H. unfold astep. rewrite Nat.eqb_refl, A, N.eqb_refl, V. cbn [andb].
  destruct H as [->| ->]; cbn [N.eqb Pos.eqb orb]; unfold aget; rewrite A, V; reflexivity.
Qed.
Theorem cell_dead_stays n f c o : (n < c_count c)%nat -> c_alive c = false -> c_alive (astep n f c o) = false.
Proof.
  intros LT D. destruct o as [p|t g x|t g|t|g v|g g' v|g|g|g b e|g now|]; cbn; auto.
  - destruct (Nat.eqb (c_count c) n) eqn:E; [apply Nat.eqb_eq in E; lia|exact D].
  - destruct t; auto. rewrite D. rewrite andb_false_r. cbn. exact D.
  - destruct t; auto. rewrite D. now rewrite andb_false_r.
Qed.

(* tokens the store did not issue, and invalidated ones, grant nothing and change nothing *)
Theorem bad_token_nothing st t : live st t = None ->
  (forall f v, fst (step st (OSet t f v)) = st /\ forall x, snd (step st (OSet t f v)) <> RVal x) /\
  (forall f, fst (step st (OGet t f)) = st /\ forall x, snd (step st (OGet t f)) <> RVal x) /\
  fst (step st (OInval t)) = st.
Proof.
  intros L. cbn. rewrite L. cbn. repeat split; auto; intros; destruct (dead st t); try destruct (_ =? _)%N; discriminate.
Qed.
(* a token the store never issued (damaged, truncated, forged, foreign) is answered "invalid session" *)
Theorem never_issued_invalid st : forall f v,
  step st (OSet TBad f v) = (st, RInvalid) /\ step st (OGet TBad f) = (st, RInvalid) /\ step st (OInval TBad) = (st, RNotFound).
Proof. intros. cbn. auto. Qed.
Theorem unissued_is_bad st n : (length (st_sess st) <= n)%nat -> live st (TId n) = None.
Proof. intros H. unfold live. now rewrite (proj2 (nth_error_None _ _) H). Qed.
Theorem invalidated_is_bad st t n s : live st t = Some (n, s) -> live (fst (step st (OInval t))) t = None.
Proof.
  intros L. cbn. rewrite L. cbn. apply live_some in L as [-> [_ [_ LT]]]. unfold live; cbn. now rewrite nth_upd_same.
Qed.

(* vouchers: after a replacement the new one is retrievable and the old one is gone; adding never overwrites *)
Theorem replace_voucher st g g' v st' :
  bget g (st_vouchers st) <> None -> step st (OReplV g g' v) = (st', ROk) ->
  snd (step st' (OGetV g')) = RVal v /\ (g <> g' -> snd (step st' (OGetV g)) = RNotFound) /\
  (forall h, h <> g -> h <> g' -> snd (step st' (OGetV h)) = snd (step st (OGetV h))).
Proof.
  intros EX. cbn [step]. destruct (bget g' (st_vouchers st)) eqn:E; [discriminate|].
  destruct (bget g (st_vouchers st)) eqn:E2; [|contradiction].
  intros H; inversion H; subst; clear H. cbn [step snd fst st_vouchers].
  rewrite bget_bput_same. split; [reflexivity|]. split.
  - intros NE. rewrite bget_bput_other by congruence. now rewrite bget_bdel_same.
  - intros h N1 N2. rewrite bget_bput_other by congruence. rewrite bget_bdel_other by congruence. reflexivity.
Qed.
(* replacing a voucher that is not stored changes nothing (and, unless both GUIDs are equal, says so) *)
Theorem replace_missing st g g' v : bget g (st_vouchers st) = None -> fst (step st (OReplV g g' v)) = st.
Proof. intros E. cbn [step]. destruct (bget g' (st_vouchers st)); [reflexivity|]. now rewrite E. Qed.
Theorem add_voucher st g v st' r : step st (OAddV g v) = (st', r) ->
  (r = ROk /\ snd (step st' (OGetV g)) = RVal v) \/ (r = RErr /\ st' = st).
Proof.
  cbn [step]. destruct (bget g (st_vouchers st)) eqn:E; intros H; inversion H; subst; [right; auto|left]. cbn [step snd fst st_vouchers]. split; [reflexivity|].
  now rewrite bget_bput_same.
Qed.

(* rendezvous blobs: a blob is handed out only up to its expiry, and it is the last one registered for the GUID *)
Theorem blob_expiry st g now b : snd (step st (OGetBlob g now)) = RVal b ->
  exists e, bget g (st_blobs st) = Some (b, e) /\ now <= e * 1000.
Proof.
  unfold step; cbn [snd]. destruct (bget g (st_blobs st)) as [[b' e]|]; [|intros H; discriminate H].
  destruct (e * 1000 <? now) eqn:E; intros H; cbv iota beta in H; [discriminate H|]. inversion H; subst. exists e. split; [reflexivity|].
  apply Z.ltb_ge in E. exact E.
Qed.
Theorem blob_set_get st g b e now : now <= e * 1000 -> snd (step (fst (step st (OSetBlob g b e))) (OGetBlob g now)) = RVal b.
Proof. intros H. unfold step; cbn [snd fst st_blobs]. rewrite bget_bput_same. destruct (e * 1000 <? now) eqn:E; [apply Z.ltb_lt in E; lia|reflexivity]. Qed.

(* closing and reopening the database, or building fresh server objects, changes nothing *)
Theorem restart_identity st : step st ORestart = (st, ROk).
Proof. reflexivity. Qed.
