(* Store/Token.v — executable mirror of the bearer tokens of the SQLite store (sqlite.go NewToken / sessionID): a token is
   base64url(id || HMAC-SHA256(secret, id)) with a 16-byte id.  Base64 decoding and HMAC are oracle parameters; the
   slicing of the decoded token is modelled with Go's bounds (a slice beyond the length is a panic site). *)
From FDO Require Export Base.Bytes Base.Result.
From Coq Require Import Lia.

Definition session_id_size : nat := 16.

(* rawToken[:n] / rawToken[n:] with Go's bounds check *)
Definition go_split (n : nat) (l : bytes) : outcome (bytes * bytes) :=
  if Nat.ltb (length l) n then Panic PIndex else Ok (firstn n l, skipn n l).

Section Token.
  Variable O_b64dec : bytes -> option bytes.      (* base64.RawURLEncoding.DecodeString *)
  Variable O_b64enc : bytes -> bytes.             (* base64.RawURLEncoding.EncodeToString *)
  Variable O_mac : bytes -> bytes -> bytes.       (* HMAC-SHA256(secret, message) *)

  (* sessionID: the session id a token names, or nothing *)
  Definition session_id_with (n : nat) (secret token : bytes) : outcome (option bytes) :=
    match O_b64dec token with
    | None => Ok None
    | Some raw =>
      if Nat.ltb (length raw) n then Ok None else
      let* (id, mac1) := go_split n raw in
      if bytes_eqb mac1 (O_mac secret id) then Ok (Some id) else Ok None
    end.
  Definition session_id := session_id_with session_id_size.

  (* NewToken for a fresh id *)
  Definition new_token (secret id : bytes) : bytes := O_b64enc (id ++ O_mac secret id).
End Token.
