(* Store/TokenFacts.v — tokens: total on every string, exactly the issued strings are accepted. *)
From FDO Require Import Store.Token.
From Coq Require Import Lia.

Section Facts.
  Variable O_b64dec : bytes -> option bytes.
  Variable O_b64enc : bytes -> bytes.
  Variable O_mac : bytes -> bytes -> bytes.

  Notation session_id_with := (session_id_with O_b64dec O_mac).
  Notation session_id := (session_id O_b64dec O_mac).
  Notation new_token := (new_token O_b64enc O_mac).

  (* no token text, of any length, makes the check slice out of range *)
  Lemma session_id_with_total n secret token : exists r, session_id_with n secret token = Ok r.
  Proof.
    unfold Token.session_id_with, go_split. destruct (O_b64dec token) as [raw|]; [|eauto].
    destruct (Nat.ltb (length raw) n) eqn:L; [eauto|]. cbn [bind].
    destruct (bytes_eqb _ _); eauto.
  Qed.
  Theorem session_id_total secret token : exists r, session_id secret token = Ok r.
  Proof. apply session_id_with_total. Qed.

  (* acceptance pins the decoded token down to id || MAC(secret, id): a peer that presents an accepted token has produced
     the MAC of its first 16 bytes under the store's secret *)
  Lemma session_id_with_sound n secret token id :
    session_id_with n secret token = Ok (Some id) ->
    exists raw, O_b64dec token = Some raw /\ raw = id ++ O_mac secret id /\ length id = n.
  Proof.
    unfold Token.session_id_with, go_split. destruct (O_b64dec token) as [raw|]; [|discriminate].
    destruct (Nat.ltb (length raw) n) eqn:L; [discriminate|]. cbn [bind].
    destruct (bytes_eqb (skipn n raw) _) eqn:E; [|discriminate].
    intros H. injection H as <-. apply bytes_eqb_eq in E. exists raw. split; [reflexivity|].
    apply Nat.ltb_ge in L. split.
    - transitivity (firstn n raw ++ skipn n raw); [symmetry; apply firstn_skipn | f_equal; exact E].
    - apply firstn_length_le. exact L.
  Qed.
  Theorem session_id_sound secret token id :
    session_id secret token = Ok (Some id) ->
    exists raw, O_b64dec token = Some raw /\ raw = id ++ O_mac secret id /\ length id = session_id_size.
  Proof. apply session_id_with_sound. Qed.

  (* every issued token is accepted and names its own session (given that decoding inverts encoding) *)
  Theorem new_token_accepted secret id :
    (forall x, O_b64dec (O_b64enc x) = Some x) -> length id = session_id_size ->
    session_id secret (new_token secret id) = Ok (Some id).
  Proof.
    unfold Token.session_id. generalize session_id_size as n. intros n RT L.
    unfold Token.session_id_with, Token.new_token, go_split. rewrite RT.
    assert (LL : Nat.ltb (length (id ++ O_mac secret id)) n = false).
    { apply Nat.ltb_ge. rewrite app_length. lia. }
    rewrite LL. cbn [bind].
    assert (F : firstn n (id ++ O_mac secret id) = id).
    { rewrite <- L. rewrite firstn_app, Nat.sub_diag, firstn_all. cbn [firstn]. apply app_nil_r. }
    assert (S : skipn n (id ++ O_mac secret id) = O_mac secret id).
    { rewrite <- L. rewrite skipn_app, Nat.sub_diag, skipn_all. reflexivity. }
    rewrite F, S, bytes_eqb_refl. reflexivity.
  Qed.

  (* two different sessions never share a token *)
  Theorem tokens_distinct secret id1 id2 :
    (forall x, O_b64dec (O_b64enc x) = Some x) -> length id1 = session_id_size -> length id2 = session_id_size ->
    new_token secret id1 = new_token secret id2 -> id1 = id2.
  Proof.
    intros RT L1 L2 E.
    pose proof (new_token_accepted secret id1 RT L1) as A1. rewrite E in A1.
    rewrite (new_token_accepted secret id2 RT L2) in A1. congruence.
  Qed.
End Facts.
