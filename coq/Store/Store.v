(* Store/Store.v — reference model of the SQLite state store (sqlite/sqlite.go): token-keyed session fields, vouchers by
   GUID, rendezvous blobs with expiry.  Values are opaque byte strings (the harness canonicalises every value it writes
   or reads: CBOR encoding of the Go value); field numbers stand for the getter/setter pairs of the state interfaces.
   Tokens: the n-th token the store issued, or a string it did not issue (damaged, truncated, forged, foreign). *)
From FDO Require Export Base.Bytes.
Local Open Scope Z_scope.

Inductive tok := TBad | TId (n : nat).

Inductive op :=
| ONew (p : N)                                   (* NewToken(protocol) *)
| OSet (t : tok) (f : N) (v : bytes)            (* a Set... of the session state interfaces *)
| OGet (t : tok) (f : N)
| OInval (t : tok)                              (* InvalidateToken *)
| OAddV (g v : bytes)                           (* AddVoucher *)
| OReplV (g g' v : bytes)                       (* ReplaceVoucher(g, voucher with GUID g') *)
| ORemV (g : bytes)                             (* RemoveVoucher *)
| OGetV (g : bytes)                             (* Voucher *)
| OSetBlob (g b : bytes) (exp : Z)              (* SetRVBlob, expiry in whole seconds *)
| OGetBlob (g : bytes) (now : Z)                (* RVBlob at wall-clock time [now] in milliseconds *)
| ORestart.                                     (* close and reopen the file / fresh server objects *)

Inductive res := RTok (n : nat) | ROk | RVal (v : bytes) | RNotFound | RInvalid | RErr.

Record sess := mks { s_alive : bool; s_fields : list (N * bytes) }.
Record store := mkst { st_sess : list sess; st_vouchers : list (bytes * bytes); st_blobs : list (bytes * (bytes * Z)) }.

Definition empty : store := mkst [] [] [].

Fixpoint fget (f : N) (l : list (N * bytes)) : option bytes :=
  match l with [] => None | (k, v) :: r => if (k =? f)%N then Some v else fget f r end.
Fixpoint fset (f : N) (v : bytes) (l : list (N * bytes)) : list (N * bytes) :=
  match l with [] => [(f, v)] | (k, x) :: r => if (k =? f)%N then (k, v) :: r else (k, x) :: fset f v r end.

Fixpoint bget {A} (g : bytes) (l : list (bytes * A)) : option A :=
  match l with [] => None | (k, v) :: r => if bytes_eqb k g then Some v else bget g r end.
Fixpoint bdel {A} (g : bytes) (l : list (bytes * A)) : list (bytes * A) :=
  match l with [] => [] | (k, v) :: r => if bytes_eqb k g then bdel g r else (k, v) :: bdel g r end.
Definition bput {A} (g : bytes) (v : A) (l : list (bytes * A)) : list (bytes * A) := (g, v) :: bdel g l.

Definition live (st : store) (t : tok) : option (nat * sess) :=
  match t with
  | TBad => None
  | TId n => match nth_error (st_sess st) n with Some s => if s_alive s then Some (n, s) else None | None => None end
  end.

Fixpoint upd {A} (l : list A) (n : nat) (x : A) : list A :=
  match l, n with [], _ => [] | _ :: r, O => x :: r | y :: r, S m => y :: upd r m x end.

(* a token the store issued whose session was invalidated: the MAC still verifies, the session row is gone *)
Definition dead (st : store) (t : tok) : bool :=
  match t with
  | TBad => false
  | TId n => match nth_error (st_sess st) n with Some s => negb (s_alive s) | None => false end
  end.

(* per-field storage rules of sqlite.go: field 0 (device certificate chain) is a plain INSERT: the first value stays;
   field 1 (device self info) is an UPDATE of the row field 0 created: without it nothing is stored; field 2
   (incomplete voucher header) is write-once (UNIQUE constraint); every other field is an upsert *)
Definition set_field (f : N) (v : bytes) (l : list (N * bytes)) : list (N * bytes) * res :=
  if (f =? 0)%N then (match fget 0 l with Some _ => l | None => fset 0 v l end, ROk)
  else if (f =? 1)%N then (match fget 0 l with Some _ => fset 1 v l | None => l end, ROk)
  else if (f =? 2)%N then (match fget 2 l with Some _ => (l, RErr) | None => (fset 2 v l, ROk) end)
  else (fset f v l, ROk).

Definition step (st : store) (o : op) : store * res :=
  match o with
  | ONew _ => (mkst (st_sess st ++ [mks true []]) (st_vouchers st) (st_blobs st), RTok (length (st_sess st)))
  | OSet t f v =>
    match live st t with
    | None => (st, if dead st t then (if (f =? 1)%N then ROk else RErr) else RInvalid)
    | Some (n, s) =>
      let '(l, r) := set_field f v (s_fields s) in
      (mkst (upd (st_sess st) n (mks true l)) (st_vouchers st) (st_blobs st), r)
    end
  | OGet t f =>
    match live st t with
    | None => (st, if dead st t then RNotFound else RInvalid)
    | Some (_, s) => (st, match fget f (s_fields s) with Some v => RVal v | None => RNotFound end)
    end
  | OInval t =>
    match live st t with
    | None => (st, if dead st t then ROk else RNotFound)
    | Some (n, s) => (mkst (upd (st_sess st) n (mks false [])) (st_vouchers st) (st_blobs st), ROk)
    end
  | OAddV g v =>
    match bget g (st_vouchers st) with
    | Some _ => (st, RErr)
    | None => (mkst (st_sess st) (bput g v (st_vouchers st)) (st_blobs st), ROk)
    end
  | OReplV g g' v =>
    (* AddVoucher(new) then remove(old); when the old one is missing the new one is removed again *)
    match bget g' (st_vouchers st) with
    | Some _ => (st, RErr)
    | None =>
      match bget g (st_vouchers st) with
      | Some _ => (mkst (st_sess st) (bput g' v (bdel g (st_vouchers st))) (st_blobs st), ROk)
      | None => (st, if bytes_eqb g g' then ROk else RNotFound)
      end
    end
  | ORemV g =>
    match bget g (st_vouchers st) with
    | Some v => (mkst (st_sess st) (bdel g (st_vouchers st)) (st_blobs st), RVal v)
    | None => (st, RNotFound)
    end
  | OGetV g => (st, match bget g (st_vouchers st) with Some v => RVal v | None => RNotFound end)
  | OSetBlob g b e => (mkst (st_sess st) (st_vouchers st) (bput g (b, e) (st_blobs st)), ROk)
  | OGetBlob g now =>
    (st, match bget g (st_blobs st) with
         | Some (b, e) => if e * 1000 <? now then RNotFound else RVal b
         | None => RNotFound
         end)
  | ORestart => (st, ROk)
  end.

Fixpoint run (st : store) (ops : list op) : store * list res :=
  match ops with
  | [] => (st, [])
  | o :: r => let '(st1, x) := step st o in let '(st2, xs) := run st1 r in (st2, x :: xs)
  end.
