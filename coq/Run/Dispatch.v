(* Run/Dispatch.v — one entry point for the extracted runner: kind + arguments -> rendered result.
   All kind-specific glue is here so the OCaml driver stays generic.  The only effectful thing in
   the runner is [oracle], a question/answer call-back answered by the Go standard library. *)
From FDO Require Export Run.Sexp Rv.RvImpl Cose.Sign1 Kex.Crypter Kex.Kdf Svi.Chunk Cbor.RoundTripCheck Fdo.Voucher.
From FDO Require Fdo.Server.
From FDO Require Import Fdo.Device.
From FDO Require Store.Store.
From FDO Require Kex.Valid.
From FDO Require Fdo.Handover.
From FDO Require Fsim.Transfer.
From FDO Require Svi.Devmod Svi.Modules.
From FDO Require Fdo.Owner.
From FDO Require Fdo.Extend.
From FDO Require Store.Token.
Local Open Scope N_scope.

Definition unhexnum (b : bytes) : option N :=
  fold_left (fun acc c => match acc, unhex_digit c with Some a, Some d => Some (a * 16 + d) | _, _ => None end)
            b (Some 0).
Definition unhexZ (b : bytes) : option Z :=
  match b with
  | c :: r => if byte_eqb c (byte_of_N 45) then option_map (fun n => (- Z.of_N n)%Z) (unhexnum r)
              else option_map Z.of_N (unhexnum b)
  | [] => None
  end.

Definition bad_args : bytes := s "badargs"%bs.

Section Dispatch.
  Variable oracle : bytes -> bytes.

  Definition O_der (csr : bool) (a : bytes) : bool :=
    bytes_eqb (oracle (s "der "%bs ++ (if csr then s "1 "%bs else s "0 "%bs) ++ hex a)) (s "1"%bs).
  Definition O_rfc3339 (a : bytes) : option Z :=
    match oracle (s "rfc3339 "%bs ++ hex a) with
    | c :: r => if byte_eqb c (byte_of_N 111) (* 'o' of "ok " *) then unhexZ (skipn 2 r) else None
    | [] => None
    end.

  Definition mdec := dec O_der O_rfc3339.
  Definition munmarshal := unmarshal O_der O_rfc3339.
  Definition enc_fuel : nat := 4096.

  Definition render_dec (o : outcome (val * bytes)) : bytes :=
    render_outcome (fun vr => render_val (fst vr) ++ sp ++ s "b:"%bs ++ hex (snd vr)) o.

  Definition run_cbor (kind : bytes) (args : list arg) : option bytes :=
    if bytes_eqb kind (s "cbor.dec"%bs) then
      match args with
      | [t; AB b] => match parse_ty t with
                     | Some t' => Some (render_dec (mdec (fuel_for b) 0%nat t' b))
                     | None => Some bad_args end
      | _ => Some bad_args
      end
    else if bytes_eqb kind (s "cbor.unmarshal"%bs) then
      match args with
      | [t; AB b] => match parse_ty t with
                     | Some t' => Some (render_outcome render_val (munmarshal t' b))
                     | None => Some bad_args end
      | _ => Some bad_args
      end
    else if bytes_eqb kind (s "cbor.enc"%bs) then
      match args with
      | [t; v] => match parse_ty t, parse_val v with
                  | Some t', Some v' => Some (render_outcome (fun b => s "b:"%bs ++ hex b) (enc enc_fuel t' v'))
                  | _, _ => Some bad_args end
      | _ => Some bad_args
      end
    else if bytes_eqb kind (s "cbor.wfb"%bs) then
      match args with
      | [t; v] => match parse_ty t, parse_val v with
                  | Some t', Some v' => Some (if wfb O_der 400 0 t' v' then s "T"%bs else s "F"%bs)
                  | _, _ => Some bad_args end
      | _ => Some bad_args
      end
    else if bytes_eqb kind (s "cbor.raw"%bs) then
      match args with
      | [AB b] => Some (render_outcome (fun ar => s "b:"%bs ++ hex (fst ar) ++ sp ++ s "b:"%bs ++ hex (snd ar))
                                       (dec_raw (fuel_for b) 0%nat b))
      | _ => Some bad_args
      end
    else None.

  (* ---- rendezvous instructions ---- *)
  Definition O_ipstring (a : bytes) : bytes :=
    match unhex (oracle (s "ipstring "%bs ++ hex a)) with Some x => x | None => [] end.

  Definition render_opt {A} (f : A -> bytes) (o : option A) : bytes :=
    match o with None => s "N"%bs | Some a => f a end.

  Definition render_dir (d : rvdir) : bytes :=
    s "(dir (urls"%bs ++ flat_map (fun u => s " (u b:"%bs ++ hex (fst u) ++ s " b:"%bs ++ hex (snd u) ++ s ")"%bs) (d_urls d) ++ s ")"%bs
    ++ s " bypass "%bs ++ (if d_bypass d then s "T"%bs else s "F"%bs)
    ++ s " eth "%bs ++ render_opt (fun n => s "n:"%bs ++ hexnum n) (d_eth d)
    ++ s " wlan "%bs ++ render_opt (fun n => s "n:"%bs ++ hexnum n) (d_wlan d)
    ++ s " ssid b:"%bs ++ hex (d_ssid d) ++ s " pass b:"%bs ++ hex (d_pass d)
    ++ s " mech b:"%bs ++ hex (d_extmech d) ++ s " args b:"%bs ++ hex (d_extargs d)
    ++ s " delay z:"%bs ++ hexnumZ (d_delay d)
    ++ s " svcert "%bs ++ render_opt (fun h => s "(z:"%bs ++ hexnumZ (fst h) ++ s " b:"%bs ++ hex (snd h) ++ s ")"%bs) (d_svcert d)
    ++ s " clcert "%bs ++ render_opt (fun h => s "(z:"%bs ++ hexnumZ (fst h) ++ s " b:"%bs ++ hex (snd h) ++ s ")"%bs) (d_clcert d)
    ++ s ")"%bs.

  Fixpoint parse_rvis (l : list arg) : option (list rvi) :=
    match l with
    | [] => Some []
    | AL [AN v; AB b] :: r => option_map (cons (mkrvi v b)) (parse_rvis r)
    | _ => None
    end.

  Definition run_rv (kind : bytes) (args : list arg) : option bytes :=
    if bytes_eqb kind (s "rv.parse"%bs) then
      match args with
      | [role; AL l] =>
        match parse_rvis l with
        | Some vars => Some (render_outcome render_dir (interp O_ipstring vars (sym_is role "dev"%bs)))
        | None => Some bad_args
        end
      | _ => Some bad_args
      end
    else None.

  (* ---- COSE ---- *)
  Definition sch_name (x : sigscheme) : bytes :=
    match x with SchEcdsa => s "ecdsa"%bs | SchPkcs1 => s "pkcs1"%bs | SchPss => s "pss"%bs end.
  Definition O_verify (id : bytes) (sch : sigscheme) (h : N) (tbs : bytes) (parts : list bytes) : bool :=
    bytes_eqb (oracle (s "verify "%bs ++ hex id ++ sp ++ sch_name sch ++ sp ++ hexnum h ++ sp ++ s "b:"%bs ++ hex tbs
                       ++ flat_map (fun p => sp ++ s "b:"%bs ++ hex p) parts)) (s "1"%bs).
  Definition O_hmac (h : N) (key msg : bytes) : bytes :=
    match unhex (oracle (s "hmac "%bs ++ hexnum h ++ s " b:"%bs ++ hex key ++ s " b:"%bs ++ hex msg)) with
    | Some x => x | None => [] end.

  Definition ty_sign1 (tP : ty) : ty :=
    TStruct [(false, TProtHdr); (false, TMap TLabel TAny); (false, TPtr (wrap_ty tP)); (false, TBytes)].

  Definition parse_key (kind : arg) (n : arg) (id : arg) : option pubkey :=
    match n, id with
    | AN n', AB id' =>
      if sym_is kind "ec"%bs then Some (PubEC (N.to_nat n') id')
      else if sym_is kind "rsa"%bs then Some (PubRSA id')
      else Some PubOther
    | _, _ => None
    end.

  Definition parse_optval (a : arg) : option (option val) :=
    if sym_is a "none"%bs then Some None else option_map Some (parse_val a).

  Definition render_bool (b : bool) : bytes := if b then s "T"%bs else s "F"%bs.

  Definition run_cose (kind : bytes) (args : list arg) : option bytes :=
    if bytes_eqb kind (s "cose.verify"%bs) then
      match args with
      | [tp; kk; kn; kid; AB obj; det; aad] =>
        match parse_ty tp, parse_key kk kn kid, parse_optval det, parse_val aad with
        | Some tP, Some key, Some detached, Some aadv =>
          match munmarshal (ty_sign1 tP) obj with
          | Ok (VList [VMap prot; _; pl; VBytes sig]) =>
            let stored := match pl with VNull => None | x => Some x end in
            Some (render_outcome render_bool
                    (sign1_verify O_der O_rfc3339 O_verify tP TBytes key prot stored detached sig aadv))
          | Ok _ => Some (s "err-shape"%bs)
          | _ => Some (s "err-decode"%bs)
          end
        | _, _, _, _ => Some bad_args
        end
      | _ => Some bad_args
      end
    else if bytes_eqb kind (s "dev.redirect"%bs) then
      (* the device's decision on a TO1 redirect blob at the start of TO2 (to2.go verifyVoucher): go on only if the
         COSE_Sign1 verifies under the owner key; a verification error is an abort like a wrong signature *)
      match args with
      | [tp; kk; kn; kid; AB obj] =>
        match parse_ty tp, parse_key kk kn kid with
        | Some tP, Some key =>
          match munmarshal (ty_sign1 tP) obj with
          | Ok (VList [VMap prot; _; pl; VBytes sig]) =>
            let stored := match pl with VNull => None | x => Some x end in
            match sign1_verify O_der O_rfc3339 O_verify tP TBytes key prot stored None sig (VBytes []) with
            | Ok true => Some (s "accept"%bs)
            | _ => Some (s "abort"%bs)
            end
          | _ => Some (s "abort"%bs)
          end
        | _, _ => Some bad_args
        end
      | _ => Some bad_args
      end
    else if bytes_eqb kind (s "cose.mac0"%bs) then
      match args with
      | [tp; AZ alg; AB key; protv; pl; aad] =>
        match parse_ty tp, parse_val protv, parse_val pl, parse_val aad with
        | Some tP, Some (VMap prot), Some plv, Some aadv =>
          Some (render_outcome (fun r => render_val (VMap (fst r)) ++ sp ++ s "b:"%bs ++ hex (snd r))
                               (mac0_digest O_hmac tP TBytes alg key prot plv aadv))
        | _, _, _, _ => Some bad_args
        end
      | _ => Some bad_args
      end
    else None.

  (* ---- session crypter ---- *)
  Definition q3 (name : bstr) (a b c d : bytes) : bytes :=
    oracle (s name ++ s " b:"%bs ++ hex a ++ s " b:"%bs ++ hex b ++ s " b:"%bs ++ hex c ++ s " b:"%bs ++ hex d).
  Definition ans_bytes (r : bytes) : option bytes :=
    match r with
    | c :: _ => if byte_eqb c (byte_of_N 111) then unhex (skipn 3 r) else None     (* "ok <hex>" *)
    | [] => None
    end.
  Definition O_aead_open (k iv aad ct : bytes) : option bytes := ans_bytes (q3 "aead_open"%bs k iv aad ct).
  Definition O_aead_seal (k iv aad pt : bytes) : bytes := match ans_bytes (q3 "aead_seal"%bs k iv aad pt) with Some x => x | None => [] end.
  Definition O_ctr (k iv d : bytes) : bytes := match ans_bytes (q3 "ctr"%bs k iv d []) with Some x => x | None => [] end.
  Definition O_cbc_dec (k iv d : bytes) : bytes := match ans_bytes (q3 "cbc_dec"%bs k iv d []) with Some x => x | None => [] end.
  Definition O_cbc_enc (k iv d : bytes) : bytes := match ans_bytes (q3 "cbc_enc"%bs k iv d []) with Some x => x | None => [] end.

  Definition run_kex (kind : bytes) (args : list arg) : option bytes :=
    if bytes_eqb kind (s "kex.decrypt"%bs) then
      match args with
      | [AZ id; AB sek; AB svk; AB wire] =>
        match suite_of id with
        | Some su => Some (render_outcome (fun b => s "b:"%bs ++ hex b)
                             (crypter_decrypt O_der O_rfc3339 O_hmac O_aead_open O_ctr O_cbc_dec su sek svk wire))
        | None => Some (s "panic 5"%bs)
        end
      | _ => Some bad_args
      end
    else if bytes_eqb kind (s "kex.encrypt"%bs) then
      match args with
      | [AZ id; AB sek; AB svk; AB iv; AB pt] =>
        match suite_of id with
        | Some su => Some (render_outcome (fun b => s "b:"%bs ++ hex b)
                             (crypter_encrypt O_hmac O_aead_seal O_ctr O_cbc_enc su sek svk iv pt))
        | None => Some (s "panic 5"%bs)
        end
      | _ => Some bad_args
      end
    else None.

  (* ---- key exchange ---- *)
  Definition O_modexp (b e m : N) : N :=
    match unhexnum (oracle (s "modexp "%bs ++ hexnum b ++ sp ++ hexnum e ++ sp ++ hexnum m)) with Some x => x | None => 0 end.
  Definition hbytes_of (h : N) : nat := if h =? 384 then 48%nat else 32%nat.
  Definition render_keys (k : bytes * bytes) : bytes := s "b:"%bs ++ hex (fst k) ++ s " b:"%bs ++ hex (snd k).
  Definition opt_bytes (a : arg) (dflt : bytes) : bytes := match a with AB b => b | _ => dflt end.

  Definition run_kex2 (kind : bytes) (args : list arg) : option bytes :=
    if bytes_eqb kind (s "kex.kdf"%bs) then
      match args with
      | [AN h; AB kin; AB ctx; AN L] =>
        Some (render_outcome (fun b => s "b:"%bs ++ hex b) (kdf (O_hmac h) (hbytes_of h) kin ctx L))
      | _ => Some bad_args
      end
    else if bytes_eqb kind (s "kex.dh"%bs) then
      match args with
      | [AN g; AN p; AN plen; AB ta; AB tb; AN ss; AN vs; AN h; xa_over; xb_over; again] =>
        let a := of_be ta in let b := of_be tb in
        let xA := opt_bytes xa_over (dh_owner_param O_modexp g p a) in
        let dev := dh_device_param O_modexp (O_hmac h) (hbytes_of h) g p (N.to_nat plen) xA b (N.to_nat ss) (N.to_nat vs) in
        let xB := opt_bytes xb_over (match dev with Ok (x, _) => x | _ => [] end) in
        let own := dh_owner_set O_modexp (O_hmac h) (hbytes_of h) p (N.to_nat plen) (Some a) xB (N.to_nat ss) (N.to_nat vs) in
        let own2 := if sym_is again "again"%bs
                    then s " again "%bs ++ render_outcome render_keys
                           (dh_owner_set O_modexp (O_hmac h) (hbytes_of h) p (N.to_nat plen) None xB (N.to_nat ss) (N.to_nat vs))
                    else [] in
        Some (s "xA b:"%bs ++ hex xA ++ s " dev "%bs
              ++ render_outcome (fun r => s "b:"%bs ++ hex (fst r) ++ sp ++ render_keys (snd r)) dev
              ++ s " own "%bs ++ render_outcome render_keys own ++ own2)
      | _ => Some bad_args
      end
    else if bytes_eqb kind (s "kex.ecdhparam"%bs) then
      match args with
      | [AB b] => Some (render_outcome (fun r => s "b:"%bs ++ hex (fst r) ++ s " b:"%bs ++ hex (snd r) ++ s " b:"%bs
                                                 ++ hex (ecdh_param_encode (fst r) (snd r))) (ecdh_param_decode b))
      | _ => Some bad_args
      end
    else None.

  (* ---- service-info chunking ---- *)
  Fixpoint args_bytes (l : list arg) : option (list bytes) :=
    match l with [] => Some [] | AB b :: r => option_map (cons b) (args_bytes r) | _ => None end.
  Fixpoint args_z (l : list arg) : option (list Z) :=
    match l with [] => Some [] | AZ z :: r => option_map (cons z) (args_z r) | _ => None end.

  Definition render_cres (r : cres) : bytes :=
    match r with
    | CKV k v => s "(K b:"%bs ++ hex k ++ s " b:"%bs ++ hex v ++ s ")"%bs
    | CTooSmall => s "S"%bs | CEOF => s "E"%bs | CErr => s "X"%bs
    end.

  Fixpoint run_sizes (st : cstate) (sizes : list Z) : bytes :=
    match sizes with
    | [] => []
    | z :: r =>
      let (res, st') := read_chunk st z in
      sp ++ render_cres res ++ match res with CEOF | CErr => [] | _ => run_sizes st' r end
    end.

  (* one call of exchangeServiceInfoRound = messages until neither side announces more (the owner side is silent here) *)
  Fixpoint run_call (fuel : nat) (st : cstate) (mtu : Z) : bytes * option cstate :=
    match fuel with
    | O => (s " fuel"%bs, None)
    | S f =>
      match round st mtu with
      | RFail => (s " fail"%bs, None)
      | ROutOfFuel => (s " oof"%bs, None)
      | RRound kvs more st' =>
        let txt := s " (R"%bs ++ flat_map (fun kv => sp ++ render_cres (CKV (fst kv) (snd kv))) kvs
                   ++ (if more then s " more)"%bs else s " last)"%bs) in
        if more then let (t, o) := run_call f st' mtu in (txt ++ t, o) else (txt, Some st')
      end
    end.

  Fixpoint run_calls (n : nat) (fuel : nat) (st : cstate) (mtu : Z) : bytes :=
    match n with
    | O => []
    | S n' =>
      match run_call fuel st mtu with
      | (t, Some st') => t ++ run_calls n' fuel st' mtu
      | (t, None) => t
      end
    end.

  Definition run_chunk (kind : bytes) (args : list arg) : option bytes :=
    if bytes_eqb kind (s "chunk.run"%bs) then
      match args with
      | [AL items; AL sizes] =>
        match args_bytes items, args_z sizes with
        | Some q, Some zs => Some (s "ok"%bs ++ run_sizes (mkcs None q) zs)
        | _, _ => Some bad_args
        end
      | _ => Some bad_args
      end
    else if bytes_eqb kind (s "chunk.rounds"%bs) then
      match args with
      | [AL items; AZ mtu; AN calls] =>
        match args_bytes items with
        | Some q => Some (s "ok"%bs ++ run_calls (N.to_nat calls) (S (S (length q + length (concat q)))) (mkcs None q) mtu)
        | None => Some bad_args
        end
      | _ => Some bad_args
      end
    else None.

  (* ---- ownership vouchers ---- *)
  Definition O_hash (h : N) (m : bytes) : bytes :=
    match unhex (oracle (s "hash "%bs ++ hexnum h ++ s " b:"%bs ++ hex m)) with Some x => x | None => [] end.

  Definition words (b : bytes) : list bytes :=
    let step := fun (acc : list bytes * bytes) (c : byte) =>
      if byte_eqb c (byte_of_N 32) then (fst acc ++ [snd acc], []) else (fst acc, snd acc ++ [c]) in
    let '(ws, last) := fold_left step b ([], []) in ws ++ [last].

  (* pubkey <type> <enc> b:<raw body> -> "ec <n hex> <id hex>" | "rsa <id hex>" | "err" *)
  Definition O_pubkey (pk : val) : option pubkey :=
    match pk with
    | VList [VInt t; VInt en; VRaw body] =>
      match words (oracle (s "pubkey "%bs ++ hexnumZ t ++ sp ++ hexnumZ en ++ s " b:"%bs ++ hex body)) with
      | [k; n; id] => if bytes_eqb k (s "ec"%bs)
                      then match unhexnum n, unhex id with Some n', Some id' => Some (PubEC (N.to_nat n') id') | _, _ => None end
                      else None
      | [k; id] => if bytes_eqb k (s "rsa"%bs) then option_map PubRSA (unhex id) else None
      | [k] => if bytes_eqb k (s "other"%bs) then Some PubOther else None
      | _ => None
      end
    | _ => None
    end.

  Definition render_unit (o : outcome unit) : bytes :=
    match o with Ok _ => s "ok"%bs | Err _ => s "err"%bs | Panic p => s "panic"%bs | OutOfFuel => s "oof"%bs end.
  Definition render_key (o : outcome pubkey) : bytes :=
    match o with
    | Ok (PubEC n id) => s "ec:"%bs ++ hexnum (N.of_nat n) ++ s ":"%bs ++ hex id
    | Ok (PubRSA id) => s "rsa:"%bs ++ hex id
    | Ok PubOther => s "other"%bs
    | _ => s "err"%bs
    end.

  Fixpoint entries_of (l : list val) : option (list entry) :=
    match l with
    | [] => Some []
    | x :: r => match entry_of_val x, entries_of r with Some e', Some r' => Some (e' :: r') | _, _ => None end
    end.

  Definition chain_of (v : val) : option (option (list (option bytes))) :=
    match v with
    | VNull => Some None
    | VList l => Some (Some (map (fun c => match c with VBytes d => Some d | _ => None end) l))
    | _ => None
    end.

  Definition run_voucher (kind : bytes) (args : list arg) : option bytes :=
    if bytes_eqb kind (s "voucher.verify"%bs) then
      match args with
      | [AB vb; AB secret; AZ kalg; AB kval] =>
        match munmarshal ty_voucher vb with
        | Ok (VList [_; hdr; hm; chain; VList ents]) =>
          match entries_of ents, chain_of chain with
          | Some es, Some ch =>
            Some (s "ok hdr="%bs ++ render_unit (verify_header O_hmac secret hdr hm)
                  ++ s " mfg="%bs ++ render_unit (verify_mfg_key O_hash hdr kalg kval)
                  ++ s " cch="%bs ++ render_unit (verify_cert_chain_hash O_hash hdr ch)
                  ++ s " entries="%bs ++ render_unit (verify_entries O_der O_rfc3339 O_verify O_hash O_pubkey hdr hm es)
                  ++ s " owner="%bs ++ render_key (owner_key O_pubkey hdr es))
          | _, _ => Some (s "err-shape"%bs)
          end
        | Ok _ => Some (s "err-shape"%bs)
        | _ => Some (s "err-decode"%bs)
        end
      | _ => Some bad_args
      end
    else None.


  (* ---- abstract server state machine: srv.history ((type tok ok enc hmac) ...) ; tok = -1: no valid token ---- *)
  Definition req_of_arg (a : arg) : option Server.request :=
    match a with
    | AL [AN t; AZ tok; AN ok; AN en; AN hm] =>
      Some (Server.mkreq t (if (tok <? 0)%Z then Server.TInvalid else Server.TSess (Z.to_nat tok))
                         (negb (ok =? 0)%N) (negb (en =? 0)%N) (negb (hm =? 0)%N))
    | _ => None
    end.
  Fixpoint reqs_of_args (l : list arg) : option (list Server.request) :=
    match l with
    | [] => Some []
    | a :: r => match req_of_arg a, reqs_of_args r with Some x, Some xs => Some (x :: xs) | _, _ => None end
    end.
  Definition render_effect (e : Server.effect) : bytes :=
    match e with Server.EDIVoucher => s "V"%bs | Server.ERVBlob => s "B"%bs | Server.EModule => s "M"%bs | Server.EReplace => s "R"%bs end.
  Definition render_step (x : Server.response * list Server.effect) : bytes :=
    sp ++ (match fst x with Server.RType t => hexnum t | Server.RNoBody => s "-"%bs end) ++ s ":"%bs ++ concat (map render_effect (snd x)).
  Definition run_server (kind : bytes) (args : list arg) : option bytes :=
    if bytes_eqb kind (s "srv.history"%bs) then
      match args with
      | [AL rs] => match reqs_of_args rs with
                   | Some reqs => Some (s "ok"%bs ++ concat (map render_step (snd (Server.run [] reqs))))
                   | None => Some bad_args
                   end
      | _ => Some bad_args
      end
    else None.


  (* ---- device side of TO2: dev.verifyowner secret kalg kval hello nonce kexok (t61 b61) ((t b) ...) (to1d?) ---- *)
  Fixpoint msgs_of_args (l : list arg) : option (list (N * bytes)) :=
    match l with
    | [] => Some []
    | AL [AN t; AB b] :: r => match msgs_of_args r with Some xs => Some ((t, b) :: xs) | None => None end
    | _ => None
    end.
  Definition run_device (kind : bytes) (args : list arg) : option bytes :=
    if bytes_eqb kind (s "dev.verifyowner"%bs) then
      match args with
      | [AB secret; AZ kalg; AB kval; AB hello; AB nonce; AN kexok; AL [AN t61; AB b61]; AL resps; AL t1] =>
        match msgs_of_args resps, (match t1 with [] => Some None | [AB tb] => Some (Some tb) | _ => None end) with
        | Some rs, Some to1d =>
          match verify_owner O_der O_rfc3339 O_verify O_hash O_hmac O_pubkey
                  (mkdev secret kalg kval hello nonce (negb (kexok =? 0)%N)) (t61, b61) rs to1d with
          | Proceed _ _ => Some (s "accept"%bs)
          | Abort => Some (s "abort"%bs)
          end
        | _, _ => Some bad_args
        end
      | _ => Some bad_args
      end
    else None.


  (* ---- state store: store.history (op ...) ---- *)
  Definition tok_of (z : Z) : Store.tok := if (z <? 0)%Z then Store.TBad else Store.TId (Z.to_nat z).
  Definition op_of_arg (a : arg) : option Store.op :=
    match a with
    | AL [AS k; AN p] => if bytes_eqb k (s "new"%bs) then Some (Store.ONew p) else None
    | AL [AS k; AZ t; AN f; AB v] => if bytes_eqb k (s "set"%bs) then Some (Store.OSet (tok_of t) f v) else None
    | AL [AS k; AZ t; AN f] => if bytes_eqb k (s "get"%bs) then Some (Store.OGet (tok_of t) f) else None
    | AL [AS k; AZ t] => if bytes_eqb k (s "inval"%bs) then Some (Store.OInval (tok_of t)) else None
    | AL [AS k; AB g; AB v] => if bytes_eqb k (s "addv"%bs) then Some (Store.OAddV g v) else None
    | AL [AS k; AB g; AB g'; AB v] => if bytes_eqb k (s "replv"%bs) then Some (Store.OReplV g g' v) else None
    | AL [AS k; AB g] => if bytes_eqb k (s "remv"%bs) then Some (Store.ORemV g)
                         else if bytes_eqb k (s "getv"%bs) then Some (Store.OGetV g) else None
    | AL [AS k; AB g; AB b; AZ e] => if bytes_eqb k (s "setblob"%bs) then Some (Store.OSetBlob g b e) else None
    | AL [AS k; AB g; AZ now] => if bytes_eqb k (s "getblob"%bs) then Some (Store.OGetBlob g now) else None
    | AL [AS k] => if bytes_eqb k (s "restart"%bs) then Some Store.ORestart else None
    | _ => None
    end.
  Fixpoint ops_of_args (l : list arg) : option (list Store.op) :=
    match l with
    | [] => Some []
    | a :: r => match op_of_arg a, ops_of_args r with Some x, Some xs => Some (x :: xs) | _, _ => None end
    end.
  Definition render_res (r : Store.res) : bytes :=
    match r with
    | Store.RTok n => s " t"%bs ++ hexnum (N.of_nat n)
    | Store.ROk => s " ok"%bs
    | Store.RVal v => s " v:"%bs ++ hex v
    | Store.RNotFound => s " nf"%bs
    | Store.RInvalid => s " inv"%bs
    | Store.RErr => s " err"%bs
    end.
  Definition run_store (kind : bytes) (args : list arg) : option bytes :=
    if bytes_eqb kind (s "store.history"%bs) then
      match args with
      | [AL ops] => match ops_of_args ops with
                    | Some os => Some (s "ok"%bs ++ concat (map render_res (snd (Store.run Store.empty os))))
                    | None => Some bad_args
                    end
      | _ => Some bad_args
      end
    else None.


  (* ---- key-exchange validity: kex.valid n:dev n:owner n:suite ; kex.available n:suite z:cipher ---- *)
  Definition dev_of (n : N) : Valid.devkey := match n with 0 => Valid.DevP256 | 1 => Valid.DevP384 | 2 => Valid.DevRSA | _ => Valid.DevOther end%N.
  Definition own_of (n : N) : Valid.ownkey :=
    match n with 0 => Valid.OwnP256 | 1 => Valid.OwnP384 | 2 => Valid.OwnRSA2048 | 3 => Valid.OwnRSA3072 | _ => Valid.OwnOther end%N.
  Definition suite_of (n : N) : Valid.suite :=
    match n with 0 => Valid.DHKEXid14 | 1 => Valid.DHKEXid15 | 2 => Valid.ASYMKEX2048 | 3 => Valid.ASYMKEX3072
              | 4 => Valid.ECDH256 | 5 => Valid.ECDH384 | _ => Valid.SuiteOther end%N.
  Definition run_valid (kind : bytes) (args : list arg) : option bytes :=
    if bytes_eqb kind (s "kex.valid"%bs) then
      match args with
      | [AN d; AN o; AN su] => Some (render_bool (Valid.suite_valid (dev_of d) (own_of o) (suite_of su)))
      | _ => Some bad_args
      end
    else if bytes_eqb kind (s "kex.available"%bs) then
      match args with
      | [AN su; AZ c] => Some (render_bool (Valid.available (suite_of su) c))
      | _ => Some bad_args
      end
    else None.


  (* ---- ownership handover: handover.adopt b:secret n:devsize n:ownsize b:header ; handover.replace b:stored-header b:guid b:rvinfo b:ownerkey ---- *)
  Definition render_cred (c : Handover.cred) : bytes :=
    hexnumZ (Handover.c_version c) ++ s ":"%bs ++ hex (Handover.c_devinfo c) ++ s ":"%bs ++ hex (Handover.c_guid c) ++ s ":"%bs ++
    (match enc enc_fuel Voucher.ty_rvinfo (Handover.c_rvinfo c) with Ok b => hex b | _ => s "?"%bs end) ++ s ":"%bs ++
    hexnumZ (Handover.c_kalg c) ++ s ":"%bs ++ hex (Handover.c_kval c).
  Definition run_handover (kind : bytes) (args : list arg) : option bytes :=
    if bytes_eqb kind (s "handover.adopt"%bs) then
      match args with
      | [AB secret; AN dsz; AN osz; AB hb] =>
        match Handover.hash_alg_for (Z.of_N dsz) (Z.of_N osz), munmarshal Voucher.ty_header hb with
        | Some alg, Ok hdr =>
          match Handover.device_adopts O_hash O_hmac secret alg hdr with
          | Ok (VList [VInt ha; VBytes hv], c) =>
            Some (s "ok hmac="%bs ++ hexnumZ ha ++ s ":"%bs ++ hex hv ++ s " cred="%bs ++ render_cred c)
          | _ => Some (s "err"%bs)
          end
        | _, _ => Some (s "err"%bs)
        end
      | _ => Some bad_args
      end
    else if bytes_eqb kind (s "handover.replace"%bs) then
      match args with
      | [AB hb; AB guid; AB rvb; AB kb] =>
        match munmarshal Voucher.ty_header hb, munmarshal Voucher.ty_rvinfo rvb, munmarshal Voucher.ty_pubkey kb with
        | Ok hdr, Ok rv, Ok k =>
          match Handover.owner_replacement hdr guid rv k with
          | Some hdr' => match enc enc_fuel Voucher.ty_header hdr' with Ok b => Some (s "ok b:"%bs ++ hex b) | _ => Some (s "err"%bs) end
          | None => Some (s "err"%bs)
          end
        | _, _, _ => Some (s "err"%bs)
        end
      | _ => Some bad_args
      end
    else None.


  (* ---- file transfer modules: fsim.download (msg ...) ; fsim.upload (msg|tick ...) ; fsim.wget b:name b:sha (b:body)? ---- *)
  Definition sha384o (m : bytes) : bytes := O_hash 384 m.
  Definition rmsg_of_arg (a : arg) : option Transfer.rmsg :=
    match a with
    | AL [AS k; AB n] => if bytes_eqb k (s "name"%bs) then Some (Transfer.MName n)
                         else if bytes_eqb k (s "sha"%bs) then Some (Transfer.MSha n) else None
    | AL [AS k; AZ l] => if bytes_eqb k (s "length"%bs) then Some (Transfer.MLength l) else None
    | AL [AS k; AL cs; AN bad] =>
      if bytes_eqb k (s "data"%bs) then option_map (fun l => Transfer.MData l (negb (bad =? 0)%N)) (args_bytes cs) else None
    | AL [AS k] => if bytes_eqb k (s "unknown"%bs) then Some Transfer.MUnknown else None
    | _ => None
    end.
  Definition render_reply (r : option Transfer.reply) : bytes :=
    match r with
    | None => s "-"%bs
    | Some (Transfer.RDone n) => s "done:"%bs ++ hexnumZ n
    | Some Transfer.RFail => s "fail"%bs
    | Some Transfer.RError => s "error"%bs
    end.
  Definition render_file (f : option (bytes * bytes)) : bytes :=
    match f with
    | None => []
    | Some (n, c) => s "+file:"%bs ++ hex n ++ s ":"%bs ++ hexnum (N.of_nat (length c)) ++ s ":"%bs ++ hex (sha384o c)
    end.
  Fixpoint rmsgs_of_args (l : list arg) : option (list Transfer.rmsg) :=
    match l with
    | [] => Some []
    | a :: r => match rmsg_of_arg a, rmsgs_of_args r with Some x, Some xs => Some (x :: xs) | _, _ => None end
    end.
  Definition umsg_of_arg (a : arg) : option Transfer.umsg :=
    match a with
    | AL [AS k] => if bytes_eqb k (s "tick"%bs) then Some Transfer.UTick else option_map Transfer.UMsg (rmsg_of_arg a)
    | _ => option_map Transfer.UMsg (rmsg_of_arg a)
    end.
  Fixpoint umsgs_of_args (l : list arg) : option (list Transfer.umsg) :=
    match l with
    | [] => Some []
    | a :: r => match umsg_of_arg a, umsgs_of_args r with Some x, Some xs => Some (x :: xs) | _, _ => None end
    end.
  Definition run_fsim (kind : bytes) (args : list arg) : option bytes :=
    if bytes_eqb kind (s "fsim.download"%bs) then
      match args with
      | [AL ms] => match rmsgs_of_args ms with
                   | Some l => Some (s "ok"%bs ++ concat (map (fun x => sp ++ render_reply (fst x) ++ render_file (snd x))
                                                               (snd (Transfer.dl_run sha384o Transfer.r0 l))))
                   | None => Some bad_args
                   end
      | _ => Some bad_args
      end
    else if bytes_eqb kind (s "fsim.upload"%bs) then
      match args with
      | [AL ms] => match umsgs_of_args ms with
                   | Some l => Some (s "ok"%bs ++ concat (map (fun x => sp ++ match x with
                                                                               | None => s "-"%bs
                                                                               | Some (inl _) => s "error"%bs
                                                                               | Some (inr c) => s "file:"%bs ++ hexnum (N.of_nat (length c)) ++ s ":"%bs ++ hex (sha384o c)
                                                                               end)
                                                               (snd (Transfer.ul_run sha384o Transfer.u0 l))))
                   | None => Some bad_args
                   end
      | _ => Some bad_args
      end
    else if bytes_eqb kind (s "fsim.wget"%bs) then
      match args with
      | [AB name; AB sha; AL body] =>
        match (match body with [] => Some None | [AB b] => Some (Some b) | _ => None end) with
        | Some ob => Some (match Transfer.wget_result sha384o name sha ob with
                           | None => s "none"%bs
                           | Some (n, c) => s "file:"%bs ++ hex n ++ s ":"%bs ++ hexnum (N.of_nat (length c)) ++ s ":"%bs ++ hex (sha384o c)
                           end)
        | None => Some bad_args
        end
      | _ => Some bad_args
      end
    else None.


  (* ---- devmod module list and owner module sequencing ---- *)
  Fixpoint nats_of_args (l : list arg) : option (list nat) :=
    match l with
    | [] => Some []
    | AN n :: r => option_map (cons (N.to_nat n)) (nats_of_args r)
    | _ => None
    end.
  Definition render_names (l : list bytes) : bytes := concat (map (fun n => s " b:"%bs ++ hex n) l).
  Fixpoint chunks_of_args (l : list arg) : option (list (nat * nat * list bytes)) :=
    match l with
    | [] => Some []
    | AL (AN st :: AN ln :: names) :: r =>
      match args_bytes names, chunks_of_args r with
      | Some ns, Some cs => Some ((N.to_nat st, N.to_nat ln, ns) :: cs)
      | _, _ => None
      end
    | _ => None
    end.
  Fixpoint collect_raw (mods : list bytes) (cs : list (nat * nat * list bytes)) : option (list bytes) :=
    match cs with
    | [] => Some mods
    | (st, ln, names) :: r => match Devmod.collect_chunk mods st ln names with Some m => collect_raw m r | None => None end
    end.
  Definition run_devmod (kind : bytes) (args : list arg) : option bytes :=
    if bytes_eqb kind (s "devmod.split"%bs) then
      match args with
      | [AN mtu; AL names] =>
        match args_bytes names with
        | Some ns =>
          match Devmod.split (Devmod.fits_mtu (N.to_nat mtu)) ns with
          | Some cs => Some (s "ok"%bs ++ concat (map (fun c : nat * list bytes =>
                               s " ("%bs ++ hexnum (N.of_nat (fst c)) ++ render_names (snd c) ++ s ")"%bs) cs))
          | None => Some (s "err"%bs)
          end
        | None => Some bad_args
        end
      | _ => Some bad_args
      end
    else if bytes_eqb kind (s "devmod.collect"%bs) then
      match args with
      | [AN num; AL cs] =>
        match chunks_of_args cs with
        | Some l =>
          match collect_raw (repeat [] (N.to_nat num)) l with
          | Some mods => Some (s "ok "%bs ++ render_bool (Devmod.complete mods) ++ render_names mods)
          | None => Some (s "err"%bs)
          end
        | None => Some bad_args
        end
      | _ => Some bad_args
      end
    else if bytes_eqb kind (s "svc.sequence"%bs) then
      match args with
      | [AL plan; AL flags] =>
        match nats_of_args plan, nats_of_args flags with
        | Some p, Some f =>
          Some (s "ok"%bs ++ concat (map (fun r => match r with
                                                   | Modules.ONothing => s " -"%bs
                                                   | Modules.OProduced m d => s " p"%bs ++ hexnum (N.of_nat m) ++ s ":"%bs ++ render_bool d
                                                   | Modules.OError => s " err"%bs
                                                   end)
                                          (snd (Modules.orun (Modules.start p) (map (fun x => negb (Nat.eqb x 0)) f)))))
        | _, _ => Some bad_args
        end
      | _ => Some bad_args
      end
    else None.

  (* ---- the three proofs a responder checks, over the bytes received:
          own.provedevice kk kn kid guid nonce ref body | rv.provetorv ((guid kk kn kid) ...) nonce body | rv.ownersign nonce ref body
          [ref] names the live session for the two questions the model does not answer itself: whether the key exchange
          accepts xB ("xbok") and whether the deployment's policy accepts the requested wait ("ttlok") ---- *)
  Definition O_flag (q : bytes) (ref : bytes) (rest : bytes) : bool :=
    bytes_eqb (oracle (q ++ sp ++ s "b:"%bs ++ hex ref ++ sp ++ rest)) (s "1"%bs).
  Fixpoint regs_of_args (l : list arg) : option (list (bytes * pubkey)) :=
    match l with
    | [] => Some []
    | AL [AB g; kk; kn; kid] :: r =>
      match parse_key kk kn kid, regs_of_args r with Some k, Some xs => Some ((g, k) :: xs) | _, _ => None end
    | _ => None
    end.
  Fixpoint reg_lookup (l : list (bytes * pubkey)) (g : bytes) : option pubkey :=
    match l with [] => None | (g', k) :: r => if bytes_eqb g g' then Some k else reg_lookup r g end.
  Definition render_acc (b : bool) : bytes := if b then s "accept"%bs else s "reject"%bs.
  Definition run_owner (kind : bytes) (args : list arg) : option bytes :=
    if bytes_eqb kind (s "own.provedevice"%bs) then
      match args with
      | [kk; kn; kid; AB guid; AB nonce; AB ref; AB body] =>
        match parse_key kk kn kid with
        | Some key => Some (render_acc (Owner.prove_device_ok O_der O_rfc3339 O_verify key guid nonce
                                          (fun xb => O_flag (s "xbok"%bs) ref (s "b:"%bs ++ hex xb)) body))
        | None => Some bad_args
        end
      | _ => Some bad_args
      end
    else if bytes_eqb kind (s "rv.provetorv"%bs) then
      match args with
      | [AL regs; AB nonce; AB body] =>
        match regs_of_args regs with
        | Some rs => Some (render_acc (Owner.prove_to_rv_ok O_der O_rfc3339 O_verify (reg_lookup rs) nonce body))
        | None => Some bad_args
        end
      | _ => Some bad_args
      end
    else if bytes_eqb kind (s "rv.ownersign"%bs) then
      match args with
      | [AB nonce; AB ref; AB body] =>
        Some (render_acc (Owner.owner_sign_ok O_der O_rfc3339 O_verify O_hash O_pubkey nonce
                            (fun w => O_flag (s "ttlok"%bs) ref (s "z:"%bs ++ hexnumZ w)) body))
      | _ => Some bad_args
      end
    else None.

  (* ---- ExtendVoucher: voucher.extend b:<voucher> (mfg shape) (signer shape) (next shape) (device shape) kk kn kid ((z:k b:v) ...) b:<next key> ---- *)
  Definition shape_of (a : arg) : option Extend.kshape :=
    match a with
    | AL [k; AN n] => if sym_is k "ec"%bs then Some (Extend.KEC n) else if sym_is k "rsa"%bs then Some (Extend.KRSA n) else Some Extend.KOtherKey
    | _ => None
    end.
  Fixpoint extra_of (l : list arg) : option (list (val * val)) :=
    match l with
    | [] => Some []
    | AL [AZ k; AB v] :: r => option_map (cons (VInt k, VBytes v)) (extra_of r)
    | _ => None
    end.
  Definition run_extend (kind : bytes) (args : list arg) : option bytes :=
    if bytes_eqb kind (s "voucher.extend"%bs) then
      match args with
      | [AB vb; am; asg; an; ad; kk; kn; kid; AL ex; AB nk] =>
        match shape_of am, shape_of asg, shape_of an, shape_of ad, parse_key kk kn kid, extra_of ex, munmarshal ty_pubkey nk with
        | Some mfg, Some signer, Some next, Some dev, Some skey, Some extra, Ok next_pk =>
          match munmarshal ty_voucher vb with
          | Ok (VList [_; hdr; hm; _; VList ents]) =>
            match entries_of ents with
            | Some es =>
              if negb (Extend.extend_guard O_pubkey mfg signer next skey hdr es) then Some (s "refuse"%bs) else
              match Extend.hash_alg_for dev signer with
              | Ok alg =>
                match Extend.extend_payload O_hash alg hdr hm es (VMap extra) next_pk with
                | Ok pl => Some (render_outcome (fun b => s "b:"%bs ++ hex b) (enc enc_fuel ty_entry_payload pl))
                | _ => Some (s "refuse"%bs)
                end
              | Panic _ => Some (s "panic"%bs)
              | _ => Some (s "refuse"%bs)
              end
            | None => Some (s "err-shape"%bs)
            end
          | Ok _ => Some (s "err-shape"%bs)
          | _ => Some (s "err-decode"%bs)
          end
        | _, _, _, _, _, _, _ => Some bad_args
        end
      | _ => Some bad_args
      end
    else None.

  (* ---- bearer tokens of the SQLite store: store.token b:<secret> b:<token text> -> id b:.. | invalid | panic ---- *)
  Definition O_b64dec (t : bytes) : option bytes :=
    match oracle (s "b64url b:"%bs ++ hex t) with
    | c :: r => if byte_eqb c (byte_of_N 111) (* "ok <hex>" *) then unhex (skipn 2 r) else None
    | [] => None
    end.
  Definition O_mac256 (key msg : bytes) : bytes := O_hmac 256 key msg.
  Definition run_token (kind : bytes) (args : list arg) : option bytes :=
    if bytes_eqb kind (s "store.token"%bs) then
      match args with
      | [AB secret; AB token] =>
        Some (match Token.session_id O_b64dec O_mac256 secret token with
              | Ok (Some id) => s "id b:"%bs ++ hex id
              | Ok None => s "invalid"%bs
              | Panic _ => s "panic"%bs
              | _ => s "err"%bs
              end)
      | _ => Some bad_args
      end
    else None.

  Definition dispatch (kind : bytes) (args : list arg) : bytes :=
    match run_cbor kind args with
    | Some r => r
    | None =>
      match run_rv kind args with
      | Some r => r
      | None =>
        match run_cose kind args with
        | Some r => r
        | None =>
          match run_kex kind args with
          | Some r => r
          | None =>
            match run_kex2 kind args with
            | Some r => r
            | None =>
              match run_chunk kind args with
              | Some r => r
              | None =>
                match run_voucher kind args with
                | Some r => r
                | None => match run_server kind args with
                          | Some r => r
                          | None => match run_device kind args with
                                    | Some r => r
                                    | None => match run_store kind args with
                                              | Some r => r
                                              | None => match run_valid kind args with
                                                        | Some r => r
                                                        | None => match run_handover kind args with
                                                                  | Some r => r
                                                                  | None => match run_fsim kind args with
                                                                            | Some r => r
                                                                            | None => match run_devmod kind args with Some r => r | None => match run_owner kind args with Some r => r | None => match run_extend kind args with Some r => r | None => match run_token kind args with Some r => r | None => s "unknown-kind"%bs end end end end
                                                                            end
                                                                  end
                                                        end
                                              end
                                    end
                          end
                end
              end
            end
          end
        end
      end
    end.
End Dispatch.
