(* Run/Sexp.v — the argument / result syntax shared by the extracted runner, vm_compute case files
   and the Go harness: s-expressions in, ASCII text out.  Glue, not model. *)
From FDO Require Export Cbor.Typed.

Inductive bstr := BS (b : list byte).
Definition bs_parse (b : list byte) : bstr := BS b.
Definition bs_print (s : bstr) : list byte := match s with BS b => b end.
Declare Scope bs_scope. Delimit Scope bs_scope with bs.
String Notation bstr bs_parse bs_print : bs_scope.
Definition s (x : bstr) : bytes := bs_print x.

Inductive arg :=
| AN (n : N)            (* n:<hex> *)
| AZ (z : Z)            (* z:<hex> / z:-<hex> *)
| AB (b : bytes)        (* b:<hex> *)
| AS (a : bytes)        (* bare symbol *)
| AL (l : list arg).    (* ( ... ) *)

Definition sym_is (a : arg) (x : bstr) : bool :=
  match a with AS b => bytes_eqb b (s x) | _ => false end.

(* ---- rendering ---- *)
Definition sp : bytes := s " "%bs.
Fixpoint join (sep : bytes) (l : list bytes) : bytes :=
  match l with [] => [] | [x] => x | x :: r => x ++ sep ++ join sep r end.

Fixpoint bs_insert (k : bytes) (l : list bytes) : list bytes :=
  match l with [] => [k] | k' :: l' => if bytes_ltb k' k then k' :: bs_insert k l' else k :: l end.
Definition bs_sort (l : list bytes) : list bytes := fold_right bs_insert [] l.

(* map entries are rendered in the encoder's order: bytewise by the CBOR encoding of the key *)
Definition key_order (k : val) : bytes :=
  match enc 3 TAny k with Ok b => b | _ => [] end.

Fixpoint render_val (v : val) : bytes :=
  match v with
  | VInt z => s "(i z:"%bs ++ hexnumZ z ++ s ")"%bs
  | VBool true => s "T"%bs
  | VBool false => s "F"%bs
  | VBytes b => s "(b b:"%bs ++ hex b ++ s ")"%bs
  | VText b => s "(t b:"%bs ++ hex b ++ s ")"%bs
  | VList l => s "(l"%bs ++ flat_map (fun x => sp ++ render_val x) l ++ s ")"%bs
  | VMap m => s "(m"%bs ++ flat_map (fun x => sp ++ snd x)
                (kv_sort (map (fun kv => (key_order (fst kv),
                                          s "("%bs ++ render_val (fst kv) ++ sp ++ render_val (snd kv) ++ s ")"%bs)) m))
              ++ s ")"%bs
  | VNull => s "N"%bs
  | VTag n x => s "(tag n:"%bs ++ hexnum n ++ sp ++ render_val x ++ s ")"%bs
  | VRaw b => s "(r b:"%bs ++ hex b ++ s ")"%bs
  end.

Definition render_outcome {A} (f : A -> bytes) (o : outcome A) : bytes :=
  match o with
  | Ok a => s "ok "%bs ++ f a
  | Err _ => s "err"%bs
  | Panic p => s "panic "%bs ++ hexnum (psite_code p)
  | OutOfFuel => s "oof"%bs
  end.

(* ---- parsing descriptors and values ---- *)
Definition parse_kind (a : arg) : option ikind :=
  if sym_is a "u8"%bs then Some KU8 else if sym_is a "u16"%bs then Some KU16
  else if sym_is a "u32"%bs then Some KU32 else if sym_is a "u64"%bs then Some KU64
  else if sym_is a "uint"%bs then Some KUint else if sym_is a "i8"%bs then Some KI8
  else if sym_is a "i16"%bs then Some KI16 else if sym_is a "i32"%bs then Some KI32
  else if sym_is a "i64"%bs then Some KI64 else if sym_is a "int"%bs then Some KInt else None.

Fixpoint parse_ty (a : arg) : option ty :=
  match a with
  | AS _ =>
    match parse_kind a with
    | Some k => Some (TInt k)
    | None =>
      if sym_is a "bool"%bs then Some TBool else if sym_is a "bytes"%bs then Some TBytes
      else if sym_is a "text"%bs then Some TText else if sym_is a "any"%bs then Some TAny
      else if sym_is a "bwbytes"%bs then Some TBWBytes else if sym_is a "raw"%bs then Some TRaw
      else if sym_is a "cert"%bs then Some (TDer false) else if sym_is a "csr"%bs then Some (TDer true)
      else if sym_is a "label"%bs then Some TLabel else if sym_is a "prothdr"%bs then Some TProtHdr
      else if sym_is a "timestamp"%bs then Some TTimestamp else None
    end
  | AL (hd :: args) =>
    if sym_is hd "fixed"%bs then match args with [AN n] => Some (TFixed (N.to_nat n)) | _ => None end
    else if sym_is hd "slice"%bs then match args with [x] => option_map TSlice (parse_ty x) | _ => None end
    else if sym_is hd "ptr"%bs then match args with [x] => option_map TPtr (parse_ty x) | _ => None end
    else if sym_is hd "tag"%bs then match args with [x] => option_map TTag (parse_ty x) | _ => None end
    else if sym_is hd "bstr"%bs then match args with [x] => option_map TBstr (parse_ty x) | _ => None end
    else if sym_is hd "tagged"%bs then
      match args with [AN n; x] => option_map (TTagged n) (parse_ty x) | _ => None end
    else if sym_is hd "map"%bs then
      match args with
      | [k; v] => match parse_ty k, parse_ty v with Some k', Some v' => Some (TMap k' v') | _, _ => None end
      | _ => None
      end
    else if sym_is hd "struct"%bs then
      option_map TStruct ((fix fields (l : list arg) : option (list (bool * ty)) :=
         match l with
         | [] => Some []
         | AL [om; x] :: r =>
           match parse_ty x, fields r with
           | Some t, Some fs => Some ((sym_is om "o"%bs, t) :: fs)
           | _, _ => None
           end
         | _ => None
         end) args)
    else None
  | _ => None
  end.

Fixpoint parse_val (a : arg) : option val :=
  match a with
  | AS _ => if sym_is a "N"%bs then Some VNull else if sym_is a "T"%bs then Some (VBool true)
            else if sym_is a "F"%bs then Some (VBool false) else None
  | AL [hd; AZ z] => if sym_is hd "i"%bs then Some (VInt z) else None
  | AL [hd; AB b] => if sym_is hd "b"%bs then Some (VBytes b) else if sym_is hd "t"%bs then Some (VText b)
                     else if sym_is hd "r"%bs then Some (VRaw b) else None
  | AL [hd; AN n; x] => if sym_is hd "tag"%bs then option_map (VTag n) (parse_val x) else None
  | AL (hd :: args) =>
    if sym_is hd "l"%bs then
      option_map VList ((fix go (l : list arg) : option (list val) :=
         match l with
         | [] => Some []
         | x :: r => match parse_val x, go r with Some v, Some vs => Some (v :: vs) | _, _ => None end
         end) args)
    else if sym_is hd "m"%bs then
      option_map VMap ((fix go (l : list arg) : option (list (val * val)) :=
         match l with
         | [] => Some []
         | AL [k; v] :: r =>
           match parse_val k, parse_val v, go r with
           | Some k', Some v', Some m => Some ((k', v') :: m)
           | _, _, _ => None
           end
         | _ => None
         end) args)
    else None
  | _ => None
  end.
