(* ChunkFacts.v — properties of the ServiceInfo chunking model (Svi/Chunk.v):
   every chunk fits its budget, the reader never fails on well-formed input, chunking is lossless for every
   schedule of size budgets, the batching loop respects the MTU and terminates, an explicit yield ends the batch. *)
From FDO Require Import Svi.Chunk.
Local Open Scope Z_scope.

(* ------------------------------------------------------------------------------------------------------------ *)
(* Definitions                                                                                                  *)
(* ------------------------------------------------------------------------------------------------------------ *)

Definition key_canon (c : cur) : Prop := Z.of_nat (length (c_rkey c)) = cbor_len (length (c_key c)).

Definition wf_item (content : bytes) : Prop :=
  content = [] \/ exists c, parse_item content = Some (Some c) /\ key_canon c.

Definition wf_state (st : cstate) : Prop :=
  (forall c, cs_cur st = Some c -> key_canon c) /\ Forall wf_item (cs_queue st).

Definition cur_flat (c : option cur) : list (bytes * bytes) :=
  match c with Some c => [(c_key c, c_rest c)] | None => [] end.

Definition item_flat (content : bytes) : list (bytes * bytes) :=
  match parse_item content with Some (Some c) => [(c_key c, c_rest c)] | _ => [] end.

Definition flat_q (q : list bytes) : list (bytes * bytes) := flat_map item_flat q.

Definition flat (st : cstate) : list (bytes * bytes) := cur_flat (cs_cur st) ++ flat_q (cs_queue st).

Definition norm (l : list (bytes * bytes)) : list (bytes * bytes) :=
  unchunk (filter (fun kv => negb (match snd kv with [] => true | _ => false end)) l).

(* ------------------------------------------------------------------------------------------------------------ *)
(* Algebra of unchunk / norm                                                                                    *)
(* ------------------------------------------------------------------------------------------------------------ *)

Definition is_nil (v : bytes) : bool := match v with [] => true | _ => false end.

Definition ucons (kv : bytes * bytes) (u : list (bytes * bytes)) : list (bytes * bytes) :=
  match u with
  | (k', v') :: r' => if bytes_eqb (fst kv) k' then (fst kv, snd kv ++ v') :: r' else kv :: (k', v') :: r'
  | [] => [kv]
  end.

Lemma unchunk_cons k v r : unchunk ((k, v) :: r) = ucons (k, v) (unchunk r).
Proof. cbn [unchunk ucons fst snd]. destruct (unchunk r) as [|[k' v'] r']; reflexivity. Qed.

Lemma norm_nil : norm [] = [].
Proof. reflexivity. Qed.

Lemma norm_cons kv l : norm (kv :: l) = if is_nil (snd kv) then norm l else ucons kv (norm l).
Proof.
  unfold norm. cbn [filter]. destruct kv as [k v]. cbn [snd]. destruct v as [|x v]; cbn [negb is_nil].
  - reflexivity.
  - apply unchunk_cons.
Qed.

Lemma norm_cons_congr x l1 l2 : norm l1 = norm l2 -> norm (x :: l1) = norm (x :: l2).
Proof. intros H. rewrite !norm_cons, H. reflexivity. Qed.

Lemma norm_app_congr p l1 l2 : norm l1 = norm l2 -> norm (p ++ l1) = norm (p ++ l2).
Proof. intros H. induction p as [|x p IH]; cbn [app]; [exact H | now apply norm_cons_congr]. Qed.

Lemma norm_drop_empty k l : norm ((k, []) :: l) = norm l.
Proof. rewrite norm_cons. reflexivity. Qed.

Lemma ucons_ucons k a b u : ucons (k, a) (ucons (k, b) u) = ucons (k, a ++ b) u.
Proof.
  destruct u as [|[k' v'] r']; cbn [ucons fst snd].
  - rewrite bytes_eqb_refl. reflexivity.
  - destruct (bytes_eqb k k') eqn:E; cbn [ucons fst snd].
    + rewrite bytes_eqb_refl, app_assoc. reflexivity.
    + rewrite bytes_eqb_refl. reflexivity.
Qed.

(* two consecutive chunks of the same key are the same as one chunk with the concatenated value *)
Lemma norm_merge k a b l : norm ((k, a) :: (k, b) :: l) = norm ((k, a ++ b) :: l).
Proof.
  rewrite !norm_cons. cbn [snd].
  destruct a as [|x a].
  - reflexivity.
  - cbn [is_nil app]. destruct b as [|y b]; cbn [is_nil].
    + rewrite app_nil_r. reflexivity.
    + change (x :: a ++ y :: b) with ((x :: a) ++ y :: b). apply ucons_ucons.
Qed.

Lemma norm_app_nil_r p l : norm l = [] -> norm (p ++ l) = norm p.
Proof.
  intros H. rewrite <- (app_nil_r p) at 2. apply norm_app_congr. rewrite H. reflexivity.
Qed.

(* unchunk output is already merged: applying it again changes nothing when no value is empty; in general norm is
   idempotent *)
Lemma ucons_not_nil kv u : ucons kv u <> [].
Proof. destruct u as [|[k' v'] r']; cbn [ucons]; [discriminate|]. destruct (bytes_eqb (fst kv) k'); discriminate. Qed.

(* ------------------------------------------------------------------------------------------------------------ *)
(* Arithmetic of maxOverhead vs KV.Size                                                                         *)
(* ------------------------------------------------------------------------------------------------------------ *)

Lemma cbor_len_ge1 n : 1 <= cbor_len n.
Proof. unfold cbor_len. destruct (Nat.ltb_spec n 24); [lia|]. destruct (Nat.ltb_spec n 256); lia. Qed.

Lemma kv_size_ge3 k v : 3 <= kv_size k v.
Proof. unfold kv_size. pose proof (cbor_len_ge1 (length k)). pose proof (cbor_len_ge1 (length v)). lia. Qed.

Lemma fits_arith (L : nat) (size : Z) (n : nat) :
  0 < size - max_overhead L size ->
  (n <= Z.to_nat (size - max_overhead L size))%nat ->
  1 + Z.of_nat L + cbor_len n <= size.
Proof.
  unfold max_overhead, cbor_len.
  destruct (Z.leb_spec 24 (size - (1 + Z.of_nat L + 1))) as [H1|H1].
  - destruct (Z.leb_spec 256 (size - (1 + Z.of_nat L + 1 + 1))) as [H2|H2];
      destruct (Nat.ltb_spec n 24); destruct (Nat.ltb_spec n 256); lia.
  - destruct (Z.leb_spec 256 (size - (1 + Z.of_nat L + 1))) as [H2|H2];
      destruct (Nat.ltb_spec n 24); destruct (Nat.ltb_spec n 256); lia.
Qed.

(* ------------------------------------------------------------------------------------------------------------ *)
(* try_cur                                                                                                      *)
(* ------------------------------------------------------------------------------------------------------------ *)

Lemma try_cur_spec c size :
  key_canon c ->
  match try_cur c size with
  | TRes CTooSmall c' => c' = Some c
  | TRes (CKV k v) c' =>
      v <> [] /\ kv_size k v <= size /\
      (forall c'', c' = Some c'' -> key_canon c'') /\
      (forall l, norm ((k, v) :: cur_flat c' ++ l) = norm ((c_key c, c_rest c) :: l))
  | TRes _ _ => False
  | TExhausted => c_rest c = []
  end.
Proof.
  intros Hk. unfold try_cur.
  set (mo := max_overhead (length (c_rkey c)) size).
  destruct (Z.leb_spec (size - mo) 0) as [Hs|Hs].
  - reflexivity.
  - cbv beta zeta.
    destruct (Nat.leb_spec (Z.to_nat (size - mo)) (length (c_rest c))) as [Hw|Hw].
    + split; [|split; [|split]].
      * intros E. apply (f_equal (@length byte)) in E. rewrite firstn_length_le in E by exact Hw.
        cbn [length] in E. lia.
      * unfold kv_size. rewrite firstn_length_le by exact Hw. rewrite <- Hk.
        apply fits_arith; fold mo; [lia | apply Nat.le_refl].
      * intros c'' E. inversion E; subst c''. exact Hk.
      * intros l. cbn [cur_flat c_key c_rest app]. rewrite norm_merge, firstn_skipn. reflexivity.
    + destruct (c_rest c) as [|b rest] eqn:Er.
      * reflexivity.
      * split; [|split; [|split]].
        -- discriminate.
        -- unfold kv_size. rewrite <- Hk. apply fits_arith; fold mo; lia.
        -- intros c'' E. discriminate E.
        -- intros l. reflexivity.
Qed.

(* ------------------------------------------------------------------------------------------------------------ *)
(* next_reader / read_chunk                                                                                     *)
(* ------------------------------------------------------------------------------------------------------------ *)

Definition chunk_post (orig : list (bytes * bytes)) (size : Z) (r : cres) (st' : cstate) : Prop :=
  match r with
  | CKV k v => v <> [] /\ kv_size k v <= size /\ norm ((k, v) :: flat st') = norm orig
  | CTooSmall => norm (flat st') = norm orig
  | CEOF => norm orig = [] /\ norm (flat st') = []
  | CErr => False
  end.

Lemma parse_item_nil : parse_item [] = Some None.
Proof. reflexivity. Qed.

Lemma flat_q_cons content q : flat_q (content :: q) = item_flat content ++ flat_q q.
Proof. reflexivity. Qed.

Lemma flat_q_cons_some content c q :
  parse_item content = Some (Some c) -> flat_q (content :: q) = (c_key c, c_rest c) :: flat_q q.
Proof. intros H. rewrite flat_q_cons. unfold item_flat. rewrite H. reflexivity. Qed.

Lemma flat_q_cons_nil q : flat_q ([] :: q) = flat_q q.
Proof. rewrite flat_q_cons. unfold item_flat. rewrite parse_item_nil. reflexivity. Qed.

Lemma flat_mkcs c q : flat (mkcs c q) = cur_flat c ++ flat_q q.
Proof. reflexivity. Qed.

(* what a TRes outcome of try_cur means for the state (c', q) against the content (c, q) *)
Lemma tres_post c size r c' q :
  key_canon c -> Forall wf_item q -> try_cur c size = TRes r c' ->
  wf_state (mkcs c' q) /\ chunk_post ((c_key c, c_rest c) :: flat_q q) size r (mkcs c' q).
Proof.
  intros Hk Hq E. pose proof (try_cur_spec c size Hk) as T. rewrite E in T.
  destruct r as [k v| | |]; try contradiction.
  - destruct T as (Hv & Hsz & Hc' & Hn). split.
    + split; [exact Hc' | exact Hq].
    + cbn [chunk_post]. rewrite flat_mkcs. auto.
  - subst c'. split.
    + split; [|exact Hq]. cbn [cs_cur]. intros c0 E0. inversion E0; subst c0. exact Hk.
    + cbn [chunk_post]. reflexivity.
Qed.

Lemma next_reader_spec size q :
  Forall wf_item q -> forall r st', next_reader q size = (r, st') ->
  wf_state st' /\ chunk_post (flat_q q) size r st'.
Proof.
  induction 1 as [|content q' Hi Hq IH]; intros r st' E.
  - cbn [next_reader] in E. inversion E; subst r st'. split.
    + split; [intros c; discriminate | constructor].
    + cbn [chunk_post]. split; reflexivity.
  - cbn [next_reader] in E. destruct Hi as [-> | (c & Hp & Hk)].
    + rewrite parse_item_nil in E. inversion E; subst r st'. split.
      * split; [intros c; discriminate | exact Hq].
      * cbn [chunk_post]. rewrite flat_q_cons_nil. reflexivity.
    + rewrite Hp in E. rewrite (flat_q_cons_some _ _ _ Hp).
      destruct (try_cur c size) as [r0 c'|] eqn:Et.
      * inversion E; subst r st'. eapply tres_post; eassumption.
      * pose proof (try_cur_spec c size Hk) as T. rewrite Et in T. rewrite T.
        destruct (IH _ _ E) as [Hw Hpost]. split; [exact Hw|].
        destruct r as [k v| | |]; cbn [chunk_post] in *; rewrite ?norm_drop_empty; exact Hpost.
Qed.

Lemma read_chunk_spec st size r st' :
  wf_state st -> read_chunk st size = (r, st') ->
  wf_state st' /\ chunk_post (flat st) size r st'.
Proof.
  destruct st as [cu q]. intros [Hc Hq] E. cbn [cs_cur cs_queue] in Hc, Hq.
  unfold read_chunk in E. cbn [cs_cur cs_queue] in E. rewrite flat_mkcs.
  destruct cu as [c|].
  - pose proof (Hc c eq_refl) as Hk. cbn [cur_flat app].
    destruct (try_cur c size) as [r0 c'|] eqn:Et.
    + inversion E; subst r st'. eapply tres_post; eassumption.
    + pose proof (try_cur_spec c size Hk) as T. rewrite Et in T. rewrite T.
      destruct (next_reader_spec size q Hq _ _ E) as [Hw Hpost]. split; [exact Hw|].
      destruct r as [k v| | |]; cbn [chunk_post] in *; rewrite ?norm_drop_empty; exact Hpost.
  - cbn [cur_flat app]. apply next_reader_spec; assumption.
Qed.

(* ---- Theorem 1 ---- *)
Theorem read_chunk_fits st size k v st' :
  wf_state st -> read_chunk st size = (CKV k v, st') -> kv_size k v <= size.
Proof. intros Hw E. destruct (read_chunk_spec _ _ _ _ Hw E) as [_ P]. cbn [chunk_post] in P. tauto. Qed.

Theorem read_chunk_nonempty st size k v st' :
  wf_state st -> read_chunk st size = (CKV k v, st') -> v <> [].
Proof. intros Hw E. destruct (read_chunk_spec _ _ _ _ Hw E) as [_ P]. cbn [chunk_post] in P. tauto. Qed.

(* ---- Theorem 2 ---- *)
Theorem read_chunk_wf st size r st' :
  wf_state st -> read_chunk st size = (r, st') -> wf_state st'.
Proof. intros Hw E. exact (proj1 (read_chunk_spec _ _ _ _ Hw E)). Qed.

Theorem read_chunk_no_err st size r st' :
  wf_state st -> read_chunk st size = (r, st') -> r <> CErr.
Proof. intros Hw E. destruct (read_chunk_spec _ _ _ _ Hw E) as [_ P]. intros ->. exact P. Qed.

(* ---- Theorem 3 ---- *)
Theorem read_chunk_lossless st size r st' :
  wf_state st -> read_chunk st size = (r, st') ->
  match r with
  | CKV k v => norm ((k, v) :: flat st') = norm (flat st)
  | CTooSmall => norm (flat st') = norm (flat st)
  | CEOF => norm (flat st) = [] /\ norm (flat st') = []
  | CErr => False
  end.
Proof.
  intros Hw E. destruct (read_chunk_spec _ _ _ _ Hw E) as [_ P].
  destruct r as [k v| | |]; cbn [chunk_post] in P; tauto.
Qed.

(* ------------------------------------------------------------------------------------------------------------ *)
(* drain: any schedule of size budgets                                                                          *)
(* ------------------------------------------------------------------------------------------------------------ *)

(* Calls read_chunk once per budget; collects the chunks; goes on after CTooSmall; stops at CEOF / CErr or when the
   budgets run out.  The second component is the result of the last call made (CTooSmall if no call was made). *)
Fixpoint drain (st : cstate) (sizes : list Z) : list (bytes * bytes) * cres * cstate :=
  match sizes with
  | [] => ([], CTooSmall, st)
  | s :: rest =>
    match read_chunk st s with
    | (CKV k v, st1) =>
      match rest with
      | [] => ([(k, v)], CKV k v, st1)
      | _ => let '(e, l, st2) := drain st1 rest in ((k, v) :: e, l, st2)
      end
    | (CTooSmall, st1) => drain st1 rest
    | (CEOF, st1) => ([], CEOF, st1)
    | (CErr, st1) => ([], CErr, st1)
    end
  end.

Lemma drain_spec sizes : forall st emitted last st',
  wf_state st -> drain st sizes = (emitted, last, st') ->
  wf_state st' /\ last <> CErr /\ norm (emitted ++ flat st') = norm (flat st) /\
  (last = CEOF -> norm (flat st') = []).
Proof.
  induction sizes as [|s rest IH]; intros st emitted last st' Hw E.
  - cbn [drain] in E. inversion E; subst emitted last st'. cbn [app].
    repeat split; try assumption; try discriminate; apply Hw.
  - cbn [drain] in E. destruct (read_chunk st s) as [r st1] eqn:Er.
    destruct (read_chunk_spec _ _ _ _ Hw Er) as [Hw1 P].
    destruct r as [k v| | |]; cbn [chunk_post] in P.
    + destruct P as (_ & _ & Pn).
      destruct rest as [|s2 rest2].
      * inversion E; subst emitted last st'. cbn [app].
        split; [exact Hw1|]. split; [discriminate|]. split; [exact Pn | discriminate].
      * destruct (drain st1 (s2 :: rest2)) as [[e l] st2] eqn:Ed.
        inversion E; subst emitted last st'.
        destruct (IH _ _ _ _ Hw1 Ed) as (Hw2 & Hl & Hn & Heof).
        split; [exact Hw2|]. split; [exact Hl|]. split; [|exact Heof].
        cbn [app]. rewrite <- Pn. apply norm_cons_congr. exact Hn.
    + destruct (IH _ _ _ _ Hw1 E) as (Hw2 & Hl & Hn & Heof).
      split; [exact Hw2|]. split; [exact Hl|]. split; [|exact Heof].
      rewrite Hn. exact P.
    + inversion E; subst emitted last st'. destruct P as [P0 P1]. cbn [app].
      split; [exact Hw1|]. split; [discriminate|]. split; [congruence | intros _; exact P1].
    + contradiction.
Qed.

(* ---- Theorem 4 ---- *)
Theorem drain_lossless st sizes emitted last st' :
  wf_state st -> drain st sizes = (emitted, last, st') ->
  last <> CErr /\ norm (emitted ++ flat st') = norm (flat st).
Proof. intros Hw E. destruct (drain_spec _ _ _ _ _ Hw E) as (_ & H1 & H2 & _). split; assumption. Qed.

Theorem drain_wf st sizes emitted last st' :
  wf_state st -> drain st sizes = (emitted, last, st') -> wf_state st'.
Proof. intros Hw E. exact (proj1 (drain_spec _ _ _ _ _ Hw E)). Qed.

Theorem drain_complete st sizes emitted last st' :
  wf_state st -> drain st sizes = (emitted, last, st') -> last = CEOF -> norm emitted = norm (flat st).
Proof.
  intros Hw E Hl. destruct (drain_spec _ _ _ _ _ Hw E) as (_ & _ & H2 & H3).
  rewrite <- H2. symmetry. apply norm_app_nil_r. exact (H3 Hl).
Qed.

(* ------------------------------------------------------------------------------------------------------------ *)
(* round: the batching loop                                                                                     *)
(* ------------------------------------------------------------------------------------------------------------ *)

Definition kvs_size (kvs : list (bytes * bytes)) : Z :=
  fold_right (fun kv a => kv_size (fst kv) (snd kv) + a) 0 kvs.

Lemma round_loop_spec fuel : forall st max_read mtu acc kvs more st',
  wf_state st -> 0 <= max_read ->
  round_loop fuel st max_read mtu acc = RRound kvs more st' ->
  exists new, kvs = rev acc ++ new /\ kvs_size new <= max_read /\ wf_state st' /\
              norm (new ++ flat st') = norm (flat st).
Proof.
  induction fuel as [|f IH]; intros st max_read mtu acc kvs more st' Hw Hm E.
  - discriminate E.
  - cbn [round_loop] in E. destruct (read_chunk st max_read) as [r st1] eqn:Er.
    destruct (read_chunk_spec _ _ _ _ Hw Er) as [Hw1 P].
    destruct r as [k v| | |]; cbn [chunk_post] in P.
    + destruct P as (_ & Psz & Pn).
      assert (Hm' : 0 <= max_read - kv_size k v) by lia.
      destruct (IH _ _ _ _ _ _ _ Hw1 Hm' E) as (new & Hk & Hs & Hw2 & Hn).
      exists ((k, v) :: new). split; [|split; [|split]].
      * rewrite Hk. cbn [rev]. rewrite <- app_assoc. reflexivity.
      * unfold kvs_size in *. cbn [fold_right fst snd]. lia.
      * exact Hw2.
      * cbn [app]. rewrite <- Pn. apply norm_cons_congr. exact Hn.
    + destruct (cs_cur st1) eqn:C1; [destruct (max_read =? mtu) eqn:MM0; [discriminate E|]|destruct (max_read =? mtu) eqn:MM].
      * inversion E; subst kvs more st'. exists []. rewrite app_nil_r. cbn [app].
        split; [reflexivity|]. split; [exact Hm|]. split; [exact Hw1 | exact P].
      * (* a forced break before anything was read: skipped *)
        destruct (IH _ _ _ _ _ _ _ Hw1 Hm E) as (new & Hk & Hs & Hw2 & Hn).
        exists new. split; [exact Hk|]. split; [exact Hs|]. split; [exact Hw2|]. rewrite Hn. exact P.
      * inversion E; subst kvs more st'. exists []. rewrite app_nil_r. cbn [app].
        split; [reflexivity|]. split; [exact Hm|]. split; [exact Hw1 | exact P].
    + inversion E; subst kvs more st'. exists []. rewrite app_nil_r. cbn [app].
      split; [reflexivity|]. split; [exact Hm|]. split; [exact Hw1 | destruct P; congruence].
    + contradiction.
Qed.

(* ---- Theorem 5 ---- *)
Theorem round_fits st mtu kvs more st' :
  wf_state st -> 0 <= mtu -> round st mtu = RRound kvs more st' ->
  fold_right (fun kv a => kv_size (fst kv) (snd kv) + a) 0 kvs <= mtu /\ wf_state st' /\
  norm (kvs ++ flat st') = norm (flat st).
Proof.
  intros Hw Hm E. unfold round in E.
  destruct (round_loop_spec _ _ _ _ _ _ _ _ Hw Hm E) as (new & Hk & Hs & Hw' & Hn).
  cbn [rev app] in Hk. subst new. split; [exact Hs|]. split; assumption.
Qed.

(* the queue never grows, and a forced break consumes its marker *)
Lemma next_reader_queue q : forall size r st1, next_reader q size = (r, st1) ->
  (length (cs_queue st1) <= length q)%nat /\ (r = CTooSmall -> cs_cur st1 = None -> (length (cs_queue st1) < length q)%nat).
Proof.
  induction q as [|content q' IH]; intros size r st1; cbn [next_reader].
  - intros H; inversion H; subst. cbn. split; [lia|discriminate].
  - destruct (parse_item content) as [[c|]|].
    + destruct (try_cur c size) as [r0 c'|] eqn:T.
      * intros H; inversion H; subst. cbn [cs_queue cs_cur length]. split; [lia|]. intros -> Hc.
        unfold try_cur in T. destruct (_ <=? 0); [inversion T; subst; discriminate|].
        destruct (Nat.leb _ _); [discriminate T|]. destruct (c_rest c); discriminate T.
      * intros H. destruct (IH _ _ _ H) as [A B]. cbn [length]. split; [lia|]. intros E1 E2. specialize (B E1 E2). lia.
    + intros H; inversion H; subst. cbn [cs_queue length]. split; [lia|]. intros; lia.
    + intros H; inversion H; subst. cbn [cs_queue length]. split; [lia|]. discriminate.
Qed.

Lemma read_chunk_queue st size r st1 : read_chunk st size = (r, st1) ->
  (length (cs_queue st1) <= length (cs_queue st))%nat /\
  (r = CTooSmall -> cs_cur st1 = None -> (length (cs_queue st1) < length (cs_queue st))%nat).
Proof.
  unfold read_chunk. destruct (cs_cur st) as [c|].
  - destruct (try_cur c size) as [r0 c'|] eqn:T; [|apply next_reader_queue].
    intros H; inversion H; subst. cbn [cs_queue cs_cur]. split; [lia|]. intros -> Hc.
    unfold try_cur in T. destruct (_ <=? 0); [inversion T; subst; discriminate|].
    destruct (Nat.leb _ _); [discriminate T|]. destruct (c_rest c); discriminate T.
  - apply next_reader_queue.
Qed.

Lemma round_loop_total fuel : forall st max_read mtu acc,
  wf_state st -> 0 <= max_read -> (Z.to_nat max_read + length (cs_queue st) < fuel)%nat ->
  round_loop fuel st max_read mtu acc <> ROutOfFuel.
Proof.
  induction fuel as [|f IH]; intros st max_read mtu acc Hw Hm Hf.
  - lia.
  - cbn [round_loop]. destruct (read_chunk st max_read) as [r st1] eqn:Er.
    destruct (read_chunk_spec _ _ _ _ Hw Er) as [Hw1 P].
    destruct (read_chunk_queue _ _ _ _ Er) as [Q1 Q2].
    destruct r as [k v| | |]; cbn [chunk_post] in P.
    + destruct P as (_ & Psz & _). pose proof (kv_size_ge3 k v).
      apply IH; [exact Hw1 | lia | lia].
    + destruct (cs_cur st1) eqn:C1; [destruct (max_read =? mtu); discriminate|].
      destruct (max_read =? mtu); [|discriminate].
      specialize (Q2 eq_refl eq_refl). apply IH; [exact Hw1 | exact Hm | lia].
    + discriminate.
    + contradiction.
Qed.

(* the only failure: a key is pending that does not fit even an empty message of this size *)
Lemma round_loop_fail fuel : forall st max_read mtu acc,
  wf_state st -> 0 <= max_read ->
  round_loop fuel st max_read mtu acc = RFail ->
  exists st1 st2 c, wf_state st1 /\ read_chunk st1 mtu = (CTooSmall, st2) /\ cs_cur st2 = Some c.
Proof.
  induction fuel as [|f IH]; intros st max_read mtu acc Hw Hm E.
  - discriminate E.
  - cbn [round_loop] in E. destruct (read_chunk st max_read) as [r st1] eqn:Er.
    destruct (read_chunk_spec _ _ _ _ Hw Er) as [Hw1 P].
    destruct r as [k v| | |]; cbn [chunk_post] in P.
    + destruct P as (_ & Psz & _). assert (Hm' : 0 <= max_read - kv_size k v) by lia. apply (IH _ _ _ _ Hw1 Hm' E).
    + destruct (cs_cur st1) as [c|] eqn:C1.
      * destruct (Z.eqb_spec max_read mtu) as [->|]; [|discriminate E].
        exists st, st1, c. split; [exact Hw|]. split; [exact Er | exact C1].
      * destruct (max_read =? mtu); [|discriminate E]. apply (IH _ _ _ _ Hw1 Hm E).
    + discriminate E.
    + contradiction.
Qed.

Theorem round_total st mtu :
  wf_state st -> 0 <= mtu -> round st mtu <> ROutOfFuel.
Proof. intros Hw Hm. unfold round. apply round_loop_total; [exact Hw | exact Hm | lia]. Qed.

Theorem round_fails_only_on_unsendable_key st mtu :
  wf_state st -> 0 <= mtu -> round st mtu = RFail ->
  exists st1 st2 c, wf_state st1 /\ read_chunk st1 mtu = (CTooSmall, st2) /\ cs_cur st2 = Some c.
Proof. intros Hw Hm E. unfold round in E. exact (round_loop_fail _ _ _ _ _ Hw Hm E). Qed.

(* ---- Theorem 6 ---- *)
Theorem yield_new_batch st size q :
  cs_cur st = None -> cs_queue st = [] :: q -> read_chunk st size = (CTooSmall, mkcs None q).
Proof. intros Hc Hq. unfold read_chunk. rewrite Hc, Hq. reflexivity. Qed.

(* a forced break at the very start of a message has nothing to separate: the round goes on as if it were not there *)
Theorem yield_round st mtu q :
  cs_cur st = None -> cs_queue st = [] :: q -> round st mtu = round (mkcs None q) mtu.
Proof.
  intros Hc Hq. unfold round. rewrite Hq. cbn [length cs_queue]. rewrite Nat.add_succ_r. cbn [round_loop].
  rewrite (yield_new_batch st mtu q Hc Hq). cbn [cs_cur]. rewrite Z.eqb_refl. reflexivity.
Qed.

(* ... and after at least one entry it ends the message with IsMoreServiceInfo set *)
Theorem yield_ends_message fuel st max_read mtu acc q :
  cs_cur st = None -> cs_queue st = [] :: q -> max_read <> mtu ->
  round_loop (S fuel) st max_read mtu acc = RRound (rev acc) true (mkcs None q).
Proof.
  intros Hc Hq NE. cbn [round_loop]. rewrite (yield_new_batch st max_read q Hc Hq). cbn [cs_cur].
  destruct (max_read =? mtu) eqn:E; [apply Z.eqb_eq in E; contradiction|reflexivity].
Qed.

(* ------------------------------------------------------------------------------------------------------------ *)
(* Non-vacuity                                                                                                  *)
(* ------------------------------------------------------------------------------------------------------------ *)

(* "devmod:active" *)
Definition ex_k1 : bytes := [x64; x65; x76; x6d; x6f; x64; x3a; x61; x63; x74; x69; x76; x65].
Definition ex_v1 : bytes := [xf5].                                            (* true *)
(* "devmod:os" *)
Definition ex_k2 : bytes := [x64; x65; x76; x6d; x6f; x64; x3a; x6f; x73].
Definition ex_v2 : bytes := [x65; x4c; x69; x6e; x75; x78].                    (* "Linux" *)
(* "devmod:modules" *)
Definition ex_k3 : bytes := [x64; x65; x76; x6d; x6f; x64; x3a; x6d; x6f; x64; x75; x6c; x65; x73].
Definition ex_v3 : bytes := x58 :: x3a :: repeat xaa 58.                        (* 58-byte bstr: 60 bytes *)

Definition ex_m1 : bytes := x6d :: ex_k1 ++ ex_v1.
Definition ex_m2 : bytes := x69 :: ex_k2 ++ ex_v2.
Definition ex_m3 : bytes := x6e :: ex_k3 ++ ex_v3.

Definition ex_st : cstate := mkcs None [ex_m1; ex_m2; ex_m3].

Example ex_parse1 : parse_item ex_m1 = Some (Some (mkcur (x6d :: ex_k1) ex_k1 ex_v1)).
Proof. vm_compute. reflexivity. Qed.
Example ex_parse2 : parse_item ex_m2 = Some (Some (mkcur (x69 :: ex_k2) ex_k2 ex_v2)).
Proof. vm_compute. reflexivity. Qed.
Example ex_parse3 : parse_item ex_m3 = Some (Some (mkcur (x6e :: ex_k3) ex_k3 ex_v3)).
Proof. vm_compute. reflexivity. Qed.

Example ex_wf : wf_state ex_st.
Proof.
  split.
  - intros c; discriminate.
  - cbn [ex_st cs_queue]. repeat apply Forall_cons; [ | | | apply Forall_nil].
    + right. eexists. split; [exact ex_parse1 | vm_compute; reflexivity].
    + right. eexists. split; [exact ex_parse2 | vm_compute; reflexivity].
    + right. eexists. split; [exact ex_parse3 | vm_compute; reflexivity].
Qed.

Example ex_flat : flat ex_st = [(ex_k1, ex_v1); (ex_k2, ex_v2); (ex_k3, ex_v3)].
Proof. vm_compute. reflexivity. Qed.

Definition ex_sizes : list Z := [20; 9; 64; 64; 64; 64].

(* 20 -> whole first message; 9 -> too small for the second key; 64 -> second message; 64, 64 -> third message in two
   chunks (46 + 14 bytes); 64 -> EOF *)
Example ex_drain :
  drain ex_st ex_sizes =
    ([(ex_k1, ex_v1); (ex_k2, ex_v2); (ex_k3, firstn 46 ex_v3); (ex_k3, skipn 46 ex_v3)], CEOF, mkcs None []).
Proof. vm_compute. reflexivity. Qed.

Example ex_drain_norm :
  norm (fst (fst (drain ex_st ex_sizes))) = [(ex_k1, ex_v1); (ex_k2, ex_v2); (ex_k3, ex_v3)].
Proof. vm_compute. reflexivity. Qed.

(* the general theorem instantiated: what the example computes is what drain_complete predicts *)
Example ex_drain_complete :
  norm (fst (fst (drain ex_st ex_sizes))) = norm (flat ex_st).
Proof.
  destruct (drain ex_st ex_sizes) as [[e l] s] eqn:E. cbn [fst].
  apply (drain_complete _ _ _ _ _ ex_wf E).
  rewrite ex_drain in E. congruence.
Qed.

(* a queue with a yield marker and two consecutive messages of the same key: the yield ends the batch, the equal keys
   are merged by the receiver *)
Definition ex_st2 : cstate := mkcs None [ex_m1; []; x6d :: ex_k1 ++ [xf4]; ex_m2].

Example ex_wf2 : wf_state ex_st2.
Proof.
  split.
  - intros c; discriminate.
  - cbn [ex_st2 cs_queue]. repeat apply Forall_cons; [ | | | | apply Forall_nil].
    + right. eexists. split; [exact ex_parse1 | vm_compute; reflexivity].
    + left. reflexivity.
    + right. eexists. split; [vm_compute; reflexivity | vm_compute; reflexivity].
    + right. eexists. split; [exact ex_parse2 | vm_compute; reflexivity].
Qed.

Example ex_round2 :
  round ex_st2 1300 = RRound [(ex_k1, ex_v1)] true (mkcs None [x6d :: ex_k1 ++ [xf4]; ex_m2]).
Proof. vm_compute. reflexivity. Qed.

Example ex_drain2 :
  drain ex_st2 [1300; 1283; 1300; 1283; 1271] =
    ([(ex_k1, ex_v1); (ex_k1, [xf4]); (ex_k2, ex_v2)], CEOF, mkcs None []) /\
  norm [(ex_k1, ex_v1); (ex_k1, [xf4]); (ex_k2, ex_v2)] = [(ex_k1, [xf5; xf4]); (ex_k2, ex_v2)].
Proof. split; vm_compute; reflexivity. Qed.

(* A key whose overhead does not fit a whole message of the given size can never be sent: the round fails (the device's
   sending loop returns an error since the repair of the silent drop, see DESIGN 9.4 D55). *)
Example ex_round_unsendable : round ex_st 10 = RFail.
Proof. vm_compute. reflexivity. Qed.

Print Assumptions read_chunk_fits.
Print Assumptions read_chunk_wf.
Print Assumptions read_chunk_lossless.
Print Assumptions drain_lossless.
Print Assumptions drain_complete.
Print Assumptions round_fits.
Print Assumptions round_total.
Print Assumptions round_fails_only_on_unsendable_key.
Print Assumptions yield_round.

(* ---- the message as a whole: with the 5 bytes exchangeServiceInfo reserves, every TO2.DeviceServiceInfo fits the
   negotiated size, whatever the number of KVs in it (each KV takes at least 3 bytes, so a 16-bit size bounds the count
   below 65536 and the array head at 3 bytes) ---- *)
Lemma batch_size_count kvs : 3 * Z.of_nat (length kvs) <= batch_size kvs.
Proof.
  induction kvs as [|[k v] r IH]; cbn [batch_size fold_right length fst snd]; [lia|].
  fold (batch_size r). pose proof (kv_size_ge3 k v). lia.
Qed.

Theorem message_fits st mtu kvs more st' :
  wf_state st -> 5 <= mtu < 65536 -> round st (exchange_budget mtu) = RRound kvs more st' ->
  message_size kvs <= mtu.
Proof.
  intros Hw Hm E. unfold exchange_budget in E.
  destruct (round_fits st (mtu - 5) kvs more st' Hw ltac:(lia) E) as [S _].
  fold (batch_size kvs) in S. pose proof (batch_size_count kvs) as C.
  unfold message_size, arr_head.
  destruct (Z.ltb_spec (Z.of_nat (length kvs)) 24); [lia|].
  destruct (Z.ltb_spec (Z.of_nat (length kvs)) 256); [lia|].
  destruct (Z.ltb_spec (Z.of_nat (length kvs)) 65536); lia.
Qed.
Print Assumptions message_fits.

(* the reserve is tight: with only 3 bytes reserved a message of 24 KVs filled to the brim would not fit *)
Example reserve_of_3_is_too_small :
  exists kvs : list (bytes * bytes), batch_size kvs = 147 - 3 /\ 147 < message_size kvs.
Proof.
  exists (repeat ([x00], [x00]) 23 ++ [([x00], repeat x00 24)]). vm_compute. split; [reflexivity|reflexivity].
Qed.
