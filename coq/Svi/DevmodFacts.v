(* Svi/DevmodFacts.v — the owner obtains exactly the device's module list, whatever the MTU cuts it into. *)
From FDO Require Import Svi.Devmod.
From Coq Require Import Lia.
Local Open Scope nat_scope.

Section Facts.
  Variable fits : nat -> list bytes -> bool.
  Notation split_go := (split_go fits).

  (* chunks in order hold exactly the names, nothing lost, duplicated or reordered *)
  Lemma split_concat fuel : forall start cur rest cs,
    split_go fuel start cur rest = Some cs -> concat (map snd cs) = cur ++ rest.
  Proof.
    induction fuel as [|f IH]; intros start cur rest cs; cbn [Devmod.split_go]; [discriminate|].
    destruct rest as [|m rest'].
    - intros H; inversion H; subst. cbn. now rewrite !app_nil_r.
    - destruct (fits start (cur ++ [m])).
      + intros H. apply IH in H. rewrite H, <- app_assoc. reflexivity.
      + destruct cur as [|c0 cur']; [discriminate|].
        destruct (split_go f (start + length (c0 :: cur')) [] (m :: rest')) as [cs'|] eqn:E; [|discriminate].
        intros H; inversion H; subst. cbn [map snd concat]. apply IH in E. rewrite E. reflexivity.
  Qed.

  (* start indices are the running count of names already sent *)
  Fixpoint consecutive (st : nat) (cs : list chunk) : Prop :=
    match cs with [] => True | (s, l) :: r => s = st /\ consecutive (st + length l) r end.

  Lemma split_consecutive fuel : forall start cur rest cs,
    split_go fuel start cur rest = Some cs -> consecutive start cs.
  Proof.
    induction fuel as [|f IH]; intros start cur rest cs; cbn [Devmod.split_go]; [discriminate|].
    destruct rest as [|m rest'].
    - intros H; inversion H; subst. cbn. auto.
    - destruct (fits start (cur ++ [m])).
      + apply IH.
      + destruct cur as [|c0 cur']; [discriminate|].
        destruct (split_go f (start + length (c0 :: cur')) [] (m :: rest')) as [cs'|] eqn:E; [|discriminate].
        intros H; inversion H; subst. cbn [consecutive]. split; [reflexivity|]. now apply IH in E.
  Qed.

  (* every chunk sent fits the MTU, and only the very last may be empty *)
  Lemma split_fits fuel : forall start cur rest cs,
    (cur = [] \/ fits start cur = true) ->
    split_go fuel start cur rest = Some cs -> Forall (fun c => snd c = [] \/ fits (fst c) (snd c) = true) cs.
  Proof.
    induction fuel as [|f IH]; intros start cur rest cs INV; cbn [Devmod.split_go]; [discriminate|].
    destruct rest as [|m rest'].
    - intros H; inversion H; subst. constructor; [exact INV|constructor].
    - destruct (fits start (cur ++ [m])) eqn:F.
      + apply IH. now right.
      + destruct cur as [|c0 cur']; [discriminate|].
        destruct (split_go f (start + length (c0 :: cur')) [] (m :: rest')) as [cs'|] eqn:E; [|discriminate].
        intros H; inversion H; subst. constructor; [exact INV|]. eapply IH; [|exact E]. now left.
  Qed.

  (* the packing always succeeds when every single name fits on its own *)
  Lemma split_total fuel : forall start cur rest,
    (forall st m, In m rest -> fits st [m] = true) ->
    2 * length rest + (match cur with [] => 0 | _ => 1 end) < fuel ->
    split_go fuel start cur rest <> None.
  Proof.
    induction fuel as [|f IH]; intros start cur rest SINGLE LT; [lia|]. cbn [Devmod.split_go].
    destruct rest as [|m rest']; [discriminate|].
    destruct (fits start (cur ++ [m])) eqn:F.
    - apply IH; [intros; apply SINGLE; now right|]. cbn [length] in *. destruct cur; cbn; lia.
    - destruct cur as [|c0 cur']; [cbn in F; rewrite (SINGLE start m) in F by (now left); discriminate F|].
      destruct (split_go f (start + length (c0 :: cur')) [] (m :: rest')) eqn:E; [discriminate|].
      exfalso. revert E. apply IH; [exact SINGLE|]. cbn [length] in *. lia.
  Qed.
End Facts.

(* ---- owner side ---- *)
Lemma skipn_repeat_eq {A} (x : A) : forall n k, skipn k (repeat x n) = repeat x (n - k).
Proof. induction n as [|n IH]; intros [|k]; cbn; auto. Qed.

Lemma first_empty_none l : forall i, (forall x, In x l -> x <> []) -> first_empty l i = None.
Proof. induction l as [|x r IH]; intros i H; cbn; [reflexivity|]. destruct x; [exfalso; apply (H []); [now left|reflexivity]|]. apply IH. intros; apply H; now right. Qed.

Lemma first_empty_app done n : forall i, (forall x, In x done -> x <> []) -> 0 < n ->
  first_empty (done ++ repeat [] n) i = Some (i + length done).
Proof.
  induction done as [|x r IH]; intros i H N; cbn.
  - destruct n; [lia|]. cbn. f_equal. lia.
  - destruct x; [exfalso; apply (H []); [now left|reflexivity]|]. cbn [is_empty].
    rewrite IH; [f_equal; lia| |exact N]. intros; apply H; now right.
Qed.

Lemma existsb_empty_false l : (forall x, In x l -> x <> []) -> existsb is_empty l = false.
Proof. induction l as [|x r IH]; intros H; cbn; [reflexivity|]. destruct x; [exfalso; apply (H []); [now left|reflexivity]|]. apply IH. intros; apply H; now right. Qed.

(* collecting consecutive chunks of non-empty names into a list announced with the right length rebuilds the list *)
Theorem collect_consecutive cs : forall done n,
  (forall x, In x done -> x <> []) -> (forall c x, In c cs -> In x (snd c) -> x <> []) ->
  consecutive (length done) cs -> length (concat (map snd cs)) = n ->
  collect (done ++ repeat [] n) cs = Some (done ++ concat (map snd cs)).
Proof.
  induction cs as [|[st names] r IH]; intros done n DN CN CONS LEN; cbn [collect map snd concat].
  - cbn in LEN. subst n. reflexivity.
  - cbn [consecutive] in CONS. destruct CONS as [-> CONS]. cbn [map snd concat] in LEN. rewrite app_length in LEN.
    assert (NN : forall x, In x names -> x <> []) by (intros x IN; apply (CN (length done, names) x); [now left|exact IN]).
    destruct names as [|nm nr].
    + (* an empty chunk changes nothing *)
      unfold collect_chunk. rewrite app_length, repeat_length. cbn [length existsb negb orb Nat.eqb].
      replace (length done + n <? length done) with false by (symmetry; apply Nat.ltb_ge; lia). cbn [orb].
      assert (S' : match first_empty (done ++ repeat [] n) 0 with Some idx => idx | None => length done end = length done).
      { destruct n; [rewrite app_nil_r, first_empty_none by exact DN; reflexivity|].
        rewrite first_empty_app by (auto; lia). reflexivity. }
      rewrite S'. rewrite Nat.add_0_r.
      replace (length done + n <? length done) with false by (symmetry; apply Nat.ltb_ge; lia).
      cbn [app]. rewrite firstn_skipn. cbn [length] in *. rewrite Nat.add_0_r in CONS. apply IH; auto.
      intros c x IC IX. apply (CN c x); [now right|exact IX].
    + set (names := nm :: nr) in *. unfold bytes in *.
      assert (LN : length names = S (length nr)) by reflexivity.
      unfold collect_chunk. rewrite app_length, repeat_length.
      replace (length done + n <? length done) with false by (symmetry; apply Nat.ltb_ge; lia).
      rewrite Nat.eqb_refl, (existsb_empty_false names NN). cbn [negb orb].
      rewrite first_empty_app by (auto; lia). cbn [Nat.add].
      match goal with |- context [if ?c then None else _] =>
        let E := fresh "E" in assert (E : c = false) by (apply Nat.ltb_ge; lia); rewrite E; clear E end.
      rewrite firstn_app, firstn_all, Nat.sub_diag. cbn [firstn]. rewrite app_nil_r.
      rewrite skipn_app, skipn_all2 by lia. cbn [app].
      match goal with |- context [skipn ?k (repeat [] n)] =>
        let E := fresh "E" in assert (E : k = length names) by lia; rewrite E; clear E end.
      rewrite skipn_repeat_eq.
      rewrite !(app_assoc done names).
      apply IH.
      * intros x IN. apply in_app_or in IN as [IN|IN]; auto.
      * intros c x IC IX. apply (CN c x); [now right|exact IX].
      * rewrite app_length. exact CONS.
      * lia.
Qed.

(* device and owner together: whatever the MTU cuts the list into, the owner ends up with exactly the device's list *)
Theorem devmod_roundtrip fits names cs :
  (forall x, In x names -> x <> []) -> split fits names = Some cs ->
  collect (repeat [] (length names)) cs = Some names /\ concat (map snd cs) = names.
Proof.
  intros NN S. unfold split in S.
  pose proof (split_concat fits _ _ _ _ _ S) as CC. cbn [app] in CC.
  pose proof (split_consecutive fits _ _ _ _ _ S) as CO.
  split; [|exact CC].
  pose proof (collect_consecutive cs [] (length names)) as H. cbn [app length] in H.
  assert (G : collect (repeat [] (length names)) cs = Some (concat (map snd cs))).
  { apply H;
      [ intros x []
      | intros c x IC IX; apply NN; rewrite <- CC; apply in_concat; exists (snd c); split; [now apply in_map|exact IX]
      | exact CO
      | exact (f_equal (@length _) CC) ]. }
  rewrite G. f_equal. exact CC.
Qed.

Theorem devmod_split_total fits names :
  (forall st m, In m names -> fits st [m] = true) -> split fits names <> None.
Proof. intros H. unfold split. apply split_total; [exact H|]. cbn. lia. Qed.
