(* Svi/Modules.v — how the owner side of TO2 walks through its service-info modules (to2.go ownerServiceInfo /
   produceOwnerServiceInfo): the devmod collector first, then the configured modules one after another; a module is
   asked to produce once per DeviceServiceInfo that does not carry IsMoreServiceInfo, until it reports completion;
   IsDone goes out with the reply in which the last module completes.
   A module is abstracted to the number of ProduceInfo calls it needs (>= 1); position 0 is the devmod collector. *)
From Coq Require Export List Arith Lia Bool.
Export ListNotations.

Record ost := mko { o_done : nat; o_rest : list nat }.     (* modules completed so far; remaining call counts, head = current *)

Inductive oreply :=
| ONothing                    (* device said IsMoreServiceInfo: messages handled, nothing produced *)
| OProduced (m : nat) (is_done : bool)     (* module number m produced; IsDone flag of the reply *)
| OError.                     (* no module left: the request is refused *)

Definition produce (s : ost) : ost * oreply :=
  match o_rest s with
  | [] => (s, OError)
  | k :: rest =>
    if k <=? 1 then (mko (S (o_done s)) rest, OProduced (o_done s) (match rest with [] => true | _ => false end))
    else (mko (o_done s) ((k - 1) :: rest), OProduced (o_done s) false)
  end.

(* one TO2.DeviceServiceInfo; [more] = its IsMoreServiceInfo flag *)
Definition oround (s : ost) (more : bool) : ost * oreply :=
  match o_rest s with
  | [] => (s, OError)
  | _ => if more then (s, ONothing) else produce s
  end.

Fixpoint orun (s : ost) (flags : list bool) : ost * list oreply :=
  match flags with
  | [] => (s, [])
  | f :: r => let '(s1, x) := oround s f in let '(s2, xs) := orun s1 r in (s2, x :: xs)
  end.

Definition start (plan : list nat) : ost := mko 0 plan.

(* the ideal order: module 0 k0 times, then module 1 k1 times, ... *)
Fixpoint ideal (from : nat) (plan : list nat) : list nat :=
  match plan with [] => [] | k :: r => repeat from (Nat.max k 1) ++ ideal (S from) r end.

Definition produced (l : list oreply) : list nat :=
  flat_map (fun x => match x with OProduced m _ => [m] | _ => [] end) l.
Definition dones (l : list oreply) : nat :=
  length (filter (fun x => match x with OProduced _ true => true | _ => false end) l).
