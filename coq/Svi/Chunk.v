(* Svi/Chunk.v — executable mirror of serviceinfo.ChunkReader.ReadChunk, KV.Size / ArraySizeCBOR, the batching
   loop of exchangeServiceInfoRound (to2.go) and the reassembly done by ChunkWriter / UnchunkReader.
   A logical message written by a module is a byte string: the CBOR text key followed by the value bytes; a
   yield (ForceNewMessage) is a reader closed without data, i.e. the empty byte string.  The model is sequential:
   the producer has finished the message being read (schedule independence is argued separately). *)
From FDO Require Export Cbor.Typed.
Local Open Scope Z_scope.

Definition unm_text (b : bytes) : outcome val := unmarshal (fun _ _ => true) (fun _ => None) TText b.

Record cur := mkcur { c_rkey : bytes; c_key : bytes; c_rest : bytes }.
Record cstate := mkcs { cs_cur : option cur; cs_queue : list bytes }.

Inductive cres := CKV (key val : bytes) | CTooSmall | CEOF | CErr.

(* maxOverhead in ReadChunk *)
Definition max_overhead (rkeylen : nat) (size : Z) : Z :=
  let mo := 1 + Z.of_nat rkeylen + 1 in
  let mo := if 24 <=? size - mo then mo + 1 else mo in
  let mo := if 256 <=? size - mo then mo + 1 else mo in
  mo.

Inductive tried := TRes (r : cres) (c : option cur) | TExhausted.

(* the part of ReadChunk after a reader and its key are known *)
Definition try_cur (c : cur) (size : Z) : tried :=
  let mo := max_overhead (length (c_rkey c)) size in
  if size - mo <=? 0 then TRes CTooSmall (Some c)
  else
    let want := Z.to_nat (size - mo) in
    if Nat.leb want (length (c_rest c)) then
      TRes (CKV (c_key c) (firstn want (c_rest c))) (Some (mkcur (c_rkey c) (c_key c) (skipn want (c_rest c))))
    else match c_rest c with
         | [] => TExhausted                                   (* n == 0: move on to the next reader *)
         | rest => TRes (CKV (c_key c) rest) None
         end.

(* taking the next reader off the channel and decoding its key *)
Definition parse_item (content : bytes) : option (option cur) :=   (* None = error, Some None = yield marker *)
  match content with
  | [] => Some None
  | _ =>
    match dec_raw (fuel_for content) 0 content with
    | Ok (rkey, rest) =>
      match unm_text rkey with
      | Ok (VText k) => Some (Some (mkcur rkey k rest))
      | _ => None
      end
    | _ => None
    end
  end.

Fixpoint next_reader (q : list bytes) (size : Z) : cres * cstate :=
  match q with
  | [] => (CEOF, mkcs None [])
  | content :: q' =>
    match parse_item content with
    | None => (CErr, mkcs None q')
    | Some None => (CTooSmall, mkcs None q')
    | Some (Some c) =>
      match try_cur c size with
      | TRes r c' => (r, mkcs c' q')
      | TExhausted => next_reader q' size
      end
    end
  end.

Definition read_chunk (st : cstate) (size : Z) : cres * cstate :=
  match cs_cur st with
  | Some c =>
    match try_cur c size with
    | TRes r c' => (r, mkcs c' (cs_queue st))
    | TExhausted => next_reader (cs_queue st) size
    end
  | None => next_reader (cs_queue st) size
  end.

(* KV.Size *)
Definition cbor_len (n : nat) : Z :=
  if Nat.ltb n 24 then 1 + Z.of_nat n else if Nat.ltb n 256 then 2 + Z.of_nat n else 3 + Z.of_nat n.
Definition kv_size (k v : bytes) : Z := 1 + cbor_len (length k) + cbor_len (length v).

(* the whole TO2.DeviceServiceInfo message [IsMoreServiceInfo, [KV...]]: array(2) head, the boolean, the head of the KV
   array, the KVs.  exchangeServiceInfo reserves 5 bytes of the negotiated size for it (to2.go: mtu -= 5). *)
Definition arr_head (n : Z) : Z :=
  if n <? 24 then 1 else if n <? 256 then 2 else if n <? 65536 then 3 else if n <? 4294967296 then 5 else 9.
Definition batch_size (kvs : list (bytes * bytes)) : Z := fold_right (fun kv a => kv_size (fst kv) (snd kv) + a) 0 kvs.
Definition message_size (kvs : list (bytes * bytes)) : Z := 1 + 1 + arr_head (Z.of_nat (length kvs)) + batch_size kvs.
Definition exchange_budget (mtu : Z) : Z := mtu - 5.

(* exchangeServiceInfoRound's read loop: (KVs of this DeviceServiceInfo, IsMoreServiceInfo, state) *)
Inductive round_res := RRound (kvs : list (bytes * bytes)) (more : bool) (st : cstate) | RFail | ROutOfFuel.

Fixpoint round_loop (fuel : nat) (st : cstate) (max_read mtu : Z) (acc : list (bytes * bytes)) : round_res :=
  match fuel with
  | O => ROutOfFuel
  | S f =>
    match read_chunk st max_read with
    | (CEOF, st') => RRound (rev acc) false st'
    | (CTooSmall, st') =>
      match cs_cur st' with
      | None =>
        (* a forced message break (the reader was dropped): it ends the message, unless nothing has been put into the
           message yet: then there is nothing to separate and reading goes on *)
        if max_read =? mtu then round_loop f st' max_read mtu acc else RRound (rev acc) true st'
      | Some _ =>        (* no room for the pending key: the message ends here; if the message is still empty the key fits no message at all *)
        if max_read =? mtu then RFail else RRound (rev acc) true st'
      end
    | (CErr, _) => RFail
    | (CKV k v, st') => round_loop f st' (max_read - kv_size k v) mtu ((k, v) :: acc)
    end
  end.

Definition round (st : cstate) (mtu : Z) : round_res := round_loop (S (Z.to_nat mtu) + length (cs_queue st)) st mtu mtu [].

(* reassembly on the receiving side: consecutive chunks with the same key are one stream; chunks that carry no
   bytes leave no trace *)
Fixpoint unchunk (kvs : list (bytes * bytes)) : list (bytes * bytes) :=
  match kvs with
  | [] => []
  | (k, v) :: r =>
    match unchunk r with
    | (k', v') :: r' => if bytes_eqb k k' then (k, v ++ v') :: r' else (k, v) :: (k', v') :: r'
    | [] => [(k, v)]
    end
  end.
