(* Svi/ModulesFacts.v — owner modules run one after another to completion; IsDone exactly at the last completion. *)
From FDO Require Import Svi.Modules.

Lemma firstn_app_exact {A} (l1 l2 : list A) : firstn (length l1) (l1 ++ l2) = l1.
Proof. induction l1; cbn; [destruct l2; reflexivity|now f_equal]. Qed.

(* whatever the device's IsMore flags: the modules that produce, in order, form a prefix of the ideal order *)
Theorem produced_is_prefix flags : forall s,
  exists n, produced (snd (orun s flags)) = firstn n (ideal (o_done s) (o_rest s)).
Proof.
  induction flags as [|f r IH]; intros s; cbn [orun]; [exists 0; reflexivity|].
  unfold oround. destruct (o_rest s) as [|k rest] eqn:R.
  - (* no module left: errors only *)
    destruct (orun s r) as [s2 xs] eqn:RR. cbn [snd]. change (produced (OError :: xs)) with (produced xs).
    destruct (IH s) as [n E]. rewrite RR, R in E. cbn [snd] in E. cbn [ideal firstn] in *.
    exists 0. rewrite E. destruct n; reflexivity.
  - destruct f.
    + (* IsMore: nothing produced, state unchanged *)
      destruct (orun s r) as [s2 xs] eqn:RR. cbn [snd]. change (produced (ONothing :: xs)) with (produced xs).
      destruct (IH s) as [n E]. rewrite RR, R in E. exists n. exact E.
    + unfold produce. rewrite R. destruct (k <=? 1) eqn:K.
      * destruct (orun (mko (S (o_done s)) rest) r) as [s2 xs] eqn:RR. cbn [snd].
        match goal with |- context [produced (OProduced ?m ?d :: xs)] => change (produced (OProduced m d :: xs)) with (m :: produced xs) end.
        destruct (IH (mko (S (o_done s)) rest)) as [n E]. rewrite RR in E. cbn [snd o_done o_rest] in E.
        apply Nat.leb_le in K. exists (S n). cbn [ideal].
        replace (Nat.max k 1) with 1 by lia. cbn [repeat app firstn]. f_equal. exact E.
      * destruct (orun (mko (o_done s) ((k - 1) :: rest)) r) as [s2 xs] eqn:RR. cbn [snd].
        match goal with |- context [produced (OProduced ?m ?d :: xs)] => change (produced (OProduced m d :: xs)) with (m :: produced xs) end.
        destruct (IH (mko (o_done s) ((k - 1) :: rest))) as [n E]. rewrite RR in E. cbn [snd o_done o_rest] in E.
        apply Nat.leb_gt in K. exists (S n). cbn [ideal] in *.
        replace (Nat.max k 1) with (S (Nat.max (k - 1) 1)) by lia. cbn [repeat app firstn]. f_equal. exact E.
Qed.

(* IsDone is reported at most once, and only in the reply that empties the module list *)
Lemma oround_done s f s' m : oround s f = (s', OProduced m true) -> o_rest s' = [] /\ o_rest s <> [].
Proof.
  unfold oround, produce. destruct (o_rest s) as [|k rest] eqn:R; [discriminate|]. destruct f; [discriminate|].
  destruct (k <=? 1).
  - destruct rest; intros H; inversion H; subst; cbn; split; congruence.
  - intros H; inversion H.
Qed.

Lemma orun_empty flags : forall s, o_rest s = [] -> dones (snd (orun s flags)) = 0.
Proof.
  induction flags as [|f r IH]; intros s E; cbn [orun]; [reflexivity|].
  unfold oround. rewrite E. destruct (orun s r) as [s2 xs] eqn:RR. cbn [snd].
  specialize (IH s E). rewrite RR in IH. exact IH.
Qed.

Theorem done_at_most_once flags : forall s, dones (snd (orun s flags)) <= 1.
Proof.
  induction flags as [|f r IH]; intros s; cbn [orun]; [cbn; lia|].
  destruct (oround s f) as [s1 x] eqn:O. destruct (orun s1 r) as [s2 xs] eqn:RR. cbn [snd].
  destruct x as [|m [|]|]; unfold dones; cbn [filter length]; fold (dones xs);
    try (specialize (IH s1); rewrite RR in IH; exact IH).
  apply oround_done in O as [E _]. pose proof (orun_empty r s1 E) as Z. rewrite RR in Z. cbn [snd] in Z. rewrite Z. lia.
Qed.

(* ... and it is reported exactly when the number of produce rounds reaches the total the modules need *)
Definition total (plan : list nat) : nat := fold_right (fun k acc => Nat.max k 1 + acc) 0 plan.
Definition produce_rounds (flags : list bool) : nat := length (filter negb flags).

Theorem done_iff_all_completed flags : forall s, o_rest s <> [] ->
  dones (snd (orun s flags)) = (if total (o_rest s) <=? produce_rounds flags then 1 else 0).
Proof.
  induction flags as [|f r IH]; intros s NE; cbn [orun].
  - cbn. destruct (o_rest s) as [|k rest]; [contradiction|]. cbn [total fold_right].
    destruct (Nat.max k 1 + _ <=? 0) eqn:E; [apply Nat.leb_le in E; lia|reflexivity].
  - unfold oround. destruct (o_rest s) as [|k rest] eqn:R; [contradiction|].
    destruct f.
    + destruct (orun s r) as [s2 xs] eqn:RR. cbn [snd]. unfold dones; cbn [filter length]. fold (dones xs).
      specialize (IH s). rewrite RR, R in IH. cbn [snd] in IH. unfold produce_rounds; cbn [filter negb]. apply IH. discriminate.
    + unfold produce. rewrite R. unfold produce_rounds; cbn [filter negb length]. fold (produce_rounds r).
      destruct (k <=? 1) eqn:K.
      * apply Nat.leb_le in K. destruct rest as [|k2 rest].
        -- destruct (orun (mko (S (o_done s)) []) r) as [s2 xs] eqn:RR. cbn [snd]. unfold dones; cbn [filter length]. fold (dones xs).
           pose proof (orun_empty r (mko (S (o_done s)) []) eq_refl) as Z. rewrite RR in Z. cbn [snd] in Z. rewrite Z.
           cbn [total fold_right]. replace (Nat.max k 1 + 0) with 1 by lia. reflexivity.
        -- destruct (orun (mko (S (o_done s)) (k2 :: rest)) r) as [s2 xs] eqn:RR. cbn [snd]. unfold dones; cbn [filter length]. fold (dones xs).
           specialize (IH (mko (S (o_done s)) (k2 :: rest))). rewrite RR in IH. cbn [snd o_rest] in IH. rewrite IH by discriminate.
           cbn [total fold_right]. replace (Nat.max k 1) with 1 by lia.
           reflexivity.
      * apply Nat.leb_gt in K.
        destruct (orun (mko (o_done s) ((k - 1) :: rest)) r) as [s2 xs] eqn:RR. cbn [snd]. unfold dones; cbn [filter length]. fold (dones xs).
        specialize (IH (mko (o_done s) ((k - 1) :: rest))). rewrite RR in IH. cbn [snd o_rest] in IH. rewrite IH by discriminate.
        cbn [total fold_right]. replace (Nat.max k 1) with (S (Nat.max (k - 1) 1)) by lia.
        reflexivity.
Qed.

(* after the last module a further DeviceServiceInfo is refused *)
Theorem after_done_error s f : o_rest s = [] -> oround s f = (s, OError).
Proof. intros E. unfold oround. now rewrite E. Qed.
