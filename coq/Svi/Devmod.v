(* Svi/Devmod.v — the module list of devmod: how the device cuts it into devmod:modules chunks that fit the MTU
   (serviceinfo/devmod.go writeModuleMessages) and how the owner puts it together again (devmod.go parseModules). *)
From FDO Require Export Cbor.Typed Cose.Sign1.
Local Open Scope nat_scope.

Definition chunk := (nat * list bytes)%type.      (* start index, names (Len = number of names) *)

(* the size the device computes: the encoding of [[ "devmod:modules", [start, len, name...] ]] *)
Definition devmod_key : bytes := map (fun n => byte_of_N n) [100;101;118;109;111;100;58;109;111;100;117;108;101;115]%N.   (* "devmod:modules" *)
Definition chunk_val (start : nat) (names : list bytes) : val :=
  VList (VInt (Z.of_nat start) :: VInt (Z.of_nat (length names)) :: map VText names).
Definition chunk_size (start : nat) (names : list bytes) : option nat :=
  match enc enc_fuel TAny (VList [VList [VText devmod_key; chunk_val start names]]) with Ok b => Some (length b) | _ => None end.
Definition fits_mtu (mtu : nat) (start : nat) (names : list bytes) : bool :=
  match chunk_size start names with Some n => n <=? mtu | None => false end.

Section Split.
  Variable fits : nat -> list bytes -> bool.

  (* greedy packing; None: a single name does not fit (or out of fuel) *)
  Fixpoint split_go (fuel : nat) (start : nat) (cur rest : list bytes) : option (list chunk) :=
    match fuel with
    | O => None
    | S f =>
      match rest with
      | [] => Some [(start, cur)]
      | m :: rest' =>
        if fits start (cur ++ [m]) then split_go f start (cur ++ [m]) rest'
        else match cur with
             | [] => None
             | _ => option_map (cons (start, cur)) (split_go f (start + length cur) [] rest)
             end
      end
    end.
  Definition split (names : list bytes) : option (list chunk) := split_go (2 * length names + 2) 0 [] names.
End Split.

(* owner: Modules = make([]string, nummodules), then each chunk in order of arrival *)
Definition is_empty (b : bytes) : bool := match b with [] => true | _ => false end.
Fixpoint first_empty (l : list bytes) (i : nat) : option nat :=
  match l with [] => None | x :: r => if is_empty x then Some i else first_empty r (S i) end.

Definition collect_chunk (mods : list bytes) (start len : nat) (names : list bytes) : option (list bytes) :=
  if (length mods <? start) || negb (length names =? len) || existsb is_empty names then None else
  let start' := match first_empty mods 0 with Some idx => idx | None => start end in
  if length mods <? start' + len then None
  else Some (firstn start' mods ++ names ++ skipn (start' + len) mods).

Fixpoint collect (mods : list bytes) (cs : list chunk) : option (list bytes) :=
  match cs with
  | [] => Some mods
  | (st, names) :: r => match collect_chunk mods st (length names) names with Some m => collect m r | None => None end
  end.

Definition complete (mods : list bytes) : bool := negb (existsb is_empty mods).
