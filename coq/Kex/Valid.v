(* Kex/Valid.v — which key-exchange suite may be used with which attestation keys: mirror of kex.Suite.Valid and
   kex.Available, and the table of FDO 1.1 section 3.6.5 written down independently. *)
From FDO Require Export Base.Bytes.
From FDO Require Gen.Tables.
Local Open Scope Z_scope.

Inductive devkey := DevP256 | DevP384 | DevRSA | DevOther.
Inductive ownkey := OwnP256 | OwnP384 | OwnRSA2048 | OwnRSA3072 | OwnOther.
Inductive suite := DHKEXid14 | DHKEXid15 | ASYMKEX2048 | ASYMKEX3072 | ECDH256 | ECDH384 | SuiteOther.

Definition suite_eqb (a b : suite) : bool :=
  match a, b with
  | DHKEXid14, DHKEXid14 | DHKEXid15, DHKEXid15 | ASYMKEX2048, ASYMKEX2048 | ASYMKEX3072, ASYMKEX3072
  | ECDH256, ECDH256 | ECDH384, ECDH384 | SuiteOther, SuiteOther => true
  | _, _ => false
  end.

(* kex.Suite.Valid, branch by branch *)
Definition suite_valid (d : devkey) (o : ownkey) (s : suite) : bool :=
  match d with
  | DevRSA => true        (* "FDO version 1.1 says nothing about key exchanges allowed for devices using RSA keys" *)
  | DevOther => false
  | _ =>
    let p256 := match d with DevP256 => true | _ => false end in
    let p384 := match d with DevP384 => true | _ => false end in
    let is x := suite_eqb s x in
    match o with
    | OwnRSA2048 => (p256 || p384) && (is DHKEXid14 || is ASYMKEX2048)
    | OwnRSA3072 => (p256 || p384) && (is DHKEXid15 || is ASYMKEX3072)
    | OwnP256 => (p256 || p384) && is ECDH256
    | OwnP384 => (p256 || p384) && is ECDH384
    | OwnOther => false
    end
  end.

(* the specification's table (3.6.5), one row per line: device attestation, owner attestation, allowed suites *)
Definition spec_table : list (devkey * ownkey * list suite) :=
  [ (DevP256, OwnRSA2048, [DHKEXid14; ASYMKEX2048]);
    (DevP384, OwnRSA2048, [DHKEXid14; ASYMKEX2048]);
    (DevP256, OwnRSA3072, [DHKEXid15; ASYMKEX3072]);
    (DevP384, OwnRSA3072, [DHKEXid15; ASYMKEX3072]);
    (DevP256, OwnP256, [ECDH256]);
    (DevP384, OwnP256, [ECDH256]);
    (DevP256, OwnP384, [ECDH384]);
    (DevP384, OwnP384, [ECDH384]) ].

Definition devkey_eqb (a b : devkey) : bool :=
  match a, b with DevP256, DevP256 | DevP384, DevP384 | DevRSA, DevRSA | DevOther, DevOther => true | _, _ => false end.
Definition ownkey_eqb (a b : ownkey) : bool :=
  match a, b with OwnP256, OwnP256 | OwnP384, OwnP384 | OwnRSA2048, OwnRSA2048 | OwnRSA3072, OwnRSA3072 | OwnOther, OwnOther => true | _, _ => false end.

Definition spec_allows (d : devkey) (o : ownkey) (s : suite) : bool :=
  existsb (fun row => match row with (d', o', l) => devkey_eqb d d' && ownkey_eqb o o' && existsb (suite_eqb s) l end) spec_table.

Definition all_dev := [DevP256; DevP384; DevRSA; DevOther].
Definition all_own := [OwnP256; OwnP384; OwnRSA2048; OwnRSA3072; OwnOther].
Definition all_suites := [DHKEXid14; DHKEXid15; ASYMKEX2048; ASYMKEX3072; ECDH256; ECDH384; SuiteOther].

(* kex.Available: the suite has a registered constructor and the cipher is registered (table regenerated from the code) *)
Fixpoint zmem (k : Z) (l : list Z) : bool := match l with [] => false | x :: r => (k =? x) || zmem k r end.
Definition cipher_registered (c : Z) : bool := zmem c (map fst Gen.Tables.cipher_suite_table).
Definition available (s : suite) (c : Z) : bool :=
  match s with SuiteOther => false | _ => cipher_registered c end.

(* for EC device keys the library allows exactly what the table allows; RSA device keys are left open by the spec *)
Lemma valid_iff_spec_ec : forallb (fun d => forallb (fun o => forallb (fun s =>
    match d with DevRSA => true | _ => Bool.eqb (suite_valid d o s) (spec_allows d o s) end) all_suites) all_own) all_dev = true.
Proof. vm_compute. reflexivity. Qed.

Theorem valid_is_spec d o s : d <> DevRSA -> suite_valid d o s = spec_allows d o s.
Proof. intros H. destruct d, o, s; try reflexivity; contradiction. Qed.

Theorem rsa_device_any_suite o s : suite_valid DevRSA o s = true.
Proof. reflexivity. Qed.

(* an allowed suite determines the owner key family, and never mixes EC owners with finite-field / RSA exchanges *)
Theorem valid_suite_matches_owner d o s : d <> DevRSA -> suite_valid d o s = true ->
  match s with
  | DHKEXid14 | ASYMKEX2048 => o = OwnRSA2048
  | DHKEXid15 | ASYMKEX3072 => o = OwnRSA3072
  | ECDH256 => o = OwnP256
  | ECDH384 => o = OwnP384
  | SuiteOther => False
  end.
Proof. intros H. destruct d, o, s; cbn; try discriminate; try reflexivity; try contradiction. Qed.
