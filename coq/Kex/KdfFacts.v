(* Kex/KdfFacts.v — the KDF loop refines SP 800-108 counter mode; key lengths; DH agreement and rejection. *)
From FDO Require Import Cbor.Typed Kex.Kdf.
Local Open Scope N_scope.

Section KdfFacts.
  Variable prf : bytes -> bytes -> bytes.
  Variable hbytes : nat.
  Hypothesis prf_len : forall k m, length (prf k m) = hbytes.
  Hypothesis hpos : (0 < hbytes)%nat.

  Lemma blocks_length kin ctx L : forall n i, length (blocks prf kin ctx L i n) = (n * hbytes)%nat.
  Proof. induction n as [|n IH]; intros i; cbn [blocks]; [reflexivity|]. rewrite app_length, prf_len, IH. lia. Qed.

  Lemma blocks_app kin ctx L : forall n m i,
    blocks prf kin ctx L i (n + m) = blocks prf kin ctx L i n ++ blocks prf kin ctx L (i + N.of_nat n) m.
  Proof.
    induction n as [|n IH]; intros m i; cbn [blocks Nat.add].
    - now rewrite N.add_0_r.
    - rewrite IH, <- app_assoc. do 3 f_equal. lia.
  Qed.

  (* the code's over-long loop and the standard's ceil(L/h) iterations give the same leftmost L bits *)
  Theorem kdf_refines_spec kin ctx L :
    kdf_iterations hbytes L <= 255 -> kdf prf hbytes kin ctx L = Ok (kdf_spec prf hbytes kin ctx L).
  Proof.
    intros Hn. unfold kdf. destruct (N.ltb_spec 255 (kdf_iterations hbytes L)); [lia|]. f_equal.
    unfold kdf_spec, kdf_iterations in *.
    set (h := N.of_nat hbytes) in *. assert (Hh : 0 < h) by (unfold h; lia).
    set (nc := L / h + (if L mod h =? 0 then 0 else 1)).
    set (ns := L / (8 * h) + (if L mod (8 * h) =? 0 then 0 else 1)).
    assert (Hle : ns <= nc).
    { unfold ns, nc.
      pose proof (N.div_mod L (8 * h) ltac:(lia)) as D8. pose proof (N.mod_lt L (8 * h) ltac:(lia)) as M8.
      pose proof (N.div_mod L h ltac:(lia)) as D1. pose proof (N.mod_lt L h ltac:(lia)) as M1.
      set (q := L / (8 * h)) in *. set (r := L mod (8 * h)) in *. set (q1 := L / h) in *. set (r1 := L mod h) in *.
      assert (8 * q <= q1).
      { destruct (N.le_gt_cases (8 * q) q1); [assumption|]. exfalso.
        assert (h * (q1 + 1) <= h * (8 * q)) by (apply N.mul_le_mono_l; lia). nia. }
      destruct (N.eqb_spec r1 0); destruct (N.eqb_spec r 0); try lia.
      destruct (N.eq_dec q 0) as [->|]; [|lia].
      assert (q1 <> 0); [|lia]. intros ->. nia. }
    assert (Hcover : L / 8 <= ns * h).
    { unfold ns.
      pose proof (N.div_mod L (8 * h) ltac:(lia)) as D8. pose proof (N.mod_lt L (8 * h) ltac:(lia)) as M8.
      set (q := L / (8 * h)) in *. set (r := L mod (8 * h)) in *.
      apply N.div_le_upper_bound; [lia|].
      destruct (N.eqb_spec r 0); nia. }
    replace (N.to_nat nc) with (N.to_nat ns + (N.to_nat nc - N.to_nat ns))%nat by lia.
    rewrite blocks_app, firstn_app.
    replace (N.to_nat (L / 8) - length (blocks prf kin ctx L 1 (N.to_nat ns)))%nat with 0%nat
      by (rewrite blocks_length; unfold h in *; nia).
    cbn [firstn]. now rewrite app_nil_r.
  Qed.

  Theorem kdf_length kin ctx L k :
    kdf prf hbytes kin ctx L = Ok k -> length k = N.to_nat (L / 8).
  Proof.
    unfold kdf. destruct (_ <? _); [discriminate|]. intros H; inversion H; subst.
    rewrite firstn_length, blocks_length. unfold kdf_iterations.
    set (h := N.of_nat hbytes). assert (Hh : 0 < h) by (unfold h; lia).
    assert (L / 8 <= (L / h + (if L mod h =? 0 then 0 else 1)) * h).
    { pose proof (N.div_mod L h ltac:(lia)) as D1. pose proof (N.mod_lt L h ltac:(lia)) as M1.
      set (q1 := L / h) in *. set (r1 := L mod h) in *.
      apply N.div_le_upper_bound; [lia|]. destruct (N.eqb_spec r1 0); nia. }
    unfold h in *. nia.
  Qed.
End KdfFacts.

(* ---- modular exponentiation algebra (in N) ---- *)
Lemma pow_mod_l x e p : 0 < p -> ((x mod p) ^ e) mod p = (x ^ e) mod p.
Proof.
  intros Hp. induction e as [|e IH] using N.peano_ind; [reflexivity|].
  rewrite !N.pow_succ_r'. rewrite N.mul_mod by lia. rewrite IH.
  rewrite N.mod_mod by lia. now rewrite <- N.mul_mod by lia.
Qed.

Lemma dh_commutes g a b p : 0 < p -> ((g ^ a mod p) ^ b) mod p = ((g ^ b mod p) ^ a) mod p.
Proof. intros Hp. rewrite !pow_mod_l by assumption. rewrite <- !N.pow_mul_r. now rewrite N.mul_comm. Qed.

(* minimal big-endian bytes decode back to the number (big.Int.Bytes / SetBytes) *)
Lemma of_be_cons b l : of_be (b :: l) = Byte.to_N b * 256 ^ N.of_nat (length l) + of_be l.
Proof. unfold of_be. cbn [of_be_acc]. rewrite of_be_acc_shift. lia. Qed.

Lemma be_min_fuel_spec f : forall n acc, n < 256 ^ N.of_nat f ->
  of_be (be_min_fuel f n acc) = n * 256 ^ N.of_nat (length acc) + of_be acc.
Proof.
  induction f as [|f IH]; intros n acc Hn.
  - cbn in Hn. assert (n = 0) by lia. subst. cbn [be_min_fuel]. lia.
  - cbn [be_min_fuel]. destruct (N.eqb_spec n 0); [subst; lia|].
    rewrite IH.
    + rewrite of_be_cons. cbn [length]. rewrite Nat2N.inj_succ, N.pow_succ_r'.
      unfold byte_of_N. assert (Hm : n mod 256 < 256) by (apply N.mod_lt; lia).
      pose proof (to_of_N (n mod 256) Hm) as E. unfold byte_of_N in E. rewrite N.mod_mod in E by lia. rewrite E.
      pose proof (N.div_mod n 256). nia.
    + rewrite Nat2N.inj_succ, N.pow_succ_r' in Hn. apply N.div_lt_upper_bound; lia.
Qed.

Lemma of_be_be_min n : of_be (be_min n) = n.
Proof.
  unfold be_min. rewrite be_min_fuel_spec.
  - cbn. unfold of_be. cbn. lia.
  - destruct (N.eqb_spec n 0); [subst; cbn; lia|].
    pose proof (N.log2_spec n ltac:(lia)) as [_ H].
    eapply N.lt_le_trans; [exact H|].
    rewrite Nat2N.inj_succ, N2Nat.id.
    replace 256 with (2 ^ 8) by reflexivity. rewrite <- N.pow_mul_r.
    apply N.pow_le_mono_r; lia.
Qed.

Section DhFacts.
  Variable modexp : N -> N -> N -> N.
  Variable prf : bytes -> bytes -> bytes.
  Variable hbytes : nat.
  Hypothesis modexp_spec : forall b e m, modexp b e m = (b ^ e) mod m.

  (* both sides derive the same keys *)
  Theorem dh_agree g p plen a b ss vs xB kd ko :
    0 < p ->
    dh_device_param modexp prf hbytes g p plen (dh_owner_param modexp g p a) b ss vs = Ok (xB, kd) ->
    dh_owner_set modexp prf hbytes p plen (Some a) xB ss vs = Ok ko ->
    kd = ko.
  Proof.
    intros Hp. unfold dh_device_param, dh_owner_set, dh_owner_param.
    destruct (dh_symmetric_key _ _ _ _ _ _ _ _ _) as [kd'| | |] eqn:ED; cbn [bind]; try discriminate.
    intros H; inversion H; subst. clear H. rewrite of_be_be_min. intros EO.
    unfold dh_symmetric_key in *. rewrite of_be_be_min in ED.
    rewrite !modexp_spec in *.
    destruct (_ || _) in ED; [discriminate|]. destruct (_ || _) in EO; [discriminate|].
    rewrite (dh_commutes g a b p Hp) in ED.
    destruct (_ || _) in ED; [discriminate|]. destruct (_ || _) in EO; [discriminate|].
    rewrite ED in EO. now inversion EO.
  Qed.

End DhFacts.

Section DhFacts2.
  Variable modexp : N -> N -> N -> N.
  Variable prf : bytes -> bytes -> bytes.
  Variable hbytes : nat.

  (* degenerate or out-of-range public values are rejected instead of producing a key *)
  Theorem dh_reject p plen own other ss vs :
    4 <= p -> (other = 0 \/ other = 1 \/ other = p - 1 \/ other = p \/ other = p + 1) ->
    exists e, dh_symmetric_key modexp prf hbytes other own p plen ss vs = Err e.
  Proof.
    intros Hp H. unfold dh_symmetric_key.
    destruct (N.ltb_spec other 2); cbn [orb]; [eexists; reflexivity|].
    destruct (N.ltb_spec (p - 2) other); [eexists; reflexivity|]. lia.
  Qed.

  (* a replayed second SetParameter (private part erased) is an error, not a crash *)
  Theorem dh_second_set p plen xB ss vs : dh_owner_set modexp prf hbytes p plen None xB ss vs = Err EOther.
  Proof. reflexivity. Qed.

  (* key lengths are exactly what the cipher needs *)
  Theorem dh_key_lengths other own p plen ss vs sek svk :
    (forall k m, length (prf k m) = hbytes) -> (0 < hbytes)%nat ->
    dh_symmetric_key modexp prf hbytes other own p plen ss vs = Ok (sek, svk) ->
    length sek = ss /\ length svk = vs.
  Proof.
    intros PL HP. unfold dh_symmetric_key.
    destruct (_ || _); [discriminate|]. destruct (_ || _); [discriminate|].
    destruct (kdf prf hbytes _ _ _) as [k| | |] eqn:EK; cbn [bind]; try discriminate.
    intros H; inversion H; subst. apply (kdf_length prf hbytes PL HP) in EK.
    replace (N.to_nat (N.of_nat (ss + vs) * 8 / 8)) with (ss + vs)%nat in EK
      by (rewrite N.div_mul by lia; lia).
    rewrite firstn_length, skipn_length. lia.
  Qed.
End DhFacts2.

(* ---- ECDH parameter codec: encode then decode is the identity on well-sized parameters ---- *)
Lemma take16_be a r : N.of_nat (length a) < 65536 -> take16 (be 2 (N.of_nat (length a)) ++ a ++ r) = Ok (a, r).
Proof.
  intros H. set (n := N.of_nat (length a)) in *. cbn [be app]. unfold take16.
  assert (E : Byte.to_N (byte_of_N (n / 256)) * 256 + Byte.to_N (byte_of_N n) = n).
  { unfold byte_of_N at 2.
    assert (Hm : n mod 256 < 256) by (apply N.mod_lt; lia).
    pose proof (to_of_N _ Hm) as E2. unfold byte_of_N in E2. rewrite N.mod_mod in E2 by lia. rewrite E2.
    assert (Hd : n / 256 < 256) by (apply N.div_lt_upper_bound; lia).
    rewrite (to_of_N _ Hd).
    pose proof (N.div_mod n 256 ltac:(lia)). lia. }
  cbn [app]. rewrite E. unfold n. rewrite Nat2N.id, take_app by reflexivity. reflexivity.
Qed.
