(* Kex/Crypter.v — executable mirror of kex.SessionCrypter.Encrypt/Decrypt, cose.Encrypt0.Encrypt/Decrypt and the
   AES-GCM / AES-CTR / AES-CBC crypters of cose/encrypt_alg.go.  Block-cipher primitives are oracle parameters. *)
From FDO Require Export Cose.Sign1.
From FDO Require Gen.Tables.
Local Open Scope N_scope.

Inductive cmode := MGcm | MCtr | MCbc | MUnimplemented.

(* cipher-suite and algorithm registries: regenerated tables (Gen/Tables.v) *)
Record suite := mksuite { s_enc : Z; s_mac : Z; s_prf : N }.
Definition suite_of (id : Z) : option suite :=
  match zassoc id Gen.Tables.cipher_suite_table with
  | Some (e, m, p) => Some (mksuite e m p)
  | None => None
  end.
(* encrypt algorithm -> (supports AD, key size in bytes) *)
Definition enc_alg_info (alg : Z) : option (bool * nat) :=
  match zassoc alg Gen.Tables.enc_alg_table with
  | Some (ad, ksz) => Some (ad, N.to_nat ksz)
  | None => None
  end.
Definition enc_alg_mode (alg : Z) : cmode :=
  if (1 <=? alg)%Z && (alg <=? 3)%Z then MGcm
  else if (-65534 <=? alg)%Z && (alg <=? -65532)%Z then MCtr
  else if (-65531 <=? alg)%Z && (alg <=? -65529)%Z then MCbc
  else MUnimplemented.

Definition ctx_encrypt0 : bytes := txt [69;110;99;114;121;112;116;48].   (* "Encrypt0" *)

Definition ty_encrypt0 : ty := TStruct [(false, TProtHdr); (false, TMap TLabel TAny); (false, TPtr TBytes)].
Definition ty_mac0_enc0 : ty :=
  TStruct [(false, TProtHdr); (false, TMap TLabel TAny); (false, TPtr (TBstr ty_encrypt0)); (false, TBytes)].
Definition ty_enc_structure : ty := TStruct [(false, TText); (false, TProtHdr); (false, TBytes)].

Section Crypter.
  Variable O_der : bool -> bytes -> bool.
  Variable O_rfc : bytes -> option Z.
  Variable O_hmac : N -> bytes -> bytes -> bytes.
  Variable O_aead_open : bytes -> bytes -> bytes -> bytes -> option bytes.   (* key iv aad ciphertext *)
  Variable O_aead_seal : bytes -> bytes -> bytes -> bytes -> bytes.          (* key iv aad plaintext *)
  Variable O_ctr : bytes -> bytes -> bytes -> bytes.                         (* key iv data (encrypt = decrypt) *)
  Variable O_cbc_dec : bytes -> bytes -> bytes -> bytes.                     (* key iv ciphertext -> padded plaintext *)
  Variable O_cbc_enc : bytes -> bytes -> bytes -> bytes.                     (* key iv padded plaintext *)

  Notation unmarshal := (unmarshal O_der O_rfc).

  (* HeaderMap.Parse(label, &v) with a typed target *)
  Definition parse_hdr (t : ty) (l : Z) (m : list (val * val)) : outcome (option val) :=
    match assoc (VInt l) m with
    | None | Some VNull => Ok None
    | Some v => let* b := enc enc_fuel TAny v in let* x := unmarshal t b in Ok (Some x)
    end.

  Definition enc_structure (prot : list (val * val)) : outcome bytes :=
    enc enc_fuel ty_enc_structure (VList [VText ctx_encrypt0; VMap prot; VBytes []]).

  Definition last_byte (b : bytes) : N := match rev b with x :: _ => Byte.to_N x | [] => 0 end.

  (* cose.Encrypt0.Decrypt(alg, key, nil) followed by Unmarshal(plaintext, &RawBytes) *)
  Definition encrypt0_decrypt (alg : Z) (key : bytes) (prot unprot : list (val * val)) (ct : option bytes) : outcome bytes :=
    match enc_alg_info alg with
    | None => Panic PRegistry
    | Some (ad, ksz) =>
      let* oh := parse_hdr (TInt KI64) 1 (if ad then prot else unprot) in
      match oh with
      | Some (VInt a) =>
        if negb (a =? alg)%Z then Err EOther
        else if negb (Nat.eqb (length key) ksz) then Err EOther
        else
          let* aad := (if ad then enc_structure prot else Ok []) in
          match ct with
          | None => Err EOther
          | Some c =>
            let* oiv := parse_hdr TBytes 5 unprot in
            match oiv with
            | Some (VBytes iv) =>
              let* pt :=
                match enc_alg_mode alg with
                | MGcm =>
                  if negb (Nat.eqb (length iv) 12) then Err EOther
                  else match O_aead_open key iv aad c with Some p => Ok p | None => Err EOther end
                | MCtr =>
                  if negb (Nat.eqb (length iv) 16) then Err EOther else Ok (O_ctr key iv c)
                | MCbc =>
                  if negb (Nat.eqb (length iv) 16) then Err EOther
                  else if Nat.eqb (length c) 0 || negb (Nat.eqb (Nat.modulo (length c) 16) 0) then Err EOther
                  else
                    let p := O_cbc_dec key iv c in
                    let padn := last_byte p in
                    if (padn =? 0) || (16 <? padn) then Err EOther
                    else Ok (firstn (length p - N.to_nat padn) p)
                | MUnimplemented => Panic PExplicit
                end in
              let* raw := unmarshal TRaw pt in
              match raw with VRaw x => Ok x | _ => Err EType end
            | _ => Err EOther
            end
          end
      | _ => Err EOther
      end
    end.

  (* kex.SessionCrypter.Decrypt: one item is read from the stream *)
  Definition crypter_decrypt (s : suite) (sek svk wire : bytes) : outcome bytes :=
    let* (t, _) := dec O_der O_rfc (fuel_for wire) 0 (TTag TRaw) wire in
    match t with
    | VTag n (VRaw raw) =>
      if n =? 16 then
        if negb (s_mac s =? 0)%Z then Err EOther
        else
          let* e := unmarshal ty_encrypt0 raw in
          match e with
          | VList [VMap prot; VMap unprot; ctv] =>
            encrypt0_decrypt (s_enc s) sek prot unprot (match ctv with VBytes c => Some c | _ => None end)
          | _ => Err EType
          end
      else if n =? 17 then
        if (s_mac s =? 0)%Z then Err EOther
        else
          let* m := unmarshal ty_mac0_enc0 raw in
          match m with
          | VList [VMap mprot; _; pl; VBytes value] =>
            match pl with
            | VNull => Err EOther
            | _ =>
              let* (_, tag) := mac0_digest O_hmac ty_encrypt0 TBytes (s_mac s) svk mprot pl (VBytes []) in
              if negb (bytes_eqb tag value) then Err EOther
              else match pl with
                   | VList [VMap prot; VMap unprot; ctv] =>
                     encrypt0_decrypt (s_enc s) sek prot unprot (match ctv with VBytes c => Some c | _ => None end)
                   | _ => Err EType
                   end
            end
          | _ => Err EType
          end
      else Err EOther
    | _ => Err EType
    end.

  (* PKCS#7 padding to a multiple of 16 *)
  Definition pad16 (b : bytes) : bytes :=
    let n := (16 - Nat.modulo (length b) 16)%nat in b ++ repeat (byte_of_N (N.of_nat n)) n.

  (* kex.SessionCrypter.Encrypt with the plaintext already CBOR-encoded and the IV taken from the randomness *)
  Definition crypter_encrypt (s : suite) (sek svk iv pt : bytes) : outcome bytes :=
    match enc_alg_info (s_enc s) with
    | None => Panic PRegistry
    | Some (ad, ksz) =>
      if negb (Nat.eqb (length sek) ksz) then Err EOther
      else
        let prot := if ad then [(VInt 1, VInt (s_enc s))] else [] in
        let* aad := (if ad then enc_structure prot else Ok []) in
        let* ct := match enc_alg_mode (s_enc s) with
                   | MGcm => Ok (O_aead_seal sek iv aad pt)
                   | MCtr => Ok (O_ctr sek iv pt)
                   | MCbc => Ok (O_cbc_enc sek iv (pad16 pt))
                   | MUnimplemented => Panic PExplicit
                   end in
        let unprot := (if ad then [] else [(VInt 1, VInt (s_enc s))]) ++ [(VInt 5, VBytes iv)] in
        let e0 := VList [VMap prot; VMap unprot; VBytes ct] in
        if (s_mac s =? 0)%Z then enc enc_fuel (TTagged 16 ty_encrypt0) e0
        else
          let* (mprot, tag) := mac0_digest O_hmac ty_encrypt0 TBytes (s_mac s) svk [] e0 (VBytes []) in
          enc enc_fuel (TTagged 17 ty_mac0_enc0) (VList [VMap mprot; VMap []; e0; VBytes tag])
    end.
End Crypter.
