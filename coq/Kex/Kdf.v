(* Kex/Kdf.v — internal/nistkdf.KDF (SP 800-108 counter mode with FDO's label/context) and the key split of
   kex.*SymmetricKey; Diffie-Hellman sessions of kex/dh.go; the ECDH parameter codec of kex/ecdh.go. *)
From FDO Require Export Cbor.Typed.
Local Open Scope N_scope.

Definition txtb (l : list N) : bytes := map byte_of_N l.
Definition kdf_label : bytes := txtb [70;73;68;79;45;75;68;70].                                  (* "FIDO-KDF" *)
Definition kdf_context : bytes := txtb [65;117;116;111;109;97;116;105;99;79;110;98;111;97;114;100;84;117;110;110;101;108]. (* "AutomaticOnboardTunnel" *)

Section Kdf.
  Variable prf : bytes -> bytes -> bytes.       (* HMAC-hash(key, message) *)
  Variable hbytes : nat.                        (* output size of the hash in bytes: 32 or 48 *)

  Definition kdf_input (i : N) (ctx : bytes) (L : N) : bytes :=
    byte_of_N i :: kdf_label ++ [x00] ++ (kdf_context ++ ctx) ++ be 2 L.

  Fixpoint blocks (kin ctx : bytes) (L : N) (i : N) (n : nat) : bytes :=
    match n with
    | O => []
    | S n' => prf kin (kdf_input i ctx L) ++ blocks kin ctx L (i + 1) n'
    end.

  (* the loop as written: n = L / h (+1 if there is a remainder), with h in BYTES although L is in bits *)
  Definition kdf_iterations (L : N) : N :=
    let h := N.of_nat hbytes in L / h + (if L mod h =? 0 then 0 else 1).

  Definition kdf (kin ctx : bytes) (L : N) : outcome bytes :=
    let n := kdf_iterations L in
    if 255 <? n then Panic PExplicit
    else Ok (firstn (N.to_nat (L / 8)) (blocks kin ctx L 1 (N.to_nat n))).

  (* SP 800-108 section 5.1: n = ceil(L / h) with h in bits; output = leftmost L bits of K(1) || ... || K(n) *)
  Definition kdf_spec (kin ctx : bytes) (L : N) : bytes :=
    let hbits := 8 * N.of_nat hbytes in
    let n := L / hbits + (if L mod hbits =? 0 then 0 else 1) in
    firstn (N.to_nat (L / 8)) (blocks kin ctx L 1 (N.to_nat n)).
End Kdf.

(* ---- Diffie-Hellman (kex/dh.go dhSymmetricKey, Parameter, SetParameter) ---- *)
Section Dh.
  Variable modexp : N -> N -> N -> N.           (* big.Int.Exp(b, e, m) *)
  Variable prf : bytes -> bytes -> bytes.
  Variable hbytes : nat.

  Definition dh_symmetric_key (other own p : N) (plen : nat) (sek_size svk_size : nat) : outcome (bytes * bytes) :=
    if (other <? 2) || (p - 2 <? other) then Err EOther
    else
      let secret := modexp other own p in
      if (secret <=? 1) || (secret =? p - 1) then Err EOther
      else
        let* k := kdf prf hbytes (be plen secret) [] (N.of_nat (sek_size + svk_size) * 8) in
        Ok (firstn sek_size k, skipn sek_size k).

  (* owner: Parameter() with random a; device: Parameter() with xA known and random b; owner: SetParameter(xB) *)
  Definition dh_owner_param (g p a : N) : bytes := be_min (modexp g a p).
  Definition dh_device_param (g p : N) (plen : nat) (xA : bytes) (b : N) (ss vs : nat) : outcome (bytes * (bytes * bytes)) :=
    let* keys := dh_symmetric_key (of_be xA) b p plen ss vs in Ok (be_min (modexp g b p), keys).
  Definition dh_owner_set (p : N) (plen : nat) (a : option N) (xB : bytes) (ss vs : nat) : outcome (bytes * bytes) :=
    match a with
    | None => Err EOther                         (* private part already erased: second SetParameter *)
    | Some a' => dh_symmetric_key (of_be xB) a' p plen ss vs
    end.
End Dh.

(* ---- ECDH parameter codec (ecdhParam.UnmarshalBinary / MarshalBinary) ---- *)
Definition take16 (b : bytes) : outcome (bytes * bytes) :=
  match b with
  | h :: l :: r =>
    let n := N.to_nat (Byte.to_N h * 256 + Byte.to_N l) in
    match take n r with Some x => Ok x | None => Err EEOF end
  | _ => Err EEOF
  end.

(* big.Int.SetBytes(x).FillBytes(buf of n bytes): panics if the value does not fit — it always fits here because
   n = max(len x, len y) *)
Definition fill (n : nat) (x : bytes) : bytes := be n (of_be x).

Definition ecdh_param_decode (b : bytes) : outcome (bytes * bytes) :=     (* (SEC1 uncompressed point, rand) *)
  let* (xb, r1) := take16 b in
  let* (yb, r2) := take16 r1 in
  let* (rb, _) := take16 r2 in
  let n := Nat.max (length xb) (length yb) in
  Ok (byte_of_N 4 :: fill n xb ++ fill n yb, rb).

Definition ecdh_param_encode (pub rand : bytes) : bytes :=
  let n := ((length pub - 1) / 2)%nat in
  be 2 (N.of_nat n) ++ firstn n (skipn 1 pub) ++ be 2 (N.of_nat n) ++ firstn n (skipn (1 + n) pub)
  ++ be 2 (N.of_nat (length rand)) ++ rand.
