(* Kex/CrypterFacts.v — theorems about the session-crypter model. *)
From FDO Require Import Cbor.Typed Cbor.DecFacts Cose.Sign1 Cose.Sign1Facts Kex.Crypter.
Local Open Scope N_scope.

Lemma total_no_panic {A} (o : outcome A) p : total o -> o <> Panic p.
Proof. destruct o; cbn; intros; try contradiction; discriminate. Qed.

Section Facts.
  Variable O_der : bool -> bytes -> bool.
  Variable O_rfc : bytes -> option Z.
  Variable O_hmac : N -> bytes -> bytes -> bytes.
  Variable O_aead_open : bytes -> bytes -> bytes -> bytes -> option bytes.
  Variable O_ctr : bytes -> bytes -> bytes -> bytes.
  Variable O_cbc_dec : bytes -> bytes -> bytes -> bytes.

  Notation e0dec := (encrypt0_decrypt O_der O_rfc O_aead_open O_ctr O_cbc_dec).
  Notation cdec := (crypter_decrypt O_der O_rfc O_hmac O_aead_open O_ctr O_cbc_dec).

  Lemma unmarshal_no_panic t b p : unmarshal O_der O_rfc t b <> Panic p.
  Proof. apply total_no_panic, unmarshal_total. Qed.

  Lemma parse_hdr_no_panic t l m p : parse_hdr O_der O_rfc t l m <> Panic p.
  Proof.
    unfold parse_hdr. destruct (assoc (VInt l) m) as [v|]; [|discriminate].
    destruct v; try discriminate;
    match goal with |- bind (enc ?f ?t ?v) _ <> _ => pose proof (enc_no_panic f t v p); destruct (enc f t v); cbn [bind]; try congruence end;
    match goal with |- bind (unmarshal _ _ ?t ?b) _ <> _ => pose proof (unmarshal_no_panic t b p); destruct (unmarshal O_der O_rfc t b); cbn [bind]; try congruence end;
    discriminate.
  Qed.

  Definition alg_ok (alg : Z) : Prop :=
    enc_alg_info alg <> None /\ enc_alg_mode alg <> MUnimplemented.

  Ltac np p :=
    repeat match goal with
    | |- Ok _ <> _ => discriminate
    | |- Err _ <> _ => discriminate
    | |- (if ?c then _ else _) <> _ => destruct c eqn:?
    | |- bind (Ok _) _ <> _ => cbn [bind]
    | |- bind (Err _) _ <> _ => cbn [bind]
    | |- bind (if ?c then _ else _) _ <> _ => destruct c
    | |- bind (match ?y with _ => _ end) _ <> _ => destruct y eqn:?; cbn [bind]
    | |- bind ?x _ <> Panic p =>
      let H := fresh in
      assert (H : x <> Panic p) by
        first [ apply enc_no_panic | apply unmarshal_no_panic | apply parse_hdr_no_panic
              | (apply total_no_panic; apply dec_fuel_for_total) | assumption
              | (match goal with HH : forall pl mprot, _ -> mac0_digest _ _ _ _ _ _ pl _ <> Panic p |- _ => apply HH; assumption end) ];
      destruct x eqn:?; cbn [bind]; try congruence
    | |- (match ?x with _ => _ end) <> _ => destruct x eqn:?
    | |- (let (_, _) := ?x in _) <> _ => destruct x eqn:?
    end.

  Lemma encrypt0_decrypt_no_panic alg key prot unprot ct p : alg_ok alg -> e0dec alg key prot unprot ct <> Panic p.
  Proof.
    intros [Hi Hm]. unfold encrypt0_decrypt, enc_structure.
    destruct (enc_alg_info alg) as [[ad ksz]|]; [|contradiction].
    destruct (enc_alg_mode alg); try contradiction; np p.
  Qed.

  Definition suite_ok (s : suite) : Prop :=
    alg_ok (s_enc s) /\ (s_mac s = 0%Z \/ mac_alg_hash (s_mac s) <> None).

  Lemma mac0_digest_no_panic tP tA alg key prot payload aad p :
    mac_alg_hash alg <> None -> mac0_digest O_hmac tP tA alg key prot payload aad <> Panic p.
  Proof.
    intros H. unfold mac0_digest, tbs_bytes. destruct (mac_alg_hash alg) as [[h k]|]; [|contradiction].
    np p.
  Qed.

  Lemma bind_no_panic {A B} (x : outcome A) (f : A -> outcome B) p :
    x <> Panic p -> (forall a, f a <> Panic p) -> bind x f <> Panic p.
  Proof. intros Hx Hf. destruct x; cbn [bind]; first [apply Hf | congruence]. Qed.

  Ltac opn :=
    repeat match goal with
    | |- Ok _ <> _ => discriminate
    | |- Err _ <> _ => discriminate
    | |- (if ?c then _ else _) <> _ => destruct c eqn:?
    | |- (match ?x with _ => _ end) <> _ => destruct x
    end.

  (* Decrypting never panics for any suite whose algorithms are registered and implemented. *)
  Theorem crypter_decrypt_no_panic s sek svk wire p : suite_ok s -> cdec s sek svk wire <> Panic p.
  Proof.
    intros [Ha Hmac]. unfold crypter_decrypt.
    apply bind_no_panic; [apply total_no_panic, dec_fuel_for_total|]. intros [t rest].
    opn.
    - apply bind_no_panic; [apply unmarshal_no_panic|]. intros e. opn; try now apply encrypt0_decrypt_no_panic.
    - apply bind_no_panic; [apply unmarshal_no_panic|]. intros m. opn.
      all: try (apply bind_no_panic;
                [ apply mac0_digest_no_panic; destruct Hmac as [Hz|]; [|assumption];
                  match goal with H : (_ =? 0)%Z = false |- _ => rewrite Hz in H; discriminate end
                | intros [? ?]; opn; try now apply encrypt0_decrypt_no_panic ]).
  Qed.

  (* Authenticity structure: what acceptance of a wire message means. *)
  Theorem crypter_decrypt_authentic s sek svk wire pt :
    cdec s sek svk wire = Ok pt ->
    exists n raw rest, dec O_der O_rfc (fuel_for wire) 0 (TTag TRaw) wire = Ok (VTag n (VRaw raw), rest) /\
    ((s_mac s = 0%Z /\ n = 16 /\
      exists prot unprot ctv, unmarshal O_der O_rfc ty_encrypt0 raw = Ok (VList [VMap prot; VMap unprot; ctv]) /\
        e0dec (s_enc s) sek prot unprot (match ctv with VBytes c => Some c | _ => None end) = Ok pt) \/
     (s_mac s <> 0%Z /\ n = 17 /\
      exists mprot u value prot unprot ctv prot',
        unmarshal O_der O_rfc ty_mac0_enc0 raw = Ok (VList [VMap mprot; u; VList [VMap prot; VMap unprot; ctv]; VBytes value]) /\
        mac0_digest O_hmac ty_encrypt0 TBytes (s_mac s) svk mprot (VList [VMap prot; VMap unprot; ctv]) (VBytes []) = Ok (prot', value) /\
        e0dec (s_enc s) sek prot unprot (match ctv with VBytes c => Some c | _ => None end) = Ok pt)).
  Proof.
    unfold crypter_decrypt.
    destruct (dec O_der O_rfc (fuel_for wire) 0 (TTag TRaw) wire) as [[t rest]| | |] eqn:ED; cbn [bind]; try discriminate.
    destruct t as [| | | | | | |n v|]; try discriminate. destruct v as [| | | | | | | |raw]; try discriminate.
    destruct (N.eqb_spec n 16) as [->|N16].
    { destruct (Z.eqb_spec (s_mac s) 0) as [Hz|]; cbn [negb]; [|discriminate].
      destruct (unmarshal O_der O_rfc ty_encrypt0 raw) as [e| | |] eqn:EU; cbn [bind]; try discriminate.
      repeat (match goal with |- (match ?x with _ => _ end) = Ok _ -> _ => destruct x; try discriminate end).
      all: intros H; try discriminate H.
      exists 16, raw, rest. split; [reflexivity|]. left. split; [exact Hz|]. split; [reflexivity|].
      do 3 eexists. split; [exact EU|exact H]. }
    destruct (N.eqb_spec n 17) as [->|]; [|discriminate].
    destruct (Z.eqb_spec (s_mac s) 0) as [|Hz]; [discriminate|].
    destruct (unmarshal O_der O_rfc ty_mac0_enc0 raw) as [m| | |] eqn:EU; cbn [bind]; try discriminate.
    repeat (match goal with
            | |- bind (mac0_digest ?a ?b ?c ?d ?e ?f ?g ?h) _ = Ok _ -> _ =>
              destruct (mac0_digest a b c d e f g h) as [[prot' tag]| | |] eqn:EM; cbn [bind]; try discriminate
            | |- (if negb (bytes_eqb ?t ?v) then _ else _) = Ok _ -> _ =>
              let EB := fresh "EB" in destruct (bytes_eqb t v) eqn:EB; cbn [negb]; [apply bytes_eqb_eq in EB; subst t|discriminate]
            | |- (match ?x with _ => _ end) = Ok _ -> _ => destruct x; try discriminate
            end).
    all: intros H; try discriminate H.
    exists 17, raw, rest. split; [reflexivity|]. right. split; [exact Hz|]. split; [reflexivity|].
    do 7 eexists. split; [exact EU|]. split; [exact EM|exact H].
  Qed.

  (* ... and of the inner COSE_Encrypt0 *)
  Theorem encrypt0_decrypt_authentic alg key prot unprot ct x :
    e0dec alg key prot unprot ct = Ok x ->
    exists ad ksz c iv p,
      enc_alg_info alg = Some (ad, ksz) /\ length key = ksz /\
      parse_hdr O_der O_rfc (TInt KI64) 1 (if ad then prot else unprot) = Ok (Some (VInt alg)) /\
      ct = Some c /\ parse_hdr O_der O_rfc TBytes 5 unprot = Ok (Some (VBytes iv)) /\
      unmarshal O_der O_rfc TRaw p = Ok (VRaw x) /\
      match enc_alg_mode alg with
      | MGcm => length iv = 12%nat /\ exists aad, (if ad then enc_structure prot else Ok []) = Ok aad /\ O_aead_open key iv aad c = Some p
      | MCtr => length iv = 16%nat /\ p = O_ctr key iv c
      | MCbc => length iv = 16%nat /\ length c <> 0%nat /\ Nat.modulo (length c) 16 = 0%nat /\
                let q := O_cbc_dec key iv c in
                (1 <= last_byte q <= 16) /\ p = firstn (length q - N.to_nat (last_byte q)) q
      | MUnimplemented => False
      end.
  Proof.
    unfold encrypt0_decrypt.
    destruct (enc_alg_info alg) as [[ad ksz]|]; [|discriminate].
    destruct (parse_hdr O_der O_rfc (TInt KI64) 1 (if ad then prot else unprot)) as [[v|]| | |] eqn:EH; cbn [bind]; try discriminate.
    destruct v as [a| | | | | | | |]; try discriminate.
    destruct (Z.eqb_spec a alg) as [->|]; cbn [negb]; [|discriminate].
    destruct (Nat.eqb_spec (length key) ksz); cbn [negb]; [|discriminate].
    destruct (if ad then enc_structure prot else Ok []) as [aad| | |] eqn:EA; cbn [bind]; try discriminate.
    destruct ct as [c|]; [|discriminate].
    destruct (parse_hdr O_der O_rfc TBytes 5 unprot) as [[v|]| | |] eqn:EI; cbn [bind]; try discriminate.
    destruct v as [| |iv| | | | | |]; try discriminate.
    destruct (enc_alg_mode alg) eqn:EMo.
    - destruct (Nat.eqb_spec (length iv) 12); cbn [negb]; [|discriminate].
      destruct (O_aead_open key iv aad c) as [p|] eqn:EO; cbn [bind]; [|discriminate].
      destruct (unmarshal O_der O_rfc TRaw p) as [r| | |] eqn:ER; cbn [bind]; try discriminate.
      destruct r; try discriminate. intros HX; inversion HX; subst.
      exists ad, (length key), c, iv, p. repeat split; auto. exists aad. auto.
    - destruct (Nat.eqb_spec (length iv) 16); cbn [negb]; [|discriminate]. cbn [bind].
      destruct (unmarshal O_der O_rfc TRaw (O_ctr key iv c)) as [r| | |] eqn:ER; cbn [bind]; try discriminate.
      destruct r; try discriminate. intros HX; inversion HX; subst.
      exists ad, (length key), c, iv, (O_ctr key iv c). repeat split; auto.
    - destruct (Nat.eqb_spec (length iv) 16); cbn [negb]; [|discriminate].
      destruct (Nat.eqb_spec (length c) 0); cbn [orb]; [discriminate|].
      destruct (Nat.eqb_spec (Nat.modulo (length c) 16) 0); cbn [negb]; [|discriminate].
      destruct (N.eqb_spec (last_byte (O_cbc_dec key iv c)) 0); cbn [orb]; [discriminate|].
      destruct (N.ltb_spec 16 (last_byte (O_cbc_dec key iv c))); [discriminate|]. cbn [bind].
      match goal with |- context [unmarshal O_der O_rfc TRaw ?pp] =>
        destruct (unmarshal O_der O_rfc TRaw pp) as [r| | |] eqn:ER; cbn [bind]; try discriminate end.
      destruct r; try discriminate. intros HX; inversion HX; subst.
      do 5 eexists. repeat split; eauto; lia.
    - cbn [bind]. discriminate.
  Qed.
End Facts.

(* every registered cipher suite satisfies [suite_ok]: finite check over the regenerated table *)
Definition suite_ok_b (s : suite) : bool :=
  match enc_alg_info (s_enc s), enc_alg_mode (s_enc s), mac_alg_hash (s_mac s) with
  | Some _, MUnimplemented, _ => false
  | Some _, _, Some _ => true
  | Some _, _, None => (s_mac s =? 0)%Z
  | None, _, _ => false
  end.

Lemma suite_ok_b_spec s : suite_ok_b s = true -> suite_ok s.
Proof.
  unfold suite_ok_b, suite_ok, alg_ok.
  destruct (enc_alg_info (s_enc s)); [|discriminate].
  destruct (enc_alg_mode (s_enc s)); try discriminate;
  destruct (mac_alg_hash (s_mac s)) eqn:E; intros H;
    (split; [split; discriminate|]); try (right; discriminate); left; now apply Z.eqb_eq.
Qed.

Definition all_suites : list suite :=
  map (fun r => match r with (_, (e, m, p)) => mksuite e m p end) Gen.Tables.cipher_suite_table.

Lemma all_suites_ok : forallb suite_ok_b all_suites = true.
Proof. vm_compute. reflexivity. Qed.
