(* Fdo/ServerFacts.v — history theorems about the server state machine (Fdo/Server.v). *)
From FDO Require Import Fdo.Server.
Local Open Scope N_scope.

(* ---- histories ---- *)
(* one entry: number of sessions before the step (a start message creates session number n), request, response, effects *)
Definition entry := (nat * request * response * list effect)%type.

Inductive reach : server -> list entry -> Prop :=
| reach_nil : reach [] []
| reach_step st h r st' resp eff :
    reach st h -> handle st r = (st', resp, eff) -> reach st' (h ++ [(length st, r, resp, eff)]).

(* ---- small facts about the store ---- *)
Lemma update_length st : forall id s, length (update st id s) = length st.
Proof. induction st as [|x st IH]; intros [|id] s; cbn; auto. Qed.

Lemma nth_update_same st : forall id s, (id < length st)%nat -> nth_error (update st id s) id = Some s.
Proof. induction st as [|x st IH]; intros [|id] s H; cbn in *; try lia; auto. apply IH. lia. Qed.

Lemma nth_update_other st : forall id id' s, id <> id' -> nth_error (update st id s) id' = nth_error st id'.
Proof. induction st as [|x st IH]; intros [|id] [|id'] s H; cbn; auto; try congruence. Qed.

Lemma lookup_some st t id s : lookup st t = Some (id, s) ->
  t = TSess id /\ nth_error st id = Some s /\ s_alive s = true /\ (id < length st)%nat.
Proof.
  unfold lookup. destruct t as [|i]; [discriminate|].
  destruct (nth_error st i) as [x|] eqn:E; [|discriminate]. destruct (s_alive x) eqn:A; [|discriminate].
  intros H; inversion H; subst. repeat split; auto. apply nth_error_Some. congruence.
Qed.

(* ---- what the responder does, by message type ---- *)
Ltac resp_cases s t :=
  unfold respond; destruct (s_proto s);
  repeat match goal with |- context [if ?c then _ else _] => destruct c eqn:? end.

(* effects and gated responses of one responder call *)
Lemma respond_spec t s r rt s' eff : respond t s r = (rt, s', eff) ->
  (In EDIVoucher eff -> s_proto s = PDI /\ t = 12 /\ rt = 13 /\ s_started s = true /\ r_ok r = true) /\
  (In ERVBlob eff -> s_proto s = PTO0 /\ t = 22 /\ rt = 23 /\ s_started s = true /\ r_ok r = true) /\
  (In EModule eff -> s_proto s = PTO2 /\ t = 68 /\ rt = 69 /\ s_ready s = true /\ r_ok r = true) /\
  (In EReplace eff -> s_proto s = PTO2 /\ t = 70 /\ rt = 71 /\ s_hmac s = true /\ r_ok r = true) /\
  (rt = 33 -> s_proto s = PTO1 /\ t = 32 /\ s_started s = true /\ r_ok r = true) /\
  (rt = 65 -> s_proto s = PTO2 /\ t = 64 /\ s_started s = true /\ r_ok r = true) /\
  (rt = 255 -> eff = [] /\ s' = s) /\
  (rt = 67 \/ rt = 69 \/ rt = 71 -> s_proto s = PTO2 /\ (t = 66 \/ t = 68 \/ t = 70)).
Proof.
  intros H. unfold respond in H. cbv zeta in H.
  destruct (s_proto s) eqn:P;
  repeat match type of H with
  | context [if ?c then _ else _] => destruct c eqn:?
  end; inversion H; subst; clear H;
  repeat split; try (intros X; simpl in X); try contradiction; try discriminate; try lia; try reflexivity;
  repeat match goal with
  | H : In _ _ |- _ => simpl in H
  | H : _ \/ _ |- _ => destruct H
  | H : (_ =? _) = true |- _ => apply N.eqb_eq in H
  | H : (_ && _)%bool = true |- _ => apply andb_true_iff in H as [? ?]
  | H : negb _ = true |- _ => apply negb_true_iff in H
  end; subst; try discriminate; try contradiction; auto.
Qed.

(* how the flags of a session can change in one responder call *)
Lemma respond_flags t s r rt s' eff : respond t s r = (rt, s', eff) ->
  (s_proved s' = true -> s_proved s = true \/ (t = 64 /\ rt = 65 /\ r_ok r = true /\ s_proto s = PTO2)) /\
  (s_hmac s' = true -> s_hmac s = true \/ (t = 66 /\ rt = 67 /\ r_ok r = true /\ r_hmac r = true)) /\
  (s_ready s' = true -> s_ready s = true \/ (t = 66 /\ rt = 67 /\ r_ok r = true)) /\
  (s_svcdone s' = true -> s_svcdone s = true \/ (t = 68 /\ rt = 69 /\ r_ok r = true)) /\
  s_proto s' = s_proto s.
Proof.
  intros H. unfold respond in H. cbv zeta in H.
  destruct (s_proto s) eqn:P;
  repeat match type of H with
  | context [if ?c then _ else _] => destruct c eqn:?
  end; inversion H; subst; clear H; cbn;
  repeat split; auto; try (intros X); auto;
  repeat match goal with
  | H : (_ =? _) = true |- _ => apply N.eqb_eq in H
  | H : (_ && _)%bool = true |- _ => apply andb_true_iff in H as [? ?]
  | H : (_ || _)%bool = true |- _ => apply orb_true_iff in H as [?|?]
  end; subst; try discriminate; try congruence; auto 10.
Qed.

(* ---- one handler step ---- *)
Definition same_flags (a b : sess) : Prop :=
  s_proto a = s_proto b /\ s_started a = s_started b /\ s_proved a = s_proved b /\ s_ready a = s_ready b /\
  s_hmac a = s_hmac b /\ s_devmod a = s_devmod b /\ s_svcdone a = s_svcdone b.

Lemma same_flags_refl a : same_flags a a. Proof. repeat split. Qed.
Lemma same_flags_kill a : same_flags (kill a) a. Proof. repeat split. Qed.

(* what a step can do to the session table: every session of the new table is an old one with the same flags, or the
   one the request acted on (result of a responder call, possibly killed), or a freshly created one *)
Inductive origin (st : server) (r : request) (resp : response) (eff : list effect) (id' : nat) (s' : sess) : Prop :=
| o_old s : nth_error st id' = Some s -> same_flags s' s -> origin st r resp eff id' s'
| o_acted s rt s2 : lookup st (r_tok r) = Some (id', s) -> is_start (r_type r) = false ->
    respond (r_type r) s r = (rt, s2, eff) -> rt <> 255 -> resp = RType rt -> same_flags s' s2 ->
    (needs_tunnel (r_type r) = true -> s_proved s = true /\ r_enc r = true) ->
    origin st r resp eff id' s'
| o_new rt s2 : id' = length st -> is_start (r_type r) = true ->
    respond (r_type r) (fresh (proto_of (r_type r))) r = (rt, s2, eff) -> rt <> 255 -> resp = RType rt -> same_flags s' s2 ->
    origin st r resp eff id' s'
| o_new_dead s2 : id' = length st -> is_start (r_type r) = true -> s_alive s' = false -> resp = RType 255 -> eff = [] ->
    same_flags s' s2 -> (exists rt e, respond (r_type r) (fresh (proto_of (r_type r))) r = (rt, s2, e) /\ rt = 255) ->
    origin st r resp eff id' s'.

Lemma nth_app_new {A} (l : list A) x id y : nth_error (l ++ [x]) id = Some y ->
  nth_error l id = Some y \/ (id = length l /\ y = x).
Proof.
  intros H. destruct (Nat.lt_ge_cases id (length l)).
  - left. now rewrite nth_error_app1 in H.
  - right. rewrite nth_error_app2 in H by assumption.
    destruct (id - length l)%nat eqn:E; cbn in H; [inversion H; split; [lia|reflexivity]|].
    destruct n; discriminate.
Qed.

Lemma nth_update_cases st id s id' y : nth_error (update st id s) id' = Some y ->
  (id' = id /\ y = s /\ (id < length st)%nat) \/ (id' <> id /\ nth_error st id' = Some y).
Proof.
  intros H. destruct (Nat.eq_dec id' id) as [->|NE].
  - left. assert (L : (id < length st)%nat).
    { rewrite <- (update_length st id s). apply nth_error_Some. congruence. }
    rewrite nth_update_same in H by assumption. inversion H. auto.
  - right. split; [assumption|]. now rewrite nth_update_other in H by auto.
Qed.

Lemma handle_start_origin st p r st' resp eff :
  p = proto_of (r_type r) -> is_start (r_type r) = true -> handle_start st p r = (st', resp, eff) ->
  forall id' s', nth_error st' id' = Some s' -> origin st r resp eff id' s'.
Proof.
  intros -> IS H id' s' N. unfold handle_start in H.
  destruct (respond (r_type r) (fresh (proto_of (r_type r))) r) as [[rt s2] e2] eqn:R.
  destruct (rt =? 255) eqn:RT; inversion H; subst; clear H;
    apply nth_app_new in N as [N|[-> ->]]; try (eapply o_old; [exact N|apply same_flags_refl]).
  - eapply o_new_dead; try reflexivity; try exact IS; [apply same_flags_kill|].
    do 2 eexists; split; [exact R|now apply N.eqb_eq].
  - eapply o_new; try reflexivity; try exact IS; [exact R|now apply N.eqb_neq|apply same_flags_refl].
Qed.

Lemma handle_cont_origin st p r st' resp eff :
  is_start (r_type r) = false -> handle_cont st p r = (st', resp, eff) ->
  forall id' s', nth_error st' id' = Some s' -> origin st r resp eff id' s'.
Proof.
  intros IS H id' s' N. unfold handle_cont in H.
  destruct (lookup st (r_tok r)) as [[id s]|] eqn:L;
    [|inversion H; subst; eapply o_old; [exact N|apply same_flags_refl]].
  assert (OLD : forall x, nth_error (update st id (kill s)) id' = Some x -> origin st r resp eff id' x).
  { intros x Nx. apply nth_update_cases in Nx as [[-> [-> _]]|[NE Nx]].
    - apply lookup_some in L as [_ [L _]]. eapply o_old; [exact L|apply same_flags_kill].
    - eapply o_old; [exact Nx|apply same_flags_refl]. }
  destruct (negb (proto_eqb (s_proto s) p)); [inversion H; subst; now apply OLD|].
  destruct (needs_tunnel (r_type r) && negb (s_proved s && r_enc r))%bool eqn:NT; [inversion H; subst; now apply OLD|].
  assert (GT : needs_tunnel (r_type r) = true -> s_proved s = true /\ r_enc r = true).
  { intros G. rewrite G in NT. cbn in NT. apply negb_false_iff in NT. now apply andb_true_iff in NT. }
  destruct (respond (r_type r) s r) as [[rt s2] e2] eqn:R.
  destruct (rt =? 255) eqn:RT; [inversion H; subst; now apply OLD|].
  destruct (is_final rt); inversion H; subst; clear H;
    apply nth_update_cases in N as [[-> [-> _]]|[NE N]];
    try (eapply o_old; [exact N|apply same_flags_refl]).
  all: eapply o_acted; try exact L; try exact R; try exact IS; try reflexivity; try exact GT;
       [now apply N.eqb_neq | first [apply same_flags_kill | apply same_flags_refl]].
Qed.

(* every session after a step is an old one, the acted one, or a new one *)
Lemma handle_origin st r st' resp eff : handle st r = (st', resp, eff) ->
  forall id' s', nth_error st' id' = Some s' -> origin st r resp eff id' s'.
Proof.
  unfold handle. intros H id' s' N.
  destruct (r_type r =? 255) eqn:T255.
  { destruct (lookup st (r_tok r)) as [[id s]|] eqn:L; inversion H; subst; clear H.
    - apply nth_update_cases in N as [[-> [-> _]]|[NE N]].
      + apply lookup_some in L as [_ [L _]]. eapply o_old; [exact L|apply same_flags_kill].
      + eapply o_old; [exact N|apply same_flags_refl].
    - eapply o_old; [exact N|apply same_flags_refl]. }
  destruct (proto_of (r_type r)) eqn:PO.
  5: { inversion H; subst. eapply o_old; [exact N|apply same_flags_refl]. }
  all: destruct (is_start (r_type r)) eqn:IS;
       [eapply handle_start_origin; [symmetry; exact PO|exact IS|exact H|exact N] | eapply handle_cont_origin; [exact IS|exact H|exact N]].
Qed.

(* ---- provenance of the session flags over histories ---- *)
Definition proved_by (h : list entry) (id : nat) : Prop :=
  exists n r e, In (n, r, RType 65, e) h /\ r_type r = 64 /\ r_tok r = TSess id /\ r_ok r = true.
Definition ready_by (h : list entry) (id : nat) : Prop :=
  exists n r e, In (n, r, RType 67, e) h /\ r_type r = 66 /\ r_tok r = TSess id /\ r_ok r = true /\ r_enc r = true.
Definition hmac_by (h : list entry) (id : nat) : Prop :=
  exists n r e, In (n, r, RType 67, e) h /\ r_type r = 66 /\ r_tok r = TSess id /\ r_ok r = true /\ r_enc r = true /\ r_hmac r = true.
Definition started_by (h : list entry) (id : nat) (p : proto) : Prop :=
  exists r t e, In (id, r, RType t, e) h /\ is_start (r_type r) = true /\ proto_of (r_type r) = p /\ r_ok r = true /\ t <> 255.

Definition Inv (st : server) (h : list entry) : Prop :=
  forall id s, nth_error st id = Some s ->
    (s_proved s = true -> proved_by h id) /\ (s_ready s = true -> ready_by h id) /\
    (s_hmac s = true -> hmac_by h id) /\ (s_started s = true -> started_by h id (s_proto s)).

Lemma respond_start t p r rt s2 eff :
  is_start t = true -> p = proto_of t -> respond t (fresh p) r = (rt, s2, eff) ->
  eff = [] /\ s_proved s2 = false /\ s_ready s2 = false /\ s_hmac s2 = false /\ s_proto s2 = p /\
  (rt <> 255 -> r_ok r = true) /\ (rt = 255 -> s_started s2 = false).
Proof.
  unfold is_start. intros IS -> R.
  assert (C : t = 10 \/ t = 20 \/ t = 30 \/ t = 60).
  { repeat (apply orb_true_iff in IS as [IS|IS]); apply N.eqb_eq in IS; auto. }
  destruct C as [-> | [-> | [-> | ->]]]; unfold respond in R; cbv - [r_ok] in R; destruct (r_ok r);
    injection R as <- <- <-; cbn;
    repeat split; auto; intros; try discriminate; try congruence.
Qed.

Lemma respond_started t s r rt s2 eff :
  is_start t = false -> respond t s r = (rt, s2, eff) -> s_started s2 = true -> s_started s = true.
Proof.
  unfold respond, is_start. intros IS H.
  destruct (s_proto s) eqn:P;
  repeat match type of H with
  | context [if ?c then _ else _] => destruct c eqn:?
  end; inversion H; subst; clear H; cbn; auto;
  repeat match goal with
  | H : (_ =? _) = true |- _ => apply N.eqb_eq in H
  | H : (_ && _)%bool = true |- _ => apply andb_true_iff in H as [? ?]
  end; subst; auto; try discriminate.
Qed.

Lemma In_app_l {A} (x : A) l y : In x l -> In x (l ++ [y]).
Proof. intros. apply in_or_app. now left. Qed.
Lemma In_app_last {A} (l : list A) y : In y (l ++ [y]).
Proof. apply in_or_app. right. now left. Qed.

Lemma inv_weaken h y id :
  (proved_by h id -> proved_by (h ++ [y]) id) /\ (ready_by h id -> ready_by (h ++ [y]) id) /\
  (hmac_by h id -> hmac_by (h ++ [y]) id) /\ (forall p, started_by h id p -> started_by (h ++ [y]) id p).
Proof.
  unfold proved_by, ready_by, hmac_by, started_by. repeat split; intros;
  repeat match goal with H : exists _, _ |- _ => destruct H | H : _ /\ _ |- _ => destruct H end;
  do 3 eexists; (split; [apply In_app_l; eassumption|]); auto 10.
Qed.

Theorem reach_inv st h : reach st h -> Inv st h.
Proof.
  induction 1 as [|st h r st' resp eff RCH IH HS].
  - intros id s N. destruct id; discriminate.
  - intros id' s' N. set (y := (length st, r, resp, eff)).
    destruct (inv_weaken h y id') as [Wp [Wr [Wh Ws]]].
    pose proof (handle_origin _ _ _ _ _ HS id' s' N) as O.
    destruct O as [s N0 SF | s rt s2 L IS R RT -> SF GT | rt s2 -> IS R RT -> SF | s2 -> IS AL -> -> SF [rt [e [R ->]]]].
    + destruct SF as [F0 [F1 [F2 [F3 [F4 F5]]]]]. destruct (IH id' s N0) as [I1 [I2 [I3 I4]]].
      rewrite F0, F1, F2, F3, F4. repeat split; intros; auto.
    + apply lookup_some in L as [TK [N0 [AL LT]]]. destruct (IH id' s N0) as [I1 [I2 [I3 I4]]].
      destruct SF as [F0 [F1 [F2 [F3 [F4 F5]]]]]. rewrite F0, F1, F2, F3, F4.
      destruct (respond_flags _ _ _ _ _ _ R) as [P1 [P2 [P3 [_ P5]]]].
      repeat split.
      * intros X. destruct (P1 X) as [X0|[T [RT2 [OK _]]]]; [auto|].
        subst rt. exists (length st), r, eff. repeat split; auto. apply In_app_last.
      * intros X. destruct (P3 X) as [X0|[T [RT2 OK]]]; [auto|].
        subst rt. exists (length st), r, eff. repeat split; auto; [apply In_app_last|].
        apply GT. unfold needs_tunnel. rewrite T. reflexivity.
      * intros X. destruct (P2 X) as [X0|[T [RT2 [OK HM]]]]; [auto|].
        subst rt. exists (length st), r, eff. repeat split; auto; [apply In_app_last|].
        apply GT. unfold needs_tunnel. rewrite T. reflexivity.
      * intros X. rewrite P5. apply Ws, I4. eapply respond_started; eauto.
    + destruct SF as [F0 [F1 [F2 [F3 [F4 F5]]]]]. rewrite F0, F1, F2, F3, F4.
      destruct (respond_start _ _ _ _ _ _ IS eq_refl R) as [_ [Q1 [Q2 [Q3 [Q4 [Q5 _]]]]]].
      rewrite Q1, Q2, Q3, Q4. repeat split; intros; try discriminate.
      exists r, rt, eff. repeat split; auto. apply In_app_last.
    + destruct SF as [F0 [F1 [F2 [F3 [F4 F5]]]]]. rewrite F0, F1, F2, F3, F4.
      destruct (respond_start _ _ _ _ _ _ IS eq_refl R) as [_ [Q1 [Q2 [Q3 [Q4 [_ Q6]]]]]].
      rewrite Q1, Q2, Q3, (Q6 eq_refl). repeat split; intros; discriminate.
Qed.

(* ---- what a response / an effect tells about the step that produced it ---- *)
Lemma proto_eqb_eq a b : proto_eqb a b = true -> a = b.
Proof. destruct a, b; cbn; congruence. Qed.

Lemma handle_cases st r st' resp eff : handle st r = (st', resp, eff) ->
  (eff = [] /\ (resp = RNoBody \/ resp = RType 255 \/ resp = RType 0)) \/
  (exists rt s2, is_start (r_type r) = true /\
     respond (r_type r) (fresh (proto_of (r_type r))) r = (rt, s2, eff) /\ rt <> 255 /\ resp = RType rt) \/
  (exists id s rt s2, is_start (r_type r) = false /\ lookup st (r_tok r) = Some (id, s) /\
     s_proto s = proto_of (r_type r) /\ respond (r_type r) s r = (rt, s2, eff) /\ rt <> 255 /\ resp = RType rt /\
     (needs_tunnel (r_type r) = true -> s_proved s = true /\ r_enc r = true)).
Proof.
  unfold handle. intros H.
  destruct (r_type r =? 255) eqn:T255.
  { left. destruct (lookup st (r_tok r)) as [[id s]|]; inversion H; auto. }
  assert (START : forall p, p = proto_of (r_type r) -> is_start (r_type r) = true -> handle_start st p r = (st', resp, eff) ->
    (eff = [] /\ (resp = RNoBody \/ resp = RType 255 \/ resp = RType 0)) \/
    (exists rt s2, is_start (r_type r) = true /\
       respond (r_type r) (fresh (proto_of (r_type r))) r = (rt, s2, eff) /\ rt <> 255 /\ resp = RType rt) \/
    (exists id s rt s2, is_start (r_type r) = false /\ lookup st (r_tok r) = Some (id, s) /\
       s_proto s = proto_of (r_type r) /\ respond (r_type r) s r = (rt, s2, eff) /\ rt <> 255 /\ resp = RType rt /\
       (needs_tunnel (r_type r) = true -> s_proved s = true /\ r_enc r = true))).
  { intros p -> IS HS. unfold handle_start in HS.
    destruct (respond (r_type r) (fresh (proto_of (r_type r))) r) as [[rt s2] e2] eqn:R.
    destruct (rt =? 255) eqn:RT; inversion HS; subst; [left; auto|].
    right. left. exists rt, s2. repeat split; auto. now apply N.eqb_neq. }
  assert (CONT : forall p, p = proto_of (r_type r) -> is_start (r_type r) = false -> handle_cont st p r = (st', resp, eff) ->
    (eff = [] /\ (resp = RNoBody \/ resp = RType 255 \/ resp = RType 0)) \/
    (exists rt s2, is_start (r_type r) = true /\
       respond (r_type r) (fresh (proto_of (r_type r))) r = (rt, s2, eff) /\ rt <> 255 /\ resp = RType rt) \/
    (exists id s rt s2, is_start (r_type r) = false /\ lookup st (r_tok r) = Some (id, s) /\
       s_proto s = proto_of (r_type r) /\ respond (r_type r) s r = (rt, s2, eff) /\ rt <> 255 /\ resp = RType rt /\
       (needs_tunnel (r_type r) = true -> s_proved s = true /\ r_enc r = true))).
  { intros p -> IS HC. unfold handle_cont in HC.
    destruct (lookup st (r_tok r)) as [[id s]|] eqn:L; [|inversion HC; left; auto].
    destruct (proto_eqb (s_proto s) (proto_of (r_type r))) eqn:PE; cbn [negb] in HC; [|inversion HC; left; auto].
    apply proto_eqb_eq in PE.
    destruct (needs_tunnel (r_type r) && negb (s_proved s && r_enc r))%bool eqn:NT; [inversion HC; left; auto|].
    assert (GT : needs_tunnel (r_type r) = true -> s_proved s = true /\ r_enc r = true).
    { intros G. rewrite G in NT. cbn in NT. apply negb_false_iff in NT. now apply andb_true_iff in NT. }
    destruct (respond (r_type r) s r) as [[rt s2] e2] eqn:R.
    destruct (rt =? 255) eqn:RT; [inversion HC; left; auto|].
    right. right. exists id, s, rt, s2.
    destruct (is_final rt); inversion HC; subst;
      (split; [first [exact IS|reflexivity]|]; split; [first [exact L|reflexivity]|]; split; [exact PE|]; split; [first [exact R|reflexivity]|]; split; [now apply N.eqb_neq|]; split; [reflexivity|exact GT]). }
  destruct (proto_of (r_type r)) eqn:PO.
  5: { inversion H. left. auto. }
  all: destruct (is_start (r_type r)) eqn:IS; [apply (START _ eq_refl eq_refl H)|apply (CONT _ eq_refl eq_refl H)].
Qed.

(* C02: SetupDevice is answered, later TO2 messages are accepted, modules run and vouchers are replaced only in a
   session in which a ProveDevice passed every check, and only for messages inside that session's tunnel *)
Theorem to2_setup_gate st h r st' eff :
  reach st h -> handle st r = (st', RType 65, eff) ->
  r_type r = 64 /\ r_ok r = true /\ exists id, r_tok r = TSess id /\ started_by h id PTO2.
Proof.
  intros RCH H. destruct (handle_cases _ _ _ _ _ H) as [[_ [X|[X|X]]]|[[rt [s2 [IS [R [NE X]]]]]|[id [s [rt [s2 [IS [L [P [R [NE [X GT]]]]]]]]]]]];
    try discriminate; inversion X; subst rt.
  - destruct (respond_start _ _ _ _ _ _ IS eq_refl R) as [_ [_ [_ [_ [Q _]]]]].
    destruct (respond_spec _ _ _ _ _ _ R) as [_ [_ [_ [_ [_ [S65 _]]]]]]. destruct (S65 eq_refl) as [_ [T _]].
    rewrite T in IS. discriminate.
  - destruct (respond_spec _ _ _ _ _ _ R) as [_ [_ [_ [_ [_ [S65 _]]]]]].
    destruct (S65 eq_refl) as [PR [T [ST OK]]].
    apply lookup_some in L as [TK [N [AL LT]]].
    repeat split; auto. exists id. split; [exact TK|].
    destruct (reach_inv _ _ RCH id s N) as [_ [_ [_ I4]]]. rewrite <- PR. now apply I4.
Qed.

Theorem to2_tunnel_gate st h r st' t eff :
  reach st h -> handle st r = (st', RType t, eff) ->
  (t = 67 \/ t = 69 \/ t = 71 \/ In EModule eff \/ In EReplace eff) ->
  exists id, r_tok r = TSess id /\ r_enc r = true /\ proved_by h id.
Proof.
  intros RCH H C. destruct (handle_cases _ _ _ _ _ H) as [[E [X|[X|X]]]|[[rt [s2 [IS [R [NE X]]]]]|[id [s [rt [s2 [IS [L [P [R [NE [X GT]]]]]]]]]]]].
  - discriminate.
  - inversion X; subst. destruct C as [C|[C|[C|[C|C]]]]; try discriminate; contradiction.
  - inversion X; subst. destruct C as [C|[C|[C|[C|C]]]]; try discriminate; contradiction.
  - inversion X; subst rt. destruct (respond_start _ _ _ _ _ _ IS eq_refl R) as [E _]. subst eff.
    assert (t = 11 \/ t = 21 \/ t = 31 \/ t = 61).
    { unfold is_start in IS. unfold respond in R.
      repeat (apply orb_true_iff in IS as [IS|IS]); apply N.eqb_eq in IS; rewrite IS in R; cbv - [r_ok] in R;
        destruct (r_ok r); inversion R; subst; auto; contradiction. }
    destruct C as [C|[C|[C|[C|C]]]]; try contradiction; lia.
  - inversion X; subst rt.
    assert (T : needs_tunnel (r_type r) = true /\ s_proto s = PTO2).
    { destruct (respond_spec _ _ _ _ _ _ R) as [_ [_ [SM [SR [_ [_ [_ S6]]]]]]].
      assert (TT : s_proto s = PTO2 /\ (r_type r = 66 \/ r_type r = 68 \/ r_type r = 70)).
      { destruct C as [C|[C|[C|[C|C]]]].
        - apply S6. auto.
        - apply S6. auto.
        - apply S6. auto.
        - destruct (SM C) as [PS [TT _]]. auto.
        - destruct (SR C) as [PS [TT _]]. auto. }
      destruct TT as [PS [TT|[TT|TT]]]; split; auto; unfold needs_tunnel; rewrite TT; reflexivity. }
    destruct T as [NT PS]. destruct (GT NT) as [PV EN].
    apply lookup_some in L as [TK [N [AL LT]]].
    exists id. repeat split; auto. destruct (reach_inv _ _ RCH id s N) as [I1 _]. now apply I1.
Qed.

(* C06 / C07 / C08: every persistent effect and the TO1 release come from the protocol's second message, passing every
   check, in a live session that the protocol's first message started *)
Theorem second_message_gate st h r st' t eff :
  reach st h -> handle st r = (st', RType t, eff) ->
  (In EDIVoucher eff \/ In ERVBlob eff \/ t = 33) ->
  exists id p, r_tok r = TSess id /\ r_ok r = true /\ started_by h id p /\
    ((In EDIVoucher eff /\ p = PDI /\ r_type r = 12 /\ t = 13) \/
     (In ERVBlob eff /\ p = PTO0 /\ r_type r = 22 /\ t = 23) \/
     (t = 33 /\ p = PTO1 /\ r_type r = 32)).
Proof.
  intros RCH H C. destruct (handle_cases _ _ _ _ _ H) as [[E [X|[X|X]]]|[[rt [s2 [IS [R [NE X]]]]]|[id [s [rt [s2 [IS [L [P [R [NE [X GT]]]]]]]]]]]].
  - discriminate.
  - inversion X; subst. destruct C as [C|[C|C]]; try discriminate; contradiction.
  - inversion X; subst. destruct C as [C|[C|C]]; try discriminate; contradiction.
  - inversion X; subst rt. destruct (respond_spec _ _ _ _ _ _ R) as [S1 [S2 [_ [_ [S5 _]]]]].
    assert (TT : r_type r = 12 \/ r_type r = 22 \/ r_type r = 32).
    { destruct C as [C|[C|C]]; [destruct (S1 C) as [_ [T _]]|destruct (S2 C) as [_ [T _]]|destruct (S5 C) as [_ [T _]]]; auto. }
    unfold is_start in IS. destruct TT as [T|[T|T]]; rewrite T in IS; discriminate.
  - inversion X; subst rt. destruct (respond_spec _ _ _ _ _ _ R) as [S1 [S2 [_ [_ [S5 _]]]]].
    apply lookup_some in L as [TK [N [AL LT]]].
    destruct (reach_inv _ _ RCH id s N) as [_ [_ [_ I4]]].
    exists id, (s_proto s).
    destruct C as [C|[C|C]].
    + destruct (S1 C) as [PR [T [RT [ST OK]]]].
      split; [exact TK|]. split; [exact OK|]. split; [now apply I4|]. left. rewrite PR. auto.
    + destruct (S2 C) as [PR [T [RT [ST OK]]]].
      split; [exact TK|]. split; [exact OK|]. split; [now apply I4|]. right. left. rewrite PR. auto.
    + destruct (S5 C) as [PR [T [ST OK]]].
      split; [exact TK|]. split; [exact OK|]. split; [now apply I4|]. right. right. rewrite PR. auto.
Qed.

(* a session whose key exchange completed was started (ProveDevice is only accepted in a started session) *)
Lemma respond_proved_started t s r rt s2 eff :
  respond t s r = (rt, s2, eff) -> (s_proved s = true -> s_started s = true) -> s_proved s2 = true -> s_started s2 = true.
Proof.
  unfold respond. intros H IMP.
  destruct (s_proto s) eqn:P;
  repeat match type of H with
  | context [if ?c then _ else _] => destruct c eqn:?
  end; inversion H; subst; clear H; cbn; auto;
  repeat match goal with
  | H : (_ && _)%bool = true |- _ => apply andb_true_iff in H as [? ?]
  end; auto; try discriminate.
Qed.

Lemma proved_started st h : reach st h -> forall id s, nth_error st id = Some s -> s_proved s = true -> s_started s = true.
Proof.
  induction 1 as [|st h r st' resp eff RCH IH HS]; intros id s N PV.
  - destruct id; discriminate.
  - pose proof (handle_origin _ _ _ _ _ HS id s N) as O.
    destruct O as [s0 N0 SF | s0 rt s2 L IS R RT E SF GT0 | rt s2 E IS R RT E2 SF | s2 E IS AL E1 E2 SF [rt [e [R E3]]]].
    + destruct SF as [_ [F1 [F2 _]]]. rewrite F1. apply (IH id s0 N0). congruence.
    + destruct SF as [_ [F1 [F2 _]]]. rewrite F1. apply lookup_some in L as [_ [N0 _]].
      eapply respond_proved_started; [exact R|apply (IH id s0 N0)|congruence].
    + destruct SF as [_ [_ [F2 _]]]. destruct (respond_start _ _ _ _ _ _ IS eq_refl R) as [_ [Q1 _]]. congruence.
    + destruct SF as [_ [_ [F2 _]]]. destruct (respond_start _ _ _ _ _ _ IS eq_refl R) as [_ [Q1 _]]. congruence.
Qed.

(* C08: a voucher is replaced only through 60, 64 (verified), 66 (carrying the replacement HMAC), 70 in one session ... *)
Theorem replace_chain_partial st h r st' t eff :
  reach st h -> handle st r = (st', RType t, eff) -> In EReplace eff ->
  exists id, r_tok r = TSess id /\ r_type r = 70 /\ r_ok r = true /\ r_enc r = true /\
    started_by h id PTO2 /\ proved_by h id /\ hmac_by h id.
Proof.
  intros RCH H C.
  destruct (to2_tunnel_gate _ _ _ _ _ _ RCH H (or_intror (or_intror (or_intror (or_intror C))))) as [id [TK [EN PB]]].
  destruct (handle_cases _ _ _ _ _ H) as [[E _]|[[rt [s2 [IS [R [NE X]]]]]|[id' [s [rt [s2 [IS [L [P [R [NE [X GT]]]]]]]]]]]].
  - subst. contradiction.
  - destruct (respond_start _ _ _ _ _ _ IS eq_refl R) as [E _]. subst. contradiction.
  - destruct (respond_spec _ _ _ _ _ _ R) as [_ [_ [_ [SR _]]]]. destruct (SR C) as [PS [T [RT [HM OK]]]].
    apply lookup_some in L as [TK' [N [AL LT]]]. rewrite TK in TK'. inversion TK'; subst id'.
    destruct (reach_inv _ _ RCH id s N) as [_ [_ [I3 I4]]].
    assert (PV : s_proved s = true) by (apply GT; unfold needs_tunnel; rewrite T; reflexivity).
    pose proof (proved_started _ _ RCH id s N PV) as ST.
    exists id. repeat split; auto. rewrite <- PS. now apply I4.
Qed.

(* ... but NOT only after the service-info phase completed: Done is accepted right after DeviceServiceInfoReady *)
Definition req (t : N) (id : nat) (hm : bool) : request := mkreq t (TSess id) true true hm.
Definition skip_serviceinfo : list request := [req 60 0 false; req 62 0 false; req 64 0 false; req 66 0 true; req 70 0 false].

Theorem replace_without_serviceinfo_refuted :
  exists rs, (forall r, In r rs -> r_type r <> 68) /\
             exists st out, run [] rs = (st, out) /\ In (RType 71, [EReplace]) out.
Proof.
  exists skip_serviceinfo. split.
  - intros r H. cbn in H. repeat (destruct H as [<-|H]; [cbn; discriminate|]). contradiction.
  - eexists. eexists. split; [vm_compute; reflexivity|]. cbn. auto 10.
Qed.

(* C08: a request whose token is missing, forged, damaged, or names a finished / errored session, and that is not a
   protocol's first message, gets an error (or, for an error message, no reply body), has no effect and changes nothing *)
Theorem bad_token_no_effect st r st' resp eff :
  lookup st (r_tok r) = None -> is_start (r_type r) = false -> handle st r = (st', resp, eff) ->
  st' = st /\ eff = [] /\ (resp = RType 255 \/ resp = RNoBody \/ resp = RType 0).
Proof.
  unfold handle, handle_cont. intros L IS H. rewrite L, IS in H.
  destruct (r_type r =? 255); [inversion H; auto|].
  destruct (proto_of (r_type r)); inversion H; auto.
Qed.

(* after an error response or a protocol's final response the session is dead *)
Theorem dead_after_final_or_error st r st' t eff id s :
  handle st r = (st', RType t, eff) -> lookup st (r_tok r) = Some (id, s) -> is_start (r_type r) = false ->
  (t = 255 /\ proto_of (r_type r) <> PNone) \/ is_final t = true -> lookup st' (TSess id) = None.
Proof.
  unfold handle, handle_cont. intros H L IS C. rewrite L, IS in H.
  destruct (r_type r =? 255); [discriminate|].
  apply lookup_some in L as [_ [N [_ LT]]].
  assert (K : forall x, lookup (update st id (kill x)) (TSess id) = None).
  { intros x. unfold lookup. rewrite nth_update_same by assumption. reflexivity. }
  destruct (proto_of (r_type r)) eqn:PO;
    try (destruct (negb (proto_eqb (s_proto s) _)); [inversion H; subst; apply K|];
         destruct (needs_tunnel (r_type r) && negb (s_proved s && r_enc r))%bool; [inversion H; subst; apply K|];
         destruct (respond (r_type r) s r) as [[rt s2] e2];
         destruct (rt =? 255) eqn:RT; [inversion H; subst; apply K|];
         destruct (is_final rt) eqn:FI; inversion H; subst; [apply K|];
         destruct C as [[C _]|C]; [apply N.eqb_neq in RT; contradiction|congruence]).
  destruct C as [[_ C]|C]; [contradiction|]. inversion H; subst. discriminate.
Qed.

(* a dead session never comes back: no later request, whatever its token, revives it *)
Lemma lookup_none_update st id id' x : lookup st (TSess id) = None -> id <> id' -> lookup (update st id' x) (TSess id) = None.
Proof. unfold lookup. intros H NE. rewrite nth_update_other by congruence. exact H. Qed.

Theorem dead_forever st r st' resp eff id :
  (id < length st)%nat -> lookup st (TSess id) = None -> handle st r = (st', resp, eff) -> lookup st' (TSess id) = None.
Proof.
  intros LT D H.
  assert (APP : forall x, lookup (st ++ [x]) (TSess id) = None).
  { intros x. unfold lookup in *. rewrite nth_error_app1 by exact LT. exact D. }
  assert (UPD : forall id' s x, lookup st (r_tok r) = Some (id', s) -> lookup (update st id' x) (TSess id) = None).
  { intros id' s x L. apply lookup_none_update; [exact D|]. intros ->. pose proof L as L2. apply lookup_some in L2 as [E _].
    rewrite E in L. rewrite D in L. discriminate. }
  unfold handle in H.
  destruct (r_type r =? 255).
  { destruct (lookup st (r_tok r)) as [[id' s]|] eqn:L; inversion H; subst; [eapply UPD; first [exact L|reflexivity]|exact D]. }
  destruct (proto_of (r_type r)); try (inversion H; subst; exact D);
    (destruct (is_start (r_type r));
     [unfold handle_start in H; destruct (respond _ _ _) as [[rt s2] e2]; destruct (rt =? 255); inversion H; subst; apply APP|];
     unfold handle_cont in H; destruct (lookup st (r_tok r)) as [[id' s]|] eqn:L; [|inversion H; subst; exact D];
     destruct (negb _); [inversion H; subst; eapply UPD; first [exact L|reflexivity]|];
     destruct (_ && _)%bool; [inversion H; subst; eapply UPD; first [exact L|reflexivity]|];
     destruct (respond _ _ _) as [[rt s2] e2]; destruct (rt =? 255); [inversion H; subst; eapply UPD; first [exact L|reflexivity]|];
     destruct (is_final rt); inversion H; subst; eapply UPD; first [exact L|reflexivity]).
Qed.

(* C08 / C16: an owner module runs only in a session that proved the device and announced readiness (66 accepted),
   for an in-tunnel DeviceServiceInfo that passes every check *)
Theorem module_gate st h r st' t eff :
  reach st h -> handle st r = (st', RType t, eff) -> In EModule eff ->
  exists id, r_tok r = TSess id /\ r_type r = 68 /\ t = 69 /\ r_ok r = true /\ r_enc r = true /\
    proved_by h id /\ ready_by h id.
Proof.
  intros RCH H C.
  destruct (to2_tunnel_gate _ _ _ _ _ _ RCH H (or_intror (or_intror (or_intror (or_introl C))))) as [id [TK [EN PB]]].
  destruct (handle_cases _ _ _ _ _ H) as [[E _]|[[rt [s2 [IS [R [NE X]]]]]|[id' [s [rt [s2 [IS [L [P [R [NE [X GT]]]]]]]]]]]].
  - subst. contradiction.
  - destruct (respond_start _ _ _ _ _ _ IS eq_refl R) as [E _]. subst. contradiction.
  - destruct (respond_spec _ _ _ _ _ _ R) as [_ [_ [SM _]]]. destruct (SM C) as [PS [T [RT [RD OK]]]].
    apply lookup_some in L as [TK' [N [AL LT]]]. rewrite TK in TK'. inversion TK'; subst id'.
    inversion X; subst.
    exists id. repeat split; auto.
    destruct (reach_inv _ _ RCH id s N) as [_ [I2 _]]. now apply I2.
Qed.

(* [run] produces exactly the reachable states: the per-step theorems apply to every prefix of every history *)
Fixpoint run_from (st : server) (h : list entry) (rs : list request) : server * list entry :=
  match rs with
  | [] => (st, h)
  | r :: rest => let '(st', resp, eff) := handle st r in run_from st' (h ++ [(length st, r, resp, eff)]) rest
  end.

Theorem run_reach rs : forall st h, reach st h -> reach (fst (run_from st h rs)) (snd (run_from st h rs)).
Proof.
  induction rs as [|r rest IH]; intros st h RCH; cbn [run_from]; [exact RCH|].
  destruct (handle st r) as [[st' resp] eff] eqn:HS. apply IH. econstructor; eauto.
Qed.

Theorem run_from_run rs : forall st h, fst (run_from st h rs) = fst (run st rs) /\
  map (fun e : entry => (snd (fst e), snd e)) (snd (run_from st h rs)) = map (fun e : entry => (snd (fst e), snd e)) h ++ snd (run st rs).
Proof.
  induction rs as [|r rest IH]; intros st h; cbn [run_from run].
  - split; [reflexivity|now rewrite app_nil_r].
  - destruct (handle st r) as [[st' resp] eff] eqn:HS.
    destruct (IH st' (h ++ [(length st, r, resp, eff)])) as [A B].
    destruct (run st' rest) as [st'' out] eqn:RR. cbn [fst snd] in *. split; [exact A|].
    rewrite B, map_app, <- app_assoc. reflexivity.
Qed.

(* C02 over whole histories: as long as no ProveDevice passing every check was received, the TO2 responder has
   answered nothing beyond ProveOVHdr / OVNextEntry and errors, and no module ran and no voucher was replaced *)
Definition served_beyond_header (x : entry) : Prop :=
  let '(_, _, resp, eff) := x in
  resp = RType 65 \/ resp = RType 67 \/ resp = RType 69 \/ resp = RType 71 \/ In EModule eff \/ In EReplace eff.

Theorem no_proof_no_service st h :
  reach st h ->
  (forall n r resp e, In (n, r, resp, e) h -> r_type r = 64 -> r_ok r = false) ->
  forall x, In x h -> ~ served_beyond_header x.
Proof.
  induction 1 as [|st h r st' resp eff RCH IH HS]; intros NOK x IN; [contradiction|].
  assert (NOK' : forall n r resp e, In (n, r, resp, e) h -> r_type r = 64 -> r_ok r = false).
  { intros n r0 resp0 e IN0. apply (NOK n r0 resp0 e). apply in_or_app. now left. }
  apply in_app_or in IN as [IN|[<-|[]]]; [now apply IH|].
  assert (NP : forall id, ~ proved_by h id).
  { intros id (n & r0 & e & IN0 & T & _ & OK). rewrite (NOK' _ _ _ _ IN0 T) in OK. discriminate. }
  cbn. intros [E|[E|[E|[E|[E|E]]]]]; subst.
  - destruct (to2_setup_gate _ _ _ _ _ RCH HS) as [T [OK _]].
    rewrite (NOK (length st) r (RType 65) eff) in OK; [discriminate| |exact T]. apply in_or_app. right. now left.
  - destruct (to2_tunnel_gate _ _ _ _ _ _ RCH HS (or_introl eq_refl)) as [id [_ [_ PB]]]. exact (NP id PB).
  - destruct (to2_tunnel_gate _ _ _ _ _ _ RCH HS (or_intror (or_introl eq_refl))) as [id [_ [_ PB]]]. exact (NP id PB).
  - destruct (to2_tunnel_gate _ _ _ _ _ _ RCH HS (or_intror (or_intror (or_introl eq_refl)))) as [id [_ [_ PB]]]. exact (NP id PB).
  - destruct resp as [t|].
    + destruct (to2_tunnel_gate _ _ _ _ _ _ RCH HS (or_intror (or_intror (or_intror (or_introl E))))) as [id [_ [_ PB]]]. exact (NP id PB).
    + destruct (handle_cases _ _ _ _ _ HS) as [[E0 _]|[[rt [s2 [_ [_ [_ X]]]]]|[id [s [rt [s2 [_ [_ [_ [_ [_ [X _]]]]]]]]]]]]; [subst; contradiction|discriminate|discriminate].
  - destruct resp as [t|].
    + destruct (to2_tunnel_gate _ _ _ _ _ _ RCH HS (or_intror (or_intror (or_intror (or_intror E))))) as [id [_ [_ PB]]]. exact (NP id PB).
    + destruct (handle_cases _ _ _ _ _ HS) as [[E0 _]|[[rt [s2 [_ [_ [_ X]]]]]|[id [s [rt [s2 [_ [_ [_ [_ [_ [X _]]]]]]]]]]]]; [subst; contradiction|discriminate|discriminate].
Qed.

(* ---- C19: sessions do not interfere (any interleaving of atomic requests) ---- *)
(* a request that does not present session id's token leaves that session exactly as it was *)
Theorem handle_frame st r st' resp eff id :
  (id < length st)%nat -> (forall s, lookup st (r_tok r) <> Some (id, s)) ->
  handle st r = (st', resp, eff) -> nth_error st' id = nth_error st id.
Proof.
  intros LT NT H.
  assert (APP : forall x, nth_error (st ++ [x]) id = nth_error st id) by (intros; now rewrite nth_error_app1).
  assert (UPD : forall id' s x, lookup st (r_tok r) = Some (id', s) -> nth_error (update st id' x) id = nth_error st id).
  { intros id' s x L. apply nth_update_other. intros ->. exact (NT s L). }
  unfold handle in H.
  destruct (r_type r =? 255).
  { destruct (lookup st (r_tok r)) as [[id' s]|] eqn:L; inversion H; subst; [eapply UPD; reflexivity|reflexivity]. }
  destruct (proto_of (r_type r)); try (inversion H; subst; reflexivity);
    (destruct (is_start (r_type r));
     [unfold handle_start in H; destruct (respond _ _ _) as [[rt s2] e2]; destruct (rt =? 255); inversion H; subst; apply APP|];
     unfold handle_cont in H; destruct (lookup st (r_tok r)) as [[id' s]|] eqn:L; [|inversion H; subst; reflexivity];
     destruct (negb _); [inversion H; subst; eapply UPD; reflexivity|];
     destruct (_ && _)%bool; [inversion H; subst; eapply UPD; reflexivity|];
     destruct (respond _ _ _) as [[rt s2] e2]; destruct (rt =? 255); [inversion H; subst; eapply UPD; reflexivity|];
     destruct (is_final rt); inversion H; subst; eapply UPD; reflexivity).
Qed.

(* what a request presenting session id's token gets — response, effects, and the session's next state — depends on
   that session's own state only, not on how many or which other sessions exist *)
Theorem handle_local st1 st2 r id :
  r_tok r = TSess id -> is_start (r_type r) = false -> nth_error st1 id = nth_error st2 id ->
  (id < length st1)%nat -> (id < length st2)%nat ->
  snd (fst (handle st1 r)) = snd (fst (handle st2 r)) /\ snd (handle st1 r) = snd (handle st2 r) /\
  nth_error (fst (fst (handle st1 r))) id = nth_error (fst (fst (handle st2 r))) id.
Proof.
  intros TK IS EQ L1 L2.
  assert (LK : forall st, lookup st (r_tok r) = match nth_error st id with Some s => if s_alive s then Some (id, s) else None | None => None end)
    by (intros; rewrite TK; reflexivity).
  assert (U : forall x, nth_error (update st1 id x) id = nth_error (update st2 id x) id)
    by (intros; now rewrite !nth_update_same).
  unfold handle. rewrite IS. unfold handle_cont. rewrite (LK st1), (LK st2), <- EQ.
  assert (FIN : forall (a b : server) (x : response) (e : list effect), nth_error a id = nth_error b id ->
            snd (fst (a, x, e)) = snd (fst (b, x, e)) /\ snd (a, x, e) = snd (b, x, e) /\
            nth_error (fst (fst (a, x, e))) id = nth_error (fst (fst (b, x, e))) id)
    by (intros; cbn [fst snd]; auto).
  destruct (r_type r =? 255).
  { destruct (nth_error st1 id) as [s|] eqn:N; [destruct (s_alive s)|]; apply FIN; auto; congruence. }
  destruct (proto_of (r_type r)); try (apply FIN; congruence);
    (destruct (nth_error st1 id) as [s|] eqn:N; [destruct (s_alive s)|]; try (apply FIN; congruence);
     destruct (negb _); [apply FIN; apply U|];
     destruct (_ && _)%bool; [apply FIN; apply U|];
     destruct (respond _ _ _) as [[rt s2] e2]; destruct (rt =? 255); [apply FIN; apply U|];
     destruct (is_final rt); apply FIN; apply U).
Qed.
