(* Fdo/Device.v — executable mirror of the device's side of TO2 up to the point where it decides to send its own
   ProveDevice token: to2.go verifyOwner = sendHelloDevice (checks on TO2.ProveOVHdr) + verifyVoucher (fetch every
   TO2.OVNextEntry, voucher checks of Fdo/Voucher.v, owner key = key of the last entry, signature of the to1d blob).
   Inputs are the bytes the device sent (HelloDevice) and the bytes it received; every decode uses the descriptors
   reflected from the library's message types (Gen/Types.v). *)
From FDO Require Export Fdo.Voucher Kex.Crypter.
From FDO Require Gen.Types.
Local Open Scope Z_scope.

Definition ty_prove_ovhdr : ty := Gen.Types.ty_fdo_to2_ProveOVHdr.
Definition ty_ovh_proof : ty := Gen.Types.ty_fdo_to2_ovhProof.
Definition ty_ov_next : ty := Gen.Types.ty_fdo_to2_OVNextEntry.
Definition ty_to1d : ty := Gen.Types.ty_protocol_To1d.
Definition ty_to1d_sign1 : ty := TStruct [(false, TProtHdr); (false, TMap TLabel TAny); (false, TPtr (TBstr ty_to1d)); (false, TBytes)].

Definition pubkey_eqb (a b : pubkey) : bool :=
  match a, b with
  | PubEC n i, PubEC m j => Nat.eqb n m && bytes_eqb i j
  | PubRSA i, PubRSA j => bytes_eqb i j
  | _, _ => false
  end.

(* what the device holds and sent *)
Record dev_state := mkdev {
  d_secret : bytes;          (* HMAC secret *)
  d_kalg : Z; d_kval : bytes;   (* manufacturer public key hash of the credential *)
  d_hello : bytes;           (* the encoded TO2.HelloDevice as sent *)
  d_nonce : bytes;           (* NonceTO2ProveOV in it *)
  d_kex_ok : bool            (* the configured key exchange / cipher suite are valid for the key types and available *)
}.

Inductive verdict := Proceed (owner : pubkey) (prove_dv_nonce : bytes) | Abort.

Section Device.
  Variable O_der : bool -> bytes -> bool.
  Variable O_rfc : bytes -> option Z.
  Variable O_verify : bytes -> sigscheme -> N -> bytes -> list bytes -> bool.
  Variable O_hash : N -> bytes -> bytes.
  Variable O_hmac : N -> bytes -> bytes -> bytes.
  Variable O_pubkey : val -> option pubkey.

  Notation unm := (unmarshal O_der O_rfc).
  (* cbor.NewDecoder(resp).Decode: the first item of the stream; bytes after it are not read *)
  Definition sdec (t : ty) (b : bytes) : outcome val :=
    match dec O_der O_rfc (fuel_for b) 0 t b with Ok (v, _) => Ok v | Err e => Err e | Panic p => Panic p | OutOfFuel => OutOfFuel end.

  (* a received message: its Message-Type and body *)
  Definition msg := (N * bytes)%type.

  (* sendNextOVEntry for i = 0 .. n-1 over the responses in order; stops at the first failure *)
  Fixpoint fetch_entries (i : nat) (n : nat) (resps : list msg) : option (list entry) :=
    match n with
    | O => Some []
    | S n' =>
      match resps with
      | [] => None
      | (t, b) :: rest =>
        if negb (t =? 63)%N then None else
        match sdec ty_ov_next b with
        | Ok (VList [VInt j; ev]) =>
          if negb (j =? Z.of_nat i) then None else
          match entry_of_val ev, fetch_entries (S i) n' rest with
          | Some en, Some es => Some (en :: es)
          | _, _ => None
          end
        | _ => None
        end
      end
    end.

  Definition is_ok (o : outcome unit) : bool := match o with Ok _ => true | _ => false end.

  (* verifyOwner *)
  Definition verify_owner (d : dev_state) (m61 : msg) (resps : list msg) (to1d : option bytes) : verdict :=
    let '(t61, b61) := m61 in
    if negb (t61 =? 61)%N then Abort else
    match sdec ty_prove_ovhdr b61 with
    | Ok (VList [VMap prot; VMap unprot; pl; VBytes sig]) =>
      match pl with
      | VList [ovh; VInt num; hm; VBytes nonce; _; VBytes _; VList [VInt halg; VBytes hval]; VInt _] =>
        match any_hash_of_alg halg with
        | None => Abort
        | Some hh =>
          if negb (bytes_eqb (O_hash hh (d_hello d)) hval) then Abort else
          match parse_hdr O_der O_rfc ty_pubkey 257 unprot with
          | Ok (Some pk) =>
            match O_pubkey pk with
            | None => Abort
            | Some key =>
              match sign1_verify O_der O_rfc O_verify ty_ovh_proof TBytes key prot (Some pl) None sig (VBytes []) with
              | Ok true =>
                if negb (bytes_eqb nonce (d_nonce d)) then Abort else
                match parse_hdr O_der O_rfc (TFixed 16) 256 unprot with
                | Ok (Some (VBytes pdn)) =>
                  if negb (d_kex_ok d) then Abort else
                  match fetch_entries 0 (Z.to_nat num) resps with
                  | None => Abort
                  | Some es =>
                    if negb (is_ok (verify_header O_hmac (d_secret d) ovh hm)) then Abort
                    else if negb (is_ok (verify_mfg_key O_hash ovh (d_kalg d) (d_kval d))) then Abort
                    else if negb (is_ok (verify_entries O_der O_rfc O_verify O_hash O_pubkey ovh hm es)) then Abort
                    else
                      match owner_key O_pubkey ovh es with
                      | Ok expected =>
                        if negb (pubkey_eqb key expected) then Abort else
                        match to1d with
                        | None => Proceed expected pdn
                        | Some tb =>
                          match unm ty_to1d_sign1 tb with
                          | Ok (VList [VMap tprot; _; tpl; VBytes tsig]) =>
                            let stored := match tpl with VNull => None | x => Some x end in
                            match sign1_verify O_der O_rfc O_verify ty_to1d TBytes expected tprot stored None tsig (VBytes []) with
                            | Ok true => Proceed expected pdn
                            | _ => Abort
                            end
                          | _ => Abort
                          end
                        end
                      | _ => Abort
                      end
                  end
                | _ => Abort
                end
              | _ => Abort
              end
            end
          | _ => Abort
          end
        end
      | _ => Abort                      (* null payload, or not an ovhProof *)
      end
    | _ => Abort
    end.
End Device.
