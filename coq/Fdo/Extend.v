(* Fdo/Extend.v — executable mirror of ExtendVoucher (voucher.go): the guard on the three keys involved, the choice of
   the hash algorithm (hashAlgFor), and the payload of the new entry (previous hash over header||hmac or over the last
   entry's full encoding, header-info hash, extra, next owner key).  The signature itself is produced by crypto.Signer and
   is an input here: what the model says about it is that it is a COSE_Sign1 over exactly this payload. *)
From FDO Require Export Fdo.Voucher.
Local Open Scope Z_scope.

(* what ExtendVoucher looks at in a key: ECDSA with a curve (coordinate bytes) or RSA with a modulus size (bytes) *)
Inductive kshape := KEC (n : N) | KRSA (size : N) | KOtherKey.

Definition kshape_eqb (a b : kshape) : bool :=
  match a, b with
  | KEC n, KEC m => (n =? m)%N
  | KRSA n, KRSA m => (n =? m)%N
  | _, _ => false
  end.

Definition pubkey_eqb (a b : pubkey) : bool :=
  match a, b with
  | PubEC n i, PubEC m j => Nat.eqb n m && bytes_eqb i j
  | PubRSA i, PubRSA j => bytes_eqb i j
  | _, _ => false
  end.

(* hashSizeForPubKey: P-256 -> 256, P-384 -> 384, other curves refused; RSA -> key.Size() *)
Definition hash_size (k : kshape) : option N :=
  match k with
  | KEC 32 => Some 256%N
  | KEC 48 => Some 384%N
  | KEC _ => None
  | KRSA sz => Some sz
  | KOtherKey => None
  end.

(* hashAlgFor: the smaller of the two; anything but 256/384 is an error (it was a panic before the fix of D50) *)
Definition hash_alg_for (dev owner : kshape) : outcome Z :=
  match hash_size dev, hash_size owner with
  | Some d, Some o =>
    let m := N.min d o in
    if (m =? 256)%N then Ok (-16) else if (m =? 384)%N then Ok (-43) else Err EOther
  | _, _ => Err EOther
  end.

Section Extend.
  Variable O_hash : N -> bytes -> bytes.
  Variable O_pubkey : val -> option pubkey.

  (* the three guards, in the order of the code: signer vs manufacturer key shape; signer = current owner; next owner vs
     signer shape *)
  Definition extend_guard (mfg signer next : kshape) (signer_key : pubkey) (hdr : val) (entries : list entry) : bool :=
    match signer with KOtherKey => false | _ => kshape_eqb mfg signer end &&
    match owner_key O_pubkey hdr entries with Ok k => pubkey_eqb signer_key k | _ => false end &&
    match next with KOtherKey => false | _ => kshape_eqb signer next end.

  Definition last_entry (l : list entry) : option entry := match rev l with [] => None | x :: _ => Some x end.

  Definition prev_hash (h : N) (hdr hm : val) (entries : list entry) : outcome bytes :=
    match last_entry entries with
    | None => let* hb := enc enc_fuel ty_header hdr in
              let* mb := enc enc_fuel ty_hash hm in Ok (O_hash h (hb ++ mb))
    | Some en => entry_hash O_hash h en
    end.

  (* the payload ExtendVoucher signs *)
  Definition extend_payload (alg : Z) (hdr hm : val) (entries : list entry) (extra next_pk : val) : outcome val :=
    match hash_of_alg alg, header_info hdr with
    | Some h, Some info =>
      let* ph := prev_hash h hdr hm entries in
      Ok (VList [VList [VInt alg; VBytes ph]; VList [VInt alg; VBytes (O_hash h info)]; extra; next_pk])
    | _, _ => Err EOther
    end.

  Definition extend_with (entries : list entry) (prot : list (val * val)) (unprot : val) (pl : val) (sig : bytes) : list entry :=
    entries ++ [mkentry prot unprot (Some pl) sig].
End Extend.
