(* Fdo/ExtendFacts.v — ExtendVoucher: who may extend, and that an honest extension of a verifying voucher verifies. *)
From FDO Require Import Fdo.Extend Fdo.VoucherFacts.
Local Open Scope Z_scope.

Lemma pubkey_eqb_eq a b : pubkey_eqb a b = true -> a = b.
Proof.
  destruct a as [n i|i|], b as [m j|j|]; cbn; try discriminate.
  - intros H. apply andb_true_iff in H as [N B]. apply Nat.eqb_eq in N. apply bytes_eqb_eq in B. now subst.
  - intros B. apply bytes_eqb_eq in B. now subst.
Qed.

Lemma kshape_eqb_eq a b : kshape_eqb a b = true -> a = b /\ a <> KOtherKey.
Proof.
  destruct a, b; cbn; try discriminate; intros H; apply N.eqb_eq in H; subst; split; congruence.
Qed.

Lemma last_entry_snoc l : forall x, last_entry l = Some x -> exists l', l = l' ++ [x].
Proof.
  unfold last_entry. intros x H. destruct (rev l) as [|y r] eqn:R; [discriminate|]. injection H as ->.
  exists (rev r). rewrite <- (rev_involutive l), R. reflexivity.
Qed.

Lemma last_entry_cons a b r : last_entry (a :: b :: r) = last_entry (b :: r).
Proof.
  unfold last_entry. cbn [rev]. destruct (rev r ++ [b]) as [|y t] eqn:E.
  - destruct (rev r); discriminate.
  - reflexivity.
Qed.

Section Facts.
  Variable O_der : bool -> bytes -> bool.
  Variable O_rfc : bytes -> option Z.
  Variable O_verify : bytes -> sigscheme -> N -> bytes -> list bytes -> bool.
  Variable O_hash : N -> bytes -> bytes.
  Variable O_pubkey : val -> option pubkey.

  Notation check_entry := (check_entry O_der O_rfc O_verify).
  Notation validate := (validate O_der O_rfc O_verify O_hash O_pubkey).
  Notation verify_entries := (verify_entries O_der O_rfc O_verify O_hash O_pubkey).

  (* only the current owner can extend: the guard passes only for a signer whose public key IS the key the voucher
     currently ends in, and only among keys of one kind and size (manufacturer = signer = next owner) *)
  Theorem extend_guard_owner mfg signer next signer_key hdr es :
    extend_guard O_pubkey mfg signer next signer_key hdr es = true ->
    owner_key O_pubkey hdr es = Ok signer_key /\ mfg = signer /\ signer = next /\ signer <> KOtherKey.
  Proof.
    unfold extend_guard. intros H. apply andb_true_iff in H as [H N]. apply andb_true_iff in H as [M O].
    destruct (owner_key O_pubkey hdr es) as [k| | |]; try discriminate. apply pubkey_eqb_eq in O. subst k.
    destruct signer; try discriminate; destruct next; try discriminate;
      apply kshape_eqb_eq in M as [-> _]; apply kshape_eqb_eq in N as [-> _]; repeat split; congruence.
  Qed.

  (* appending one more link to a chain that validates *)
  Lemma bind_ok {A B} (a : A) (f : A -> outcome B) : bind (Ok a) f = f a.
  Proof. reflexivity. Qed.
  Lemma validate_one k alg h ph ih a :
    validate k alg h ph ih [a] = (let* _ := check_entry k alg h ph ih a in Ok tt).
  Proof. reflexivity. Qed.
  Lemma validate_more k alg h ph ih a b r :
    validate k alg h ph ih (a :: b :: r) =
    (let* _ := check_entry k alg h ph ih a in
     let* k' := entry_key O_pubkey a in let* ph' := entry_hash O_hash h a in validate k' alg h ph' ih (b :: r)).
  Proof. reflexivity. Qed.

  (* appending one more link to a chain that validates *)
  Lemma validate_snoc en alg h ih : forall l k ph last kl phl,
    last_entry l = Some last ->
    validate k alg h ph ih l = Ok tt ->
    entry_key O_pubkey last = Ok kl -> entry_hash O_hash h last = Ok phl ->
    check_entry kl alg h phl ih en = Ok tt ->
    validate k alg h ph ih (l ++ [en]) = Ok tt.
  Proof.
    induction l as [|a l IH]; intros k ph last kl phl L V EK EH CE; [discriminate L|].
    destruct l as [|b r].
    - injection L as <-. change ([a] ++ [en]) with [a; en].
      rewrite validate_one in V. rewrite validate_more.
      destruct (check_entry k alg h ph ih a) as [[]| | |]; try discriminate V.
      rewrite bind_ok, EK, bind_ok, EH, bind_ok, validate_one, CE. reflexivity.
    - rewrite last_entry_cons in L.
      change ((a :: b :: r) ++ [en]) with (a :: b :: r ++ [en]).
      rewrite validate_more in V. rewrite validate_more.
      destruct (check_entry k alg h ph ih a) as [[]| | |]; try discriminate V. rewrite bind_ok in V |- *.
      destruct (entry_key O_pubkey a) as [k'| | |]; try discriminate V. rewrite bind_ok in V |- *.
      destruct (entry_hash O_hash h a) as [ph'| | |]; try discriminate V. rewrite bind_ok in V |- *.
      change (b :: r ++ [en]) with ((b :: r) ++ [en]). exact (IH k' ph' last kl phl L V EK EH CE).
  Qed.

  Lemma check_new k alg h ph ih prot unprot extra next_pk sig :
    sign1_verify O_der O_rfc O_verify ty_entry_payload TBytes k prot
      (Some (VList [VList [VInt alg; VBytes ph]; VList [VInt alg; VBytes ih]; extra; next_pk])) None sig (VBytes []) = Ok true ->
    check_entry k alg h ph ih
      (mkentry prot unprot (Some (VList [VList [VInt alg; VBytes ph]; VList [VInt alg; VBytes ih]; extra; next_pk])) sig) = Ok tt.
  Proof.
    intros S. unfold Voucher.check_entry. cbn [e_prot e_payload e_sig]. rewrite S. cbn [bind negb payload_fields].
    rewrite Z.eqb_refl. cbn [negb]. rewrite !bytes_eqb_refl. reflexivity.
  Qed.

  Definition nopayload (en : entry) : bool := match e_payload en with None => true | Some _ => false end.

  (* VerifyEntries on a non-empty list, as an equation under the facts it looks up *)
  Lemma verify_entries_eq hdr hm e0 rest mk mfg pl alg pv hh pk info h hb mb :
    header_mfg_key hdr = Some mk -> O_pubkey mk = Some mfg ->
    existsb nopayload (e0 :: rest) = false ->
    e_payload e0 = Some pl -> payload_fields pl = Some (alg, pv, hh, pk) ->
    header_info hdr = Some info -> hash_of_alg alg = Some h ->
    enc enc_fuel ty_header hdr = Ok hb -> enc enc_fuel ty_hash hm = Ok mb ->
    verify_entries hdr hm (e0 :: rest) = validate mfg alg h (O_hash h (hb ++ mb)) (O_hash h info) (e0 :: rest).
  Proof.
    intros MK PK EX P0 PF HI HA EH EM. unfold Voucher.verify_entries. rewrite MK, PK.
    fold nopayload. rewrite EX, P0, PF, HI, HA. unfold Voucher.e. rewrite EH, EM, !bind_ok. reflexivity.
  Qed.

  Lemma verify_entries_inv hdr hm e0 rest :
    verify_entries hdr hm (e0 :: rest) = Ok tt ->
    exists mk mfg pl alg pv hh pk info h hb mb,
      header_mfg_key hdr = Some mk /\ O_pubkey mk = Some mfg /\
      existsb nopayload (e0 :: rest) = false /\
      e_payload e0 = Some pl /\ payload_fields pl = Some (alg, pv, hh, pk) /\
      header_info hdr = Some info /\ hash_of_alg alg = Some h /\
      enc enc_fuel ty_header hdr = Ok hb /\ enc enc_fuel ty_hash hm = Ok mb /\
      validate mfg alg h (O_hash h (hb ++ mb)) (O_hash h info) (e0 :: rest) = Ok tt.
  Proof.
    unfold Voucher.verify_entries. fold nopayload.
    destruct (header_mfg_key hdr) as [mk|] eqn:MK; [|intros X; discriminate X].
    destruct (O_pubkey mk) as [mfg|] eqn:PK; [|intros X; discriminate X].
    destruct (existsb nopayload (e0 :: rest)) eqn:EX; [intros X; discriminate X|].
    destruct (e_payload e0) as [pl|] eqn:P0; [|intros X; discriminate X].
    destruct (payload_fields pl) as [[[[alg pv] hh] pk]|] eqn:PF; [|intros X; discriminate X].
    destruct (header_info hdr) as [info|] eqn:HI; [|intros X; discriminate X].
    destruct (hash_of_alg alg) as [h|] eqn:HA; [|intros X; discriminate X].
    unfold Voucher.e.
    destruct (enc enc_fuel ty_header hdr) as [hb| | |] eqn:EH; try (intros X; discriminate X). rewrite bind_ok.
    destruct (enc enc_fuel ty_hash hm) as [mb| | |] eqn:EM; try (intros X; discriminate X). rewrite bind_ok.
    intros V. exists mk, mfg, pl, alg, pv, hh, pk, info, h, hb, mb. repeat split; auto.
  Qed.

  Lemma check_entry_payload k alg h ph ih en : check_entry k alg h ph ih en = Ok tt -> nopayload en = false.
  Proof.
    unfold Voucher.check_entry, nopayload. destruct (e_payload en); [reflexivity|].
    destruct (sign1_verify _ _ _ _ _ _ _ _ _ _ _) as [[]| | |]; intros X; discriminate X.
  Qed.

  Lemma prev_hash_nil h hdr hm : prev_hash O_hash h hdr hm [] =
    (let* hb := enc enc_fuel ty_header hdr in let* mb := enc enc_fuel ty_hash hm in Ok (O_hash h (hb ++ mb))).
  Proof. reflexivity. Qed.
  Lemma owner_key_nil hdr : owner_key O_pubkey hdr [] =
    match header_mfg_key hdr with
    | Some mk => match O_pubkey mk with Some k => Ok k | None => Err EOther end
    | None => Err EType
    end.
  Proof. reflexivity. Qed.
  Lemma prev_hash_last h hdr hm l last : last_entry l = Some last -> prev_hash O_hash h hdr hm l = entry_hash O_hash h last.
  Proof. intros L. unfold prev_hash. rewrite L. reflexivity. Qed.

  Lemma extend_first hdr hm alg next_pk k mk h info hb mb plv new :
    header_mfg_key hdr = Some mk -> O_pubkey mk = Some k -> hash_of_alg alg = Some h -> header_info hdr = Some info ->
    enc enc_fuel ty_header hdr = Ok hb -> enc enc_fuel ty_hash hm = Ok mb ->
    payload_fields plv = Some (alg, O_hash h (hb ++ mb), (alg, O_hash h info), next_pk) ->
    check_entry k alg h (O_hash h (hb ++ mb)) (O_hash h info) new = Ok tt ->
    e_payload new = Some plv -> nopayload new = false ->
    verify_entries hdr hm ([] ++ [new]) = Ok tt.
  Proof.
    intros MK PK HA HI EH EM PFN CN PN NP.
    change ([] ++ [new]) with [new].
    rewrite (verify_entries_eq hdr hm new [] mk k plv alg (O_hash h (hb ++ mb)) (alg, O_hash h info) next_pk info h hb mb MK PK); try assumption.
    + rewrite validate_one, CN. reflexivity.
    + cbn [existsb]. rewrite NP. reflexivity.
  Qed.

  Lemma extend_more hdr hm e0 rest alg k h info ph new last pl0 pv hh pk :
    verify_entries hdr hm (e0 :: rest) = Ok tt ->
    e_payload e0 = Some pl0 -> payload_fields pl0 = Some (alg, pv, hh, pk) ->
    hash_of_alg alg = Some h -> header_info hdr = Some info ->
    last_entry (e0 :: rest) = Some last -> entry_key O_pubkey last = Ok k -> entry_hash O_hash h last = Ok ph ->
    check_entry k alg h ph (O_hash h info) new = Ok tt -> nopayload new = false ->
    verify_entries hdr hm ((e0 :: rest) ++ [new]) = Ok tt.
  Proof.
    intros V P0 PF HA HI L EK PH CN NP.
    apply verify_entries_inv in V.
    destruct V as (mk & mfg & pl0' & alg' & pv' & hh' & pk' & info' & h' & hb & mb & MK & PK & EX & P0' & PF' & HI' & HA' & EH & EM & V).
    rewrite P0 in P0'. injection P0' as <-. rewrite PF in PF'. injection PF' as <- <- <- <-.
    rewrite HI in HI'. injection HI' as <-. rewrite HA in HA'. injection HA' as <-.
    change ((e0 :: rest) ++ [new]) with (e0 :: rest ++ [new]).
    rewrite (verify_entries_eq hdr hm e0 (rest ++ [new]) mk mfg pl0 alg pv hh pk info h hb mb MK PK); try assumption.
    + change (e0 :: rest ++ [new]) with ((e0 :: rest) ++ [new]).
      exact (validate_snoc new alg h (O_hash h info) (e0 :: rest) mfg _ last k ph L V EK PH CN).
    + change (e0 :: rest ++ [new]) with ((e0 :: rest) ++ [new]). rewrite existsb_app, EX. cbn [existsb]. rewrite NP. reflexivity.
  Qed.

  (* an honest extension verifies: a voucher whose entries verify, extended with an entry whose payload is the one
     ExtendVoucher builds (same algorithm as the chain) and whose signature verifies under the voucher's current owner
     key, verifies again — for a chain of any length, including the first extension by the manufacturer *)
  Theorem extend_verifies hdr hm es alg extra next_pk pl prot unprot sig k :
    verify_entries hdr hm es = Ok tt ->
    owner_key O_pubkey hdr es = Ok k ->
    match es with
    | [] => True
    | e0 :: _ => exists pl0 pv hh pk, e_payload e0 = Some pl0 /\ payload_fields pl0 = Some (alg, pv, hh, pk)
    end ->
    extend_payload O_hash alg hdr hm es extra next_pk = Ok pl ->
    sign1_verify O_der O_rfc O_verify ty_entry_payload TBytes k prot (Some pl) None sig (VBytes []) = Ok true ->
    verify_entries hdr hm (extend_with es prot unprot pl sig) = Ok tt.
  Proof.
    intros V OK A EP SG. unfold extend_payload in EP.
    destruct (hash_of_alg alg) as [h|] eqn:HA; [|discriminate EP].
    destruct (header_info hdr) as [info|] eqn:HI; [|discriminate EP].
    destruct (prev_hash O_hash h hdr hm es) as [ph| | |] eqn:PH; try discriminate EP.
    rewrite bind_ok in EP. injection EP as <-. unfold extend_with.
    pose proof (check_new k alg h ph (O_hash h info) prot unprot extra next_pk sig SG) as CN.
    pose proof (check_entry_payload _ _ _ _ _ _ CN) as NP.
    destruct es as [|e0 rest].
    - clear V A. rewrite owner_key_nil in OK. rewrite prev_hash_nil in PH.
      destruct (enc enc_fuel ty_header hdr) as [hb| | |] eqn:EH; try discriminate PH. rewrite bind_ok in PH.
      destruct (enc enc_fuel ty_hash hm) as [mb| | |] eqn:EM; try discriminate PH. rewrite bind_ok in PH.
      injection PH as <-.
      destruct (header_mfg_key hdr) as [mk|] eqn:MK; [|discriminate OK].
      destruct (O_pubkey mk) as [mfg|] eqn:PK; [|discriminate OK]. injection OK as ->.
      exact (extend_first hdr hm alg next_pk k mk h info hb mb
               (VList [VList [VInt alg; VBytes (O_hash h (hb ++ mb))]; VList [VInt alg; VBytes (O_hash h info)]; extra; next_pk]) _ MK PK HA HI EH EM eq_refl CN eq_refl NP).
    - destruct A as (pl0 & pv & hh & pk & P0 & PF).
      assert (L : exists last, last_entry (e0 :: rest) = Some last).
      { unfold last_entry. destruct (rev (e0 :: rest)) eqn:R; [|eauto].
        apply (f_equal (@length _)) in R. rewrite rev_length in R. discriminate R. }
      destruct L as [last L].
      rewrite (prev_hash_last _ _ _ _ _ L) in PH.
      destruct (last_entry_snoc _ _ L) as [l' EL].
      assert (EK : entry_key O_pubkey last = Ok k).
      { rewrite EL, owner_key_last in OK. exact OK. }
      exact (extend_more hdr hm e0 rest alg k h info ph _ last pl0 pv hh pk V P0 PF HA HI L EK PH CN NP).
  Qed.

  (* and the extended voucher's owner is the key named in the new entry *)
  Theorem extend_owner hdr es prot unprot sig alg ph ih extra next_pk :
    owner_key O_pubkey hdr
      (extend_with es prot unprot (VList [VList [VInt alg; VBytes ph]; VList [VInt alg; VBytes ih]; extra; next_pk]) sig) =
    match O_pubkey next_pk with Some nk => Ok nk | None => Err EOther end.
  Proof. unfold extend_with. rewrite owner_key_last. reflexivity. Qed.
End Facts.
