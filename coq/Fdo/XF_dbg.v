From FDO Require Import Fdo.Extend Fdo.VoucherFacts.
Local Open Scope Z_scope.
Lemma t4 (O_hash : N -> bytes -> bytes) h hdr hm  : prev_hash O_hash h hdr hm [] = 
  (let* hb := enc enc_fuel ty_header hdr in let* mb := enc enc_fuel ty_hash hm in Ok (O_hash h (hb ++ mb))).
Proof. reflexivity.
Time Qed.
