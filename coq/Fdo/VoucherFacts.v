(* Fdo/VoucherFacts.v — what it means for the voucher checks to pass. *)
From FDO Require Import Cbor.Typed Cose.Sign1 Cose.Sign1Facts Fdo.Voucher Gen.Types.
Local Open Scope Z_scope.

(* the descriptor the model decodes vouchers with is the one reflected from fdo.Voucher *)
Lemma ty_voucher_is_code : ty_voucher = ty_fdo_Voucher.
Proof. reflexivity. Qed.
Lemma ty_entry_is_code : ty_entry = ty_fdo_VoucherEntry.
Proof. reflexivity. Qed.
Lemma ty_header_is_code : ty_header = ty_fdo_VoucherHeader.
Proof. reflexivity. Qed.

Section Facts.
  Variable O_der : bool -> bytes -> bool.
  Variable O_rfc : bytes -> option Z.
  Variable O_verify : bytes -> sigscheme -> N -> bytes -> list bytes -> bool.
  Variable O_hash : N -> bytes -> bytes.
  Variable O_hmac : N -> bytes -> bytes -> bytes.
  Variable O_pubkey : val -> option pubkey.

  Notation check_entry := (check_entry O_der O_rfc O_verify).
  Notation validate := (validate O_der O_rfc O_verify O_hash O_pubkey).
  Notation verify_entries := (verify_entries O_der O_rfc O_verify O_hash O_pubkey).

  (* one link: signed by the previous owner, bound to the device (header-info hash) and to what precedes it *)
  Definition link_ok (prev_key : pubkey) (alg : Z) (prev_hash info_hash : bytes) (en : entry) : Prop :=
    sign1_verify O_der O_rfc O_verify ty_entry_payload TBytes prev_key (e_prot en) (e_payload en) None (e_sig en) (VBytes []) = Ok true /\
    exists pl pa pv hv pk, e_payload en = Some pl /\ payload_fields pl = Some (pa, pv, (alg, hv), pk) /\
      hv = info_hash /\ pv = prev_hash.

  Inductive chain_ok (alg : Z) (h : N) (info_hash : bytes) : pubkey -> bytes -> list entry -> Prop :=
  | chain_nil k ph : chain_ok alg h info_hash k ph []
  | chain_last k ph en : link_ok k alg ph info_hash en -> chain_ok alg h info_hash k ph [en]
  | chain_cons k ph en k' ph' e2 rest :
      link_ok k alg ph info_hash en ->
      entry_key O_pubkey en = Ok k' -> entry_hash O_hash h en = Ok ph' ->
      chain_ok alg h info_hash k' ph' (e2 :: rest) -> chain_ok alg h info_hash k ph (en :: e2 :: rest).

  Lemma check_entry_link k alg h ph ih en : check_entry k alg h ph ih en = Ok tt -> link_ok k alg ph ih en.
  Proof.
    unfold check_entry, link_ok.
    destruct (sign1_verify _ _ _ _ _ _ _ _ _ _ _) as [ok| | |]; cbn [bind]; try discriminate.
    destruct ok; cbn [negb]; [|discriminate].
    destruct (e_payload en) as [pl|]; [|discriminate].
    destruct (payload_fields pl) as [[[[pa pv] [ha hv]] pk]|] eqn:PF; [|discriminate].
    destruct (Z.eqb_spec ha alg); cbn [negb]; [|discriminate]. subst ha.
    destruct (bytes_eqb hv ih) eqn:E1; cbn [negb]; [|discriminate].
    destruct (bytes_eqb ph pv) eqn:E2; cbn [negb]; [|discriminate].
    apply bytes_eqb_eq in E1, E2. intros _. split; [reflexivity|].
    exists pl, pa, pv, hv, pk. repeat split; auto.
  Qed.

  (* the recursion of validateNextEntry establishes the whole chain *)
  Theorem validate_chain l : forall k alg h ph ih, validate k alg h ph ih l = Ok tt -> chain_ok alg h ih k ph l.
  Proof.
    induction l as [|en rest IH]; intros k alg h ph ih; cbn [Voucher.validate]; [constructor|].
    destruct (check_entry k alg h ph ih en) as [[]| | |] eqn:CE; cbn [bind]; try discriminate.
    apply check_entry_link in CE.
    destruct rest as [|e2 rest]; [intros _; now constructor|].
    destruct (entry_key O_pubkey en) as [k'| | |] eqn:EK; cbn [bind]; try discriminate.
    destruct (entry_hash O_hash h en) as [ph'| | |] eqn:EH; cbn [bind]; try discriminate.
    intros V. eapply chain_cons; eauto.
  Qed.

  (* Voucher.VerifyEntries passing on a non-empty list: the manufacturer key parses, every payload is present, the
     chain starts from hash(header || hmac) under the manufacturer key with the algorithm of the first entry *)
  Theorem verify_entries_chain hdr hm e0 rest :
    verify_entries hdr hm (e0 :: rest) = Ok tt ->
    exists mk mfg alg h info hb mb,
      header_mfg_key hdr = Some mk /\ O_pubkey mk = Some mfg /\ hash_of_alg alg = Some h /\
      header_info hdr = Some info /\ enc enc_fuel ty_header hdr = Ok hb /\ enc enc_fuel ty_hash hm = Ok mb /\
      Forall (fun en => e_payload en <> None) (e0 :: rest) /\
      chain_ok alg h (O_hash h info) mfg (O_hash h (hb ++ mb)) (e0 :: rest).
  Proof.
    unfold Voucher.verify_entries.
    destruct (header_mfg_key hdr) as [mk|]; [|discriminate].
    destruct (O_pubkey mk) as [mfg|] eqn:PK; [|discriminate].
    destruct (existsb _ (e0 :: rest)) eqn:EX; [discriminate|].
    destruct (e_payload e0) as [pl|] eqn:P0; [|discriminate].
    destruct (payload_fields pl) as [[[[alg pv] hh] pk]|]; [|discriminate].
    destruct (header_info hdr) as [info|]; [|discriminate].
    destruct (hash_of_alg alg) as [h|] eqn:HA; [|discriminate].
    unfold Voucher.e. destruct (enc enc_fuel ty_header hdr) as [hb| | |] eqn:EH; cbn [bind]; try discriminate.
    destruct (enc enc_fuel ty_hash hm) as [mb| | |] eqn:EM; cbn [bind]; try discriminate.
    intros V. exists mk, mfg, alg, h, info, hb, mb. repeat split; auto.
    - apply Forall_forall. intros en IN N.
      assert (X : existsb (fun en => match e_payload en with None => true | Some _ => false end) (e0 :: rest) = true).
      { apply existsb_exists. exists en. split; [exact IN|now rewrite N]. }
      congruence.
    - now apply validate_chain.
  Qed.

  (* the reported owner is the key named by the last entry (or the manufacturer key when never extended) *)
  Theorem owner_key_last hdr l en : owner_key O_pubkey hdr (l ++ [en]) = entry_key O_pubkey en.
  Proof. unfold owner_key. now rewrite rev_app_distr. Qed.

  (* ---- binding: what an alteration that still passes would need ---- *)
  Lemma link_prev k alg ph ih en : link_ok k alg ph ih en ->
    exists pl pa pk, e_payload en = Some pl /\ payload_fields pl = Some (pa, ph, (alg, ih), pk).
  Proof. intros [_ (pl & pa & pv & hv & pk & E & PF & -> & ->)]. now exists pl, pa, pk. Qed.

  Lemma check_entry_prev k alg h ph ih en : check_entry k alg h ph ih en = Ok tt ->
    exists pl pa pk, e_payload en = Some pl /\ payload_fields pl = Some (pa, ph, (alg, ih), pk).
  Proof. intros H. apply check_entry_link in H. exact (link_prev _ _ _ _ _ H). Qed.

  (* an entry that is not the last is pinned by the PreviousHash of its successor: replacing it (payload, protected or
     unprotected header, signature) while the voucher still validates needs equal hashes of two entry encodings *)
  Theorem alter_nonlast_needs_collision l1 : forall k alg h ph ih en en' e2 rest,
    validate k alg h ph ih (l1 ++ en :: e2 :: rest) = Ok tt ->
    validate k alg h ph ih (l1 ++ en' :: e2 :: rest) = Ok tt ->
    exists hv, entry_hash O_hash h en = Ok hv /\ entry_hash O_hash h en' = Ok hv.
  Proof.
    induction l1 as [|x l1 IH]; intros k alg h ph ih en en' e2 rest; cbn [app Voucher.validate].
    - destruct (check_entry k alg h ph ih en) as [[]| | |]; cbn [bind]; try discriminate.
      destruct (check_entry k alg h ph ih en') as [[]| | |]; cbn [bind]; try discriminate.
      destruct (entry_key O_pubkey en) as [k1| | |]; cbn [bind]; try discriminate.
      destruct (entry_hash O_hash h en) as [p1| | |]; cbn [bind]; try discriminate.
      destruct (entry_key O_pubkey en') as [k2| | |]; cbn [bind]; try discriminate.
      destruct (entry_hash O_hash h en') as [p2| | |]; cbn [bind]; try discriminate.
      destruct (check_entry k1 alg h p1 ih e2) as [[]| | |] eqn:C1; cbn [bind]; try discriminate. intros _.
      destruct (check_entry k2 alg h p2 ih e2) as [[]| | |] eqn:C2; cbn [bind]; try discriminate. intros _.
      apply check_entry_prev in C1, C2.
      destruct C1 as (pl & pa & pk & A & B), C2 as (pl' & pa' & pk' & A' & B').
      rewrite A in A'. injection A' as <-. rewrite B in B'. injection B' as _ E _. subst p2. eauto.
    - destruct (check_entry k alg h ph ih x) as [[]| | |]; cbn [bind]; try discriminate.
      destruct l1 as [|y l1]; cbn [app] in *;
        (destruct (entry_key O_pubkey x) as [k1| | |]; cbn [bind]; try discriminate;
         destruct (entry_hash O_hash h x) as [p1| | |]; cbn [bind]; try discriminate).
      + apply (IH k1 alg h p1 ih en en' e2 rest).
      + apply (IH k1 alg h p1 ih en en' e2 rest).
  Qed.

  (* the header, the header HMAC and the device info are pinned by the first entry *)
  Theorem alter_header_needs_collision hdr hm hdr' hm' e0 rest :
    verify_entries hdr hm (e0 :: rest) = Ok tt -> verify_entries hdr' hm' (e0 :: rest) = Ok tt ->
    exists h hb mb hb' mb' info info',
      enc enc_fuel ty_header hdr = Ok hb /\ enc enc_fuel ty_hash hm = Ok mb /\
      enc enc_fuel ty_header hdr' = Ok hb' /\ enc enc_fuel ty_hash hm' = Ok mb' /\
      header_info hdr = Some info /\ header_info hdr' = Some info' /\
      O_hash h (hb ++ mb) = O_hash h (hb' ++ mb') /\ O_hash h info = O_hash h info'.
  Proof.
    intros V V'. apply verify_entries_chain in V, V'.
    destruct V as (mk & mfg & alg & h & info & hb & mb & _ & _ & HA & HI & EH & EM & _ & CH).
    destruct V' as (mk' & mfg' & alg' & h' & info' & hb' & mb' & _ & _ & HA' & HI' & EH' & EM' & _ & CH').
    assert (L : link_ok mfg alg (O_hash h (hb ++ mb)) (O_hash h info) e0) by (inversion CH; assumption).
    assert (L' : link_ok mfg' alg' (O_hash h' (hb' ++ mb')) (O_hash h' info') e0) by (inversion CH'; assumption).
    apply link_prev in L, L'. destruct L as (pl & pa & pk & A & B), L' as (pl' & pa' & pk' & A' & B').
    rewrite A in A'. injection A' as <-. rewrite B in B'. injection B' as _ E1 E2 E3. subst alg'.
    rewrite HA in HA'. injection HA' as <-.
    exists h, hb, mb, hb', mb', info, info'. repeat split; auto.
  Qed.

  (* none of the checks can panic *)
  Lemma bind_np {A B} (x : outcome A) (f : A -> outcome B) p :
    x <> Panic p -> (forall a, f a <> Panic p) -> bind x f <> Panic p.
  Proof. intros Hx Hf. destruct x; cbn [bind]; first [apply Hf | congruence]. Qed.

  Ltac opn :=
    repeat match goal with
    | |- Ok _ <> _ => discriminate
    | |- Err _ <> _ => discriminate
    | |- (if ?c then _ else _) <> _ => destruct c
    | |- (match ?x with _ => _ end) <> _ => destruct x
    end.

  Lemma validate_no_panic p alg h ih l : forall k ph, validate k alg h ph ih l <> Panic p.
  Proof.
    induction l as [|en r IH]; intros k ph; cbn [Voucher.validate]; [discriminate|].
    apply bind_np.
    - unfold Voucher.check_entry. apply bind_np; [apply sign1_verify_no_panic|]. intros ok. opn.
    - intros _. destruct r as [|e2 r]; [discriminate|].
      apply bind_np; [unfold entry_key; opn|]. intros k'.
      apply bind_np; [unfold entry_hash, Voucher.e; apply bind_np; [apply enc_no_panic|intros; discriminate]|].
      intros ph'. apply IH.
  Qed.

  Theorem verify_entries_no_panic hdr hm l p : verify_entries hdr hm l <> Panic p.
  Proof.
    unfold Voucher.verify_entries.
    destruct (header_mfg_key hdr); [|discriminate]. destruct (O_pubkey v); [|discriminate].
    destruct l as [|e0 rest]; [discriminate|].
    destruct (existsb _ _); [discriminate|]. destruct (e_payload e0); [|discriminate].
    destruct (payload_fields v0) as [[[[alg pv] hh] pk]|]; [|discriminate].
    destruct (header_info hdr); [|discriminate]. destruct (hash_of_alg alg); [|discriminate].
    unfold Voucher.e.
    apply bind_np; [apply enc_no_panic|]. intros hb. apply bind_np; [apply enc_no_panic|]. intros mb.
    apply validate_no_panic.
  Qed.
End Facts.
