(* Fdo/OwnerHonest.v — the honest peer is never refused: a well-formed token value with the right claims and a verifying
   signature, once ENCODED, passes the byte-level checks.  Composes the codec round trip (C11) with the completeness of
   the checks. *)
From FDO Require Import Cbor.Typed Cbor.RoundTripWf Cbor.RoundTrip Cbor.RoundTripCheck Cose.Sign1 Fdo.Voucher Fdo.Owner Fdo.OwnerFacts.
Local Open Scope Z_scope.

Section Honest.
  Variable O_der : bool -> bytes -> bool.
  Variable O_rfc : bytes -> option Z.
  Variable O_verify : bytes -> sigscheme -> N -> bytes -> list bytes -> bool.

  (* decoding the encoding of a token value gives the token back *)
  Lemma open_token_enc fe fe' prot unprot pl sig eat body :
    wf O_der 0 ty_token (VList [VMap prot; VMap unprot; VRaw pl; VBytes sig]) ->
    enc fe ty_token (VList [VMap prot; VMap unprot; VRaw pl; VBytes sig]) = Ok body ->
    wf O_der 0 ty_eat (VMap eat) -> enc fe' ty_eat (VMap eat) = Ok pl ->
    open_token O_der O_rfc body = Some (prot, unprot, pl, sig, eat).
  Proof.
    intros W E We Ee. unfold open_token, sdec.
    pose proof (dec_enc_fuel_for O_der O_rfc fe ty_token _ body W E []) as D. rewrite app_nil_r in D. rewrite D.
    rewrite (unmarshal_enc O_der O_rfc fe' ty_eat (VMap eat) pl We Ee). reflexivity.
  Qed.

  (* TO1: the registered device's own, well-formed, correctly signed token for this session is accepted *)
  Theorem honest_prove_to_rv registered nonce fe fe' prot unprot pl sig eat body guid key :
    wf O_der 0 ty_token (VList [VMap prot; VMap unprot; VRaw pl; VBytes sig]) ->
    enc fe ty_token (VList [VMap prot; VMap unprot; VRaw pl; VBytes sig]) = Ok body ->
    wf O_der 0 ty_eat (VMap eat) -> enc fe' ty_eat (VMap eat) = Ok pl ->
    claim 10 eat = Some (VBytes nonce) -> claim 256 eat = Some (VBytes (byte_of_N 1 :: guid)) -> length guid = 16%nat ->
    registered guid = Some key ->
    sign1_verify O_der O_rfc O_verify TRaw TBytes key prot (Some (VRaw pl)) None sig (VBytes []) = Ok true ->
    prove_to_rv_ok O_der O_rfc O_verify registered nonce body = true.
  Proof.
    intros W E We Ee C10 C256 L RG SG.
    eapply (prove_to_rv_complete O_der O_rfc O_verify registered nonce body prot unprot pl sig eat guid key); try eassumption.
    eapply open_token_enc; eassumption.
  Qed.

  (* TO2: likewise for ProveDevice *)
  Theorem honest_prove_device devkey guid nonce xb_ok fe fe' prot unprot pl sig eat body xb sn :
    wf O_der 0 ty_token (VList [VMap prot; VMap unprot; VRaw pl; VBytes sig]) ->
    enc fe ty_token (VList [VMap prot; VMap unprot; VRaw pl; VBytes sig]) = Ok body ->
    wf O_der 0 ty_eat (VMap eat) -> enc fe' ty_eat (VMap eat) = Ok pl ->
    Crypter.parse_hdr O_der O_rfc (TFixed 16) (-259) unprot = Ok (Some sn) ->
    sign1_verify O_der O_rfc O_verify TRaw TBytes devkey prot (Some (VRaw pl)) None sig (VBytes []) = Ok true ->
    claim 10 eat = Some (VBytes nonce) -> claim 256 eat = Some (VBytes (byte_of_N 1 :: guid)) ->
    claim (-257) eat = Some (VList [VBytes xb]) -> xb_ok xb = true ->
    prove_device_ok O_der O_rfc O_verify devkey guid nonce xb_ok body = true.
  Proof.
    intros W E We Ee PH SG C10 C256 C257 XB.
    eapply (prove_device_complete O_der O_rfc O_verify devkey guid nonce xb_ok body prot unprot pl sig eat xb sn); try eassumption.
    eapply open_token_enc; eassumption.
  Qed.
End Honest.

(* the premises are satisfiable: a concrete token value (empty unprotected header aside) is well-formed and encodes *)
Example honest_token_exists :
  let eat := [(VInt 10, VBytes (repeat x00 16)); (VInt 256, VBytes (byte_of_N 1 :: repeat x00 16))] in
  exists pl body,
    enc 4096 ty_eat (VMap eat) = Ok pl /\
    enc 4096 ty_token (VList [VMap [(VInt 1, VInt (-7))]; VMap []; VRaw pl; VBytes (repeat x00 64)]) = Ok body /\
    RoundTripCheck.wfb (fun _ _ => true) 400 0 ty_eat (VMap eat) = true /\
    RoundTripCheck.wfb (fun _ _ => true) 400 0 ty_token (VList [VMap [(VInt 1, VInt (-7))]; VMap []; VRaw pl; VBytes (repeat x00 64)]) = true.
Proof.
  cbv zeta. eexists. eexists.
  split; [vm_compute; reflexivity|]. split; [vm_compute; reflexivity|]. split; vm_compute; reflexivity.
Qed.

Section Honest2.
  Variable O_der : bool -> bytes -> bool.
  Variable O_rfc : bytes -> option Z.
  Variable O_verify : bytes -> sigscheme -> N -> bytes -> list bytes -> bool.
  Variable O_hash : N -> bytes -> bytes.
  Variable O_pubkey : val -> option pubkey.

  (* the rendezvous server demands nothing else of an OwnerSign *)
  Theorem owner_sign_complete nonce ttl_ok body v0 hdr hm v3 ents wait tprot tun t0 halg hval tsig h tb e0 rest owner :
    sdec O_der O_rfc ty_owner_sign body =
      Ok (VList [VList [VList [v0; hdr; hm; v3; VList ents]; VInt wait; VBytes nonce];
                 VList [VMap tprot; tun; VList [t0; VList [VInt halg; VBytes hval]]; VBytes tsig]]) ->
    any_hash_of_alg halg = Some h ->
    enc enc_fuel ty_to0d (VList [VList [v0; hdr; hm; v3; VList ents]; VInt wait; VBytes nonce]) = Ok tb ->
    O_hash h tb = hval ->
    entries_of_vals ents = Some (e0 :: rest) ->
    verify_entries O_der O_rfc O_verify O_hash O_pubkey hdr hm (e0 :: rest) = Ok tt ->
    owner_key O_pubkey hdr (e0 :: rest) = Ok owner ->
    sign1_verify O_der O_rfc O_verify ty_to1d_payload TBytes owner tprot
      (Some (VList [t0; VList [VInt halg; VBytes hval]])) None tsig (VBytes []) = Ok true ->
    ttl_ok wait = true ->
    owner_sign_ok O_der O_rfc O_verify O_hash O_pubkey nonce ttl_ok body = true.
  Proof.
    intros SD HA EN HH EV VE OK SG TT. unfold owner_sign_ok. rewrite SD, HA, EN, HH, bytes_eqb_refl, EV, VE, OK, SG, bytes_eqb_refl, TT.
    reflexivity.
  Qed.

  (* an honest registration is accepted: encode a well-formed OwnerSign value with these properties and the check passes *)
  Theorem honest_owner_sign nonce ttl_ok fe body v0 hdr hm v3 ents wait tprot tun t0 halg hval tsig h tb e0 rest owner :
    let v := VList [VList [VList [v0; hdr; hm; v3; VList ents]; VInt wait; VBytes nonce];
                    VList [VMap tprot; tun; VList [t0; VList [VInt halg; VBytes hval]]; VBytes tsig]] in
    wf O_der 0 ty_owner_sign v -> enc fe ty_owner_sign v = Ok body ->
    any_hash_of_alg halg = Some h ->
    enc enc_fuel ty_to0d (VList [VList [v0; hdr; hm; v3; VList ents]; VInt wait; VBytes nonce]) = Ok tb ->
    O_hash h tb = hval ->
    entries_of_vals ents = Some (e0 :: rest) ->
    verify_entries O_der O_rfc O_verify O_hash O_pubkey hdr hm (e0 :: rest) = Ok tt ->
    owner_key O_pubkey hdr (e0 :: rest) = Ok owner ->
    sign1_verify O_der O_rfc O_verify ty_to1d_payload TBytes owner tprot
      (Some (VList [t0; VList [VInt halg; VBytes hval]])) None tsig (VBytes []) = Ok true ->
    ttl_ok wait = true ->
    owner_sign_ok O_der O_rfc O_verify O_hash O_pubkey nonce ttl_ok body = true.
  Proof.
    intros v W E. eapply owner_sign_complete; try eassumption.
    unfold sdec. pose proof (dec_enc_fuel_for O_der O_rfc fe ty_owner_sign v body W E []) as D. rewrite app_nil_r in D.
    rewrite D. reflexivity.
  Qed.
End Honest2.
