(* Fdo/Voucher.v — executable mirror of the ownership-voucher checks of voucher.go: VerifyHeader (hash.go hmacVerify),
   VerifyManufacturerKey, VerifyCertChainHash, VerifyEntries / validateNextEntry, OwnerPublicKey, and of ExtendVoucher.
   Vouchers are values of the reflected descriptor [ty_fdo_Voucher] (Gen/Types.v); everything that is CBOR is computed
   with the codec model, every signature with the COSE model; hashes, HMAC, signature verification and public-key
   parsing are oracle parameters. *)
From FDO Require Export Cose.Sign1.
From FDO Require Gen.Types.
Local Open Scope Z_scope.

Definition ty_hash : ty := TStruct [(false, TInt KI64); (false, TBytes)].
Definition ty_pubkey : ty := TStruct [(false, TInt KU8); (false, TInt KU8); (false, TRaw)].
Definition ty_rvinfo : ty := TSlice (TSlice (TStruct [(false, TInt KU8); (true, TBytes)])).
Definition ty_header : ty :=
  TStruct [(false, TInt KU16); (false, TFixed 16); (false, ty_rvinfo); (false, TText); (false, ty_pubkey); (false, TPtr ty_hash)].
Definition ty_entry_payload : ty :=
  TStruct [(false, ty_hash); (false, ty_hash); (false, TPtr (TBstr (TMap (TInt KInt) TBytes))); (false, ty_pubkey)].
Definition ty_entry_body : ty :=
  TStruct [(false, TProtHdr); (false, TMap TLabel TAny); (false, TPtr (TBstr ty_entry_payload)); (false, TBytes)].
Definition ty_entry : ty := TTagged 18 ty_entry_body.
Definition ty_voucher : ty :=
  TStruct [(false, TInt KU16); (false, TBstr ty_header); (false, ty_hash); (false, TPtr (TSlice (TPtr (TDer false))));
           (false, TSlice ty_entry)].

(* hash algorithm identifiers (protocol/hash.go) -> hash id 256 / 384 *)
Definition hash_of_alg (a : Z) : option N := if a =? -16 then Some 256%N else if a =? -43 then Some 384%N else None.
Definition hmac_of_alg (a : Z) : option N := if a =? 5 then Some 256%N else if a =? 6 then Some 384%N else None.
(* hashFor: what the code accepts from the wire for plain hashing *)
Definition any_hash_of_alg (a : Z) : option N :=
  match hash_of_alg a with Some h => Some h | None => hmac_of_alg a end.

Record entry := mkentry {
  e_prot : list (val * val); e_unprot : val; e_payload : option val; e_sig : bytes }.

Definition entry_of_val (v : val) : option entry :=
  match v with
  | VList [VMap p; u; pl; VBytes s] => Some (mkentry p u (match pl with VNull => None | x => Some x end) s)
  | _ => None
  end.
Definition val_of_entry (e : entry) : val :=
  VList [VMap (e_prot e); e_unprot e; match e_payload e with None => VNull | Some x => x end; VBytes (e_sig e)].

(* fields of an entry payload: previous hash, header hash, public key *)
Definition payload_fields (pl : val) : option (Z * bytes * (Z * bytes) * val) :=
  match pl with
  | VList [VList [VInt pa; VBytes pv]; VList [VInt ha; VBytes hv]; _; pk] => Some (pa, pv, (ha, hv), pk)
  | _ => None
  end.

Section Voucher.
  Variable O_der : bool -> bytes -> bool.
  Variable O_rfc : bytes -> option Z.
  Variable O_verify : bytes -> sigscheme -> N -> bytes -> list bytes -> bool.
  Variable O_hash : N -> bytes -> bytes.                 (* hash id, message *)
  Variable O_hmac : N -> bytes -> bytes -> bytes.        (* hash id, key, message *)
  Variable O_pubkey : val -> option pubkey.              (* protocol.PublicKey.Public(): the decoded [type, enc, body] *)

  Definition e (t : ty) (v : val) : outcome bytes := enc enc_fuel t v.

  (* Voucher.VerifyHeader: HMAC under the device secret over the re-encoded header *)
  Definition verify_header (secret : bytes) (hdr hm : val) : outcome unit :=
    match hm with
    | VList [VInt a; VBytes value] =>
      match hmac_of_alg a with
      | None => Err EOther
      | Some h => let* b := e ty_header hdr in
                  if bytes_eqb (O_hmac h secret b) value then Ok tt else Err EOther
      end
    | _ => Err EType
    end.

  Definition header_mfg_key (hdr : val) : option val :=
    match hdr with VList [_; _; _; _; k; _] => Some k | _ => None end.
  Definition header_info (hdr : val) : option bytes :=
    match hdr with VList [_; VBytes guid; _; VText info; _; _] => Some (guid ++ info) | _ => None end.

  (* Voucher.VerifyManufacturerKey: hash of the re-encoded manufacturer key equals the credential's key hash *)
  Definition verify_mfg_key (hdr : val) (kalg : Z) (kvalue : bytes) : outcome unit :=
    match hash_of_alg kalg, header_mfg_key hdr with
    | Some h, Some k => let* b := e ty_pubkey k in if bytes_eqb (O_hash h b) kvalue then Ok tt else Err EOther
    | _, _ => Err EOther
    end.

  (* one step of validateNextEntry: the entry is signed by the previous owner key, carries the header-info hash
     computed with the chain's algorithm and the hash of what precedes it *)
  Definition check_entry (prev_key : pubkey) (alg : Z) (h : N) (prev_hash info_hash : bytes) (en : entry) : outcome unit :=
    let* ok := sign1_verify O_der O_rfc O_verify ty_entry_payload TBytes prev_key (e_prot en) (e_payload en) None (e_sig en) (VBytes []) in
    if negb ok then Err EOther else
    match e_payload en with
    | None => Err EOther
    | Some pl =>
      match payload_fields pl with
      | Some (pa, pv, (ha, hv), _) =>
        if negb (ha =? alg) then Err EOther
        else if negb (bytes_eqb hv info_hash) then Err EOther
        else if negb (bytes_eqb prev_hash pv) then Err EOther
        else Ok tt
      | None => Err EType
      end
    end.

  Definition entry_key (en : entry) : outcome pubkey :=
    match e_payload en with
    | Some pl => match payload_fields pl with
                 | Some (_, _, _, pk) => match O_pubkey pk with Some k => Ok k | None => Err EOther end
                 | None => Err EType
                 end
    | None => Err EOther
    end.

  Definition entry_hash (h : N) (en : entry) : outcome bytes :=
    let* b := e ty_entry (val_of_entry en) in Ok (O_hash h b).

  (* validateNextEntry over the list *)
  Fixpoint validate (prev_key : pubkey) (alg : Z) (h : N) (prev_hash info_hash : bytes) (l : list entry) : outcome unit :=
    match l with
    | [] => Ok tt
    | en :: rest =>
      let* _ := check_entry prev_key alg h prev_hash info_hash en in
      match rest with
      | [] => Ok tt
      | _ => let* k := entry_key en in
             let* ph := entry_hash h en in
             validate k alg h ph info_hash rest
      end
    end.

  (* Voucher.VerifyEntries *)
  Definition verify_entries (hdr hm : val) (entries : list entry) : outcome unit :=
    match header_mfg_key hdr with
    | None => Err EType
    | Some mk =>
      match O_pubkey mk with
      | None => Err EOther
      | Some mfg =>
        match entries with
        | [] => Ok tt
        | e0 :: _ =>
          if existsb (fun en => match e_payload en with None => true | Some _ => false end) entries then Err EOther else
          match e_payload e0 with
          | Some pl =>
            match payload_fields pl, header_info hdr with
            | Some (alg, _, _, _), Some info =>
              match hash_of_alg alg with
              | None => Err EOther
              | Some h =>
                let* hb := e ty_header hdr in
                let* mb := e ty_hash hm in
                validate mfg alg h (O_hash h (hb ++ mb)) (O_hash h info) entries
              end
            | _, _ => Err EType
            end
          | None => Err EOther
          end
        end
      end
    end.

  (* Voucher.OwnerPublicKey *)
  Definition owner_key (hdr : val) (entries : list entry) : outcome pubkey :=
    match rev entries with
    | [] => match header_mfg_key hdr with
            | Some mk => match O_pubkey mk with Some k => Ok k | None => Err EOther end
            | None => Err EType
            end
    | last :: _ => entry_key last
    end.

  (* Voucher.VerifyCertChainHash: certs are the DER byte strings of the chain (None for a null element) *)
  Definition verify_cert_chain_hash (hdr : val) (chain : option (list (option bytes))) : outcome unit :=
    match hdr with
    | VList [_; _; _; _; _; cch] =>
      match chain, cch with
      | None, VNull => Ok tt
      | Some certs, VList [VInt a; VBytes value] =>
        match any_hash_of_alg a with
        | None => Err EOther
        | Some h =>
          if existsb (fun c => match c with None => true | Some _ => false end) certs then Err EOther
          else if bytes_eqb (O_hash h (concat (map (fun c => match c with Some d => d | None => [] end) certs))) value
               then Ok tt else Err EOther
        end
      | _, _ => Err EOther
      end
    | _ => Err EType
    end.
End Voucher.
