(* Fdo/Owner.v — executable mirror of the checks the server side makes on the three messages that carry a proof:
   TO2.ProveDevice (to2.go setupDevice), TO0.OwnerSign (to0.go acceptOwner) and TO1.ProveToRV (to1.go rvRedirect),
   over the bytes received and the values the session holds.  These give the byte-level meaning of the fact [r_ok]
   of the abstract server machine for the messages 64, 22 and 32. *)
From FDO Require Export Fdo.Voucher Kex.Crypter.
From FDO Require Gen.Types.
Local Open Scope Z_scope.

Definition ty_token : ty := Gen.Types.ty_cose_Sign1Tag_raw.       (* cose.Sign1Tag[cbor.RawBytes, []byte] *)
Definition ty_eat : ty := Gen.Types.ty_fdo_eatoken.                (* map[label]any *)
Definition ty_owner_sign : ty := Gen.Types.ty_fdo_to0_OwnerSign.
Definition ty_to0d : ty := Gen.Types.ty_fdo_to0_To0d.
Definition ty_to1d_payload : ty := Gen.Types.ty_protocol_To1d.

Definition claim (k : Z) (m : list (val * val)) : option val := assoc (VInt k) m.

Fixpoint entries_of_vals (l : list val) : option (list entry) :=
  match l with
  | [] => Some []
  | x :: r => match entry_of_val x, entries_of_vals r with Some e', Some r' => Some (e' :: r') | _, _ => None end
  end.

Section Owner.
  Variable O_der : bool -> bytes -> bool.
  Variable O_rfc : bytes -> option Z.
  Variable O_verify : bytes -> sigscheme -> N -> bytes -> list bytes -> bool.
  Variable O_hash : N -> bytes -> bytes.
  Variable O_pubkey : val -> option pubkey.

  Definition sdec (t : ty) (b : bytes) : outcome val :=
    match dec O_der O_rfc (fuel_for b) 0 t b with Ok (v, _) => Ok v | Err e => Err e | Panic p => Panic p | OutOfFuel => OutOfFuel end.

  (* the device attestation token common to 64 and 32: a tagged COSE_Sign1 whose payload is a claims map *)
  Definition open_token (body : bytes) : option (list (val * val) * list (val * val) * bytes * bytes * list (val * val)) :=
    match sdec ty_token body with
    | Ok (VList [VMap prot; VMap unprot; VRaw pl; VBytes sig]) =>
      match unmarshal O_der O_rfc ty_eat pl with
      | Ok (VMap eat) => Some (prot, unprot, pl, sig, eat)
      | _ => None
      end
    | _ => None
    end.

  Definition token_signed (key : pubkey) (prot : list (val * val)) (pl sig : bytes) : bool :=
    match sign1_verify O_der O_rfc O_verify TRaw TBytes key prot (Some (VRaw pl)) None sig (VBytes []) with Ok true => true | _ => false end.

  (* TO2.ProveDevice: setup nonce present in the unprotected header, signature under the key of the voucher's device
     certificate, nonce claim = the ProveDevice nonce of this session, UEID = 0x01 || session GUID, FDO claim = [xB]
     with xB acceptable to the key exchange *)
  Definition prove_device_ok (devkey : pubkey) (guid nonce : bytes) (xb_ok : bytes -> bool) (body : bytes) : bool :=
    match open_token body with
    | Some (prot, unprot, pl, sig, eat) =>
      match parse_hdr O_der O_rfc (TFixed 16) (-259) unprot with
      | Ok (Some _) =>
        token_signed devkey prot pl sig &&
        match claim 10 eat, claim 256 eat, claim (-257) eat with
        | Some (VBytes n), Some (VBytes u), Some (VList [VBytes xb]) =>
          bytes_eqb n nonce && bytes_eqb u (byte_of_N 1 :: guid) && xb_ok xb
        | _, _, _ => false
        end
      | _ => false
      end
    | None => false
    end.

  (* TO1.ProveToRV: nonce claim = the nonce of this session; the UEID names a GUID (0x01 || 16 bytes) for which an
     unexpired registration exists; signature under the device key of THAT registration's voucher *)
  Definition prove_to_rv_ok (registered : bytes -> option pubkey) (nonce : bytes) (body : bytes) : bool :=
    match open_token body with
    | Some (prot, _, pl, sig, eat) =>
      match claim 10 eat, claim 256 eat with
      | Some (VBytes n), Some (VBytes u) =>
        bytes_eqb n nonce &&
        match u with
        | t :: g => Nat.eqb (length g) 16 && (Byte.to_N t =? 1)%N &&
                    match registered g with Some key => token_signed key prot pl sig | None => false end
        | [] => false
        end
      | _, _ => false
      end
    | None => false
    end.

  (* TO0.OwnerSign: the hash in the blob is the hash of the re-encoded to0d; the voucher has at least one entry and its
     chain verifies; the blob is signed by the key the chain ends in; the nonce is this session's; the policy accepts *)
  Definition owner_sign_ok (nonce : bytes) (ttl_ok : Z -> bool) (body : bytes) : bool :=
    match sdec ty_owner_sign body with
    | Ok (VList [to0d; VList [VMap tprot; _; tpl; VBytes tsig]]) =>
      match to0d, tpl with
      | VList [VList [_; hdr; hm; _; VList ents]; VInt wait; VBytes n], VList [_; VList [VInt halg; VBytes hval]] =>
        match any_hash_of_alg halg, enc enc_fuel ty_to0d to0d with
        | Some h, Ok tb =>
          bytes_eqb (O_hash h tb) hval &&
          match entries_of_vals ents with
          | Some (e0 :: rest) =>
            match verify_entries O_der O_rfc O_verify O_hash O_pubkey hdr hm (e0 :: rest), owner_key O_pubkey hdr (e0 :: rest) with
            | Ok _, Ok owner =>
              match sign1_verify O_der O_rfc O_verify ty_to1d_payload TBytes owner tprot (Some tpl) None tsig (VBytes []) with
              | Ok true => bytes_eqb n nonce && ttl_ok wait
              | _ => false
              end
            | _, _ => false
            end
          | _ => false
          end
        | _, _ => false
        end
      | _, _ => false
      end
    | _ => false
    end.
End Owner.
