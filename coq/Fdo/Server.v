(* Fdo/Server.v — abstract state machine of the server side: http.Handler (token issue / lookup / invalidation,
   decrypt-before-dispatch for message types 65..254) in front of the DI, TO0, TO1 and TO2 responders, over the
   session store.  A request is described by its message type, the session the presented token resolves to (if any),
   and a vector of FACTS about its body relative to that session — whether it decodes, whether the signature verifies
   under the key the property names, whether the nonce is the one issued in that session, ... — which the harness
   establishes by construction and with standard-library cryptography when it builds the concrete request.
   Every rejection ends in an error response and kills the session, so which check rejects is not observable. *)
From FDO Require Export Base.Result.
From FDO Require Gen.Tables.
Local Open Scope N_scope.

Inductive proto := PDI | PTO0 | PTO1 | PTO2 | PNone.
Definition proto_eqb (a b : proto) : bool :=
  match a, b with PDI, PDI | PTO0, PTO0 | PTO1, PTO1 | PTO2, PTO2 | PNone, PNone => true | _, _ => false end.

(* which responder a message type is routed to: regenerated from protocol.Of for all 256 values *)
Fixpoint nassoc {A} (k : N) (l : list (N * A)) : option A :=
  match l with [] => None | (k', v) :: r => if k =? k' then Some v else nassoc k r end.
Definition proto_of (t : N) : proto :=
  match nassoc t Gen.Tables.proto_of_table with
  | Some 1 => PDI | Some 2 => PTO0 | Some 3 => PTO1 | Some 4 => PTO2 | _ => PNone
  end.

Inductive effect :=
| EDIVoucher       (* manufacturer stored a new voucher *)
| ERVBlob          (* rendezvous server stored / overwrote a redirect blob *)
| EModule          (* an owner service-info module was invoked *)
| EReplace.        (* owner replaced a voucher *)

Record sess := mksess {
  s_proto : proto;
  s_alive : bool;
  s_started : bool;     (* first message accepted: DI header stored / TO0,TO1 nonce issued / TO2 GUID+nonce+kex parameter *)
  s_proved : bool;      (* TO2: ProveDevice verified, key exchange complete, tunnel keys present *)
  s_ready : bool;       (* TO2: DeviceServiceInfoReady accepted (MTU stored) *)
  s_hmac : bool;        (* TO2: a replacement HMAC was stored (no credential reuse) *)
  s_devmod : bool;      (* TO2: the device's devmod messages were received (first DeviceServiceInfo) *)
  s_svcdone : bool      (* TO2: the owner modules have completed *)
}.

Definition fresh (p : proto) : sess := mksess p true false false false false false false.
Definition kill (s : sess) : sess := mksess (s_proto s) false (s_started s) (s_proved s) (s_ready s) (s_hmac s) (s_devmod s) (s_svcdone s).

Inductive tokref := TInvalid | TSess (id : nat).     (* none / forged / damaged, or the token of session id *)

(* facts: [ok] = every check the responder makes on the body passes for the session the token names; [enc] = the body
   is a COSE object that decrypts under that session's tunnel keys (only meaningful for types 65..254); [hmac] (66
   only) = the message carries a replacement HMAC *)
Record request := mkreq { r_type : N; r_tok : tokref; r_ok : bool; r_enc : bool; r_hmac : bool }.

Inductive response := RType (t : N) | RNoBody.     (* Message-Type of the reply (255 = error); RNoBody: reply to an error message *)

Definition server := list sess.

Definition lookup (st : server) (t : tokref) : option (nat * sess) :=
  match t with
  | TInvalid => None
  | TSess id => match nth_error st id with Some s => if s_alive s then Some (id, s) else None | None => None end
  end.

Fixpoint update (st : server) (id : nat) (s : sess) : server :=
  match st, id with
  | [], _ => []
  | _ :: r, O => s :: r
  | x :: r, S n => x :: update r n s
  end.

Definition is_start (t : N) : bool := (t =? 10) || (t =? 20) || (t =? 30) || (t =? 60).
Definition is_final (t : N) : bool := (t =? 13) || (t =? 23) || (t =? 33) || (t =? 71).
Definition needs_tunnel (t : N) : bool := (64 <? t) && (t <? 255).
Definition is_client (t : N) : bool :=
  (t =? 12) || (t =? 22) || (t =? 32) || (t =? 62) || (t =? 64) || (t =? 66) || (t =? 68) || (t =? 70).

(* the responder proper: given the session, returns (response type, new session, effects); 255 = rejected *)
Definition respond (t : N) (s : sess) (r : request) : N * sess * list effect :=
  let rej := (255, s, []) in
  let upd st pr rd hm dm sd := mksess (s_proto s) true st pr rd hm dm sd in
  match s_proto s with
  | PDI =>
    if t =? 10 then (if r_ok r then (11, upd true false false false false false, []) else rej)
    else if t =? 12 then (if s_started s && r_ok r then (13, s, [EDIVoucher]) else rej)
    else rej
  | PTO0 =>
    if t =? 20 then (if r_ok r then (21, upd true false false false false false, []) else rej)
    else if t =? 22 then (if s_started s && r_ok r then (23, s, [ERVBlob]) else rej)
    else rej
  | PTO1 =>
    if t =? 30 then (if r_ok r then (31, upd true false false false false false, []) else rej)
    else if t =? 32 then (if s_started s && r_ok r then (33, s, []) else rej)
    else rej
  | PTO2 =>
    if t =? 60 then (if r_ok r then (61, upd true false false false false false, []) else rej)
    else if t =? 62 then (if s_started s && r_ok r then (63, s, []) else rej)
    else if t =? 64 then
      (* (a ProveDevice may be repeated in a session: whether the key exchange takes a second parameter is part of the
         fact r_ok — ECDH and DH sessions refuse it, ASYMKEX re-keys — and what the session stored so far stays) *)
      (if s_started s && r_ok r then (65, upd true true (s_ready s) (s_hmac s) (s_devmod s) (s_svcdone s), []) else rej)
    else if t =? 66 then
      (if r_ok r then (67, upd (s_started s) (s_proved s) true (s_hmac s || r_hmac r) (s_devmod s) (s_svcdone s), []) else rej)
    else if t =? 68 then
      (* the first DeviceServiceInfo carries devmod; the next one runs the (single, one-shot) owner module; after that
         no module is left and a further message is an error *)
      (if s_ready s && negb (s_svcdone s) && r_ok r then
         if s_devmod s then (69, upd (s_started s) (s_proved s) true (s_hmac s) true true, [EModule])
         else (69, upd (s_started s) (s_proved s) true (s_hmac s) true false, [])
       else rej)
    else if t =? 70 then
      (if r_ok r then (71, s, if s_hmac s then [EReplace] else []) else rej)
    else rej
  | PNone => rej
  end.

(* http.Handler.ServeHTTP / handleRequest / writeResponse *)

(* a protocol's first message: a new token / session is minted whatever token was presented *)
Definition handle_start (st : server) (p : proto) (r : request) : server * response * list effect :=
  match respond (r_type r) (fresh p) r with
  | (rt, s', eff) =>
    if rt =? 255 then (st ++ [kill s'], RType 255, []) else (st ++ [s'], RType rt, eff)
  end.

(* any later message: the token must name a live session of the message's protocol; types 65..254 pass through the
   tunnel first; an error response or a final response ends the session *)
Definition handle_cont (st : server) (p : proto) (r : request) : server * response * list effect :=
  match lookup st (r_tok r) with
  | None => (st, RType 255, [])                                (* no session state behind the token *)
  | Some (id, s) =>
    if negb (proto_eqb (s_proto s) p) then (update st id (kill s), RType 255, [])   (* other protocol's token *)
    else if needs_tunnel (r_type r) && negb (s_proved s && r_enc r) then (update st id (kill s), RType 255, [])
    else
      match respond (r_type r) s r with
      | (rt, s', eff) =>
        if rt =? 255 then (update st id (kill s), RType 255, [])
        else if is_final rt then (update st id (kill s'), RType rt, eff)
        else (update st id s', RType rt, eff)
      end
  end.

Definition handle (st : server) (r : request) : server * response * list effect :=
  let t := r_type r in
  if t =? 255 then
    (* error message from the client: the presented token, if it names a live session, is invalidated *)
    match lookup st (r_tok r) with
    | Some (id, s) => (update st id (kill s), RNoBody, [])
    | None => (st, RNoBody, [])
    end
  else match proto_of t with
  | PNone => (st, RType 255, [])                                   (* unsupported message type; no token is touched *)
  | p => if is_start t then handle_start st p r else handle_cont st p r
         (* a server-to-client type of a handled protocol has no case in the responder: an error like any other *)
  end.

Fixpoint run (st : server) (rs : list request) : server * list (response * list effect) :=
  match rs with
  | [] => (st, [])
  | r :: rest =>
    let '(st', resp, eff) := handle st r in
    let '(st'', out) := run st' rest in (st'', (resp, eff) :: out)
  end.
