(* Fdo/HandoverFacts.v — device credential and stored voucher agree after DI and after every TO2 round. *)
From FDO Require Import Cbor.Typed Fdo.Voucher Fdo.Handover.
Local Open Scope Z_scope.

Section Facts.
  Variable O_hash : N -> bytes -> bytes.
  Variable O_hmac : N -> bytes -> bytes -> bytes.
  Notation device_adopts := (device_adopts O_hash O_hmac).
  Notation agrees := (agrees O_hash O_hmac).

  Definition header_cch_of (hdr : val) : option val := match hdr with VList [_; _; _; _; _; c] => Some c | _ => None end.

  Lemma hmac_alg_matches alg h : hash_of_alg alg = Some h -> hmac_of_alg (hmac_alg_of_hash alg) = Some h.
  Proof.
    unfold hash_of_alg, hmac_alg_of_hash, hmac_of_alg.
    destruct (alg =? -16) eqn:A; [intros H; inversion H; reflexivity|].
    destruct (alg =? -43) eqn:B; [intros H; inversion H; reflexivity|discriminate].
  Qed.

  (* whatever header the device adopts (DI: the one in SetCredentials; TO2: the one it assembled), a voucher stored
     with exactly that header and the HMAC the device sent verifies against the credential the device keeps *)
  Theorem adopt_agrees secret alg hdr hm c : device_adopts secret alg hdr = Ok (hm, c) -> agrees secret c hdr hm.
  Proof.
    unfold Handover.device_adopts, Handover.agrees.
    destruct hdr as [| | | | |l| | |]; try discriminate.
    destruct l as [|[z| | | | | | | |] l]; try discriminate.
    destruct l as [|[| |g| | | | | |] l]; try discriminate.
    destruct l as [|rv l]; try discriminate.
    destruct l as [|[| | |di| | | | |] l]; try discriminate.
    destruct l as [|key l]; try discriminate.
    destruct l as [|cch l]; try discriminate.
    destruct l; try discriminate.
    destruct (hash_of_alg alg) as [h|] eqn:HA; [|discriminate].
    unfold Handover.e.
    destruct (enc enc_fuel ty_header _) as [hb| | |] eqn:EH; cbn [bind]; [|discriminate|discriminate|discriminate].
    destruct (enc enc_fuel ty_pubkey key) as [kb| | |] eqn:EK; cbn [bind]; [|discriminate|discriminate|discriminate].
    intros H; injection H as <- <-. cbn [c_kalg c_kval c_version c_guid c_rvinfo c_devinfo].
    split; [|split].
    - unfold verify_header. rewrite (hmac_alg_matches _ _ HA). unfold Voucher.e. rewrite EH. cbn [bind].
      now rewrite bytes_eqb_refl.
    - unfold verify_mfg_key, header_mfg_key. rewrite HA. unfold Voucher.e. rewrite EK. cbn [bind]. now rewrite bytes_eqb_refl.
    - exists key, cch. reflexivity.
  Qed.

  (* device and owner assemble the replacement header from the same parts of the voucher the device was shown *)
  Theorem replacement_same hdr g r k : device_replacement hdr g r k = owner_replacement hdr g r k.
  Proof. reflexivity. Qed.

  Lemma owner_replacement_shape hdr g r k hdr' : owner_replacement hdr g r k = Some hdr' ->
    exists v d c, hdr' = header v g r d k c /\ header_cch_of hdr = Some c.
  Proof.
    unfold owner_replacement, header_cch_of. intros OR.
    destruct hdr as [| | | | |l| | |]; try discriminate OR.
    destruct l as [|[z| | | | | | | |] l]; try discriminate OR.
    destruct l as [|g0 l]; try discriminate OR. destruct l as [|r0 l]; try discriminate OR.
    destruct l as [|[| | |di| | | | |] l]; try discriminate OR.
    destruct l as [|k0 l]; try discriminate OR. destruct l as [|cch l]; try discriminate OR. destruct l; try discriminate OR.
    injection OR as <-. exists z, di, cch. split; reflexivity.
  Qed.

  Lemma adopt_fields secret alg v g r d k c hm cr :
    device_adopts secret alg (header v g r d k c) = Ok (hm, cr) ->
    c_guid cr = g /\ c_rvinfo cr = r /\ c_devinfo cr = d /\ c_version cr = v.
  Proof.
    unfold Handover.device_adopts, header. destruct (hash_of_alg alg); [|intros H; discriminate H]. unfold Handover.e.
    destruct (enc enc_fuel ty_header _) as [hb| | |]; cbn [bind]; [|intros H; discriminate H|intros H; discriminate H|intros H; discriminate H].
    destruct (enc enc_fuel ty_pubkey k) as [kb| | |]; cbn [bind]; [|intros H; discriminate H|intros H; discriminate H|intros H; discriminate H].
    intros H; injection H as _ <-. auto.
  Qed.

  (* one TO2 with credential replacement: if the owner stores the header it assembled with the HMAC the device sent,
     the new voucher agrees with the new credential, which carries the session's GUID and rendezvous info *)
  Theorem round_agrees secret alg hdr g r k hdr' hm' c' :
    owner_replacement hdr g r k = Some hdr' ->
    device_replacement hdr g r k = Some hdr' ->
    device_adopts secret alg hdr' = Ok (hm', c') ->
    agrees secret c' hdr' hm' /\ c_guid c' = g /\ c_rvinfo c' = r.
  Proof.
    intros OR _ AD. split; [exact (adopt_agrees secret alg hdr' hm' c' AD)|].
    destruct (owner_replacement_shape _ _ _ _ _ OR) as (v & d & c & -> & _).
    destruct (adopt_fields _ _ _ _ _ _ _ _ _ _ AD) as (A & B & _). auto.
  Qed.

  (* any number of rounds: each round either reuses the credential (nothing changes) or replaces it as above *)
  Inductive rounds (secret : bytes) : cred -> val -> val -> cred -> val -> val -> Prop :=
  | rounds_nil c hdr hm : rounds secret c hdr hm c hdr hm
  | rounds_reuse c hdr hm c2 hdr2 hm2 : rounds secret c hdr hm c2 hdr2 hm2 -> rounds secret c hdr hm c2 hdr2 hm2
  | rounds_replace c hdr hm c1 hdr1 hm1 alg g r k c2 hdr2 hm2 :
      rounds secret c hdr hm c1 hdr1 hm1 ->
      owner_replacement hdr1 g r k = Some hdr2 -> device_replacement hdr1 g r k = Some hdr2 ->
      device_adopts secret alg hdr2 = Ok (hm2, c2) ->
      rounds secret c hdr hm c2 hdr2 hm2.

  Theorem rounds_agree secret c hdr hm c' hdr' hm' :
    agrees secret c hdr hm -> rounds secret c hdr hm c' hdr' hm' -> agrees secret c' hdr' hm'.
  Proof.
    intros A R. induction R as [| |c hdr hm c1 hdr1 hm1 alg g r k c2 hdr2 hm2 R IH OR DR AD]; auto.
    now apply (round_agrees secret alg hdr1 g r k hdr2 hm2 c2 OR DR AD).
  Qed.

  (* the device-certificate hash (last header field) never changes over rounds *)
  Theorem rounds_keep_cch secret c hdr hm c' hdr' hm' cch :
    rounds secret c hdr hm c' hdr' hm' -> header_cch_of hdr = Some cch -> header_cch_of hdr' = Some cch.
  Proof.
    intros R. induction R as [| |c hdr hm c1 hdr1 hm1 alg g r k c2 hdr2 hm2 R IH OR DR AD]; auto.
    intros H. specialize (IH H). destruct (owner_replacement_shape _ _ _ _ _ OR) as (v & d & c0 & -> & E).
    rewrite IH in E. injection E as <-. reflexivity.
  Qed.
End Facts.
