(* Fdo/OwnerFacts.v — what acceptance of ProveDevice / ProveToRV / OwnerSign means, byte for byte. *)
From FDO Require Import Cbor.Typed Cose.Sign1 Fdo.Voucher Fdo.VoucherFacts Fdo.Owner.
Local Open Scope Z_scope.

Section Facts.
  Variable O_der : bool -> bytes -> bool.
  Variable O_rfc : bytes -> option Z.
  Variable O_verify : bytes -> sigscheme -> N -> bytes -> list bytes -> bool.
  Variable O_hash : N -> bytes -> bytes.
  Variable O_pubkey : val -> option pubkey.

  Notation open_token := (open_token O_der O_rfc).
  Notation token_signed := (token_signed O_der O_rfc O_verify).

  Lemma token_signed_spec key prot pl sig : token_signed key prot pl sig = true ->
    sign1_verify O_der O_rfc O_verify TRaw TBytes key prot (Some (VRaw pl)) None sig (VBytes []) = Ok true.
  Proof. unfold Owner.token_signed. destruct (sign1_verify _ _ _ _ _ _ _ _ _ _ _) as [[|]| | |]; congruence. Qed.

  (* TO2.ProveDevice accepted: the token is signed by the device key over exactly these claims, carries this session's
     nonce, names this session's GUID, and its key-exchange parameter was acceptable *)
  Theorem prove_device_sound devkey guid nonce xb_ok body :
    prove_device_ok O_der O_rfc O_verify devkey guid nonce xb_ok body = true ->
    exists prot unprot pl sig eat xb,
      open_token body = Some (prot, unprot, pl, sig, eat) /\
      sign1_verify O_der O_rfc O_verify TRaw TBytes devkey prot (Some (VRaw pl)) None sig (VBytes []) = Ok true /\
      claim 10 eat = Some (VBytes nonce) /\ claim 256 eat = Some (VBytes (byte_of_N 1 :: guid)) /\
      claim (-257) eat = Some (VList [VBytes xb]) /\ xb_ok xb = true.
  Proof.
    unfold prove_device_ok. destruct (open_token body) as [[[[[prot unprot] pl] sig] eat]|] eqn:OT; [|discriminate].
    destruct (Crypter.parse_hdr _ _ _ _ _) as [[x|]| | |]; try discriminate.
    intros H. apply andb_true_iff in H as [SG H]. apply token_signed_spec in SG.
    destruct (claim 10 eat) as [[?|?|n|?|?|?| |? ?|?]|] eqn:C10; try discriminate.
    destruct (claim 256 eat) as [[?|?|u|?|?|?| |? ?|?]|] eqn:C256; try discriminate.
    destruct (claim (-257) eat) as [[?|?|?|?|l|?| |? ?|?]|] eqn:C257; try discriminate.
    destruct l as [|[?|?|xb|?|?|?| |? ?|?] [|? ?]]; try discriminate.
    apply andb_true_iff in H as [H XB]. apply andb_true_iff in H as [N U].
    apply bytes_eqb_eq in N, U. subst.
    exists prot, unprot, pl, sig, eat, xb. repeat split; auto.
  Qed.

  (* TO1.ProveToRV accepted: this session's nonce, a GUID with a live registration, signed by that registration's device key *)
  Theorem prove_to_rv_sound registered nonce body :
    prove_to_rv_ok O_der O_rfc O_verify registered nonce body = true ->
    exists prot unprot pl sig eat guid key,
      open_token body = Some (prot, unprot, pl, sig, eat) /\
      claim 10 eat = Some (VBytes nonce) /\ claim 256 eat = Some (VBytes (byte_of_N 1 :: guid)) /\ length guid = 16%nat /\
      registered guid = Some key /\
      sign1_verify O_der O_rfc O_verify TRaw TBytes key prot (Some (VRaw pl)) None sig (VBytes []) = Ok true.
  Proof.
    unfold prove_to_rv_ok. destruct (open_token body) as [[[[[prot unprot] pl] sig] eat]|] eqn:OT; [|discriminate].
    destruct (claim 10 eat) as [[?|?|n|?|?|?| |? ?|?]|] eqn:C10; try discriminate.
    destruct (claim 256 eat) as [[?|?|u|?|?|?| |? ?|?]|] eqn:C256; try discriminate.
    intros H. apply andb_true_iff in H as [N H]. apply bytes_eqb_eq in N. subst n.
    destruct u as [|t g]; [discriminate|].
    apply andb_true_iff in H as [H R]. apply andb_true_iff in H as [L T].
    apply Nat.eqb_eq in L. apply N.eqb_eq in T.
    destruct (registered g) as [key|] eqn:RG; [|discriminate]. apply token_signed_spec in R.
    exists prot, unprot, pl, sig, eat, g, key. repeat split; auto.
    destruct t; cbn in T; try discriminate T; exact C256.
  Qed.
  (* TO0.OwnerSign accepted: the to1d blob carries the hash of the to0d as re-encoded, the voucher inside has a verifying
     chain of at least one entry, the blob is signed by the key that chain ends in, the nonce is the session's and the
     requested wait passed the policy *)
  Theorem owner_sign_sound nonce ttl_ok body :
    owner_sign_ok O_der O_rfc O_verify O_hash O_pubkey nonce ttl_ok body = true ->
    exists v0 hdr hm v3 ents wait tprot tun t0 halg hval tsig h tb e0 rest owner,
      sdec O_der O_rfc ty_owner_sign body =
        Ok (VList [VList [VList [v0; hdr; hm; v3; VList ents]; VInt wait; VBytes nonce];
                   VList [VMap tprot; tun; VList [t0; VList [VInt halg; VBytes hval]]; VBytes tsig]]) /\
      any_hash_of_alg halg = Some h /\
      enc enc_fuel ty_to0d (VList [VList [v0; hdr; hm; v3; VList ents]; VInt wait; VBytes nonce]) = Ok tb /\
      O_hash h tb = hval /\
      entries_of_vals ents = Some (e0 :: rest) /\
      (exists r, verify_entries O_der O_rfc O_verify O_hash O_pubkey hdr hm (e0 :: rest) = Ok r) /\
      owner_key O_pubkey hdr (e0 :: rest) = Ok owner /\
      sign1_verify O_der O_rfc O_verify ty_to1d_payload TBytes owner tprot
        (Some (VList [t0; VList [VInt halg; VBytes hval]])) None tsig (VBytes []) = Ok true /\
      ttl_ok wait = true.
  Proof.
    unfold owner_sign_ok. intros H.
    repeat match type of H with context[match ?x with _ => _ end] => destruct x eqn:?; cbv beta iota in H; try discriminate H end.
    all: apply andb_true_iff in H as [HH H]; try discriminate H.
    apply andb_true_iff in H as [N T].
    apply bytes_eqb_eq in HH, N. subst.
    repeat eexists; eauto.
  Qed.
  (* ---- and conversely: tokens with these properties are accepted (the checks demand nothing else) ---- *)
  Theorem prove_to_rv_complete registered nonce body prot unprot pl sig eat guid key :
    open_token body = Some (prot, unprot, pl, sig, eat) ->
    claim 10 eat = Some (VBytes nonce) -> claim 256 eat = Some (VBytes (byte_of_N 1 :: guid)) -> length guid = 16%nat ->
    registered guid = Some key ->
    sign1_verify O_der O_rfc O_verify TRaw TBytes key prot (Some (VRaw pl)) None sig (VBytes []) = Ok true ->
    prove_to_rv_ok O_der O_rfc O_verify registered nonce body = true.
  Proof.
    intros OT C10 C256 L RG SG. unfold prove_to_rv_ok. rewrite OT, C10, C256, bytes_eqb_refl.
    cbn [andb]. rewrite L, RG. unfold Owner.token_signed. rewrite SG. reflexivity.
  Qed.

  Theorem prove_device_complete devkey guid nonce xb_ok body prot unprot pl sig eat xb sn :
    open_token body = Some (prot, unprot, pl, sig, eat) ->
    Crypter.parse_hdr O_der O_rfc (TFixed 16) (-259) unprot = Ok (Some sn) ->
    sign1_verify O_der O_rfc O_verify TRaw TBytes devkey prot (Some (VRaw pl)) None sig (VBytes []) = Ok true ->
    claim 10 eat = Some (VBytes nonce) -> claim 256 eat = Some (VBytes (byte_of_N 1 :: guid)) ->
    claim (-257) eat = Some (VList [VBytes xb]) -> xb_ok xb = true ->
    prove_device_ok O_der O_rfc O_verify devkey guid nonce xb_ok body = true.
  Proof.
    intros OT PH SG C10 C256 C257 XB. unfold prove_device_ok. rewrite OT, PH. unfold Owner.token_signed. rewrite SG.
    rewrite C10, C256, C257, !bytes_eqb_refl, XB. reflexivity.
  Qed.
End Facts.
