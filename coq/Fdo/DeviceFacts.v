(* Fdo/DeviceFacts.v — the device sends its ProveDevice token only after every check of C01 passed. *)
From FDO Require Import Cbor.Typed Cose.Sign1 Fdo.Voucher Fdo.VoucherFacts Fdo.Device.
Local Open Scope Z_scope.

Lemma pubkey_eqb_eq a b : pubkey_eqb a b = true -> a = b.
Proof.
  destruct a, b; cbn; try discriminate; intros H.
  - apply andb_true_iff in H as [A B]. apply Nat.eqb_eq in A. apply bytes_eqb_eq in B. congruence.
  - apply bytes_eqb_eq in H. congruence.
Qed.

Lemma is_ok_eq (o : outcome unit) : is_ok o = true -> o = Ok tt.
Proof. destruct o as [[]| | |]; cbn; congruence. Qed.

Section Facts.
  Variable O_der : bool -> bytes -> bool.
  Variable O_rfc : bytes -> option Z.
  Variable O_verify : bytes -> sigscheme -> N -> bytes -> list bytes -> bool.
  Variable O_hash : N -> bytes -> bytes.
  Variable O_hmac : N -> bytes -> bytes -> bytes.
  Variable O_pubkey : val -> option pubkey.

  Notation unm := (unmarshal O_der O_rfc).
  Notation verify_owner := (verify_owner O_der O_rfc O_verify O_hash O_hmac O_pubkey).

  Ltac step H :=
    match type of H with
    | (if negb ?c then _ else _) = _ => let E := fresh "E" in destruct c eqn:E; cbn [negb] in H; [|discriminate H]
    | (let '(_, _) := ?x in _) = _ => destruct x
    | match ?x with _ => _ end = _ => let E := fresh "E" in destruct x eqn:E; try discriminate H
    end.

  (* what the device has established when it goes on to prove itself *)
  Definition checked (d : dev_state) (b61 : bytes) (resps : list msg) (to1d : option bytes) (k : pubkey) (pdn : bytes) : Prop :=
    exists prot unprot sig ovh num hm si xa halg hval mx hh pk es,
      let pl := VList [ovh; VInt num; hm; VBytes (d_nonce d); si; VBytes xa; VList [VInt halg; VBytes hval]; VInt mx] in
      sdec O_der O_rfc ty_prove_ovhdr b61 = Ok (VList [VMap prot; VMap unprot; pl; VBytes sig]) /\
      (* the proof is bound to this run: hash of the HelloDevice sent and its fresh nonce *)
      any_hash_of_alg halg = Some hh /\ O_hash hh (d_hello d) = hval /\
      (* signed by the key the message advertises, and that key is the one the voucher chain ends in *)
      parse_hdr O_der O_rfc ty_pubkey 257 unprot = Ok (Some pk) /\ O_pubkey pk = Some k /\
      sign1_verify O_der O_rfc O_verify ty_ovh_proof TBytes k prot (Some pl) None sig (VBytes []) = Ok true /\
      parse_hdr O_der O_rfc (TFixed 16) 256 unprot = Ok (Some (VBytes pdn)) /\
      d_kex_ok d = true /\
      (* the voucher: all announced entries fetched in order, header MAC under the device secret, manufacturer key hash
         of the credential, entry chain, owner = key of the last entry *)
      fetch_entries O_der O_rfc 0 (Z.to_nat num) resps = Some es /\
      verify_header O_hmac (d_secret d) ovh hm = Ok tt /\
      verify_mfg_key O_hash ovh (d_kalg d) (d_kval d) = Ok tt /\
      verify_entries O_der O_rfc O_verify O_hash O_pubkey ovh hm es = Ok tt /\
      owner_key O_pubkey ovh es = Ok k /\
      (* a rendezvous blob, when supplied, is signed by that same key *)
      match to1d with
      | None => True
      | Some tb => exists tprot u tpl tsig,
          unm ty_to1d_sign1 tb = Ok (VList [VMap tprot; u; tpl; VBytes tsig]) /\
          sign1_verify O_der O_rfc O_verify ty_to1d TBytes k tprot (match tpl with VNull => None | x => Some x end) None tsig (VBytes []) = Ok true
      end.

  Theorem verify_owner_sound d t61 b61 resps to1d k pdn :
    verify_owner d (t61, b61) resps to1d = Proceed k pdn -> t61 = 61%N /\ checked d b61 resps to1d k pdn.
  Proof.
    unfold Device.verify_owner. intros H.
    destruct (t61 =? 61)%N eqn:T; cbn [negb] in H; [|discriminate]. apply N.eqb_eq in T. split; [exact T|].
    do 40 (try step H).
    repeat match type of H with
    | match ?x with _ => _ end = _ => let E := fresh "E" in destruct x eqn:E; try discriminate H
    | (if negb ?c then _ else _) = _ => let E := fresh "E" in destruct c eqn:E; cbn [negb] in H; [|discriminate H]
    end.
    all: try discriminate.
    all: repeat match goal with
         | X : negb _ = false |- _ => apply negb_false_iff in X
         | X : negb _ = true |- _ => apply negb_true_iff in X
         | X : bytes_eqb _ _ = true |- _ => apply bytes_eqb_eq in X
         | X : pubkey_eqb _ _ = true |- _ => apply pubkey_eqb_eq in X
         | X : is_ok _ = true |- _ => apply is_ok_eq in X
         end; subst.
    all: inversion H; subst; clear H.
    all: unfold checked; do 14 eexists; cbn zeta;
         repeat match goal with |- _ /\ _ => split end; try eassumption; try reflexivity; auto.
    all: try (do 4 eexists; split; [eassumption|]; eassumption).
  Qed.
End Facts.

(* ---- completeness: when every check holds, the device goes on (so [checked] is exactly the device's criterion) ---- *)
Lemma pubkey_eqb_refl k : k <> PubOther -> pubkey_eqb k k = true.
Proof.
  destruct k; cbn; intros H; [| |contradiction].
  - now rewrite Nat.eqb_refl, bytes_eqb_refl.
  - apply bytes_eqb_refl.
Qed.

Section Complete.
  Variable O_der : bool -> bytes -> bool.
  Variable O_rfc : bytes -> option Z.
  Variable O_verify : bytes -> sigscheme -> N -> bytes -> list bytes -> bool.
  Variable O_hash : N -> bytes -> bytes.
  Variable O_hmac : N -> bytes -> bytes -> bytes.
  Variable O_pubkey : val -> option pubkey.

  Theorem verify_owner_complete d b61 resps to1d k pdn :
    k <> PubOther ->
    checked O_der O_rfc O_verify O_hash O_hmac O_pubkey d b61 resps to1d k pdn ->
    verify_owner O_der O_rfc O_verify O_hash O_hmac O_pubkey d (61%N, b61) resps to1d = Proceed k pdn.
  Proof.
    intros NK (prot & unprot & sig & ovh & num & hm & si & xa & halg & hval & mx & hh & pk & es & H).
    cbn zeta in H. destruct H as (E61 & HA & HH & PK & OK & SV & PN & KX & FE & VH & VM & VE & OWN & T1).
    unfold verify_owner. cbn [N.eqb Pos.eqb negb]. rewrite E61. rewrite HA. rewrite HH, bytes_eqb_refl. cbn [negb].
    rewrite PK, OK, SV. rewrite bytes_eqb_refl. cbn [negb]. rewrite PN, KX. cbn [negb]. rewrite FE.
    rewrite VH, VM, VE. cbn [is_ok negb]. rewrite OWN. rewrite (pubkey_eqb_refl k NK). cbn [negb].
    destruct to1d as [tb|]; [|reflexivity].
    destruct T1 as (tprot & u & tpl & tsig & ET & ST). rewrite ET, ST. reflexivity.
  Qed.
End Complete.
