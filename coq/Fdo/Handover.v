(* Fdo/Handover.v — what the device and the owner each compute when ownership is handed over (end of DI, end of TO2):
   the voucher header the party that stores the voucher builds, the HMAC the device computes over ITS idea of that
   header, and the credential the device keeps.  Mirrors di.go (setCredentials / device side of DI), to2.go (TO2:
   replacementOVH, sendReadyServiceInfo; to2Done2) and voucher.go hashAlgFor. *)
From FDO Require Export Fdo.Voucher.
Local Open Scope Z_scope.

(* hashAlgFor: SHA-384 only when both keys are "large" (P-384 or RSA-3072 and up); sizes as hashSizeForPubKey reports
   them (EC: curve bits; RSA: modulus BYTES, so RSA-2048 -> 256 and RSA-3072 -> 384) *)
Definition hash_alg_for (dev_size own_size : Z) : option Z :=
  let m := Z.min dev_size own_size in
  if m =? 256 then Some (-16) else if m =? 384 then Some (-43) else None.

Definition hmac_alg_of_hash (a : Z) : Z := if a =? -16 then 5 else 6.

Record cred := mkcred { c_version : Z; c_devinfo : bytes; c_guid : bytes; c_rvinfo : val; c_kalg : Z; c_kval : bytes }.

Section Handover.
  Variable O_hash : N -> bytes -> bytes.
  Variable O_hmac : N -> bytes -> bytes -> bytes.

  Definition e (t : ty) (v : val) : outcome bytes := enc enc_fuel t v.

  (* the header: version, guid, rvinfo, devinfo, manufacturer (= first owner) key, certificate chain hash *)
  Definition header (version : Z) (guid : bytes) (rvinfo : val) (devinfo : bytes) (key : val) (cch : val) : val :=
    VList [VInt version; VBytes guid; rvinfo; VText devinfo; key; cch].

  (* the device's side: HMAC over the header it was shown / it assembled, credential from the same fields *)
  Definition device_adopts (secret : bytes) (alg : Z) (hdr : val) : outcome (val * cred) :=
    match hdr, hash_of_alg alg with
    | VList [VInt version; VBytes guid; rvinfo; VText devinfo; key; _], Some h =>
      let* hb := e ty_header hdr in
      let* kb := e ty_pubkey key in
      Ok (VList [VInt (hmac_alg_of_hash alg); VBytes (O_hmac h secret hb)],
          mkcred version devinfo guid rvinfo alg (O_hash h kb))
    | _, _ => Err EOther
    end.

  (* TO2, device: the replacement header is assembled from the header received in ProveOVHdr and from SetupDevice *)
  Definition device_replacement (orig : val) (guid' : bytes) (rvinfo' : val) (owner2key : val) : option val :=
    match orig with
    | VList [VInt version; _; _; VText devinfo; _; cch] => Some (header version guid' rvinfo' devinfo owner2key cch)
    | _ => None
    end.

  (* TO2, owner (to2Done2): the replacement voucher's header is assembled from the stored voucher and the session *)
  Definition owner_replacement (stored : val) (guid' : bytes) (rvinfo' : val) (ownerkey : val) : option val :=
    match stored with
    | VList [VInt version; _; _; VText devinfo; _; cch] => Some (header version guid' rvinfo' devinfo ownerkey cch)
    | _ => None
    end.

  (* the agreement C03 asks for: the stored voucher (header + HMAC) verifies against what the device now holds *)
  Definition agrees (secret : bytes) (c : cred) (hdr hm : val) : Prop :=
    verify_header O_hmac secret hdr hm = Ok tt /\
    verify_mfg_key O_hash hdr (c_kalg c) (c_kval c) = Ok tt /\
    exists key cch, hdr = header (c_version c) (c_guid c) (c_rvinfo c) (c_devinfo c) key cch.
End Handover.
