(* RoundTripRaw.v — the encoder's output is one well-formed raw item (dec_raw accepts exactly it).
   Gives a structural sufficient condition for the side condition of wf_tagged
   (enc_sat (TTagged n t) v (raw_item d)): see wf_tagged_rw at the end. *)
From FDO Require Import Cbor.Typed Cbor.DecFacts.
From FDO Require Import Cbor.RoundTripMono Cbor.RoundTripHead Cbor.RoundTripWf Cbor.RoundTripCheck Cbor.RoundTrip.
Local Open Scope nat_scope.

Definition intraw (z : Z) : Prop := (-18446744073709551616 <= z < 18446744073709551616)%Z.
Definition short (a : bytes) : Prop := (N.of_nat (length a) < 100000)%N.

(* rw d t v : the encoding of v at type t is a raw item when scanned from depth d *)
Inductive rw : nat -> ty -> val -> Prop :=
| rw_int d t z : (match t with TInt _ | TAny | TLabel => True | _ => False end) -> intraw z -> rw d t (VInt z)
| rw_bool d t b : (match t with TBool | TAny => True | _ => False end) -> rw d t (VBool b)
| rw_null d t : (match t with TPtr _ | TAny | TDer _ | TTimestamp => True | _ => False end) -> rw d t VNull
| rw_bytes d t a :
    (match t with TBytes | TFixed _ | TBWBytes | TDer _ | TAny => True | _ => False end) -> short a -> rw d t (VBytes a)
| rw_text d t a : (match t with TText | TLabel | TAny => True | _ => False end) -> short a -> rw d t (VText a)
| rw_list d t l :
    (t = TAny \/ exists t', t = TSlice t') ->
    d < max_depth -> (N.of_nat (length l) < 100000)%N ->
    Forall (rw (S d) (match t with TSlice t' => t' | _ => TAny end)) l -> rw d t (VList l)
| rw_struct d fs l z :
    d < max_depth -> zip3 fs l = Some z -> (N.of_nat (length (omit_pass z)) < 100000)%N ->
    Forall (fun tv => rw (S d) (fst tv) (snd tv)) (omit_pass z) -> rw d (TStruct fs) (VList l)
| rw_map d t tk tv m :
    (t = TAny /\ tk = TAny /\ tv = TAny \/ t = TMap tk tv) ->
    d < max_depth -> (N.of_nat (length m) < 50000)%N ->
    Forall (fun kv => rw (S d) tk (fst kv) /\ rw (S d) tv (snd kv)) m -> rw d t (VMap m)
| rw_any_tag d n a : (n < two64)%N -> d < max_depth -> raw_item (S d) a -> rw d TAny (VTag n (VRaw a))
| rw_tag d t n v : (n < two64)%N -> d < max_depth -> rw (S d) t v -> rw d (TTag t) (VTag n v)
| rw_tagged d n t v : (n < two64)%N -> d < max_depth -> rw (S d) t v -> rw d (TTagged n t) v
| rw_bstr d t v : enc_sat t v short -> rw d (TBstr t) v
| rw_raw d a : raw_item d a -> rw d TRaw (VRaw a)
| rw_ptr d t v : v <> VNull -> rw d t v -> rw d (TPtr t) v
| rw_prot d m : enc_sat (TMap TLabel TAny) (VMap m) short -> rw d TProtHdr (VMap m)
| rw_ts d z : d < max_depth -> intraw z -> rw d TTimestamp (VInt z).

Definition raw_ev (d : nat) (b : bytes) : Prop :=
  forall r, ev (fun f => dec_raw f d (b ++ r) = Ok (b, r)).

Lemma raw_ev_item d b : raw_ev d b -> raw_item d b.
Proof. intros H. destruct (H []) as [f0 H0]. exists f0. specialize (H0 f0 (le_n _)). now rewrite app_nil_r in H0. Qed.

Lemma raw_ev_int d z : intraw z -> raw_ev d (enc_int z).
Proof.
  unfold intraw. intros Hz r. apply ev_S0. intros f. unfold enc_int. cbn [dec_raw].
  destruct (Z.ltb_spec z 0) as [Hneg|Hpos].
  - rd 1%N (Z.to_N (- z - 1)) r. use_head. now rewrite Hhb.
  - rd 0%N (Z.to_N z) r. use_head. now rewrite Hhb.
Qed.

Lemma raw_ev_simple d ai : (ai < 24)%N -> raw_ev d [byte_of_N (224 + ai)].
Proof.
  intros Hai r. apply ev_S0. intros f. cbn [app dec_raw]. rewrite read_head_simple by exact Hai. reflexivity.
Qed.

Lemma raw_ev_str d mt a : mt = 2%N \/ mt = 3%N -> short a -> raw_ev d (head mt (N.of_nat (length a)) ++ a).
Proof. intros Hmt Hl r. apply ev_S0. intros f. rewrite <- app_assoc. apply dec_raw_str; [exact Hmt|exact Hl]. Qed.

Lemma Forall2_diag {A} (R : A -> A -> Prop) l : Forall (fun x => R x x) l -> Forall2 R l l.
Proof. induction 1; constructor; auto. Qed.

Lemma raw_ev_seq d (bs : list bytes) :
  Forall (raw_ev d) bs -> forall r, ev (fun f => seq_n (dec_raw f d) (length bs) (concat bs ++ r) = Ok (bs, r)).
Proof.
  intros H. apply (seq_n_enc (fun f => dec_raw f d) bs bs). apply Forall2_diag. exact H.
Qed.

Lemma raw_ev_array d bs :
  d < max_depth -> (N.of_nat (length bs) < 100000)%N -> Forall (raw_ev (S d)) bs ->
  raw_ev d (head 4 (N.of_nat (length bs)) ++ concat bs).
Proof.
  intros Hd Hl HF r. refine (ev_S _ _ _ (raw_ev_seq _ _ HF r)). cbn beta. intros f E.
  rewrite <- app_assoc. rd 4%N (N.of_nat (length bs)) (concat bs ++ r).
  cbn [dec_raw]. use_head. unfold decode_len. hrw. kill_leb. cbn [bind].
  rewrite (not_deep _ Hd), Nat2N.id, E. cbn [bind]. now rewrite Hhb.
Qed.

Lemma raw_ev_tag d n a : (n < two64)%N -> d < max_depth -> raw_ev (S d) a -> raw_ev d (head 6 n ++ a).
Proof.
  intros Hn Hd Ha r. refine (ev_S _ _ _ (Ha r)). cbn beta. intros f E.
  rewrite <- app_assoc. rd 6%N n (a ++ r). cbn [dec_raw]. use_head.
  rewrite (not_deep _ Hd), E. cbn [bind]. now rewrite Hhb.
Qed.

(* maps: the scanner sees 2 * size items *)
Definition kv_items (kvs : list (bytes * bytes)) : list bytes := flat_map (fun kv => [fst kv; snd kv]) kvs.
Lemma kv_items_concat kvs : concat (kv_items kvs) = concat (map (fun kv => fst kv ++ snd kv) kvs).
Proof.
  unfold kv_items. induction kvs as [|[k v] kvs IH]; [reflexivity|]. cbn [flat_map map concat app fst snd].
  now rewrite IH, <- app_assoc.
Qed.
Lemma kv_items_length kvs : length (kv_items kvs) = 2 * length kvs.
Proof. unfold kv_items. induction kvs as [|[k v] kvs IH]; [reflexivity|]. cbn [flat_map app length] in *. lia. Qed.

Lemma kv_insert_Forall (P : bytes * bytes -> Prop) k v l : P (k, v) -> Forall P l -> Forall P (kv_insert k v l).
Proof.
  intros Hkv. induction 1 as [|[k' v'] l Hx Hl IH]; cbn [kv_insert]; [now constructor|].
  destruct (bytes_ltb k' k); constructor; auto.
Qed.
Lemma kv_insert_length k v l : length (kv_insert k v l) = S (length l).
Proof. induction l as [|[k' v'] l IH]; cbn [kv_insert length]; [reflexivity|]. destruct (bytes_ltb k' k); cbn [length]; lia. Qed.
Lemma kv_sort_Forall (P : bytes * bytes -> Prop) l : Forall P l -> Forall P (kv_sort l).
Proof.
  unfold kv_sort. induction 1 as [|[k v] l Hx Hl IH]; cbn [fold_right fst snd]; [constructor|].
  now apply kv_insert_Forall.
Qed.
Lemma kv_sort_length l : length (kv_sort l) = length l.
Proof. unfold kv_sort. induction l as [|[k v] l IH]; cbn [fold_right length]; [reflexivity|]. now rewrite kv_insert_length, IH. Qed.

Lemma raw_ev_map d n kvs :
  d < max_depth -> length kvs = n -> (N.of_nat n < 50000)%N ->
  Forall (fun kv => raw_ev (S d) (fst kv) /\ raw_ev (S d) (snd kv)) kvs ->
  raw_ev d (head 5 (N.of_nat n) ++ concat (map (fun kv => fst kv ++ snd kv) (kv_sort kvs))).
Proof.
  intros Hd Hn Hl HF r.
  assert (HI : Forall (raw_ev (S d)) (kv_items (kv_sort kvs))).
  { apply kv_sort_Forall in HF. induction HF as [|[k v] l [H1 H2] _ IH]; cbn [kv_items flat_map app fst snd]; auto. }
  rewrite <- kv_items_concat.
  refine (ev_S _ _ _ (raw_ev_seq _ _ HI r)). cbn beta. intros f E.
  rewrite kv_items_length, kv_sort_length, Hn in E.
  rewrite <- app_assoc. rd 5%N (N.of_nat n) (concat (kv_items (kv_sort kvs)) ++ r).
  cbn [dec_raw]. use_head. unfold decode_len. hrw.
  replace ((N.of_nat n * 2) mod 18446744073709551616)%N with (N.of_nat (2 * n)) by lia.
  kill_leb. cbn [bind]. rewrite (not_deep _ Hd), Nat2N.id, E. cbn [bind]. now rewrite Hhb.
Qed.

Definition raw_at (fe : nat) : Prop :=
  forall d t v b, rw d t v -> enc fe t v = Ok b -> raw_ev d b.

Lemma enc_raw_step fe : raw_at fe -> raw_at (S fe).
Proof.
  intros IH d t v b Hrw Henc. pose proof Henc as Henc0.
  inversion Hrw; subst.
  - (* int *)
    destruct t; try contradiction; cbn [enc] in Henc.
    + injection Henc as <-; now apply raw_ev_int.
    + injection Henc as <-; now apply raw_ev_int.
    + revert Henc; destruct (Z.eqb_spec z 0); intros Henc;
        [assert (Eb : b = [byte_of_N 96]) by congruence | assert (Eb : b = enc_int z) by congruence]; subst b;
        [|now apply raw_ev_int].
      change [byte_of_N 96] with (head 3 (N.of_nat (length (@nil byte))) ++ []).
      apply raw_ev_str; [now right|unfold short; cbn; lia].
  - (* bool *)
    destruct t; try contradiction; cbn [enc] in Henc; injection Henc as <-;
      (destruct b0; [change 245%N with (224 + 21)%N|change 244%N with (224 + 20)%N]; apply raw_ev_simple; lia).
  - (* null *)
    destruct t; try contradiction; cbn [enc] in Henc; injection Henc as <-;
      change 246%N with (224 + 22)%N; apply raw_ev_simple; lia.
  - (* bytes *)
    destruct t; try contradiction; cbn [enc] in Henc; injection Henc as <-; apply raw_ev_str; auto.
  - (* text *)
    destruct t; try contradiction; cbn [enc] in Henc; try (injection Henc as <-; apply raw_ev_str; auto).
  - (* list *)
    set (te := match t with TSlice t' => t' | _ => TAny end) in *.
    assert (Henc' : (let* bs := mapM (enc fe te) l in Ok (head 4 (N.of_nat (length l)) ++ concat bs)) = Ok b).
    { match goal with Ht : _ \/ _ |- _ => destruct Ht as [-> | [t' ->]] end; exact Henc. }
    clear Henc. destruct (mapM (enc fe te) l) as [bs| | |] eqn:EM; cbn [bind] in Henc'; try discriminate.
    injection Henc' as <-. apply mapM_Forall2 in EM. rewrite (Forall2_length _ _ _ EM).
    apply raw_ev_array; [assumption|now rewrite <- (Forall2_length _ _ _ EM)|].
    match goal with HF : Forall (rw _ _) l |- _ => revert HF end. clear -EM IH.
    induction EM as [|x y l bs Hxy _ IHl]; intros HF; constructor; inversion HF; subst; eauto.
  - (* struct *)
    cbn [enc] in Henc. match goal with Hz : zip3 _ _ = Some _ |- _ => rewrite Hz in Henc end.
    destruct (mapM _ (omit_pass z)) as [bs| | |] eqn:EM; cbn [bind] in Henc; try discriminate.
    injection Henc as <-. apply mapM_Forall2 in EM. rewrite (Forall2_length _ _ _ EM).
    apply raw_ev_array; [assumption|now rewrite <- (Forall2_length _ _ _ EM)|].
    match goal with HF : Forall _ (omit_pass z) |- _ => revert HF end. clear -EM IH.
    induction EM as [|x y l bs Hxy _ IHl]; intros HF; constructor; inversion HF; subst; eauto.
  - (* map *)
    assert (Henc' : (let* kvs := mapM (enc_pair fe tk tv) m in
                     Ok (head 5 (N.of_nat (length m)) ++ concat (map (fun kv => fst kv ++ snd kv) (kv_sort kvs)))) = Ok b).
    { match goal with Ht : _ \/ _ |- _ => destruct Ht as [(-> & -> & ->) | ->] end; exact Henc. }
    clear Henc. destruct (mapM (enc_pair fe tk tv) m) as [kvs| | |] eqn:EM; cbn [bind] in Henc'; try discriminate.
    injection Henc' as <-. apply mapM_Forall2 in EM.
    apply raw_ev_map; [assumption|now rewrite <- (Forall2_length _ _ _ EM)|assumption|].
    match goal with HF : Forall _ m |- _ => revert HF end. clear -EM IH.
    induction EM as [|[k v] [ek ex] l bs Hxy _ IHl]; intros HF; constructor; inversion HF as [|? ? [W1 W2] HF']; subst; eauto.
    unfold enc_pair in Hxy. cbn [fst snd] in *.
    destruct (enc fe tk k) as [ek'| | |] eqn:E1; cbn [bind] in Hxy; try discriminate.
    destruct (enc fe tv v) as [ex'| | |] eqn:E2; cbn [bind] in Hxy; try discriminate.
    injection Hxy as -> ->. split; eauto.
  - (* any tag *)
    cbn [enc] in Henc. injection Henc as <-. apply raw_ev_tag; try assumption.
    intros r. now apply raw_item_ev.
  - (* tag *)
    cbn [enc] in Henc. destruct (enc fe t0 v0) as [a| | |] eqn:EA; cbn [bind] in Henc; try discriminate.
    injection Henc as <-. apply raw_ev_tag; eauto.
  - (* tagged *)
    assert (Henc' : (let* a := enc fe t0 v in Ok (head 6 n ++ a)) = Ok b) by (destruct v; exact Henc).
    destruct (enc fe t0 v) as [a| | |] eqn:EA; cbn [bind] in Henc'; try discriminate.
    injection Henc' as <-. apply raw_ev_tag; eauto.
  - (* bstr *)
    assert (Henc' : (let* a := enc fe t0 v in Ok (head 2 (N.of_nat (length a)) ++ a)) = Ok b) by (destruct v; exact Henc).
    destruct (enc fe t0 v) as [a| | |] eqn:EA; cbn [bind] in Henc'; try discriminate.
    injection Henc' as <-. apply raw_ev_str; [now left|]. match goal with Hs : enc_sat _ _ _ |- _ => exact (Hs _ _ EA) end.
  - (* raw *)
    cbn [enc] in Henc. injection Henc as <-. intros r. now apply raw_item_ev.
  - (* ptr *)
    assert (Henc' : enc fe t0 v = Ok b) by (destruct v; try exact Henc; congruence).
    eauto.
  - (* prot *)
    cbn [enc] in Henc. destruct m as [|p m].
    + injection Henc as <-. change [byte_of_N 64] with (head 2 (N.of_nat (length (@nil byte))) ++ []).
      apply raw_ev_str; [now left|unfold short; cbn; lia].
    + destruct (enc fe (TMap TLabel TAny) (VMap (p :: m))) as [a| | |] eqn:EA; cbn [bind] in Henc; try discriminate.
      injection Henc as <-. apply raw_ev_str; [now left|]. match goal with Hs : enc_sat _ _ _ |- _ => exact (Hs _ _ EA) end.
  - (* timestamp *)
    cbn [enc] in Henc. injection Henc as <-. apply (raw_ev_tag d 1%N (enc_int z)); [unfold two64; lia|assumption|now apply raw_ev_int].
Qed.

Theorem enc_raw fe : forall d t v b,
  rw d t v -> enc fe t v = Ok b -> forall r, exists f0, forall f, f0 <= f -> dec_raw f d (b ++ r) = Ok (b, r).
Proof.
  change (raw_at fe). induction fe as [|fe IH].
  - intros d t v b _ H. discriminate H.
  - now apply enc_raw_step.
Qed.

Corollary enc_raw_item fe d t v b : rw d t v -> enc fe t v = Ok b -> raw_item d b.
Proof. intros H E. apply raw_ev_item. exact (enc_raw fe d t v b H E). Qed.

(* structural replacement for the semantic premise of wf_tagged *)
Theorem wf_tagged_rw O_der d n t v :
  (n < two64)%N -> wf O_der 0 t v -> d < max_depth -> rw (S d) t v -> wf O_der d (TTagged n t) v.
Proof.
  intros Hn Hw Hd Hr. apply wf_tagged; [assumption|assumption|].
  intros fe a E. eapply enc_raw_item; [|exact E]. now apply rw_tagged.
Qed.


(* non-vacuity of wf_tagged_rw: the tagged struct of RoundTrip.Examples.ex_tagged, without running dec_raw *)
Example ex_tagged_rw :
  wf Examples.OD 0 (TTagged 18 Examples.st1) (VList [VInt 5; VText []; VBool true]).
Proof.
  apply wf_tagged_rw.
  - unfold two64. lia.
  - apply (wfb_sound Examples.OD 50). vm_compute. reflexivity.
  - unfold max_depth. lia.
  - apply (rw_struct 1 _ _ [(false, TInt KU8, VInt 5); (true, TText, VText []); (false, TBool, VBool true)]).
    + unfold max_depth. lia.
    + reflexivity.
    + cbn. lia.
    + cbn [omit_pass andb is_empty_val Z.eqb]. repeat constructor; cbn; unfold intraw; try lia; exact I.
Qed.

Print Assumptions enc_raw.
Print Assumptions wf_tagged_rw.
