(* Cbor/Ty.v — universe of Go decode/encode target shapes and the value domain. *)
From FDO Require Export Cbor.Head.

Inductive ikind := KU8 | KU16 | KU32 | KU64 | KUint | KI8 | KI16 | KI32 | KI64 | KInt.

Inductive ty :=
| TInt (k : ikind)
| TBool
| TBytes                      (* []byte and named byte slices *)
| TText                       (* string kinds *)
| TFixed (n : nat)            (* [n]byte *)
| TSlice (t : ty)
| TPtr (t : ty)
| TStruct (fs : list (bool * ty))   (* fields in wire order (fieldOrder); bool = omitempty *)
| TMap (k v : ty)
| TAny
| TTag (t : ty)               (* cbor.Tag[T] — any tag number *)
| TTagged (n : N) (t : ty)    (* wrapper types that insist on one tag number (Sign1Tag, Mac0Tag, Encrypt0Tag) *)
| TBstr (t : ty)              (* cbor.Bstr[T] and cbor.ByteWrap[T], T <> []byte *)
| TBWBytes                    (* cbor.ByteWrap[[]byte] *)
| TRaw                        (* cbor.RawBytes *)
| TDer (csr : bool)           (* *cbor.X509Certificate / X509CertificateRequest: opaque DER, parse via oracle *)
| TLabel                      (* cose.IntOrStr *)
| TProtHdr                    (* cose emptyOrSerializedMap: bstr(map) or empty bstr *)
| TTimestamp.                 (* cbor.Timestamp *)

Inductive val :=
| VInt (z : Z)
| VBool (b : bool)
| VBytes (b : bytes)
| VText (b : bytes)
| VList (l : list val)
| VMap (l : list (val * val))
| VNull
| VTag (n : N) (v : val)
| VRaw (b : bytes).

Definition kind_max (k : ikind) : Z :=
  match k with
  | KU8 => 255 | KU16 => 65535 | KU32 => 4294967295 | KU64 | KUint => 18446744073709551615
  | KI8 => 127 | KI16 => 32767 | KI32 => 2147483647 | KI64 | KInt => 9223372036854775807
  end%Z.
Definition kind_min (k : ikind) : Z :=
  match k with
  | KU8 | KU16 | KU32 | KU64 | KUint => 0
  | KI8 => -128 | KI16 => -32768 | KI32 => -2147483648 | KI64 | KInt => -9223372036854775808
  end%Z.
Definition kind_signed (k : ikind) : bool :=
  match k with KI8 | KI16 | KI32 | KI64 | KInt => true | _ => false end.

Fixpoint zero_val (t : ty) : val :=
  match t with
  | TInt _ => VInt 0
  | TBool => VBool false
  | TBytes | TBWBytes => VBytes []
  | TText => VText []
  | TFixed n => VBytes (repeat x00 n)
  | TSlice _ => VList []
  | TPtr _ | TAny | TDer _ | TTimestamp => VNull
  | TStruct fs => VList (map (fun f => zero_val (snd f)) fs)
  | TMap _ _ | TProtHdr => VMap []
  | TTag t => VTag 0 (zero_val t)
  | TTagged _ t => zero_val t
  | TBstr t => zero_val t
  | TRaw => VRaw []
  | TLabel => VInt 0
  end.

(* ---- decidable equality on values (used for map keys and omitempty) ---- *)
Fixpoint val_eqb (a b : val) {struct a} : bool :=
  match a, b with
  | VInt x, VInt y => Z.eqb x y
  | VBool x, VBool y => Bool.eqb x y
  | VBytes x, VBytes y => bytes_eqb x y
  | VText x, VText y => bytes_eqb x y
  | VNull, VNull => true
  | VRaw x, VRaw y => bytes_eqb x y
  | VTag n x, VTag m y => N.eqb n m && val_eqb x y
  | VList x, VList y =>
    (fix go (x y : list val) : bool :=
       match x, y with
       | [], [] => true
       | a :: x', b :: y' => val_eqb a b && go x' y'
       | _, _ => false
       end) x y
  | VMap x, VMap y =>
    (fix go (x y : list (val * val)) : bool :=
       match x, y with
       | [], [] => true
       | (a1, a2) :: x', (b1, b2) :: y' => val_eqb a1 b1 && val_eqb a2 b2 && go x' y'
       | _, _ => false
       end) x y
  | _, _ => false
  end.

(* lexicographic bytewise order on encodings (BytewiseLexicalSort) *)
Fixpoint bytes_ltb (a b : bytes) : bool :=
  match a, b with
  | [], [] => false
  | [], _ :: _ => true
  | _ :: _, [] => false
  | x :: a', y :: b' =>
    if (Byte.to_N x <? Byte.to_N y)%N then true
    else if (Byte.to_N y <? Byte.to_N x)%N then false
    else bytes_ltb a' b'
  end.
