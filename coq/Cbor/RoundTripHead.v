(* RoundTripHead.v — reading back a head written by `head`. *)
From FDO Require Import Cbor.Typed Cbor.DecFacts.
Local Open Scope N_scope.

Lemma read_head_mk mt ai a r :
  mt < 8 -> ai < 32 -> length a = add_len ai ->
  read_head (byte_of_N (mt * 32 + ai) :: a ++ r) = Ok (mkhd mt ai a, r).
Proof.
  intros Hmt Hai Hl. cbn [read_head]. rewrite to_of_N by lia.
  replace ((mt * 32 + ai) mod 32) with ai by lia.
  replace ((mt * 32 + ai) / 32) with mt by lia.
  rewrite (take_app _ a r Hl). reflexivity.
Qed.

Lemma arg_unwrap_nonempty mt ai a : a <> [] -> arg_unwrap (mkhd mt ai a) = of_be a.
Proof. unfold arg_unwrap. cbn [h_add]. destruct a; [congruence|reflexivity]. Qed.

Lemma be_nonempty k n : (0 < k)%nat -> be k n <> [].
Proof. intros Hk E. apply (f_equal (@length _)) in E. rewrite be_length in E. cbn in E. lia. Qed.

Definition two64 : N := 18446744073709551616.

Lemma read_head_head mt n r :
  mt < 8 -> n < two64 ->
  exists h, read_head (head mt n ++ r) = Ok (h, r) /\ h_mt h = mt /\ arg_val h = n /\ arg_unwrap h = n
            /\ head_bytes h = head mt n /\ (mt < 7 -> is_null_hd h = false).
Proof.
  intros Hmt Hn. unfold head, two64 in *.
  assert (NN : forall ai a, mt < 7 -> is_null_hd (mkhd mt ai a) = false).
  { intros ai a H7. unfold is_null_hd. cbn [h_mt]. destruct (N.eqb_spec mt 7); [lia|reflexivity]. }
  destruct (N.ltb_spec n 24) as [H1|H1].
  { exists (mkhd mt n []). split; [|repeat split].
    - cbn [app]. apply (read_head_mk mt n [] r); try lia.
      unfold add_len. repeat match goal with |- context [N.eqb ?a ?b] => destruct (N.eqb_spec a b); [lia|] end. reflexivity.
    - unfold arg_val. cbn [h_ai]. destruct (N.ltb_spec n 24); [reflexivity|lia].
    - apply NN. }
  destruct (N.ltb_spec n 256) as [H2|H2].
  { exists (mkhd mt 24 (be 1 n)). split; [|repeat split].
    - cbn [app]. apply read_head_mk; try lia. now rewrite be_length.
    - unfold arg_val. cbn [h_ai h_add N.ltb N.compare Pos.compare Pos.compare_cont]. now apply (of_be_be 1).
    - rewrite arg_unwrap_nonempty by (apply be_nonempty; lia). now apply (of_be_be 1).
    - apply NN. }
  destruct (N.ltb_spec n 65536) as [H3|H3].
  { exists (mkhd mt 25 (be 2 n)). split; [|repeat split].
    - cbn [app]. apply read_head_mk; try lia. now rewrite be_length.
    - unfold arg_val. cbn [h_ai h_add N.ltb N.compare Pos.compare Pos.compare_cont]. now apply (of_be_be 2).
    - rewrite arg_unwrap_nonempty by (apply be_nonempty; lia). now apply (of_be_be 2).
    - apply NN. }
  destruct (N.ltb_spec n 4294967296) as [H4|H4].
  { exists (mkhd mt 26 (be 4 n)). split; [|repeat split].
    - cbn [app]. apply read_head_mk; try lia. now rewrite be_length.
    - unfold arg_val. cbn [h_ai h_add N.ltb N.compare Pos.compare Pos.compare_cont]. now apply (of_be_be 4).
    - rewrite arg_unwrap_nonempty by (apply be_nonempty; lia). now apply (of_be_be 4).
    - apply NN. }
  { exists (mkhd mt 27 (be 8 n)). split; [|repeat split].
    - cbn [app]. apply read_head_mk; try lia. now rewrite be_length.
    - unfold arg_val. cbn [h_ai h_add N.ltb N.compare Pos.compare Pos.compare_cont]. now apply (of_be_be 8).
    - rewrite arg_unwrap_nonempty by (apply be_nonempty; lia). now apply (of_be_be 8).
    - apply NN. }
Qed.

(* one-byte simple values of major type 7 (false/true/null) *)
Lemma read_head_simple ai r :
  ai < 24 -> read_head (byte_of_N (224 + ai) :: r) = Ok (mkhd 7 ai [], r).
Proof.
  intros H. change (224 + ai) with (7 * 32 + ai). apply (read_head_mk 7 ai [] r); try lia.
  unfold add_len. repeat match goal with |- context [N.eqb ?a ?b] => destruct (N.eqb_spec a b); [lia|] end. reflexivity.
Qed.

(* first byte of a head *)
Definition null_byte (x : byte) : bool := (Byte.to_N x =? 246) || (Byte.to_N x =? 247).

Lemma read_head_null_byte x b h r : read_head (x :: b) = Ok (h, r) -> is_null_hd h = null_byte x.
Proof.
  cbn [read_head]. destruct (take _ b) as [[a r']|]; [|discriminate].
  intros H; injection H as <- <-. unfold is_null_hd, null_byte. cbn [h_mt h_ai].
  pose proof (to_N_lt x).
  repeat match goal with |- context [N.eqb ?a ?b] => destruct (N.eqb_spec a b) end; cbn; try reflexivity; lia.
Qed.

Lemma head_first mt n : mt < 7 -> exists x tl, head mt n = x :: tl /\ null_byte x = false.
Proof.
  intros Hmt. unfold head.
  assert (NB : forall ai, ai < 28 -> null_byte (byte_of_N (mt * 32 + ai)) = false).
  { intros ai Hai. unfold null_byte. rewrite to_of_N by lia.
    repeat match goal with |- context [N.eqb ?a ?b] => destruct (N.eqb_spec a b) end; cbn; try reflexivity; lia. }
  repeat match goal with |- context [N.ltb ?a ?b] => destruct (N.ltb_spec a b) end;
    eexists; eexists; (split; [reflexivity|apply NB; lia]).
Qed.
