(* Cbor/DecFacts.v — facts about the decoder model: what is returned is a suffix of the input,
   fuel adequacy (no OutOfFuel for fuel_for b), no Panic. *)
From FDO Require Import Cbor.Typed.
Local Open Scope nat_scope.

Definition suffix_of (r b : bytes) : Prop := exists p, b = p ++ r.

Lemma suffix_refl b : suffix_of b b.
Proof. now exists []. Qed.
Lemma suffix_trans a b c : suffix_of a b -> suffix_of b c -> suffix_of a c.
Proof. intros [p ->] [q ->]. exists (q ++ p). now rewrite app_assoc. Qed.
Lemma suffix_len r b : suffix_of r b -> length r <= length b.
Proof. intros [p ->]. rewrite app_length. lia. Qed.
Lemma suffix_cons x r b : suffix_of r b -> suffix_of r (x :: b).
Proof. intros [p ->]. now exists (x :: p). Qed.
Lemma suffix_nil b : suffix_of [] b.
Proof. exists b. now rewrite app_nil_r. Qed.
Lemma suffix_skipn n (b : bytes) : suffix_of (skipn n b) b.
Proof. exists (firstn n b). now rewrite firstn_skipn. Qed.

(* ---- heads ---- *)
Lemma read_head_suffix b h r : read_head b = Ok (h, r) -> suffix_of r b /\ length r < length b.
Proof.
  destruct b as [|x b]; cbn [read_head]; [discriminate|].
  destruct (take _ b) as [[a r']|] eqn:E; [|discriminate].
  intros H; inversion H; subst. apply take_spec in E as [-> _].
  split; [exists (x :: a); reflexivity|]. cbn [length]. rewrite app_length. lia.
Qed.

Lemma take_o_suffix {A} k (b a r : list A) : take_o k b = Ok (a, r) -> b = a ++ r /\ length a = k.
Proof. unfold take_o. destruct (take k b) as [[a' r']|] eqn:E; [|discriminate]. intros H; inversion H; subst. now apply take_spec. Qed.

Lemma take_o_total {A} k (b : list A) : total (take_o k b).
Proof. unfold take_o. now destruct (take k b) as [[? ?]|]. Qed.

Lemma read_head_total b : total (read_head b).
Proof. destruct b as [|x b]; cbn [read_head]; [exact I|]. now destruct (take _ b) as [[? ?]|]. Qed.

(* ---- sequences ---- *)
Section SeqFacts.
  Context {A : Type} (d : bytes -> outcome (A * bytes)).

  Lemma seq_n_suffix n : forall b l r,
    (forall b' x r', suffix_of b' b -> d b' = Ok (x, r') -> suffix_of r' b') ->
    seq_n d n b = Ok (l, r) -> suffix_of r b.
  Proof.
    induction n as [|n IH]; intros b l r Hd; cbn [seq_n].
    - intros H; inversion H; subst. apply suffix_refl.
    - destruct (d b) as [[x r1]| | |] eqn:E1; cbn [bind]; try discriminate.
      destruct (seq_n d n r1) as [[l' r2]| | |] eqn:E2; cbn [bind]; try discriminate.
      intros H; inversion H; subst.
      assert (S1 : suffix_of r1 b) by (eapply Hd; [apply suffix_refl|exact E1]).
      eapply suffix_trans; [|exact S1]. eapply IH; [|exact E2].
      intros b' x' r' Hs. apply Hd. eapply suffix_trans; eauto.
  Qed.

  Lemma seq_n_total n : forall b,
    (forall b', suffix_of b' b -> total (d b')) ->
    (forall b' x r', suffix_of b' b -> d b' = Ok (x, r') -> suffix_of r' b') ->
    total (seq_n d n b).
  Proof.
    induction n as [|n IH]; intros b Ht Hd; cbn [seq_n]; [exact I|].
    pose proof (Ht b (suffix_refl b)) as T.
    destruct (d b) as [[x r1]| | |] eqn:E1; cbn [bind]; try exact I; try contradiction.
    assert (S1 : suffix_of r1 b) by (eapply Hd; [apply suffix_refl|exact E1]).
    assert (T2 : total (seq_n d n r1)).
    { apply IH; intros; [apply Ht|eapply Hd]; eauto using suffix_trans. }
    destruct (seq_n d n r1) as [[l' r2]| | |]; cbn [bind]; try exact I; contradiction.
  Qed.
End SeqFacts.

Lemma seq_fields_suffix (d : ty -> bytes -> outcome (val * bytes)) fs : forall b l r,
  (forall t b' x r', suffix_of b' b -> d t b' = Ok (x, r') -> suffix_of r' b') ->
  seq_fields d fs b = Ok (l, r) -> suffix_of r b.
Proof.
  induction fs as [|[p t] fs IH]; intros b l r Hd; cbn [seq_fields].
  - intros H; inversion H; subst. apply suffix_refl.
  - destruct p.
    + destruct (d t b) as [[x r1]| | |] eqn:E1; cbn [bind]; try discriminate.
      destruct (seq_fields d fs r1) as [[l' r2]| | |] eqn:E2; cbn [bind]; try discriminate.
      intros H; inversion H; subst.
      assert (S1 : suffix_of r1 b) by (eapply Hd; [apply suffix_refl|exact E1]).
      eapply suffix_trans; [|exact S1]. eapply IH; [|exact E2].
      intros t' b' x' r' Hs. apply Hd. eapply suffix_trans; eauto.
    + destruct (seq_fields d fs b) as [[l' r2]| | |] eqn:E2; cbn [bind]; try discriminate.
      intros H; inversion H; subst. eapply IH; eauto.
Qed.

Lemma seq_fields_total (d : ty -> bytes -> outcome (val * bytes)) fs : forall b,
  (forall t b', suffix_of b' b -> total (d t b')) ->
  (forall t b' x r', suffix_of b' b -> d t b' = Ok (x, r') -> suffix_of r' b') ->
  total (seq_fields d fs b).
Proof.
  induction fs as [|[p t] fs IH]; intros b Ht Hd; cbn [seq_fields]; [exact I|].
  destruct p.
  - pose proof (Ht t b (suffix_refl b)) as T.
    destruct (d t b) as [[x r1]| | |] eqn:E1; cbn [bind]; try exact I; try contradiction.
    assert (S1 : suffix_of r1 b) by (eapply Hd; [apply suffix_refl|exact E1]).
    assert (T2 : total (seq_fields d fs r1)).
    { apply IH; intros; [apply Ht|eapply Hd]; eauto using suffix_trans. }
    destruct (seq_fields d fs r1) as [[l' r2]| | |]; cbn [bind]; try exact I; contradiction.
  - assert (T2 : total (seq_fields d fs b)) by (apply IH; auto).
    destruct (seq_fields d fs b) as [[l' r2]| | |]; cbn [bind]; try exact I; contradiction.
Qed.

Lemma seq_pairs_suffix dk dv ok n : forall acc b m r,
  (forall b' x r', suffix_of b' b -> dk b' = Ok (x, r') -> suffix_of r' b') ->
  (forall b' x r', suffix_of b' b -> dv b' = Ok (x, r') -> suffix_of r' b') ->
  seq_pairs dk dv ok n acc b = Ok (m, r) -> suffix_of r b.
Proof.
  induction n as [|n IH]; intros acc b m r Hk Hv; cbn [seq_pairs].
  - intros H; inversion H; subst. apply suffix_refl.
  - destruct (dk b) as [[k r1]| | |] eqn:E1; cbn [bind]; try discriminate.
    destruct (dv r1) as [[v r2]| | |] eqn:E2; cbn [bind]; try discriminate.
    destruct (ok k); [|discriminate].
    intros H.
    assert (S1 : suffix_of r1 b) by (eapply Hk; [apply suffix_refl|exact E1]).
    assert (S2 : suffix_of r2 r1) by (eapply Hv; [exact S1|exact E2]).
    eapply suffix_trans; [|eapply suffix_trans; [exact S2|exact S1]].
    assert (S12 : suffix_of r2 b) by (eapply suffix_trans; eauto).
    eapply IH; [| |exact H].
    + intros b' x r' Hs. apply Hk. eapply suffix_trans; eauto.
    + intros b' x r' Hs. apply Hv. eapply suffix_trans; eauto.
Qed.

Lemma seq_pairs_total dk dv ok n : forall acc b,
  (forall b', suffix_of b' b -> total (dk b')) ->
  (forall b', suffix_of b' b -> total (dv b')) ->
  (forall b' x r', suffix_of b' b -> dk b' = Ok (x, r') -> suffix_of r' b') ->
  (forall b' x r', suffix_of b' b -> dv b' = Ok (x, r') -> suffix_of r' b') ->
  total (seq_pairs dk dv ok n acc b).
Proof.
  induction n as [|n IH]; intros acc b Tk Tv Hk Hv; cbn [seq_pairs]; [exact I|].
  pose proof (Tk b (suffix_refl b)) as T1.
  destruct (dk b) as [[k r1]| | |] eqn:E1; cbn [bind]; try exact I; try contradiction.
  assert (S1 : suffix_of r1 b) by (eapply Hk; [apply suffix_refl|exact E1]).
  pose proof (Tv r1 S1) as T2.
  destruct (dv r1) as [[v r2]| | |] eqn:E2; cbn [bind]; try exact I; try contradiction.
  assert (S2 : suffix_of r2 r1) by (eapply Hv; [exact S1|exact E2]).
  destruct (ok k); [|exact I].
  assert (S12 : suffix_of r2 b) by (eapply suffix_trans; eauto).
  apply IH.
  - intros b' Hs. apply Tk. eapply suffix_trans; eauto.
  - intros b' Hs. apply Tv. eapply suffix_trans; eauto.
  - intros b' x r' Hs. apply Hk. eapply suffix_trans; eauto.
  - intros b' x r' Hs. apply Hv. eapply suffix_trans; eauto.
Qed.

(* ---- raw extent ---- *)
Lemma dec_raw_suffix f : forall d b a r, dec_raw f d b = Ok (a, r) -> suffix_of r b.
Proof.
  induction f as [|f IH]; intros d b a r; cbn [dec_raw]; [discriminate|].
  destruct (read_head b) as [[h r0]| | |] eqn:EH; cbn [bind]; try discriminate.
  apply read_head_suffix in EH as [S0 _].
  destruct ((h_mt h =? 2) || (h_mt h =? 3))%N.
  { destruct (decode_len h) as [n| | |]; cbn [bind]; try discriminate.
    destruct (take_o n r0) as [[a' r']| | |] eqn:ET; cbn [bind]; try discriminate.
    intros H; inversion H; subst. apply take_o_suffix in ET as [-> _].
    eapply suffix_trans; [|exact S0]. exists a'. reflexivity. }
  destruct ((h_mt h =? 4) || (h_mt h =? 5))%N.
  { destruct (decode_len h) as [n| | |]; cbn [bind]; try discriminate.
    destruct (too_deep d); [discriminate|].
    destruct (seq_n (dec_raw f (S d)) n r0) as [[l r']| | |] eqn:ES; cbn [bind]; try discriminate.
    intros H; inversion H; subst. eapply suffix_trans; [|exact S0].
    eapply seq_n_suffix; [|exact ES]. intros; eapply IH; eauto. }
  destruct (h_mt h =? 6)%N.
  { destruct (too_deep d); [discriminate|].
    destruct (dec_raw f (S d) r0) as [[a' r']| | |] eqn:ER; cbn [bind]; try discriminate.
    intros H; inversion H; subst. eapply suffix_trans; [eapply IH; exact ER|exact S0]. }
  intros H; inversion H; subst. exact S0.
Qed.

Lemma decode_len_total h : total (decode_len h).
Proof. unfold decode_len. now destruct (_ <=? _)%N. Qed.

Lemma dec_raw_total f : forall d b, length b < f -> total (dec_raw f d b).
Proof.
  induction f as [|f IH]; intros d b Hf; [lia|]. cbn [dec_raw].
  pose proof (read_head_total b) as TH.
  destruct (read_head b) as [[h r0]| | |] eqn:EH; cbn [bind]; try exact I; try contradiction.
  apply read_head_suffix in EH as [S0 L0].
  destruct ((h_mt h =? 2) || (h_mt h =? 3))%N.
  { pose proof (decode_len_total h) as TL.
    destruct (decode_len h) as [n| | |]; cbn [bind]; try exact I; try contradiction.
    pose proof (take_o_total n r0) as TT.
    destruct (take_o n r0) as [[a' r']| | |]; cbn [bind]; try exact I; contradiction. }
  destruct ((h_mt h =? 4) || (h_mt h =? 5))%N.
  { pose proof (decode_len_total h) as TL.
    destruct (decode_len h) as [n| | |]; cbn [bind]; try exact I; try contradiction.
    destruct (too_deep d); [exact I|].
    assert (TS : total (seq_n (dec_raw f (S d)) n r0)).
    { apply seq_n_total.
      - intros b' Hs. apply IH. apply suffix_len in Hs. lia.
      - intros b' x r' _ E. eapply dec_raw_suffix; exact E. }
    destruct (seq_n (dec_raw f (S d)) n r0) as [[l r']| | |]; cbn [bind]; try exact I; contradiction. }
  destruct (h_mt h =? 6)%N.
  { destruct (too_deep d); [exact I|].
    assert (TR : total (dec_raw f (S d) r0)) by (apply IH; lia).
    destruct (dec_raw f (S d) r0) as [[a' r']| | |]; cbn [bind]; try exact I; contradiction. }
  exact I.
Qed.

Lemma split_limit_spec n b i r : split_limit n b = (i, r) -> b = i ++ r.
Proof.
  unfold split_limit. destruct (_ <=? _)%N; intros H; inversion H; subst.
  - now rewrite app_nil_r.
  - now rewrite firstn_skipn.
Qed.

Ltac chain :=
  solve [ apply suffix_refl | assumption | apply suffix_nil
        | match goal with H : suffix_of ?r ?x |- suffix_of ?r ?b => apply (suffix_trans _ _ _ H); chain end ].

(* open up one layer of the decoder's control flow *)
Ltac dstep :=
  match goal with
  | |- (bind ?x _ = _ -> _) => destruct x eqn:?; cbn [bind]; try discriminate
  | |- ((if ?c then _ else _) = _ -> _) => destruct c eqn:?; try discriminate
  | |- (match ?x with _ => _ end = _ -> _) => destruct x eqn:?; try discriminate
  | |- ((let (_, _) := ?x in _) = _ -> _) => destruct x eqn:?
  end.

Section DecFacts.
  Variable O_der : bool -> bytes -> bool.
  Variable O_rfc : bytes -> option Z.
  Notation dec := (dec O_der O_rfc).

  Ltac gather IH :=
    repeat match goal with
    | H : read_head ?b = Ok (_, ?r) |- _ =>
      lazymatch goal with
      | _ : suffix_of r b |- _ => fail
      | _ => pose proof (proj1 (read_head_suffix _ _ _ H))
      end
    | H : dec _ _ _ ?b = Ok (_, ?r) |- _ =>
      lazymatch goal with
      | _ : suffix_of r b |- _ => fail
      | _ => pose proof (IH _ _ _ _ _ H)
      end
    | H : dec_raw _ _ ?b = Ok (_, ?r) |- _ =>
      lazymatch goal with
      | _ : suffix_of r b |- _ => fail
      | _ => pose proof (dec_raw_suffix _ _ _ _ _ H)
      end
    | H : take_o _ ?b = Ok (?a, ?r) |- _ =>
      lazymatch goal with
      | _ : suffix_of r b |- _ => fail
      | _ => let E := fresh in pose proof (proj1 (take_o_suffix _ _ _ _ H)) as E;
             assert (suffix_of r b) by (exists a; exact E)
      end
    | H : split_limit _ ?b = (?a, ?r) |- _ =>
      lazymatch goal with
      | _ : suffix_of r b |- _ => fail
      | _ => let E := fresh in pose proof (split_limit_spec _ _ _ _ H) as E;
             assert (suffix_of r b) by (exists a; exact E)
      end
    end.

  Lemma dec_string_suffix t h r v r' : dec_string t h r = Ok (v, r') -> suffix_of r' r.
  Proof.
    unfold dec_string. repeat dstep; intros H; inversion H; subst;
    match goal with E : take_o _ _ = Ok _ |- _ => apply take_o_suffix in E as [-> _] end;
    eexists; reflexivity.
  Qed.

  Lemma dec_suffix f : forall d t b v r, dec f d t b = Ok (v, r) -> suffix_of r b.
  Proof.
    induction f as [|f IH]; intros d t b v r; cbn [Typed.dec]; [discriminate|].
    destruct t; repeat dstep;
      try (intros HH; inversion HH; subst; clear HH; gather IH; chain).
    all: try (intros HH; gather IH;
              match goal with
              | E : dec_string _ _ _ = Ok _ |- _ => apply dec_string_suffix in E
              | _ => idtac
              end;
              try (apply dec_string_suffix in HH); chain).
    all: try (intros HH; inversion HH; subst; clear HH; gather IH;
      match goal with
      | E : seq_n _ _ ?r0 = Ok (_, ?r1) |- _ =>
        assert (suffix_of r1 r0) by (eapply seq_n_suffix; [|exact E]; intros; eapply IH; eauto)
      | E : seq_fields _ _ ?r0 = Ok (_, ?r1) |- _ =>
        assert (suffix_of r1 r0) by (eapply seq_fields_suffix; [|exact E]; intros; eapply IH; eauto)
      | E : seq_pairs _ _ _ _ _ ?r0 = Ok (_, ?r1) |- _ =>
        assert (suffix_of r1 r0) by (eapply seq_pairs_suffix; [| |exact E]; intros; eapply IH; eauto)
      end; chain).
  Qed.
End DecFacts.

(* ---- fuel adequacy and absence of Panic ---- *)
Definition w (t : ty) : nat :=
  match t with TPtr _ => 2 | TProtHdr | TLabel => 1 | _ => 0 end.
Lemma w_le t : w t <= 2.
Proof. destruct t; cbn; lia. Qed.

Lemma dec_positive_total t n : total (dec_positive t n).
Proof. unfold dec_positive. destruct t; try exact I; now destruct (_ <? _)%Z. Qed.
Lemma dec_negative_total t n : total (dec_negative t n).
Proof.
  unfold dec_negative. destruct t; try exact I.
  - destruct (kind_signed k); [|exact I]. now destruct (_ <? _)%Z.
  - now destruct (_ <? _)%Z.
Qed.
Lemma dec_string_total t h r : total (dec_string t h r).
Proof.
  unfold dec_string. destruct (_ <=? _)%N; [exact I|].
  pose proof (take_o_total (N.to_nat (arg_val h)) r) as T.
  destruct (take_o _ r) as [[a r']| | |]; cbn [bind]; try exact I; try contradiction.
  destruct t; try exact I. now destruct (Nat.ltb _ _).
Qed.
Lemma drop_one_total_n n : forall fs seen, length fs <= n -> total (drop_one seen fs).
Proof.
  induction n as [|n IH]; intros fs seen Hn.
  - destruct fs; [exact I|cbn in Hn; lia].
  - destruct fs as [|[om t] fs]; [exact I|]. cbn [drop_one]. cbn [length] in Hn.
    destruct om.
    + destruct seen; [exact I|]. destruct fs as [|[om' t'] fs']; [exact I|]. cbn [length] in Hn.
      assert (T : total (drop_one true fs')) by (apply IH; lia).
      destruct (drop_one true fs'); cbn [bind]; try exact I; contradiction.
    + assert (T : total (drop_one seen fs)) by (apply IH; lia).
      destruct (drop_one seen fs); cbn [bind]; try exact I; contradiction.
Qed.
Lemma drop_one_total fs seen : total (drop_one seen fs).
Proof. eapply drop_one_total_n. reflexivity. Qed.
Lemma select_fields_total fs n : total (select_fields fs n).
Proof.
  unfold select_fields. destruct (Nat.eqb _ _); [exact I|].
  pose proof (drop_one_total fs false) as T.
  destruct (drop_one false fs); cbn [bind]; try exact I; try contradiction.
  now destruct (Nat.eqb _ _).
Qed.

Section DecTotal.
  Variable O_der : bool -> bytes -> bool.
  Variable O_rfc : bytes -> option Z.
  Notation dec := (dec O_der O_rfc).

  Ltac lens :=
    repeat match goal with
    | H : read_head ?b = Ok (_, ?r) |- _ =>
      lazymatch goal with
      | _ : length r < length b |- _ => fail
      | _ => pose proof (proj2 (read_head_suffix _ _ _ H))
      end
    | H : dec _ _ _ ?b = Ok (_, ?r) |- _ =>
      lazymatch goal with
      | _ : length r <= length b |- _ => fail
      | _ => pose proof (suffix_len _ _ (dec_suffix O_der O_rfc _ _ _ _ _ _ H))
      end
    | H : dec_raw _ _ ?b = Ok (?a, ?r) |- _ =>
      lazymatch goal with
      | _ : length r <= length b |- _ => fail
      | _ => pose proof (suffix_len _ _ (dec_raw_suffix _ _ _ _ _ H))
      end
    | H : split_limit _ ?b = (?a, ?r) |- _ =>
      lazymatch goal with
      | _ : length a <= length b |- _ => fail
      | _ => let E := fresh in pose proof (split_limit_spec _ _ _ _ H) as E;
             assert (length a <= length b) by (rewrite E, app_length; lia)
      end
    end.

  (* the bytes of a raw item are no longer than the input they were cut from *)
  Lemma head_bytes_len b h r0 : read_head b = Ok (h, r0) -> length (head_bytes h) + length r0 = length b.
  Proof.
    destruct b as [|x b]; cbn [read_head]; [discriminate|].
    destruct (take _ b) as [[a0 r1]|] eqn:ET; [|discriminate]. intros EH; inversion EH; subst.
    apply take_spec in ET as [-> _]. unfold head_bytes. cbn [h_add length]. rewrite app_length. lia.
  Qed.

  Local Opaque head_bytes.

  Lemma seq_raw_len (dr : bytes -> outcome (bytes * bytes)) n :
    (forall b a r, dr b = Ok (a, r) -> length a + length r = length b) ->
    forall r0 l r', seq_n dr n r0 = Ok (l, r') -> length (concat l) + length r' = length r0.
  Proof.
    intros Hd. induction n as [|n IHn]; intros r0 l r' ES; cbn [seq_n] in ES.
    - inversion ES; subst. reflexivity.
    - destruct (dr r0) as [[x r1]| | |] eqn:E1; cbn [bind] in ES; try discriminate.
      destruct (seq_n dr n r1) as [[l' r2]| | |] eqn:E2; cbn [bind] in ES; try discriminate.
      inversion ES; subst. cbn [concat]. rewrite app_length.
      apply Hd in E1. apply IHn in E2. lia.
  Qed.

  Lemma dec_raw_len f : forall d b a r, dec_raw f d b = Ok (a, r) -> length a + length r = length b.
  Proof.
    induction f as [|f IH]; intros d b a r; cbn [dec_raw]; [discriminate|].
    destruct (read_head b) as [[h r0]| | |] eqn:EH; cbn [bind]; try discriminate.
    pose proof (head_bytes_len _ _ _ EH) as HB.
    destruct ((h_mt h =? 2) || (h_mt h =? 3))%N.
    { destruct (decode_len h) as [n| | |]; cbn [bind]; try discriminate.
      destruct (take_o n r0) as [[a' r']| | |] eqn:ET; cbn [bind]; try discriminate.
      intros H; injection H as <- <-. apply take_o_suffix in ET as [-> _].
      rewrite !app_length in *. lia. }
    destruct ((h_mt h =? 4) || (h_mt h =? 5))%N.
    { destruct (decode_len h) as [n| | |]; cbn [bind]; try discriminate.
      destruct (too_deep d); [discriminate|].
      destruct (seq_n (dec_raw f (S d)) n r0) as [[l r']| | |] eqn:ES; cbn [bind]; try discriminate.
      intros H; injection H as <- <-. rewrite app_length.
      apply seq_raw_len in ES; [lia|]. intros; eapply IH; eauto. }
    destruct (h_mt h =? 6)%N.
    { destruct (too_deep d); [discriminate|].
      destruct (dec_raw f (S d) r0) as [[a' r']| | |] eqn:ER; cbn [bind]; try discriminate.
      intros H; injection H as <- <-. apply IH in ER. rewrite app_length. lia. }
    intros H; injection H as <- <-. lia.
  Qed.

  Local Transparent head_bytes.

  Lemma head_bytes_nonempty h : 0 < length (head_bytes h).
  Proof. unfold head_bytes. cbn. lia. Qed.

  Lemma dec_raw_strict f d b a r : dec_raw f d b = Ok (a, r) -> length r < length b.
  Proof.
    intros H. pose proof (dec_raw_len _ _ _ _ _ H) as L.
    destruct f; cbn [dec_raw] in H; [discriminate|].
    destruct (read_head b) as [[h r0]| | |] eqn:EH; cbn [bind] in H; try discriminate.
    pose proof (head_bytes_nonempty h).
    assert (0 < length a); [|lia].
    revert H. repeat dstep; intros H; injection H as <- <-; unfold head_bytes; cbn [length app]; lia.
  Qed.

  (* every successful decode consumes at least one byte *)
  Ltac gather_all :=
    repeat match goal with
    | E : Typed.dec _ _ _ _ _ ?x = Ok (_, ?y) |- _ =>
      lazymatch goal with _ : suffix_of y x |- _ => fail | _ => pose proof (dec_suffix _ _ _ _ _ _ _ _ E) end
    | E : dec_raw _ _ ?x = Ok (_, ?y) |- _ =>
      lazymatch goal with _ : suffix_of y x |- _ => fail | _ => pose proof (dec_raw_suffix _ _ _ _ _ E) end
    | E : take_o _ ?x = Ok (?a, ?y) |- _ =>
      lazymatch goal with _ : suffix_of y x |- _ => fail
      | _ => let E' := fresh in pose proof (proj1 (take_o_suffix _ _ _ _ E)) as E';
             assert (suffix_of y x) by (exists a; exact E') end
    | E : split_limit _ ?x = (?a, ?y) |- _ =>
      lazymatch goal with _ : suffix_of y x |- _ => fail
      | _ => let E' := fresh in pose proof (split_limit_spec _ _ _ _ E) as E';
             assert (suffix_of y x) by (exists a; exact E') end
    | E : dec_string _ _ ?x = Ok (_, ?y) |- _ =>
      lazymatch goal with _ : suffix_of y x |- _ => fail | _ => pose proof (dec_string_suffix _ _ _ _ _ E) end
    | E : seq_n _ _ ?x = Ok (_, ?y) |- _ =>
      lazymatch goal with _ : suffix_of y x |- _ => fail
      | _ => assert (suffix_of y x) by (eapply seq_n_suffix; [|exact E]; intros; eapply dec_suffix; eauto) end
    | E : seq_fields _ _ ?x = Ok (_, ?y) |- _ =>
      lazymatch goal with _ : suffix_of y x |- _ => fail
      | _ => assert (suffix_of y x) by (eapply seq_fields_suffix; [|exact E]; intros; eapply dec_suffix; eauto) end
    | E : seq_pairs _ _ _ _ _ ?x = Ok (_, ?y) |- _ =>
      lazymatch goal with _ : suffix_of y x |- _ => fail
      | _ => assert (suffix_of y x) by (eapply seq_pairs_suffix; [| |exact E]; intros; eapply dec_suffix; eauto) end
    end.

  (* goal: E(h, r0) = Ok (v, r) -> length r < length b, knowing read_head b = Ok (h, r0) *)
  Ltac via_head r0 L0 :=
    let HH := fresh "HH" in
    intros HH;
    match type of HH with _ = Ok (_, ?r) =>
      enough (suffix_of r r0) by
        (match goal with S : suffix_of r r0 |- _ => apply suffix_len in S; lia end)
    end;
    revert HH; repeat dstep; intros HH;
    try (injection HH as <- <-); gather_all;
    try (apply dec_string_suffix in HH); chain.

  Lemma dec_strict f : forall d t b v r, dec f d t b = Ok (v, r) -> length r < length b.
  Proof.
    induction f as [|f IH]; intros d t b v r; cbn [Typed.dec]; [discriminate|].
    destruct t.
    (* TPtr: null is the head itself; otherwise the pointee's decoder (induction) *)
    7: { destruct (read_head b) as [[h0 r0]| | |] eqn:EH; cbn [bind]; try discriminate.
         pose proof (proj2 (read_head_suffix _ _ _ EH)) as L0.
         destruct (is_null_hd h0).
         - intros HH; injection HH as <- <-. exact L0.
         - destruct t; try discriminate; apply IH. }
    (* types that look at the head first *)
    all: try (destruct (read_head b) as [[h0 r0]| | |] eqn:EH; cbn [bind]; try discriminate;
              pose proof (proj2 (read_head_suffix _ _ _ EH)) as L0; via_head r0 L0).
    (* types that start from a raw extent or a nested decode of the same input *)
    all: repeat dstep; intros HH; try (injection HH as <- <-);
         repeat match goal with
         | E : dec_raw _ _ _ = Ok _ |- _ => apply dec_raw_strict in E
         | E : Typed.dec _ _ _ _ _ _ = Ok _ |- _ => apply IH in E
         end; try lia.
  Qed.

  Lemma seq_n_count {A} (dd : bytes -> outcome (A * bytes)) n :
    (forall b x r, dd b = Ok (x, r) -> length r < length b) ->
    forall b l r, seq_n dd n b = Ok (l, r) -> length l + length r <= length b.
  Proof.
    intros Hd. induction n as [|n IHn]; intros b l r ES; cbn [seq_n] in ES.
    - injection ES as <- <-. cbn. lia.
    - destruct (dd b) as [[x r1]| | |] eqn:E1; cbn [bind] in ES; try discriminate.
      destruct (seq_n dd n r1) as [[l' r2]| | |] eqn:E2; cbn [bind] in ES; try discriminate.
      injection ES as <- <-. apply Hd in E1. apply IHn in E2. cbn [length]. lia.
  Qed.

  Lemma dec_bytes_len f d b c r : dec f d TBytes b = Ok (VBytes c, r) -> length c < length b.
  Proof.
    destruct f; cbn [Typed.dec]; [discriminate|].
    destruct (read_head b) as [[h0 r0]| | |] eqn:EH; cbn [bind]; try discriminate.
    pose proof (proj2 (read_head_suffix _ _ _ EH)) as L0.
    unfold dec_string, dec_positive, dec_negative.
    repeat dstep; intros HH; injection HH as <- <-; cbn [length]; try lia.
    - match goal with E : take_o _ _ = Ok _ |- _ => apply take_o_suffix in E as [-> _] end.
      rewrite app_length in L0. lia.
    - match goal with E : seq_n _ _ _ = Ok _ |- _ => apply seq_n_count in E; [|intros; eapply dec_strict; eauto] end.
      rewrite map_length. lia.
  Qed.

  Ltac lens2 :=
    lens;
    repeat match goal with
    | H : dec_raw _ _ ?b = Ok (?a, ?r) |- _ =>
      lazymatch goal with
      | _ : length a + length r = length b |- _ => fail
      | _ => pose proof (dec_raw_len _ _ _ _ _ H)
      end
    | H : Typed.dec _ _ _ _ TBytes ?b = Ok (VBytes ?c, _) |- _ =>
      lazymatch goal with
      | _ : length c < length b |- _ => fail
      | _ => pose proof (dec_bytes_len _ _ _ _ _ H)
      end
    end.

  Ltac tbind IH :=
    match goal with
    | |- total (bind ?x _) =>
      let T := fresh "T" in
      assert (T : total x) by
        first [ apply read_head_total | apply take_o_total | apply dec_positive_total | apply dec_negative_total
              | apply dec_string_total | apply select_fields_total
              | (apply dec_raw_total; lens; lia)
              | (apply IH; lens2; cbn [w]; try match goal with |- _ + w ?te + _ < _ => pose proof (w_le te) end; lia) ];
      destruct x eqn:?; cbn [bind]; [|exact I|contradiction|contradiction]
    end.

  Ltac tstep IH :=
    first [ exact I
          | apply dec_string_total
          | match goal with |- total (Typed.dec _ _ _ _ _ _) => apply IH; lens; cbn [w]; lia end
          | tbind IH
          | match goal with
            | |- total (if ?c then _ else _) => destruct c eqn:?
            | |- total (match ?x with _ => _ end) => destruct x eqn:?
            | |- total (let (_, _) := ?x in _) => destruct x eqn:?
            end ].

  Lemma dec_total f : forall d t b, 3 * length b + w t + 1 < f -> total (dec f d t b).
  Proof.
    induction f as [|f IH]; intros d t b Hf; [lia|]. cbn [Typed.dec].
    destruct t; cbn [w] in Hf.
    all: repeat (tstep IH).
    (* what remains: the sequence combinators and raw items of known-shorter input *)
    all: try match goal with
      | |- total (bind (seq_n ?dd ?n ?r0) _) =>
        let T := fresh "T" in
        assert (T : total (seq_n dd n r0));
        [ apply seq_n_total;
          [ intros b' Hs; apply suffix_len in Hs; apply IH; lens;
            match goal with |- _ + w ?te + _ < _ => pose proof (w_le te) end; lia
          | intros b' x r' _ E; eapply dec_suffix; exact E ]
        | destruct (seq_n dd n r0) eqn:?; cbn [bind]; [|exact I|contradiction|contradiction] ]
      | |- total (bind (seq_fields ?dd ?fs ?r0) _) =>
        let T := fresh "T" in
        assert (T : total (seq_fields dd fs r0));
        [ apply seq_fields_total;
          [ intros t' b' Hs; apply suffix_len in Hs; apply IH; lens; pose proof (w_le t'); lia
          | intros t' b' x r' _ E; eapply dec_suffix; exact E ]
        | destruct (seq_fields dd fs r0) eqn:?; cbn [bind]; [|exact I|contradiction|contradiction] ]
      | |- total (bind (seq_pairs ?dk ?dv ?ok ?n ?acc ?r0) _) =>
        let T := fresh "T" in
        assert (T : total (seq_pairs dk dv ok n acc r0));
        [ apply seq_pairs_total;
          [ intros b' Hs; apply suffix_len in Hs; apply IH; lens;
            match goal with |- _ + w ?te + _ < _ => pose proof (w_le te) end; lia
          | intros b' Hs; apply suffix_len in Hs; apply IH; lens;
            match goal with |- _ + w ?te + _ < _ => pose proof (w_le te) end; lia
          | intros b' x r' _ E; eapply dec_suffix; exact E
          | intros b' x r' _ E; eapply dec_suffix; exact E ]
        | destruct (seq_pairs dk dv ok n acc r0) eqn:?; cbn [bind]; [|exact I|contradiction|contradiction] ]
      end.
    all: repeat (tstep IH).
  Qed.
End DecTotal.

(* ---- consequences used by Props/C12.v ---- *)
Section DecCorollaries.
  Variable O_der : bool -> bytes -> bool.
  Variable O_rfc : bytes -> option Z.

  Lemma dec_fuel_for_total t b : total (dec O_der O_rfc (fuel_for b) 0 t b).
  Proof. apply dec_total. unfold fuel_for. pose proof (w_le t). lia. Qed.

  Lemma unmarshal_total t b : total (unmarshal O_der O_rfc t b).
  Proof.
    unfold unmarshal. pose proof (dec_fuel_for_total t b) as T.
    destruct (dec O_der O_rfc (fuel_for b) 0 t b) as [[v r]| | |]; cbn [bind]; try exact I; try contradiction.
    now destruct r.
  Qed.

  Lemma dec_exact f d t b v r :
    dec O_der O_rfc f d t b = Ok (v, r) -> exists p, b = p ++ r /\ p <> [].
  Proof.
    intros H. pose proof (dec_suffix _ _ _ _ _ _ _ _ H) as [p ->].
    exists p. split; [reflexivity|]. apply dec_strict in H. rewrite app_length in H.
    destruct p; [cbn in H; lia|discriminate].
  Qed.

  Lemma unmarshal_whole t b v :
    unmarshal O_der O_rfc t b = Ok v -> dec O_der O_rfc (fuel_for b) 0 t b = Ok (v, []).
  Proof.
    unfold unmarshal. destruct (dec O_der O_rfc (fuel_for b) 0 t b) as [[v' r]| | |]; cbn [bind]; try discriminate.
    destruct r; [|discriminate]. now intros H; inversion H.
  Qed.
End DecCorollaries.

(* ---- declared lengths above the limit are rejected before anything is read or allocated ---- *)
Definition generic_ty (t : ty) : bool :=
  match t with
  | TInt _ | TBool | TBytes | TText | TFixed _ | TSlice _ | TStruct _ | TMap _ _ | TAny => true
  | _ => false
  end.

Section Limits.
  Variable O_der : bool -> bytes -> bool.
  Variable O_rfc : bytes -> option Z.

  Lemma dec_limit f d t b h r :
    generic_ty t = true -> read_head b = Ok (h, r) ->
    ((h_mt h = 2 \/ h_mt h = 3 \/ h_mt h = 4) /\ max_len <= arg_val h \/ h_mt h = 5 /\ 50000 <= arg_val h)%N ->
    exists e, dec O_der O_rfc (S f) d t b = Err e.
  Proof.
    intros G EH HL. cbn [dec].
    destruct t; try discriminate; rewrite EH; cbn [bind];
      destruct HL as [[[-> | [-> | ->]] HL] | [-> HL]]; cbn [N.eqb Pos.eqb orb];
      unfold dec_string;
      try (destruct (too_deep d); [eexists; reflexivity|]);
      match goal with
      | |- context [(max_len <=? ?x)%N] => destruct (N.leb_spec max_len x); [eexists; reflexivity|lia]
      | |- context [(50000 <=? ?x)%N] => destruct (N.leb_spec 50000 x); [eexists; reflexivity|lia]
      end.
  Qed.

  Lemma dec_limit_wrapped f d t b h r :
    (t = TBWBytes \/ exists c, t = TDer c) -> read_head b = Ok (h, r) ->
    (h_mt h = 2 \/ h_mt h = 3)%N -> is_null_hd h = false -> (max_len <= arg_unwrap h)%N ->
    exists e, dec O_der O_rfc (S f) d t b = Err e.
  Proof.
    intros Ht EH Hm Hn HL. cbn [dec].
    destruct Ht as [-> | [c ->]]; rewrite EH; cbn [bind]; rewrite Hn;
      destruct Hm as [-> | ->]; cbn [N.eqb Pos.eqb orb];
      destruct (N.leb_spec max_len (arg_unwrap h)); try lia; eexists; reflexivity.
  Qed.

  (* nesting deeper than MaxDecodeDepth is rejected *)
  Lemma dec_depth_limit f t b h r :
    generic_ty t = true -> read_head b = Ok (h, r) -> (h_mt h = 4 \/ h_mt h = 5)%N ->
    exists e, dec O_der O_rfc (S f) max_depth t b = Err e.
  Proof.
    intros G EH Hm. cbn [dec].
    destruct t; try discriminate; rewrite EH; cbn [bind];
      destruct Hm as [-> | ->]; cbn [N.eqb Pos.eqb orb]; eexists; reflexivity.
  Qed.
End Limits.
