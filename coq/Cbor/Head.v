(* Cbor/Head.v — CBOR item heads as go-fdo/cbor reads and writes them.
   Mirrors: u64Bytes, additionalInfo (encode); typeInfo, toU64, decodeLen, unwrap (decode). *)
From FDO Require Export Base.Result.
Local Open Scope N_scope.

(* ---- encode: shortest form (u64Bytes + additionalInfo) ---- *)
Definition head (mt : N) (n : N) : bytes :=
  if n <? 24 then [byte_of_N (mt * 32 + n)]
  else if n <? 256 then byte_of_N (mt * 32 + 24) :: be 1 n
  else if n <? 65536 then byte_of_N (mt * 32 + 25) :: be 2 n
  else if n <? 4294967296 then byte_of_N (mt * 32 + 26) :: be 4 n
  else byte_of_N (mt * 32 + 27) :: be 8 n.

(* ---- decode: typeInfo ---- *)
Record hd := mkhd { h_mt : N; h_ai : N; h_add : bytes }.

Definition add_len (ai : N) : nat :=
  if ai =? 24 then 1%nat else if ai =? 25 then 2%nat
  else if ai =? 26 then 4%nat else if ai =? 27 then 8%nat else 0%nat.

Definition read_head (b : bytes) : outcome (hd * bytes) :=
  match b with
  | [] => Err EEOF
  | x :: r =>
    let v := Byte.to_N x in
    let ai := v mod 32 in
    match take (add_len ai) r with
    | Some (a, r') => Ok (mkhd (v / 32) ai a, r')
    | None => Err EEOF
    end
  end.

(* decodeVal / decodeLen: ai < 24 -> ai; 24..27 -> big-endian additional; 28..31 -> toU64(nil) = 0 *)
Definition arg_val (h : hd) : N := if h_ai h <? 24 then h_ai h else of_be (h_add h).
(* unwrap: "if len(additional) == 0 { additional = [lowFiveBits] }" -> 28..31 give ai itself *)
Definition arg_unwrap (h : hd) : N :=
  match h_add h with [] => h_ai h | a => of_be a end.
Definition head_bytes (h : hd) : bytes := byte_of_N (h_mt h * 32 + h_ai h) :: h_add h.

Definition is_null_hd (h : hd) : bool := (h_mt h =? 7) && ((h_ai h =? 22) || (h_ai h =? 23)).

Definition max_len : N := 100000.   (* MaxArrayDecodeLength; tied to the source by Gen/Tables.v (Tables_ok) *)

(* decodeLen (used by decodeRaw): maps count double *)
Definition decode_len (h : hd) : outcome nat :=
  let n := arg_val h in
  let n := if h_mt h =? 5 then (n * 2) mod 18446744073709551616 else n in   (* uint64 wrap *)
  if max_len <=? n then Err ETooLong else Ok (N.to_nat n).
