(* RoundTripMono.v — fuel monotonicity of dec_raw / dec / enc, determinism of enc, and
   append-invariance of dec_raw.  No axioms. *)
From FDO Require Import Cbor.Typed Cbor.DecFacts.
Local Open Scope nat_scope.

(* x ⊑ y : x is OutOfFuel or x = y *)
Definition le_out {A} (x y : outcome A) : Prop := x = OutOfFuel \/ x = y.

Lemma le_out_refl {A} (x : outcome A) : le_out x x.
Proof. now right. Qed.
Lemma le_out_oof {A} (y : outcome A) : le_out OutOfFuel y.
Proof. now left. Qed.
Lemma le_out_bind {A B} (x x' : outcome A) (k k' : A -> outcome B) :
  le_out x x' -> (forall a, le_out (k a) (k' a)) -> le_out (bind x k) (bind x' k').
Proof.
  intros [-> | ->] Hk; [now left|].
  destruct x'; cbn [bind]; try apply le_out_refl. apply Hk.
Qed.
Lemma le_out_use {A} (x y o : outcome A) : le_out x y -> x = o -> o <> OutOfFuel -> y = o.
Proof. intros [-> | ->] E N; [congruence|exact E]. Qed.

Section SeqMono.
  Context {A : Type} (d1 d2 : bytes -> outcome (A * bytes)).
  Hypothesis Hd : forall b, le_out (d1 b) (d2 b).
  Lemma seq_n_mono n : forall b, le_out (seq_n d1 n b) (seq_n d2 n b).
  Proof.
    induction n as [|n IH]; intros b; cbn [seq_n]; [apply le_out_refl|].
    apply le_out_bind; [apply Hd|]. intros [x r].
    apply le_out_bind; [apply IH|]. intros [l r']. apply le_out_refl.
  Qed.
End SeqMono.

Lemma seq_fields_mono (d1 d2 : ty -> bytes -> outcome (val * bytes)) :
  (forall t b, le_out (d1 t b) (d2 t b)) ->
  forall fs b, le_out (seq_fields d1 fs b) (seq_fields d2 fs b).
Proof.
  intros Hd fs. induction fs as [|[p t] fs IH]; intros b; cbn [seq_fields]; [apply le_out_refl|].
  destruct p.
  - apply le_out_bind; [apply Hd|]. intros [x r].
    apply le_out_bind; [apply IH|]. intros [l r']. apply le_out_refl.
  - apply le_out_bind; [apply IH|]. intros [l r']. apply le_out_refl.
Qed.

Lemma seq_pairs_mono (dk1 dk2 dv1 dv2 : bytes -> outcome (val * bytes)) ok :
  (forall b, le_out (dk1 b) (dk2 b)) -> (forall b, le_out (dv1 b) (dv2 b)) ->
  forall n acc b, le_out (seq_pairs dk1 dv1 ok n acc b) (seq_pairs dk2 dv2 ok n acc b).
Proof.
  intros Hk Hv n. induction n as [|n IH]; intros acc b; cbn [seq_pairs]; [apply le_out_refl|].
  apply le_out_bind; [apply Hk|]. intros [k r].
  apply le_out_bind; [apply Hv|]. intros [v r'].
  destruct (ok k); [apply IH|apply le_out_refl].
Qed.

Lemma mapM_mono {A B} (f1 f2 : A -> outcome B) :
  forall l, (forall x, In x l -> le_out (f1 x) (f2 x)) -> le_out (mapM f1 l) (mapM f2 l).
Proof.
  induction l as [|x l IH]; intros H; cbn [mapM]; [apply le_out_refl|].
  apply le_out_bind; [apply H; now left|]. intros y.
  apply le_out_bind; [apply IH; intros; apply H; now right|]. intros ys. apply le_out_refl.
Qed.

(* one structural step of a monotonicity proof: both sides have the same shape *)
Ltac mstep IH :=
  match goal with
  | |- le_out OutOfFuel _ => apply le_out_oof
  | |- le_out (dec_raw _ _ _) (dec_raw _ _ _) => apply IH; lia
  | |- le_out (Typed.dec _ _ _ _ _ _) (Typed.dec _ _ _ _ _ _) => apply IH; lia
  | |- le_out (enc _ _ _) (enc _ _ _) => apply IH; lia
  | |- le_out (bind _ _) (bind _ _) => apply le_out_bind; [|intros ?]
  | |- le_out (seq_n _ _ _) (seq_n _ _ _) => apply seq_n_mono; intros ?
  | |- le_out (seq_fields _ _ _) (seq_fields _ _ _) => apply seq_fields_mono; intros ? ?
  | |- le_out (seq_pairs _ _ _ _ _ _) (seq_pairs _ _ _ _ _ _) => apply seq_pairs_mono; intros ?
  | |- le_out (mapM _ _) (mapM _ _) => apply mapM_mono; intros ? _
  | |- le_out (if ?c then _ else _) (if ?c then _ else _) => destruct c
  | |- le_out (let (_, _) := ?x in _) (let (_, _) := ?x in _) => destruct x
  | |- le_out (match ?x with _ => _ end) (match ?x with _ => _ end) => destruct x
  | |- le_out ?x ?x => apply le_out_refl
  end.

Lemma dec_raw_le f : forall f' d b, f <= f' -> le_out (dec_raw f d b) (dec_raw f' d b).
Proof.
  induction f as [|f IH]; intros f' d b Hf; [apply le_out_oof|].
  destruct f' as [|f']; [lia|]. cbn [dec_raw].
  assert (IH' : forall d b, le_out (dec_raw f d b) (dec_raw f' d b)) by (intros; apply IH; lia).
  repeat mstep IH'.
Qed.

Theorem dec_raw_mono f f' d b o :
  dec_raw f d b = o -> o <> OutOfFuel -> f <= f' -> dec_raw f' d b = o.
Proof. intros E N Hf. eapply le_out_use; [apply dec_raw_le; exact Hf|exact E|exact N]. Qed.

Section DecMono.
  Variable O_der : bool -> bytes -> bool.
  Variable O_rfc : bytes -> option Z.
  Notation dec := (dec O_der O_rfc).

  Lemma dec_le f : forall f' d t b, f <= f' -> le_out (dec f d t b) (dec f' d t b).
  Proof.
    induction f as [|f IH]; intros f' d t b Hf; [apply le_out_oof|].
    destruct f' as [|f']; [lia|]. cbn [Typed.dec].
    assert (IH' : forall d t b, le_out (dec f d t b) (dec f' d t b)) by (intros; apply IH; lia).
    assert (IHr : forall d b, le_out (dec_raw f d b) (dec_raw f' d b)) by (intros; apply dec_raw_le; lia).
    destruct t; repeat (first [mstep IH' | mstep IHr]).
  Qed.

  Theorem dec_mono f f' d t b o :
    dec f d t b = o -> o <> OutOfFuel -> f <= f' -> dec f' d t b = o.
  Proof. intros E N Hf. eapply le_out_use; [apply dec_le; exact Hf|exact E|exact N]. Qed.
End DecMono.

Lemma enc_le f : forall f' t v, f <= f' -> le_out (enc f t v) (enc f' t v).
Proof.
  induction f as [|f IH]; intros f' t v Hf; [apply le_out_oof|].
  destruct f' as [|f']; [lia|]. cbn [enc].
  assert (IH' : forall t v, le_out (enc f t v) (enc f' t v)) by (intros; apply IH; lia).
  destruct t; destruct v; repeat mstep IH'.
Qed.

Theorem enc_mono f f' t v o : enc f t v = o -> o <> OutOfFuel -> f <= f' -> enc f' t v = o.
Proof. intros E N Hf. eapply le_out_use; [apply enc_le; exact Hf|exact E|exact N]. Qed.

Theorem enc_det f f' t v b b' : enc f t v = Ok b -> enc f' t v = Ok b' -> b = b'.
Proof.
  intros E E'.
  apply (enc_mono _ (Nat.max f f')) in E; [|discriminate|lia].
  apply (enc_mono _ (Nat.max f f')) in E'; [|discriminate|lia].
  congruence.
Qed.

(* ---- append invariance of the raw extent ---- *)
Lemma take_app_more {A} k (b a r' r : list A) : take k b = Some (a, r') -> take k (b ++ r) = Some (a, r' ++ r).
Proof.
  intros H. apply take_spec in H as [-> L]. rewrite <- app_assoc. now apply take_app.
Qed.

Lemma take_o_app {A} k (b a r' r : list A) : take_o k b = Ok (a, r') -> take_o k (b ++ r) = Ok (a, r' ++ r).
Proof.
  unfold take_o. destruct (take k b) as [[a0 r0]|] eqn:E; [|discriminate].
  intros H; injection H as <- <-. now rewrite (take_app_more _ _ _ _ r E).
Qed.

Lemma read_head_app b h r0 r : read_head b = Ok (h, r0) -> read_head (b ++ r) = Ok (h, r0 ++ r).
Proof.
  destruct b as [|x b]; cbn [read_head app]; [discriminate|].
  destruct (take _ b) as [[a r1]|] eqn:E; [|discriminate].
  intros H; injection H as <- <-. now rewrite (take_app_more _ _ _ _ r E).
Qed.

Lemma seq_n_app {A} (dd : bytes -> outcome (A * bytes)) r :
  (forall b x r', dd b = Ok (x, r') -> dd (b ++ r) = Ok (x, r' ++ r)) ->
  forall n b l r', seq_n dd n b = Ok (l, r') -> seq_n dd n (b ++ r) = Ok (l, r' ++ r).
Proof.
  intros Hd. induction n as [|n IH]; intros b l r'; cbn [seq_n].
  - intros H; injection H as <- <-. reflexivity.
  - destruct (dd b) as [[x r1]| | |] eqn:E1; cbn [bind]; try discriminate.
    destruct (seq_n dd n r1) as [[l' r2]| | |] eqn:E2; cbn [bind]; try discriminate.
    intros H; injection H as <- <-.
    rewrite (Hd _ _ _ E1). cbn [bind]. rewrite (IH _ _ _ E2). reflexivity.
Qed.

Lemma dec_raw_app f : forall d a x r' r,
  dec_raw f d a = Ok (x, r') -> dec_raw f d (a ++ r) = Ok (x, r' ++ r).
Proof.
  induction f as [|f IH]; intros d a x r' r; cbn [dec_raw]; [discriminate|].
  destruct (read_head a) as [[h r0]| | |] eqn:EH; cbn [bind]; try discriminate.
  rewrite (read_head_app _ _ _ r EH). cbn [bind].
  destruct ((h_mt h =? 2) || (h_mt h =? 3))%N.
  { destruct (decode_len h) as [n| | |]; cbn [bind]; try discriminate.
    destruct (take_o n r0) as [[a' r1]| | |] eqn:ET; cbn [bind]; try discriminate.
    intros H; injection H as <- <-. rewrite (take_o_app _ _ _ _ r ET). reflexivity. }
  destruct ((h_mt h =? 4) || (h_mt h =? 5))%N.
  { destruct (decode_len h) as [n| | |]; cbn [bind]; try discriminate.
    destruct (too_deep d); [discriminate|].
    destruct (seq_n (dec_raw f (S d)) n r0) as [[l r1]| | |] eqn:ES; cbn [bind]; try discriminate.
    intros H; injection H as <- <-.
    rewrite (seq_n_app _ r (fun b x r' => IH (S d) b x r' r) _ _ _ _ ES). reflexivity. }
  destruct (h_mt h =? 6)%N.
  { destruct (too_deep d); [discriminate|].
    destruct (dec_raw f (S d) r0) as [[a' r1]| | |] eqn:ER; cbn [bind]; try discriminate.
    intros H; injection H as <- <-. rewrite (IH _ _ _ _ r ER). reflexivity. }
  intros H; injection H as <- <-. reflexivity.
Qed.
