(* RoundTripWf.v — the well-formedness predicate for values that the model round-trips. *)
From FDO Require Import Cbor.Typed Cbor.DecFacts.
From FDO Require Import Cbor.RoundTripMono Cbor.RoundTripHead.
Local Open Scope nat_scope.

Definition int64_ok (z : Z) : Prop := (kind_min KI64 <= z <= kind_max KI64)%Z.

(* a property of "the" encoding of v at type t (enc is deterministic across fuels: enc_det) *)
Definition enc_sat (t : ty) (v : val) (P : bytes -> Prop) : Prop :=
  forall fe a, enc fe t v = Ok a -> P a.

(* a is exactly one well-formed CBOR item when scanned at nesting depth d *)
Definition raw_item (d : nat) (a : bytes) : Prop := exists f, dec_raw f d a = Ok (a, []).

(* presence mask produced by the encoder's omitempty pass (mirrors omit_pass) *)
Fixpoint enc_mask (l : list (bool * ty * val)) : list (bool * ty) :=
  match l with
  | [] => []
  | (om, t, v) :: r =>
    if om && is_empty_val v then
      (false, t) :: match r with
                    | [] => []
                    | (_, t', _) :: r' => (true, t') :: enc_mask r'
                    end
    else (true, t) :: enc_mask r
  end.

(* every field the encoder omits holds the zero value of its type *)
Fixpoint omitted_zero (l : list (bool * ty * val)) : Prop :=
  match l with
  | [] => True
  | (om, t, v) :: r =>
    if om && is_empty_val v then
      v = zero_val t /\ match r with [] => True | _ :: r' => omitted_zero r' end
    else omitted_zero r
  end.

Definition key_pred (tk : ty) : val -> bool :=
  match tk with TAny => any_key_ok | _ => fun _ => true end.

(* each key differs (val_eqb) from all keys before it; acc = pairs already seen *)
Fixpoint distinct_from (acc m : list (val * val)) : bool :=
  match m with
  | [] => true
  | (k, v) :: m' =>
    forallb (fun kv => negb (val_eqb k (fst kv))) acc && distinct_from (acc ++ [(k, v)]) m'
  end.

Definition enc_pair (fe : nat) (tk tv : ty) (kv : val * val) : outcome (bytes * bytes) :=
  let* k := enc fe tk (fst kv) in let* x := enc fe tv (snd kv) in Ok (k, x).

(* the association list is already in the order in which the encoder emits it *)
Definition pairs_sorted (tk tv : ty) (m : list (val * val)) : Prop :=
  forall fe kvs, mapM (enc_pair fe tk tv) m = Ok kvs -> kv_sort kvs = kvs.

Definition ptr_okb (t : ty) (v : val) : bool :=
  match t, v with
  | TPtr _, _ => false
  | _, VNull => false
  | TRaw, VRaw (x :: _) => negb (null_byte x)
  | TRaw, _ => false
  | _, _ => true
  end.

Section Wf.
  Variable O_der : bool -> bytes -> bool.

  Inductive wf : nat -> ty -> val -> Prop :=
  | wf_int d k z : (kind_min k <= z <= kind_max k)%Z -> wf d (TInt k) (VInt z)
  | wf_bool d b : wf d TBool (VBool b)
  | wf_bytes d a : (N.of_nat (length a) < 100000)%N -> wf d TBytes (VBytes a)
  | wf_text d a : (N.of_nat (length a) < 100000)%N -> wf d TText (VText a)
  | wf_fixed d n a : length a = n -> (N.of_nat n < 100000)%N -> wf d (TFixed n) (VBytes a)
  | wf_slice d t l :
      d < max_depth -> (N.of_nat (length l) < 100000)%N -> Forall (wf (S d) t) l -> wf d (TSlice t) (VList l)
  | wf_ptr_nil d t : wf d (TPtr t) VNull
  | wf_ptr d t v : ptr_okb t v = true -> wf d t v -> wf d (TPtr t) v
  | wf_struct d fs l z :
      d < max_depth -> zip3 fs l = Some z -> (N.of_nat (length (omit_pass z)) < 100000)%N ->
      select_fields fs (length (omit_pass z)) = Ok (enc_mask z) ->
      omitted_zero z ->
      Forall (fun tv => wf (S d) (fst tv) (snd tv)) (omit_pass z) ->
      wf d (TStruct fs) (VList l)
  | wf_map d tk tv m :
      d < max_depth -> (N.of_nat (length m) < 50000)%N ->
      Forall (fun kv => wf (S d) tk (fst kv) /\ wf (S d) tv (snd kv) /\ key_pred tk (fst kv) = true) m ->
      distinct_from [] m = true -> pairs_sorted tk tv m ->
      wf d (TMap tk tv) (VMap m)
  | wf_any_int d z : int64_ok z -> wf d TAny (VInt z)
  | wf_any_bool d b : wf d TAny (VBool b)
  | wf_any_bytes d a : (N.of_nat (length a) < 100000)%N -> wf d TAny (VBytes a)
  | wf_any_text d a : (N.of_nat (length a) < 100000)%N -> wf d TAny (VText a)
  | wf_any_null d : wf d TAny VNull
  | wf_any_list d l :
      d < max_depth -> (N.of_nat (length l) < 100000)%N -> Forall (wf (S d) TAny) l -> wf d TAny (VList l)
  | wf_any_map d m :
      d < max_depth -> (N.of_nat (length m) < 50000)%N ->
      Forall (fun kv => wf (S d) TAny (fst kv) /\ wf (S d) TAny (snd kv) /\ any_key_ok (fst kv) = true) m ->
      distinct_from [] m = true -> pairs_sorted TAny TAny m ->
      wf d TAny (VMap m)
  | wf_any_tag d n a : (n < two64)%N -> raw_item d a -> wf d TAny (VTag n (VRaw a))
  | wf_tag d t n v : (n < two64)%N -> wf 0 t v -> wf d (TTag t) (VTag n v)
  | wf_tagged d n t v :
      (n < two64)%N -> wf 0 t v -> enc_sat (TTagged n t) v (raw_item d) -> wf d (TTagged n t) v
  | wf_bstr d t v :
      wf 0 t v -> enc_sat t v (fun a => (N.of_nat (length a) <= 9223372036854775807)%N) ->
      wf d (TBstr t) v
  | wf_bwbytes d a : (N.of_nat (length a) < 100000)%N -> wf d TBWBytes (VBytes a)
  | wf_raw d a : raw_item d a -> wf d TRaw (VRaw a)
  | wf_der_nil d csr : wf d (TDer csr) VNull
  | wf_der d csr a : (N.of_nat (length a) < 100000)%N -> O_der csr a = true -> wf d (TDer csr) (VBytes a)
  | wf_label_int d z : z <> 0%Z -> int64_ok z -> wf d TLabel (VInt z)
  | wf_label_text d a : (N.of_nat (length a) < 100000)%N -> wf d TLabel (VText a)
  | wf_prot_empty d : wf d TProtHdr (VMap [])
  | wf_prot d m :
      m <> [] -> wf 0 (TMap TLabel TAny) (VMap m) ->
      enc_sat (TMap TLabel TAny) (VMap m) (fun a => (N.of_nat (length a) < 100000)%N) ->
      wf d TProtHdr (VMap m)
  | wf_ts_nil d : wf d TTimestamp VNull
  | wf_ts d z : int64_ok z -> z <> zero_time_unix -> wf d TTimestamp (VInt z).
End Wf.

(* ---- "for all large enough fuel" ---- *)
Definition ev (P : nat -> Prop) : Prop := exists f0, forall f, f0 <= f -> P f.

Lemma ev_all (P : nat -> Prop) : (forall f, P f) -> ev P.
Proof. intros H. exists 0. intros; apply H. Qed.
Lemma ev_and (P Q : nat -> Prop) : ev P -> ev Q -> ev (fun f => P f /\ Q f).
Proof.
  intros [f1 H1] [f2 H2]. exists (Nat.max f1 f2). intros f Hf. split; [apply H1|apply H2]; lia.
Qed.
Lemma ev_imp (P Q : nat -> Prop) : (forall f, P f -> Q f) -> ev P -> ev Q.
Proof. intros H [f0 H0]. exists f0. intros f Hf. apply H, H0, Hf. Qed.
Lemma ev_S (P Q : nat -> Prop) : (forall f, P f -> Q (S f)) -> ev P -> ev Q.
Proof.
  intros H [f0 H0]. exists (S f0). intros f Hf. destruct f as [|f]; [lia|]. apply H, H0. lia.
Qed.
Lemma ev_S0 (Q : nat -> Prop) : (forall f, Q (S f)) -> ev Q.
Proof. intros H. exists 1. intros f Hf. destruct f as [|f]; [lia|]. apply H. Qed.

(* ---- generic list helpers ---- *)
Lemma mapM_Forall2 {A B} (g : A -> outcome B) : forall l l', mapM g l = Ok l' -> Forall2 (fun x y => g x = Ok y) l l'.
Proof.
  induction l as [|x l IH]; intros l'; cbn [mapM].
  - intros H; injection H as <-. constructor.
  - destruct (g x) as [y| | |] eqn:E; cbn [bind]; try discriminate.
    destruct (mapM g l) as [ys| | |] eqn:E2; cbn [bind]; try discriminate.
    intros H; injection H as <-. constructor; [exact E|]. now apply IH.
Qed.

Lemma Forall2_Forall_l {A B} (P : A -> Prop) (R Q : A -> B -> Prop) l l' :
  (forall x y, P x -> R x y -> Q x y) -> Forall P l -> Forall2 R l l' -> Forall2 Q l l'.
Proof.
  intros H HP HR. induction HR as [|x y l l' Hxy HR IH]; constructor.
  - apply H; [now inversion HP|exact Hxy].
  - apply IH. now inversion HP.
Qed.

Lemma Forall2_length {A B} (R : A -> B -> Prop) l l' : Forall2 R l l' -> length l = length l'.
Proof. induction 1; cbn; congruence. Qed.

Lemma zip3_spec fs : forall l z, zip3 fs l = Some z -> fs = map (fun x => (fst (fst x), snd (fst x))) z /\ l = map snd z.
Proof.
  induction fs as [|[om t] fs IH]; intros [|v l] z; cbn [zip3]; try discriminate.
  - intros H; injection H as <-. now split.
  - destruct (zip3 fs l) as [z'|] eqn:E; [|discriminate].
    intros H; injection H as <-. destruct (IH _ _ E) as [-> ->]. now split.
Qed.
