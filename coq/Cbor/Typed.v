(* Cbor/Typed.v — executable model of go-fdo/cbor Decoder.Decode / Encoder.Encode over the
   target-shape universe of Cbor/Ty.v.  Model only; lemmas live in Cbor/TypedFacts.v. *)
From FDO Require Export Cbor.Ty.
Local Open Scope N_scope.

Definition take_o {A} (k : nat) (b : list A) : outcome (list A * list A) :=
  match take k b with Some x => Ok x | None => Err EEOF end.

(* split off at most n bytes (io.LimitReader view); n may be astronomically large, so compare in N first *)
Definition split_limit (n : N) (b : bytes) : bytes * bytes :=
  if N.of_nat (length b) <=? n then (b, []) else (firstn (N.to_nat n) b, skipn (N.to_nat n) b).

(* ---- sequencing helpers (structural; the element decoder is a parameter) ---- *)
Section Seq.
  Context {A : Type}.
  Variable d : bytes -> outcome (A * bytes).
  Fixpoint seq_n (n : nat) (b : bytes) : outcome (list A * bytes) :=
    match n with
    | O => Ok ([], b)
    | S n' => let* (x, r) := d b in let* (l, r') := seq_n n' r in Ok (x :: l, r')
    end.
End Seq.

Fixpoint seq_fields (d : ty -> bytes -> outcome (val * bytes)) (fs : list (bool * ty)) (b : bytes)
  : outcome (list val * bytes) :=
  match fs with
  | [] => Ok ([], b)
  | (present, t) :: fs' =>
    if present then
      let* (x, r) := d t b in let* (l, r') := seq_fields d fs' r in Ok (x :: l, r')
    else
      let* (l, r') := seq_fields d fs' b in Ok (zero_val t :: l, r')
  end.

(* ---- raw item extent: decodeRaw / decodeRawVal ---- *)
Definition max_depth : nat := 128.   (* MaxDecodeDepth; tied to the source by Gen/Tables.v *)
Definition too_deep (depth : nat) : bool := Nat.leb max_depth depth.

Fixpoint dec_raw (fuel : nat) (depth : nat) (b : bytes) {struct fuel} : outcome (bytes * bytes) :=
  match fuel with
  | O => OutOfFuel
  | S f =>
    let* (h, r) := read_head b in
    let mt := h_mt h in
    if (mt =? 2) || (mt =? 3) then
      let* n := decode_len h in
      let* (a, r') := take_o n r in Ok (head_bytes h ++ a, r')
    else if (mt =? 4) || (mt =? 5) then
      let* n := decode_len h in
      if too_deep depth then Err ETooLong else
      let* (l, r') := seq_n (dec_raw f (S depth)) n r in Ok (head_bytes h ++ concat l, r')
    else if mt =? 6 then
      if too_deep depth then Err ETooLong else
      let* (a, r') := dec_raw f (S depth) r in Ok (head_bytes h ++ a, r')
    else Ok (head_bytes h, r)
  end.

Definition fuel_for (b : bytes) : nat := 3 * length b + 4.

(* ---- struct field selection: decodeArrayToStruct's delete-while-ranging, at most one omitted ---- *)
Fixpoint drop_one (seen : bool) (fs : list (bool * ty)) : outcome (list (bool * ty)) :=
  match fs with
  | [] => Ok []
  | (om, t) :: r =>
    if om then
      if seen then Err EType
      else match r with
           | [] => Ok [(false, t)]
           | (_, t') :: r' => let* x := drop_one true r' in Ok ((false, t) :: (true, t') :: x)
           end
    else let* x := drop_one seen r in Ok ((true, t) :: x)
  end.

Definition count_present (fs : list (bool * ty)) : nat := length (filter fst fs).

Definition select_fields (fs : list (bool * ty)) (n : nat) : outcome (list (bool * ty)) :=
  if Nat.eqb (length fs) n then Ok (map (fun f => (true, snd f)) fs)
  else let* sel := drop_one false fs in
       if Nat.eqb (count_present sel) n then Ok sel else Err EType.

(* ---- scalar leaves ---- *)
Definition dec_positive (t : ty) (n : N) : outcome val :=
  match t with
  | TInt k => if (kind_max k <? Z.of_N n)%Z then Err EType else Ok (VInt (Z.of_N n))
  | TAny => if (kind_max KI64 <? Z.of_N n)%Z then Err EType else Ok (VInt (Z.of_N n))
  | _ => Err EType
  end.

Definition dec_negative (t : ty) (n : N) : outcome val :=
  let z := (- Z.of_N n - 1)%Z in
  match t with
  | TInt k => if kind_signed k then (if (z <? kind_min k)%Z then Err EType else Ok (VInt z)) else Err EType
  | TAny => if (z <? kind_min KI64)%Z then Err EType else Ok (VInt z)
  | _ => Err EType
  end.

Definition dec_string (t : ty) (h : hd) (r : bytes) : outcome (val * bytes) :=
  let n := arg_val h in
  if max_len <=? n then Err ETooLong else
  let* (a, r') := take_o (N.to_nat n) r in
  match t with
  | TBytes => Ok (VBytes a, r')
  | TText => Ok (VText a, r')
  | TFixed k => if Nat.ltb k (length a) then Err EType else Ok (VBytes (a ++ repeat x00 (k - length a)), r')
  | TAny => Ok ((if h_mt h =? 2 then VBytes a else VText a), r')
  | _ => Err EType
  end.

Definition val_to_byte (v : val) : byte := match v with VInt z => byte_of_N (Z.to_N z) | _ => x00 end.

(* map keys decoded into `any` must be non-nil and of a comparable dynamic type *)
Definition any_key_ok (v : val) : bool :=
  match v with VInt _ | VText _ | VBool _ => true | _ => false end.

Fixpoint map_insert (k v : val) (m : list (val * val)) : list (val * val) :=
  match m with
  | [] => [(k, v)]
  | (k', v') :: m' => if val_eqb k k' then map_insert k v m' else (k', v') :: map_insert k v m'
  end.

Section Dec.
  Variable O_der : bool -> bytes -> bool.        (* x509.ParseCertificate (false) / ParseCertificateRequest (true) succeeds *)
  Variable O_rfc3339 : bytes -> option Z.        (* time.Parse(RFC3339) -> unix seconds *)

  Definition zero_time_unix : Z := (-62135596800)%Z.

  Section Pairs.
    Variable dk dv : bytes -> outcome (val * bytes).
    Variable key_ok : val -> bool.
    Fixpoint seq_pairs (n : nat) (acc : list (val * val)) (b : bytes) : outcome (list (val * val) * bytes) :=
      match n with
      | O => Ok (acc, b)
      | S n' =>
        let* (k, r) := dk b in
        let* (v, r') := dv r in
        if key_ok k then seq_pairs n' (map_insert k v acc) r' else Err EType
      end.
  End Pairs.

  Fixpoint dec (fuel : nat) (depth : nat) (t : ty) (b : bytes) {struct fuel} : outcome (val * bytes) :=
    match fuel with
    | O => OutOfFuel
    | S f =>
      match t with
      | TPtr t' =>
        let* (h, r) := read_head b in
        if is_null_hd h then Ok (VNull, r)
        else match t' with TPtr _ => Err EType | _ => dec f depth t' b end
      | TTag t' =>
        let* (h, r) := read_head b in
        if is_null_hd h then Err ENull
        else if h_mt h =? 6 then let* (v, r') := dec f 0 t' r in Ok (VTag (arg_unwrap h) v, r')
        else Err EType
      | TTagged num t' =>
        (* Unmarshaler: raw extent first, then Unmarshal(raw, &Tag[T]) with the number checked *)
        let* (raw, rest) := dec_raw f depth b in
        let* (h, r) := read_head raw in
        if is_null_hd h then Err ENull
        else if h_mt h =? 6 then
          let* (v, r') := dec f 0 t' r in
          match r' with
          | [] => if arg_unwrap h =? num then Ok (v, rest) else Err EType
          | _ => Err ETrailing
          end
        else Err EType
      | TBstr t' =>
        let* (h, r) := read_head b in
        if is_null_hd h then Ok (zero_val t', r)
        else if (h_mt h =? 2) || (h_mt h =? 3) then
          let n := arg_unwrap h in
          if 9223372036854775807 <? n then Err ETooLong else
          let (inner, rest) := split_limit n r in
          let* (v, ir) := dec f 0 t' inner in
          if N.of_nat (length inner - length ir) =? n then Ok (v, rest) else Err ETrailing
        else Err EType
      | TBWBytes =>
        let* (h, r) := read_head b in
        if is_null_hd h then Ok (VBytes [], r)
        else if (h_mt h =? 2) || (h_mt h =? 3) then
          let n := arg_unwrap h in
          if max_len <=? n then Err ETooLong else
          let* (a, r') := take_o (N.to_nat n) r in Ok (VBytes a, r')
        else Err EType
      | TDer csr =>
        let* (h, r) := read_head b in
        if is_null_hd h then Ok (VNull, r)
        else if (h_mt h =? 2) || (h_mt h =? 3) then
          let n := arg_unwrap h in
          if max_len <=? n then Err ETooLong else
          let* (a, r') := take_o (N.to_nat n) r in
          if O_der csr a then Ok (VBytes a, r') else Err EOther
        else Err EType
      | TRaw => let* (a, r) := dec_raw f depth b in Ok (VRaw a, r)
      | TLabel =>
        let* (raw, rest) := dec_raw f depth b in
        let* (v, r') := dec f 0 TAny raw in
        match r' with
        | [] => match v with
                | VInt z => Ok ((if (z =? 0)%Z then VText [] else v), rest)   (* IntOrStr{0,""} *)
                | VText _ => Ok (v, rest)
                | _ => Err EType
                end
        | _ => Err ETrailing
        end
      | TProtHdr =>
        let* (v, rest) := dec f 0 TBytes b in
        match v with
        | VBytes [] => Ok (VMap [], rest)
        | VBytes d =>
          let* (m, r') := dec f 0 (TMap TLabel TAny) d in
          match r' with [] => Ok (m, rest) | _ => Err ETrailing end
        | _ => Err EType
        end
      | TTimestamp =>
        let* (h, r) := read_head b in
        if is_null_hd h then Ok (VNull, r)
        else if h_mt h =? 6 then
          if arg_unwrap h =? 1 then
            let* (v, r') := dec f 0 (TInt KI64) r in
            match v with
            | VInt z => Ok ((if (z =? zero_time_unix)%Z then VNull else VInt z), r')
            | _ => Err EType
            end
          else if arg_unwrap h =? 0 then
            let* (v, r') := dec f 0 TText r in
            match v with
            | VText s => match O_rfc3339 s with
                         | Some z => Ok ((if (z =? zero_time_unix)%Z then VNull else VInt z), r')
                         | None => Err EOther
                         end
            | _ => Err EType
            end
          else Err EType
        else Err EType
      | _ =>
        let* (h, r) := read_head b in
        let n := arg_val h in
        let mt := h_mt h in
        if mt =? 0 then let* v := dec_positive t n in Ok (v, r)
        else if mt =? 1 then let* v := dec_negative t n in Ok (v, r)
        else if (mt =? 2) || (mt =? 3) then dec_string t h r
        else if mt =? 4 then
          if too_deep depth then Err ETooLong else
          if max_len <=? n then Err ETooLong else
          match t with
          | TStruct fs =>
            let* sel := select_fields fs (N.to_nat n) in
            let* (l, r') := seq_fields (dec f (S depth)) sel r in Ok (VList l, r')
          | TSlice t' => let* (l, r') := seq_n (dec f (S depth) t') (N.to_nat n) r in Ok (VList l, r')
          | TAny => let* (l, r') := seq_n (dec f (S depth) TAny) (N.to_nat n) r in Ok (VList l, r')
          | TBytes =>
            let* (l, r') := seq_n (dec f (S depth) (TInt KU8)) (N.to_nat n) r in Ok (VBytes (map val_to_byte l), r')
          | TFixed k =>
            if Nat.ltb k (N.to_nat n) then Err EType else
            let* (l, r') := seq_n (dec f (S depth) (TInt KU8)) (N.to_nat n) r in
            Ok (VBytes (map val_to_byte l ++ repeat x00 (k - length l)), r')
          | _ => Err EType
          end
        else if mt =? 5 then
          if too_deep depth then Err ETooLong else
          if 50000 <=? n then Err ETooLong else
          match t with
          | TMap tk tv =>
            let* (m, r') := seq_pairs (dec f (S depth) tk) (dec f (S depth) tv)
                              (match tk with TAny => any_key_ok | _ => fun _ => true end)
                              (N.to_nat n) [] r in Ok (VMap m, r')
          | TAny =>
            let* (m, r') := seq_pairs (dec f (S depth) TAny) (dec f (S depth) TAny) any_key_ok (N.to_nat n) [] r in Ok (VMap m, r')
          | _ => Err EType
          end
        else if mt =? 6 then
          match t with
          | TAny => let* (a, r') := dec_raw f depth r in Ok (VTag n (VRaw a), r')
          | _ => Err EType
          end
        else (* 7 *)
          let ai := h_ai h in
          if (ai =? 20) || (ai =? 21) then
            match t with
            | TBool | TAny => Ok (VBool (ai =? 21), r)
            | _ => Err EType
            end
          else if (ai =? 22) || (ai =? 23) then
            match t with
            | TBytes => Ok (VBytes [], r)
            | TSlice _ => Ok (VList [], r)
            | TAny => Ok (VNull, r)
            | TStruct [] => Ok (VList [], r)
            | _ => Err EType
            end
          (* the code's float constants are 24,25,26 (sic); 27..31 hit "reserved"; only 0..19 reach decodePositive *)
          else if ai <? 20 then let* v := dec_positive t n in Ok (v, r)
          else Err EType
      end
    end.

  (* cbor.Unmarshal: one item, nothing left over *)
  Definition unmarshal (t : ty) (b : bytes) : outcome val :=
    let* (v, r) := dec (fuel_for b) 0 t b in
    match r with [] => Ok v | _ => Err ETrailing end.
End Dec.

(* ================= encoder ================= *)

Definition enc_int (z : Z) : bytes :=
  if (z <? 0)%Z then head 1 (Z.to_N (- z - 1)) else head 0 (Z.to_N z).

(* omitempty: encodeStruct's delete-while-ranging — the element after a deleted one is not examined *)
Definition is_empty_val (v : val) : bool :=
  match v with
  | VInt z => (z =? 0)%Z
  | VBool b => negb b
  | VBytes [] | VText [] | VList [] | VMap [] | VNull | VRaw [] => true
  | _ => false
  end.

Fixpoint omit_pass (l : list (bool * ty * val)) : list (ty * val) :=
  match l with
  | [] => []
  | (om, t, v) :: r =>
    if om && is_empty_val v then
      match r with
      | [] => []
      | (_, t', v') :: r' => (t', v') :: omit_pass r'
      end
    else (t, v) :: omit_pass r
  end.

(* insertion sort of (encoded key, encoded value) by key bytes *)
Fixpoint kv_insert (k v : bytes) (l : list (bytes * bytes)) : list (bytes * bytes) :=
  match l with
  | [] => [(k, v)]
  | (k', v') :: l' => if bytes_ltb k' k then (k', v') :: kv_insert k v l' else (k, v) :: l
  end.
Definition kv_sort (l : list (bytes * bytes)) : list (bytes * bytes) :=
  fold_right (fun kv acc => kv_insert (fst kv) (snd kv) acc) [] l.

Fixpoint zip3 (fs : list (bool * ty)) (vs : list val) : option (list (bool * ty * val)) :=
  match fs, vs with
  | [], [] => Some []
  | (om, t) :: fs', v :: vs' => match zip3 fs' vs' with Some l => Some ((om, t, v) :: l) | None => None end
  | _, _ => None
  end.

Fixpoint mapM {A B} (f : A -> outcome B) (l : list A) : outcome (list B) :=
  match l with
  | [] => Ok []
  | x :: r => let* y := f x in let* ys := mapM f r in Ok (y :: ys)
  end.

Fixpoint enc (fuel : nat) (t : ty) (v : val) {struct fuel} : outcome bytes :=
  match fuel with
  | O => OutOfFuel
  | S f =>
    match t, v with
    | TPtr _, VNull => Ok [byte_of_N 246]
    | TPtr t', _ => enc f t' v
    | TInt _, VInt z => Ok (enc_int z)
    | TBool, VBool b => Ok [byte_of_N (if b then 245 else 244)]
    | TBytes, VBytes a | TBWBytes, VBytes a | TFixed _, VBytes a => Ok (head 2 (N.of_nat (length a)) ++ a)
    | TText, VText a => Ok (head 3 (N.of_nat (length a)) ++ a)
    | TSlice t', VList l =>
      let* bs := mapM (enc f t') l in Ok (head 4 (N.of_nat (length l)) ++ concat bs)
    | TStruct fs, VList l =>
      match zip3 fs l with
      | None => Err EType
      | Some z =>
        let kept := omit_pass z in
        let* bs := mapM (fun tv => enc f (fst tv) (snd tv)) kept in
        Ok (head 4 (N.of_nat (length kept)) ++ concat bs)
      end
    | TMap tk tv, VMap m =>
      let* kvs := mapM (fun kv => let* k := enc f tk (fst kv) in let* x := enc f tv (snd kv) in Ok (k, x)) m in
      Ok (head 5 (N.of_nat (length m)) ++ concat (map (fun kv => fst kv ++ snd kv) (kv_sort kvs)))
    | TAny, VInt z => Ok (enc_int z)
    | TAny, VBool b => Ok [byte_of_N (if b then 245 else 244)]
    | TAny, VBytes a => Ok (head 2 (N.of_nat (length a)) ++ a)
    | TAny, VText a => Ok (head 3 (N.of_nat (length a)) ++ a)
    | TAny, VNull => Ok [byte_of_N 246]
    | TAny, VList l => let* bs := mapM (enc f TAny) l in Ok (head 4 (N.of_nat (length l)) ++ concat bs)
    | TAny, VMap m =>
      let* kvs := mapM (fun kv => let* k := enc f TAny (fst kv) in let* x := enc f TAny (snd kv) in Ok (k, x)) m in
      Ok (head 5 (N.of_nat (length m)) ++ concat (map (fun kv => fst kv ++ snd kv) (kv_sort kvs)))
    | TAny, VTag n (VRaw a) => Ok (head 6 n ++ a)
    | TTag t', VTag n x => let* a := enc f t' x in Ok (head 6 n ++ a)
    | TTagged n t', _ => let* a := enc f t' v in Ok (head 6 n ++ a)
    | TBstr t', _ => let* a := enc f t' v in Ok (head 2 (N.of_nat (length a)) ++ a)
    | TRaw, VRaw a => Ok a
    | TDer _, VNull => Ok [byte_of_N 246]
    | TDer _, VBytes a => Ok (head 2 (N.of_nat (length a)) ++ a)
    | TLabel, VInt z => if (z =? 0)%Z then Ok [byte_of_N 96] else Ok (enc_int z)
    | TLabel, VText a => Ok (head 3 (N.of_nat (length a)) ++ a)
    | TProtHdr, VMap [] => Ok [byte_of_N 64]
    | TProtHdr, VMap _ => let* a := enc f (TMap TLabel TAny) v in Ok (head 2 (N.of_nat (length a)) ++ a)
    | TTimestamp, VNull => Ok [byte_of_N 246]
    | TTimestamp, VInt z => Ok (head 6 1 ++ enc_int z)
    | _, _ => Err EType
    end
  end.
