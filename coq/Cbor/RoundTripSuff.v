(* RoundTripSuff.v — simple sufficient conditions for the semantic side conditions of wf. *)
From FDO Require Import Cbor.Typed Cbor.DecFacts.
From FDO Require Import Cbor.RoundTripMono Cbor.RoundTripHead Cbor.RoundTripWf Cbor.RoundTripCheck.
Local Open Scope nat_scope.

(* ---- 1. structs with at most one omitempty field satisfy the field-selection condition ---- *)
Definition count_om (fs : list (bool * ty)) : nat := length (filter fst fs).
Definition tys (z : list (bool * ty * val)) : list (bool * ty) := map fst z.

Lemma zip3_tys fs l z : zip3 fs l = Some z -> fs = tys z.
Proof.
  intros H. destruct (zip3_spec _ _ _ H) as [-> _]. unfold tys. apply map_ext. now intros [[om t] v].
Qed.

Definition all_present (z : list (bool * ty * val)) : list (bool * ty) := map (fun x => (true, snd (fst x))) z.

Lemma no_om_pass z :
  count_om (tys z) = 0 ->
  omit_pass z = map (fun x => (snd (fst x), snd x)) z /\ enc_mask z = all_present z
  /\ forall seen, drop_one seen (tys z) = Ok (all_present z).
Proof.
  induction z as [|[[om t] v] z IH]; [intros _; repeat split|].
  unfold count_om, tys. cbn [map fst filter omit_pass enc_mask all_present snd drop_one].
  destruct om; cbn [length andb]; [discriminate|]. intros H.
  destruct (IH H) as (E1 & E2 & E3). rewrite E1, E2. repeat split. intros seen.
  unfold tys in E3. rewrite E3. reflexivity.
Qed.

Lemma select_fields_cons t fs n :
  select_fields ((false, t) :: fs) (S n) = let* s := select_fields fs n in Ok ((true, t) :: s).
Proof.
  unfold select_fields. cbn [length Nat.eqb map snd drop_one].
  destruct (Nat.eqb (length fs) n); [reflexivity|].
  destruct (drop_one false fs) as [x| | |]; cbn [bind]; try reflexivity.
  unfold count_present. cbn [filter fst length Nat.eqb].
  destruct (Nat.eqb _ n); reflexivity.
Qed.

Lemma all_present_count z : count_present (all_present z) = length z.
Proof. unfold count_present, all_present. induction z; cbn [map filter fst length]; auto. Qed.

Lemma select_all z : select_fields (tys z) (length z) = Ok (all_present z).
Proof.
  unfold select_fields, tys. rewrite map_length, Nat.eqb_refl. f_equal. unfold all_present.
  rewrite map_map. apply map_ext. now intros [[om t] v].
Qed.

Theorem one_om_select fs l z :
  count_om fs <= 1 -> zip3 fs l = Some z ->
  select_fields fs (length (omit_pass z)) = Ok (enc_mask z).
Proof.
  intros Hc Hz. rewrite (zip3_tys _ _ _ Hz) in *. clear Hz fs l.
  induction z as [|[[om t] v] z IH]; [reflexivity|].
  unfold count_om, tys in Hc. cbn [map fst filter] in Hc.
  cbn [omit_pass enc_mask]. destruct om; cbn [andb].
  - (* the omittable field: nothing else is omittable *)
    cbn [length] in Hc. assert (H0 : count_om (tys z) = 0) by (unfold count_om, tys; lia).
    destruct (no_om_pass z H0) as (E1 & E2 & E3).
    destruct (is_empty_val v).
    + (* omitted *)
      destruct z as [|[[om' t'] v'] z'].
      * reflexivity.
      * assert (H0' : count_om (tys z') = 0).
        { unfold count_om, tys in *. cbn [map fst filter] in H0. destruct om'; cbn [length] in H0; lia. }
        destruct (no_om_pass z' H0') as (F1 & F2 & F3).
        rewrite F1, F2. unfold select_fields, tys. cbn [map fst length drop_one].
        rewrite !map_length.
        replace (Nat.eqb (S (S (length z'))) (S (length z'))) with false
          by (symmetry; apply Nat.eqb_neq; lia).
        unfold tys in F3. rewrite F3. cbn [bind]. unfold count_present. cbn [filter fst length].
        fold (count_present (all_present z')). rewrite all_present_count, Nat.eqb_refl. reflexivity.
    + (* kept *)
      rewrite E1, E2. cbn [length]. rewrite map_length.
      change ((true, t) :: all_present z) with (all_present ((true, t, v) :: z)).
      change (S (length z)) with (length ((true, t, v) :: z)).
      apply (select_all ((true, t, v) :: z)).
  - cbn [length]. change (tys ((false, t, v) :: z)) with ((false, t) :: tys z).
    rewrite select_fields_cons, IH; [reflexivity|]. exact Hc.
Qed.

(* ---- 2. val_eqb decides equality, so distinct_from means "pairwise different keys" ---- *)
Fixpoint val_eqb_refl (a : val) : val_eqb a a = true.
Proof.
  destruct a; cbn [val_eqb].
  - apply Z.eqb_refl.
  - now destruct b.
  - apply bytes_eqb_refl.
  - apply bytes_eqb_refl.
  - induction l as [|x l IHl]; [reflexivity|]. now rewrite val_eqb_refl.
  - induction l as [|[x1 x2] l IHl]; [reflexivity|]. now rewrite !val_eqb_refl.
  - reflexivity.
  - now rewrite N.eqb_refl, val_eqb_refl.
  - apply bytes_eqb_refl.
Qed.

Lemma val_eqb_false a b : val_eqb a b = false <-> a <> b.
Proof.
  split.
  - intros H ->. now rewrite val_eqb_refl in H.
  - intros H. destruct (val_eqb a b) eqn:E; [|reflexivity]. now apply val_eqb_sound in E.
Qed.

Lemma distinct_from_NoDup acc m :
  NoDup (map fst (acc ++ m)) -> distinct_from acc m = true.
Proof.
  revert acc. induction m as [|[k v] m IH]; intros acc H; [reflexivity|].
  cbn [distinct_from]. apply andb_true_iff. split.
  - apply forallb_forall. intros [k' v'] Hin. cbn [fst]. apply negb_true_iff, val_eqb_false.
    intros ->. rewrite map_app in H. cbn [map fst] in H. apply NoDup_remove_2 in H. apply H.
    apply in_or_app. left. apply in_map_iff. now exists (k', v').
  - apply IH. now rewrite <- app_assoc.
Qed.

(* ---- 3. a raw item accepted at depth d is accepted at every smaller depth ---- *)
Lemma seq_n_raw_weaken (d1 d2 : bytes -> outcome (bytes * bytes)) n :
  (forall b x r, d1 b = Ok (x, r) -> d2 b = Ok (x, r)) ->
  forall b l r, seq_n d1 n b = Ok (l, r) -> seq_n d2 n b = Ok (l, r).
Proof.
  intros Hd. induction n as [|n IH]; intros b l r; cbn [seq_n]; [auto|].
  destruct (d1 b) as [[x r1]| | |] eqn:E1; cbn [bind]; try discriminate.
  destruct (seq_n d1 n r1) as [[l' r2]| | |] eqn:E2; cbn [bind]; try discriminate.
  intros H. rewrite (Hd _ _ _ E1). cbn [bind]. rewrite (IH _ _ _ E2). exact H.
Qed.

Lemma dec_raw_depth f : forall d d' b x r, d' <= d -> dec_raw f d b = Ok (x, r) -> dec_raw f d' b = Ok (x, r).
Proof.
  induction f as [|f IH]; intros d d' b x r Hd; cbn [dec_raw]; [discriminate|].
  destruct (read_head b) as [[h r0]| | |]; cbn [bind]; try discriminate.
  assert (TD : too_deep d = false -> too_deep d' = false).
  { unfold too_deep. destruct (Nat.leb_spec max_depth d); [discriminate|]. intros _.
    destruct (Nat.leb_spec max_depth d'); [lia|reflexivity]. }
  destruct ((h_mt h =? 2) || (h_mt h =? 3))%N; [auto|].
  destruct ((h_mt h =? 4) || (h_mt h =? 5))%N.
  { destruct (decode_len h) as [n| | |]; cbn [bind]; try discriminate.
    destruct (too_deep d) eqn:E; [discriminate|]. rewrite (TD eq_refl).
    destruct (seq_n (dec_raw f (S d)) n r0) as [[l r1]| | |] eqn:ES; cbn [bind]; try discriminate.
    rewrite (seq_n_raw_weaken _ (dec_raw f (S d')) n (fun b x r => IH (S d) (S d') b x r ltac:(lia)) _ _ _ ES).
    auto. }
  destruct (h_mt h =? 6)%N; [|auto].
  destruct (too_deep d) eqn:E; [discriminate|]. rewrite (TD eq_refl).
  destruct (dec_raw f (S d) r0) as [[a r1]| | |] eqn:ER; cbn [bind]; try discriminate.
  rewrite (IH (S d) (S d') _ _ _ ltac:(lia) ER). auto.
Qed.

Lemma raw_item_depth d d' a : d' <= d -> raw_item d a -> raw_item d' a.
Proof. intros Hd [f E]. exists f. eapply dec_raw_depth; eauto. Qed.
