(* RoundTripCheck.v — an executable checker for wf and its soundness (used for the non-vacuity examples). *)
From FDO Require Import Cbor.Typed Cbor.DecFacts.
From FDO Require Import Cbor.RoundTripMono Cbor.RoundTripHead Cbor.RoundTripWf.
Local Open Scope nat_scope.

(* ---- val_eqb is sound ---- *)
Fixpoint val_eqb_sound (a : val) : forall b, val_eqb a b = true -> a = b.
Proof.
  destruct a; intros [] H; cbn [val_eqb] in H; try discriminate.
  - apply Z.eqb_eq in H. now subst.
  - apply Bool.eqb_prop in H. now subst.
  - apply bytes_eqb_eq in H. now subst.
  - apply bytes_eqb_eq in H. now subst.
  - f_equal. revert l0 H. induction l as [|x l IHl]; intros [|y l0] H; try discriminate; [reflexivity|].
    apply andb_true_iff in H as [H1 H2]. f_equal; [now apply val_eqb_sound|now apply IHl].
  - f_equal. revert l0 H. induction l as [|[x1 x2] l IHl]; intros [|[y1 y2] l0] H; try discriminate; [reflexivity|].
    apply andb_true_iff in H as [H1 H3]. apply andb_true_iff in H1 as [H1 H2].
    f_equal; [f_equal; now apply val_eqb_sound|now apply IHl].
  - reflexivity.
  - apply andb_true_iff in H as [H1 H2]. apply N.eqb_eq in H1. subst. f_equal. now apply val_eqb_sound.
  - apply bytes_eqb_eq in H. now subst.
Qed.

(* ---- component checkers ---- *)
Definition rawb (d : nat) (a : bytes) : bool :=
  match dec_raw (fuel_for a) d a with
  | Ok (x, []) => bytes_eqb x a
  | _ => false
  end.

Lemma rawb_sound d a : rawb d a = true -> raw_item d a.
Proof.
  unfold rawb. destruct (dec_raw (fuel_for a) d a) as [[x [|]]| | |] eqn:E; try discriminate.
  intros H. apply bytes_eqb_eq in H. subst. now exists (fuel_for a).
Qed.

Definition enc_satb (n : nat) (t : ty) (v : val) (P : bytes -> bool) : bool :=
  match enc n t v with Ok a => P a | _ => false end.

Lemma enc_satb_sound n t v P (Q : bytes -> Prop) :
  (forall a, P a = true -> Q a) -> enc_satb n t v P = true -> enc_sat t v Q.
Proof.
  unfold enc_satb. intros HPQ. destruct (enc n t v) as [a| | |] eqn:E; try discriminate.
  intros HP fe a' E'. rewrite <- (enc_det _ _ _ _ _ _ E E'). now apply HPQ.
Qed.

Fixpoint kvs_eqb (x y : list (bytes * bytes)) : bool :=
  match x, y with
  | [], [] => true
  | (a1, a2) :: x', (b1, b2) :: y' => bytes_eqb a1 b1 && bytes_eqb a2 b2 && kvs_eqb x' y'
  | _, _ => false
  end.
Lemma kvs_eqb_eq x : forall y, kvs_eqb x y = true -> x = y.
Proof.
  induction x as [|[a1 a2] x IH]; intros [|[b1 b2] y] H; cbn [kvs_eqb] in H; try discriminate; [reflexivity|].
  apply andb_true_iff in H as [H H3]. apply andb_true_iff in H as [H1 H2].
  apply bytes_eqb_eq in H1, H2. subst. f_equal. now apply IH.
Qed.

Definition sortedb (n : nat) (tk tv : ty) (m : list (val * val)) : bool :=
  match mapM (enc_pair n tk tv) m with
  | Ok kvs => kvs_eqb (kv_sort kvs) kvs
  | _ => false
  end.

Lemma enc_pair_det n n' tk tv kv e e' : enc_pair n tk tv kv = Ok e -> enc_pair n' tk tv kv = Ok e' -> e = e'.
Proof.
  unfold enc_pair.
  destruct (enc n tk (fst kv)) as [k| | |] eqn:E1; cbn [bind]; try discriminate.
  destruct (enc n tv (snd kv)) as [x| | |] eqn:E2; cbn [bind]; try discriminate.
  destruct (enc n' tk (fst kv)) as [k'| | |] eqn:E1'; cbn [bind]; try discriminate.
  destruct (enc n' tv (snd kv)) as [x'| | |] eqn:E2'; cbn [bind]; try discriminate.
  intros H H'; injection H as <-; injection H' as <-.
  now rewrite (enc_det _ _ _ _ _ _ E1 E1'), (enc_det _ _ _ _ _ _ E2 E2').
Qed.

Lemma mapM_det {A B} (g g' : A -> outcome B) :
  (forall x y y', g x = Ok y -> g' x = Ok y' -> y = y') ->
  forall l r r', mapM g l = Ok r -> mapM g' l = Ok r' -> r = r'.
Proof.
  intros Hg. induction l as [|x l IH]; intros r r'; cbn [mapM].
  - intros H H'; injection H as <-; injection H' as <-. reflexivity.
  - destruct (g x) as [y| | |] eqn:E1; cbn [bind]; try discriminate.
    destruct (mapM g l) as [ys| | |] eqn:E2; cbn [bind]; try discriminate.
    destruct (g' x) as [y'| | |] eqn:E1'; cbn [bind]; try discriminate.
    destruct (mapM g' l) as [ys'| | |] eqn:E2'; cbn [bind]; try discriminate.
    intros H H'; injection H as <-; injection H' as <-.
    now rewrite (Hg _ _ _ E1 E1'), (IH _ _ eq_refl eq_refl).
Qed.

Lemma sortedb_sound n tk tv m : sortedb n tk tv m = true -> pairs_sorted tk tv m.
Proof.
  unfold sortedb. destruct (mapM (enc_pair n tk tv) m) as [kvs| | |] eqn:E; try discriminate.
  intros H fe kvs' E'. apply kvs_eqb_eq in H.
  assert (kvs = kvs') as <-; [|exact H].
  eapply mapM_det; [|exact E|exact E']. intros x y y'. apply enc_pair_det.
Qed.

Fixpoint omitted_zerob (l : list (bool * ty * val)) : bool :=
  match l with
  | [] => true
  | (om, t, v) :: r =>
    if om && is_empty_val v then
      val_eqb v (zero_val t) && match r with [] => true | _ :: r' => omitted_zerob r' end
    else omitted_zerob r
  end.

Lemma omitted_zerob_sound_n n : forall z, length z <= n -> omitted_zerob z = true -> omitted_zero z.
Proof.
  induction n as [|n IH]; intros z Hn.
  { destruct z; [intros _; exact I|cbn in Hn; lia]. }
  destruct z as [|[[om t] v] z]; [intros _; exact I|]. cbn [omitted_zerob omitted_zero length] in *.
  destruct (om && is_empty_val v).
  - intros H. apply andb_true_iff in H as [H1 H2]. split; [now apply val_eqb_sound|].
    destruct z as [|x z]; [exact I|]. apply IH; [cbn [length] in Hn; lia|exact H2].
  - apply IH. lia.
Qed.
Lemma omitted_zerob_sound z : omitted_zerob z = true -> omitted_zero z.
Proof. apply (omitted_zerob_sound_n (length z)). lia. Qed.

(* ---- struct field selection agrees with the encoder's mask ---- *)
Fixpoint bools_eqb (x y : list bool) : bool :=
  match x, y with
  | [], [] => true
  | a :: x', b :: y' => Bool.eqb a b && bools_eqb x' y'
  | _, _ => false
  end.
Lemma bools_eqb_eq x : forall y, bools_eqb x y = true -> x = y.
Proof.
  induction x as [|a x IH]; intros [|b y] H; cbn [bools_eqb] in H; try discriminate; [reflexivity|].
  apply andb_true_iff in H as [H1 H2]. apply Bool.eqb_prop in H1. subst. f_equal. now apply IH.
Qed.

Definition selb (fs : list (bool * ty)) (z : list (bool * ty * val)) : bool :=
  match select_fields fs (length (omit_pass z)) with
  | Ok sel => bools_eqb (map fst sel) (map fst (enc_mask z))
  | _ => false
  end.

Lemma drop_one_snd_n n : forall fs seen x, length fs <= n -> drop_one seen fs = Ok x -> map snd x = map snd fs.
Proof.
  induction n as [|n IH]; intros fs seen x Hn.
  { destruct fs; [|cbn in Hn; lia]. cbn. intros H; injection H as <-. reflexivity. }
  destruct fs as [|[om t] fs]; cbn [drop_one].
  { intros H; injection H as <-. reflexivity. }
  cbn [length] in Hn. destruct om.
  - destruct seen; [discriminate|]. destruct fs as [|[om' t'] fs'].
    + intros H; injection H as <-. reflexivity.
    + destruct (drop_one true fs') as [y| | |] eqn:E; cbn [bind]; try discriminate.
      intros H; injection H as <-. cbn [map snd]. f_equal. f_equal.
      eapply IH; [|exact E]. cbn [length] in Hn. lia.
  - destruct (drop_one seen fs) as [y| | |] eqn:E; cbn [bind]; try discriminate.
    intros H; injection H as <-. cbn [map snd]. f_equal. eapply IH; [|exact E]. lia.
Qed.

Lemma select_fields_snd fs n sel : select_fields fs n = Ok sel -> map snd sel = map snd fs.
Proof.
  unfold select_fields. destruct (Nat.eqb _ _).
  - intros H; injection H as <-. rewrite map_map. reflexivity.
  - destruct (drop_one false fs) as [y| | |] eqn:E; cbn [bind]; try discriminate.
    destruct (Nat.eqb _ _); [|discriminate]. intros H; injection H as <-.
    eapply drop_one_snd_n; [|exact E]. reflexivity.
Qed.

Lemma enc_mask_snd_n n : forall z, length z <= n -> map snd (enc_mask z) = map (fun x => snd (fst x)) z.
Proof.
  induction n as [|n IH]; intros z Hn.
  { destruct z; [reflexivity|cbn in Hn; lia]. }
  destruct z as [|[[om t] v] z]; [reflexivity|]. cbn [enc_mask length] in *.
  destruct (om && is_empty_val v).
  - destruct z as [|[[om' t'] v'] z']; [reflexivity|]. cbn [map snd fst]. f_equal. f_equal.
    apply IH. cbn [length] in Hn. lia.
  - cbn [map snd fst]. f_equal. apply IH. lia.
Qed.

Lemma fst_snd_eq {A B} (a : list (A * B)) : forall b, map fst a = map fst b -> map snd a = map snd b -> a = b.
Proof.
  induction a as [|[x y] a IH]; intros [|[x' y'] b] H1 H2; try discriminate; [reflexivity|].
  cbn [map fst snd] in *. injection H1 as -> H1. injection H2 as -> H2. f_equal. now apply IH.
Qed.

Lemma selb_sound fs l z :
  zip3 fs l = Some z -> selb fs z = true -> select_fields fs (length (omit_pass z)) = Ok (enc_mask z).
Proof.
  intros Hz. unfold selb. destruct (select_fields fs (length (omit_pass z))) as [sel| | |] eqn:E; try discriminate.
  intros H. apply bools_eqb_eq in H. f_equal. apply fst_snd_eq; [exact H|].
  rewrite (select_fields_snd _ _ _ E), (enc_mask_snd_n (length z)) by lia.
  destruct (zip3_spec _ _ _ Hz) as [-> _]. rewrite map_map. reflexivity.
Qed.

(* ---- the checker ---- *)
Definition lenb (n : nat) (lim : N) : bool := (N.of_nat n <? lim)%N.
Definition int64b (z : Z) : bool := (kind_min KI64 <=? z)%Z && (z <=? kind_max KI64)%Z.
Definition depthb (d : nat) : bool := Nat.ltb d max_depth.

Section Checker.
  Variable O_der : bool -> bytes -> bool.

  Fixpoint wfb (n d : nat) (t : ty) (v : val) {struct n} : bool :=
    match n with
    | O => false
    | S n' =>
      let pairsb (tk tv : ty) (m : list (val * val)) :=
        depthb d && lenb (length m) 50000
        && forallb (fun kv => wfb n' (S d) tk (fst kv) && wfb n' (S d) tv (snd kv) && key_pred tk (fst kv)) m
        && distinct_from [] m && sortedb n' tk tv m in
      match t, v with
      | TInt k, VInt z => (kind_min k <=? z)%Z && (z <=? kind_max k)%Z
      | TBool, VBool _ => true
      | TBytes, VBytes a | TBWBytes, VBytes a => lenb (length a) 100000
      | TText, VText a => lenb (length a) 100000
      | TFixed k, VBytes a => Nat.eqb (length a) k && lenb k 100000
      | TSlice t', VList l => depthb d && lenb (length l) 100000 && forallb (wfb n' (S d) t') l
      | TPtr _, VNull => true
      | TPtr t', _ => ptr_okb t' v && wfb n' d t' v
      | TStruct fs, VList l =>
        match zip3 fs l with
        | None => false
        | Some z =>
          depthb d && lenb (length (omit_pass z)) 100000 && selb fs z && omitted_zerob z
          && forallb (fun tv => wfb n' (S d) (fst tv) (snd tv)) (omit_pass z)
        end
      | TMap tk tv, VMap m => pairsb tk tv m
      | TAny, VInt z => int64b z
      | TAny, VBool _ => true
      | TAny, VBytes a | TAny, VText a => lenb (length a) 100000
      | TAny, VNull => true
      | TAny, VList l => depthb d && lenb (length l) 100000 && forallb (wfb n' (S d) TAny) l
      | TAny, VMap m => pairsb TAny TAny m
      | TAny, VTag k (VRaw a) => (k <? two64)%N && rawb d a
      | TTag t', VTag k x => (k <? two64)%N && wfb n' 0 t' x
      | TTagged k t', _ => (k <? two64)%N && wfb n' 0 t' v && enc_satb n (TTagged k t') v (rawb d)
      | TBstr t', _ => wfb n' 0 t' v && enc_satb n' t' v (fun a => (N.of_nat (length a) <=? 9223372036854775807)%N)
      | TRaw, VRaw a => rawb d a
      | TDer _, VNull => true
      | TDer csr, VBytes a => lenb (length a) 100000 && O_der csr a
      | TLabel, VInt z => negb (z =? 0)%Z && int64b z
      | TLabel, VText a => lenb (length a) 100000
      | TProtHdr, VMap [] => true
      | TProtHdr, VMap m =>
        wfb n' 0 (TMap TLabel TAny) v
        && enc_satb n' (TMap TLabel TAny) v (fun a => lenb (length a) 100000)
      | TTimestamp, VNull => true
      | TTimestamp, VInt z => int64b z && negb (z =? zero_time_unix)%Z
      | _, _ => false
      end
    end.
End Checker.

Lemma forallb_Forall {A} (f : A -> bool) (P : A -> Prop) l :
  (forall x, f x = true -> P x) -> forallb f l = true -> Forall P l.
Proof.
  intros HP H. apply Forall_forall. intros x Hx. apply HP. eapply forallb_forall in H; eauto.
Qed.

Ltac bsplit :=
  repeat match goal with
  | H : _ && _ = true |- _ => apply andb_true_iff in H as [? ?]
  end.
Ltac bconv :=
  repeat match goal with
  | H : lenb _ _ = true |- _ => unfold lenb in H; apply N.ltb_lt in H
  | H : depthb _ = true |- _ => unfold depthb in H; apply Nat.ltb_lt in H
  | H : int64b _ = true |- _ => unfold int64b in H; apply andb_true_iff in H as [? ?]
  | H : (_ <=? _)%Z = true |- _ => apply Z.leb_le in H
  | H : (_ <? _)%N = true |- _ => apply N.ltb_lt in H
  | H : negb _ = true |- _ => apply negb_true_iff in H
  | H : (_ =? _)%Z = false |- _ => apply Z.eqb_neq in H
  | H : Nat.eqb _ _ = true |- _ => apply Nat.eqb_eq in H
  | H : rawb _ _ = true |- _ => apply rawb_sound in H
  | H : sortedb _ _ _ _ = true |- _ => apply sortedb_sound in H
  | H : omitted_zerob _ = true |- _ => apply omitted_zerob_sound in H
  end.

Section CheckerSound.
  Variable O_der : bool -> bytes -> bool.

  Lemma wfb_sound n : forall d t v, wfb O_der n d t v = true -> wf O_der d t v.
  Proof.
    induction n as [|n IH]; intros d t v; [discriminate|]. cbn [wfb].
    destruct t; destruct v; try discriminate; intros H;
      try match type of H with context [zip3 ?a ?b] => destruct (zip3 a b) eqn:Hz; [|discriminate] end;
      try match type of H with (match ?l with [] => _ | _ => _ end) = true => destruct l end;
      bsplit; bconv.
    all: try solve [econstructor; unfold int64_ok; eauto].
    all: try solve [econstructor; eauto; eapply forallb_Forall; [|eassumption]; cbn beta; intros; bsplit; auto].
    all: try solve [econstructor; eauto; try discriminate;
                    eapply enc_satb_sound; [|eassumption]; cbn beta; intros; bconv;
                    first [assumption | now apply N.leb_le | now apply rawb_sound]].
    all: try solve [eapply wf_struct; eauto using selb_sound;
                    eapply forallb_Forall; [|eassumption]; cbn beta; intros; auto].
    destruct v; try discriminate. bsplit; bconv. now constructor.
  Qed.
End CheckerSound.
