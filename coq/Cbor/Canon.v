(* Cbor/Canon.v — canonical form of what the encoder model emits: preferred (shortest) heads and map entries in
   bytewise order of their encoded keys. *)
From FDO Require Import Cbor.Typed.
From Coq Require Import Sorting.Sorted Sorting.Permutation.
Local Open Scope N_scope.

(* RFC 8949 preferred serialization: the head of argument n uses 0/1/2/4/8 additional bytes, the least possible *)
Definition preferred_extra (n : N) : nat :=
  if n <? 24 then 0%nat else if n <? 256 then 1%nat else if n <? 65536 then 2%nat
  else if n <? 4294967296 then 4%nat else 8%nat.

Lemma head_length_preferred mt n : length (head mt n) = S (preferred_extra n).
Proof.
  unfold head, preferred_extra.
  destruct (n <? 24); [reflexivity|]. destruct (n <? 256); [cbn [length]; now rewrite be_length|].
  destruct (n <? 65536); [cbn [length]; now rewrite be_length|].
  destruct (n <? 4294967296); cbn [length]; now rewrite be_length.
Qed.

(* the first byte carries the major type and the matching additional-information value *)
Lemma head_first_byte mt n : mt < 8 -> n < 18446744073709551616 ->
  exists x tl, head mt n = x :: tl /\ Byte.to_N x / 32 = mt /\
    Byte.to_N x mod 32 = (if n <? 24 then n else if n <? 256 then 24 else if n <? 65536 then 25
                          else if n <? 4294967296 then 26 else 27).
Proof.
  intros Hmt Hn. unfold head.
  destruct (N.ltb_spec n 24); [|destruct (N.ltb_spec n 256); [|destruct (N.ltb_spec n 65536); [|destruct (N.ltb_spec n 4294967296)]]];
    eexists; eexists; (split; [reflexivity|]); rewrite to_of_N by lia; split; lia.
Qed.

(* bytewise order on encoded keys *)
Definition key_le (a b : bytes * bytes) : Prop := bytes_ltb (fst b) (fst a) = false.

Lemma bytes_ltb_asym a : forall b, bytes_ltb a b = true -> bytes_ltb b a = false.
Proof.
  induction a as [|x a IH]; intros [|y b]; cbn [bytes_ltb]; try discriminate; try reflexivity.
  destruct (N.ltb_spec (Byte.to_N x) (Byte.to_N y)); destruct (N.ltb_spec (Byte.to_N y) (Byte.to_N x)); try lia; auto; discriminate.
Qed.

Lemma kv_insert_hd k v l x : HdRel key_le x l -> key_le x (k, v) -> HdRel key_le x (kv_insert k v l).
Proof.
  intros H Hk. destruct l as [|[k' v'] l]; cbn [kv_insert]; [constructor; exact Hk|].
  destruct (bytes_ltb k' k); constructor; [now inversion H|exact Hk].
Qed.

Lemma kv_insert_sorted k v l : Sorted key_le l -> Sorted key_le (kv_insert k v l).
Proof.
  induction l as [|[k' v'] l IH]; intros S; cbn [kv_insert]; [repeat constructor|].
  inversion S as [|? ? S' H']; subst.
  destruct (bytes_ltb k' k) eqn:E.
  - constructor; [apply IH; exact S'|]. apply kv_insert_hd; [exact H'|].
    unfold key_le. cbn [fst]. now apply bytes_ltb_asym.
  - constructor; [exact S|]. constructor. unfold key_le. cbn [fst]. exact E.
Qed.

(* what encodeMap emits is ordered bytewise by encoded key, whatever order the map was presented in *)
Theorem kv_sort_sorted l : Sorted key_le (kv_sort l).
Proof.
  unfold kv_sort. induction l as [|[k v] l IH]; cbn [fold_right fst snd]; [constructor|].
  now apply kv_insert_sorted.
Qed.

Lemma kv_insert_perm k v l : Permutation ((k, v) :: l) (kv_insert k v l).
Proof.
  induction l as [|[k' v'] l IH]; cbn [kv_insert]; [apply Permutation_refl|].
  destruct (bytes_ltb k' k); [|apply Permutation_refl].
  eapply perm_trans; [apply perm_swap|]. now apply perm_skip.
Qed.

(* ... and nothing is lost or invented by the sort *)
Theorem kv_sort_perm l : Permutation l (kv_sort l).
Proof.
  unfold kv_sort. induction l as [|[k v] l IH]; cbn [fold_right fst snd]; [constructor|].
  eapply perm_trans; [apply perm_skip; exact IH|apply kv_insert_perm].
Qed.
