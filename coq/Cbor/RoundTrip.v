(* RoundTrip.v — decode-after-encode round trip of the typed CBOR model (Cbor/Typed.v).
   No axioms; every proof is closed with Qed.  Files (compile in this order):
     RoundTripMono.v   fuel monotonicity (dec_raw_mono, dec_mono, enc_mono, enc_det), dec_raw_app
     RoundTripHead.v   read_head_head : reading back a head written by `head`
     RoundTripWf.v     the predicate wf (Inductive) and the "eventually" quantifier ev
     RoundTripCheck.v  executable checker wfb with wfb_sound : wfb O n d t v = true -> wf O d t v
     RoundTrip.v       dec_enc, dec_enc_fuel_for, unmarshal_enc, enc_injective, examples, counterexamples
     RoundTripSuff.v   sufficient conditions (one_om_select, distinct_from_NoDup, val_eqb_false, raw_item_depth)
     RoundTripRaw.v    enc_raw: the encoder's output is one raw item (predicate rw); wf_tagged_rw

   MAIN STATEMENTS
     dec_raw_mono f f' d b o     : dec_raw f d b = o -> o <> OutOfFuel -> f <= f' -> dec_raw f' d b = o
     dec_mono O_der O_rfc f f' d t b o
                                 : dec f d t b = o -> o <> OutOfFuel -> f <= f' -> dec f' d t b = o
     dec_enc O_der O_rfc fe d t v b
                                 : wf O_der d t v -> enc fe t v = Ok b ->
                                   forall r, exists f0, forall f, f0 <= f -> dec O_der O_rfc f d t (b ++ r) = Ok (v, r)
     dec_enc_fuel_for .. fe t v b: wf O_der 0 t v -> enc fe t v = Ok b ->
                                   forall r, dec O_der O_rfc (fuel_for (b ++ r)) 0 t (b ++ r) = Ok (v, r)
     unmarshal_enc .. fe t v b   : wf O_der 0 t v -> enc fe t v = Ok b -> unmarshal O_der O_rfc t b = Ok v
     enc_injective O_der d t v1 v2 fe fe' b
                                 : wf O_der d t v1 -> wf O_der d t v2 -> enc fe t v1 = Ok b -> enc fe' t v2 = Ok b -> v1 = v2
   No normalisation of values is needed: `val` already identifies nil and empty slices/maps/byte strings.

   SIDE CONDITIONS (= the constructors of wf, RoundTripWf.v).  `d` is the decoder's nesting depth.
   Each line: condition  --  value violating it that does not round-trip (all checked below by vm_compute,
   Example cx_*; "rt t v" = unmarshal (enc t v)).

   Expected ones
    S1  TInt k: kind_min k <= z <= kind_max k; TAny ints, TLabel ints, TTimestamp in int64.
          cx_int_range:  rt (TInt KU8) (VInt 256) = Err EType;  cx_any_int: rt TAny (VInt 2^63) = Err EType
    S2  TBytes/TText/TBWBytes/TDer/TLabel-text/TAny strings: length < 100000; lists: length < 100000; maps: size < 50000.
          cx_len: rt TBytes (VBytes (100000 zero bytes)) = Err ETooLong
    S3  TFixed n: exactly n bytes.      cx_fixed: rt (TFixed 4) (VBytes [1;2]) = Ok (VBytes [1;2;0;0])
    S4  arrays/maps (TSlice, TStruct, TMap, TAny list/map): d < max_depth, children at depth d+1
        (also required of EMPTY containers: the depth test precedes the length).  Depth restarts at 0 inside
        TTag, TTagged, TBstr, TProtHdr payloads.
          cx_depth: 129 nested one-element slices at d = 0 give Err ETooLong (128 levels round-trip: ex_depth128)
    S5  TPtr t: VNull, or a value v of t with ptr_okb t v: t is not itself TPtr, v <> VNull, and if t = TRaw the raw
        bytes do not start with 0xf6/0xf7 (for every other pointee the first byte is never a null head: enc_first).
          cx_ptr_ptr: rt (TPtr (TPtr TBool)) (VBool true) = Err EType;  cx_ptr_raw: rt (TPtr TRaw) (VRaw [0xf6]) = Ok VNull
    S6  TStruct fs, VList l: zip3 fs l = Some z (one value per field) and
          (a) select_fields fs (length (omit_pass z)) = Ok (enc_mask z): the decoder's choice of the dropped field agrees
              with what the encoder's omitempty pass did.  Sufficient: at most one omitempty field
              (RoundTripSuff.one_om_select).  It is weaker than that: a second omitempty field directly after an
              omitted one is fine (neither side examines it: ex_two_om).
                cx_two_om:  fs = [(om,u8);(om,u8)], l = [1;0]  decodes as [0;1]
                cx_two_om': fs = [(om,u8);(_,bool);(om,u8)], l = [0;true;0]  gives Err EType
          (b) omitted_zero z: every field the encoder omits holds zero_val of its type (is_empty_val is coarser than
              "is the zero value": an omitempty *T pointing at 0, or an `any` holding 0, is dropped and comes back nil).
                cx_omit_ptr: fs = [(om, TPtr u8)], l = [VInt 0] decodes as [VNull];  cx_omit_any likewise for TAny
          (c) only the fields that are actually encoded need to be wf (at depth d+1).
    S7  maps (TMap, TAny map): keys pairwise distinct (distinct_from; = NoDup of keys, RoundTripSuff.distinct_from_NoDup);
        TAny keys (also TMap TAny _) are VInt/VText/VBool; the list is in encoder order (pairs_sorted: kv_sort of the
        encoded pairs is the identity).
          cx_dup_key: [(1,2);(1,3)] -> [(1,3)];  cx_unsorted: [(2,_);(1,_)] -> [(1,_);(2,_)];  cx_any_key: bytes key -> Err EType
    S8  VRaw a (TRaw, and TAny's VTag n (VRaw a)): raw_item d a, i.e. exists f, dec_raw f d a = Ok (a, []).
          cx_raw_two: rt TRaw (VRaw [1;2]) = Err ETrailing;  cx_raw_empty: rt TRaw (VRaw []) = Err EEOF
    S9  TLabel: VInt z with z <> 0 (IntOrStr{0,""} is the text form), or VText.   cx_label0: rt TLabel (VInt 0) = Ok (VText [])
    S10 TDer: VNull or VBytes a with O_der csr a = true (hypothesis inside wf_der).  cx_der: oracle rejecting -> Err EOther
    S11 TTimestamp: VNull or VInt z, z <> zero_time_unix.    cx_ts_zero: rt TTimestamp (VInt zero_time_unix) = Ok VNull

   FINDINGS (conditions the proof forced beyond the expected list)
    F1  TFixed n needs n < 100000 (a [100000]byte array cannot be decoded at all).       cx_fixed_big
    F2  tag numbers (TTag, TTagged, TAny tags) must be < 2^64: `head` truncates.          cx_tag_big: tag 2^64+1 comes back as 1
    F3  TTagged n t (Sign1Tag/Mac0Tag/Encrypt0Tag): besides wf 0 t v, the WHOLE encoding must be a raw item at depth d
        (enc_sat (TTagged n t) v (raw_item d)) because the decoder first cuts the raw extent with dec_raw, which
        (i) counts the tag itself and every array/map/tag level from d without restarting, and
        (ii) applies the 100000 limit to every byte/text string, including TBstr payloads, which the typed decoder does
        not limit.  TTag has neither restriction.
          cx_tagged_depth: TTagged 18 over 128 nested slices fails (TTag over the same value round-trips: ex_tag_depth;
                           127 levels under TTagged are fine: ex_tagged_127)
          cx_tagged_bstr:  TTagged 18 (TBstr TAny) over a 120 KB map fails, TBstr TAny alone round-trips (ex_bstr_big)
        Structural sufficient condition: RoundTripRaw.wf_tagged_rw
          n < 2^64 -> wf 0 t v -> d < max_depth -> rw (S d) t v -> wf d (TTagged n t) v
        where rw counts depth the way dec_raw does (theorem enc_raw: rw d t v -> enc fe t v = Ok b -> b is a raw item at d).
    F4  TBstr t: encoded payload shorter than 2^63 bytes (enc_sat ...); no 100000 limit here.  (No executable
        counterexample: it would need 2^63 bytes.  The condition is what `if 9223372036854775807 <? n` in dec demands.)
    F5  TProtHdr: VMap [] or a non-empty map that is wf as TMap TLabel TAny at depth 0 AND whose encoding is shorter than
        100000 bytes (it is read through dec TBytes).           cx_prot_big
    F6  TMap TAny tv: keys restricted like TAny maps (key_pred).  cx_map_any_key: key VNull -> Err EType
    F7  The three "semantic" conditions (pairs_sorted, enc_sat of F3-F5) quantify over the encoder's result; enc is
        deterministic across fuels (enc_det), so the checker wfb evaluates them with one run of enc.
*)
From FDO Require Import Cbor.Typed Cbor.DecFacts.
From FDO Require Import Cbor.RoundTripMono Cbor.RoundTripHead Cbor.RoundTripWf Cbor.RoundTripCheck.
Local Open Scope nat_scope.

Ltac rd mt n rest :=
  let h := fresh "h" in let EH := fresh "EH" in let Hmt := fresh "Hmt" in
  let Hval := fresh "Hval" in let Hunw := fresh "Hunw" in let Hhb := fresh "Hhb" in let Hnn := fresh "Hnn" in
  destruct (read_head_head mt n rest) as (h & EH & Hmt & Hval & Hunw & Hhb & Hnn);
  [ lia | unfold two64 in *; try lia
  | try (assert (is_null_hd h = false) by (apply Hnn; lia)); clear Hnn ].

Ltac hrw :=
  repeat match goal with
  | H : h_mt _ = _ |- _ => rewrite !H
  | H : arg_val _ = _ |- _ => rewrite !H
  | H : arg_unwrap _ = _ |- _ => rewrite !H
  | H : is_null_hd _ = false |- _ => rewrite !H
  end; cbn [N.eqb Pos.eqb orb andb].

Ltac use_head :=
  match goal with
  | EH : read_head ?x = Ok _ |- context [read_head ?x] => rewrite EH; cbn [bind]
  end;
  repeat match goal with
  | H : h_mt _ = _ |- _ => rewrite !H
  | H : arg_val _ = _ |- _ => rewrite !H
  | H : arg_unwrap _ = _ |- _ => rewrite !H
  | H : is_null_hd _ = false |- _ => rewrite !H
  end; cbn [N.eqb Pos.eqb orb andb].

Ltac kill_leb :=
  repeat match goal with
  | |- context [(?a <=? ?b)%N] => destruct (N.leb_spec a b); [unfold max_len in *; lia|]
  | |- context [(?a <? ?b)%N] => destruct (N.ltb_spec a b); [unfold max_len in *; lia|]
  end.

(* ---- generic lemmas (independent of the oracles) ---- *)
Lemma seq_n_enc {A} (D : nat -> bytes -> outcome (A * bytes)) (l : list A) (bs : list bytes) :
  Forall2 (fun v b => forall r, ev (fun f => D f (b ++ r) = Ok (v, r))) l bs ->
  forall r, ev (fun f => seq_n (D f) (length l) (concat bs ++ r) = Ok (l, r)).
Proof.
  induction 1 as [|v b l bs Hv _ IH]; intros r.
  - apply ev_all. reflexivity.
  - cbn [concat length seq_n]. rewrite <- app_assoc.
    eapply ev_imp; [|apply (ev_and _ _ (Hv (concat bs ++ r)) (IH r))].
    cbn beta. intros f [E1 E2]. rewrite E1. cbn [bind]. rewrite E2. reflexivity.
Qed.

Lemma seq_fields_enc (D : nat -> ty -> bytes -> outcome (val * bytes)) n : forall z bs,
  length z <= n ->
  Forall2 (fun tv b => forall r, ev (fun f => D f (fst tv) (b ++ r) = Ok (snd tv, r))) (omit_pass z) bs ->
  omitted_zero z ->
  forall r, ev (fun f => seq_fields (D f) (enc_mask z) (concat bs ++ r) = Ok (map snd z, r)).
Proof.
  induction n as [|n IH]; intros z bs Hn HF HZ r.
  { destruct z; [|cbn in Hn; lia]. cbn in HF. inversion HF; subst. apply ev_all. reflexivity. }
  destruct z as [|[[om t] v] z'].
  { cbn in HF. inversion HF; subst. apply ev_all. reflexivity. }
  cbn [omit_pass enc_mask omitted_zero map snd] in *.
  destruct (om && is_empty_val v).
  - destruct HZ as [-> HZ]. destruct z' as [|[[om' t'] v'] z''].
    + inversion HF; subst. apply ev_all. reflexivity.
    + inversion HF as [|x b l bs' Hb HF']; subst. cbn [concat map snd seq_fields]. rewrite <- app_assoc.
      cbn [fst snd] in Hb.
      assert (Hn' : length z'' <= n) by (cbn [length] in Hn; lia).
      eapply ev_imp; [|apply (ev_and _ _ (Hb (concat bs' ++ r)) (IH z'' bs' Hn' HF' HZ r))].
      cbn beta. intros f [E1 E2]. rewrite E1. cbn [bind]. rewrite E2. reflexivity.
  - inversion HF as [|x b l bs' Hb HF']; subst. cbn [concat seq_fields]. rewrite <- app_assoc.
    cbn [fst snd] in Hb.
    assert (Hn' : length z' <= n) by (cbn [length] in Hn; lia).
    eapply ev_imp; [|apply (ev_and _ _ (Hb (concat bs' ++ r)) (IH z' bs' Hn' HF' HZ r))].
    cbn beta. intros f [E1 E2]. rewrite E1. cbn [bind]. rewrite E2. reflexivity.
Qed.

Lemma map_insert_fresh k v acc :
  forallb (fun kv => negb (val_eqb k (fst kv))) acc = true -> map_insert k v acc = acc ++ [(k, v)].
Proof.
  induction acc as [|[k' v'] acc IH]; cbn [forallb map_insert app fst]; [reflexivity|].
  intros H. apply andb_true_iff in H as [H1 H2]. apply negb_true_iff in H1. rewrite H1.
  now rewrite IH.
Qed.

Lemma seq_pairs_enc (DK DV : nat -> bytes -> outcome (val * bytes)) ok (m : list (val * val)) (kvs : list (bytes * bytes)) :
  Forall2 (fun kv e => (forall r, ev (fun f => DK f (fst e ++ r) = Ok (fst kv, r)))
                       /\ (forall r, ev (fun f => DV f (snd e ++ r) = Ok (snd kv, r)))
                       /\ ok (fst kv) = true) m kvs ->
  forall acc, distinct_from acc m = true ->
  forall r, ev (fun f => seq_pairs (DK f) (DV f) ok (length m) acc
                           (concat (map (fun kv => fst kv ++ snd kv) kvs) ++ r) = Ok (acc ++ m, r)).
Proof.
  induction 1 as [|[k v] [ek ex] m kvs (Hk & Hv & Hok) _ IH]; intros acc Hd r.
  - apply ev_all. cbn. now rewrite app_nil_r.
  - cbn [fst snd] in *. cbn [distinct_from] in Hd. apply andb_true_iff in Hd as [Hd1 Hd2].
    cbn [map concat length seq_pairs fst snd]. rewrite <- !app_assoc.
    eapply ev_imp; [|apply (ev_and _ _ (Hk (ex ++ concat (map (fun kv => fst kv ++ snd kv) kvs) ++ r))
                               (ev_and _ _ (Hv (concat (map (fun kv => fst kv ++ snd kv) kvs) ++ r))
                                           (IH _ Hd2 r)))].
    cbn beta. intros f (E1 & E2 & E3). rewrite E1. cbn [bind]. rewrite E2. cbn [bind]. rewrite Hok.
    rewrite (map_insert_fresh _ _ _ Hd1), E3. now rewrite <- app_assoc.
Qed.

Lemma raw_item_ev d a : raw_item d a -> forall r, ev (fun f => dec_raw f d (a ++ r) = Ok (a, r)).
Proof.
  intros [f0 E] r. exists f0. intros f Hf.
  apply (dec_raw_app _ _ _ _ _ r) in E. cbn [app] in E.
  eapply dec_raw_mono; [exact E|discriminate|exact Hf].
Qed.

Lemma split_limit_app (a r : bytes) : split_limit (N.of_nat (length a)) (a ++ r) = (a, r).
Proof.
  unfold split_limit. rewrite app_length.
  destruct (N.leb_spec (N.of_nat (length a + length r)) (N.of_nat (length a))) as [H|H].
  - destruct r; [now rewrite app_nil_r|cbn [length] in H; lia].
  - rewrite Nat2N.id, firstn_app, Nat.sub_diag, firstn_all, skipn_app, skipn_all, Nat.sub_diag.
    cbn. now rewrite app_nil_r.
Qed.

Lemma dec_raw_int f d z r : int64_ok z -> dec_raw (S f) d (enc_int z ++ r) = Ok (enc_int z, r).
Proof.
  unfold int64_ok. cbn [kind_min kind_max]. intros Hz. unfold enc_int. cbn [dec_raw].
  destruct (Z.ltb_spec z 0) as [Hneg|Hpos].
  - rd 1%N (Z.to_N (- z - 1)) r. use_head. now rewrite Hhb.
  - rd 0%N (Z.to_N z) r. use_head. now rewrite Hhb.
Qed.

Lemma dec_raw_str f d mt a r :
  mt = 2%N \/ mt = 3%N -> (N.of_nat (length a) < 100000)%N ->
  dec_raw (S f) d (head mt (N.of_nat (length a)) ++ a ++ r) = Ok (head mt (N.of_nat (length a)) ++ a, r).
Proof.
  intros Hmt Hl. cbn [dec_raw].
  assert (ET : take_o (length a) (a ++ r) = Ok (a, r)) by (unfold take_o; now rewrite take_app).
  destruct Hmt; subst mt;
    [rd 2%N (N.of_nat (length a)) (a ++ r) | rd 3%N (N.of_nat (length a)) (a ++ r)].
  all: use_head; unfold decode_len; hrw; kill_leb; cbn [bind]; rewrite Nat2N.id, ET; cbn [bind]; now rewrite Hhb.
Qed.

Lemma enc_first fe t v b :
  enc fe t v = Ok b -> ptr_okb t v = true -> exists x tl, b = x :: tl /\ null_byte x = false.
Proof.
  destruct fe as [|fe]; cbn [enc]; [discriminate|].
  intros Henc Hp. revert Henc.
  destruct t; destruct v; cbn [ptr_okb] in Hp; try discriminate Hp; try discriminate;
    repeat dstep; intros Henc; injection Henc as <-; unfold enc_int;
    repeat match goal with |- context [if ?c then _ else _] => destruct c end;
    try match goal with
    | |- context [head ?mt ?n] =>
      let x := fresh "x" in let tl := fresh "tl" in let E := fresh "E" in let Hx := fresh "Hx" in
      destruct (head_first mt n) as (x & tl & E & Hx); [lia|]; rewrite E;
      eexists; eexists; split; [reflexivity|exact Hx]
    end;
    try (eexists; eexists; split; [reflexivity|vm_compute; reflexivity]).
  match goal with |- exists x tl, ?a = _ /\ _ => destruct a as [|x0 tl0]; [discriminate|] end.
  apply negb_true_iff in Hp. eexists; eexists; split; [reflexivity|exact Hp].
Qed.

Lemma not_deep d : d < max_depth -> too_deep d = false.
Proof. intros H. unfold too_deep. destruct (Nat.leb_spec max_depth d); [lia|reflexivity]. Qed.

Section RT.
  Variable O_der : bool -> bytes -> bool.
  Variable O_rfc : bytes -> option Z.
  Notation dec := (dec O_der O_rfc).
  Notation wf := (wf O_der).

  Lemma dec_int_k f d k z r :
    (kind_min k <= z <= kind_max k)%Z -> dec (S f) d (TInt k) (enc_int z ++ r) = Ok (VInt z, r).
  Proof.
    intros Hz. unfold enc_int. cbn [Typed.dec].
    destruct (Z.ltb_spec z 0) as [Hneg|Hpos].
    - rd 1%N (Z.to_N (- z - 1)) r. { destruct k; cbn [kind_min kind_max] in Hz; lia. }
      use_head. unfold dec_negative.
      replace (- Z.of_N (Z.to_N (- z - 1)) - 1)%Z with z by lia.
      destruct k; cbn [kind_min kind_max kind_signed] in *; try lia;
        (match goal with |- context [(?a <? ?b)%Z] => destruct (Z.ltb_spec a b); [lia|reflexivity] end).
    - rd 0%N (Z.to_N z) r. { destruct k; cbn [kind_min kind_max] in Hz; lia. }
      use_head. unfold dec_positive. rewrite Z2N.id by lia.
      destruct (Z.ltb_spec (kind_max k) z); [lia|reflexivity].
  Qed.

  Lemma dec_int_any f d z r :
    int64_ok z -> dec (S f) d TAny (enc_int z ++ r) = Ok (VInt z, r).
  Proof.
    unfold int64_ok. cbn [kind_min kind_max]. intros Hz. unfold enc_int. cbn [Typed.dec].
    destruct (Z.ltb_spec z 0) as [Hneg|Hpos].
    - rd 1%N (Z.to_N (- z - 1)) r.
      use_head. unfold dec_negative.
      replace (- Z.of_N (Z.to_N (- z - 1)) - 1)%Z with z by lia.
      cbn [kind_min]. destruct (Z.ltb_spec z (-9223372036854775808)); [lia|reflexivity].
    - rd 0%N (Z.to_N z) r.
      use_head. unfold dec_positive. rewrite Z2N.id by lia.
      cbn [kind_max]. destruct (Z.ltb_spec 9223372036854775807 z); [lia|reflexivity].
  Qed.

  Lemma dec_str_leaf f d t mt a r v :
    (N.of_nat (length a) < 100000)%N ->
    match t, mt, v with
    | TBytes, 2%N, VBytes a' => a' = a
    | TText, 3%N, VText a' => a' = a
    | TFixed n, 2%N, VBytes a' => a' = a /\ length a = n
    | TAny, 2%N, VBytes a' => a' = a
    | TAny, 3%N, VText a' => a' = a
    | _, _, _ => False
    end ->
    dec (S f) d t (head mt (N.of_nat (length a)) ++ a ++ r) = Ok (v, r).
  Proof.
    intros Hl Hv.
    assert (Hmt23 : mt = 2%N \/ mt = 3%N).
    { destruct t; try contradiction; destruct mt as [|[[[]|[]|]|[[]|[]|]|]]; try contradiction; auto. }
    assert (ET : take_o (length a) (a ++ r) = Ok (a, r)) by (unfold take_o; now rewrite take_app).
    destruct Hmt23; subst mt;
      [rd 2%N (N.of_nat (length a)) (a ++ r) | rd 3%N (N.of_nat (length a)) (a ++ r)].
    all: destruct t; try contradiction; cbn [Typed.dec]; use_head;
      unfold dec_string; hrw; kill_leb; rewrite Nat2N.id, ET; cbn [bind];
      destruct v; try contradiction; subst; try reflexivity.
    destruct Hv as [-> Hn]. subst n. rewrite Nat.ltb_irrefl, Nat.sub_diag. cbn [repeat]. now rewrite app_nil_r.
  Qed.

  (* ---- sequences of encoded elements ---- *)




  (* ---- helpers for wrappers ---- *)
  Lemma dec_ok_head f : forall d t b v r, dec f d t b = Ok (v, r) -> exists h r0, read_head b = Ok (h, r0).
  Proof.
    induction f as [|f IH]; intros d t b v r; cbn [Typed.dec]; [discriminate|].
    assert (HR : forall x y, dec_raw f d b = Ok (x, y) -> exists h r0, read_head b = Ok (h, r0)).
    { intros x y ER. destruct f; cbn [dec_raw] in ER; [discriminate|].
      destruct (read_head b) as [[h r0]| | |]; cbn [bind] in ER; try discriminate; eauto. }
    destruct t;
      try (destruct (read_head b) as [[h r0]| | |] eqn:EH; cbn [bind]; [eauto|discriminate..]).
    - destruct (dec_raw f d b) as [[x y]| | |] eqn:ER; cbn [bind]; try discriminate. intros _. eapply HR; eauto.
    - destruct (dec_raw f d b) as [[x y]| | |] eqn:ER; cbn [bind]; try discriminate. intros _. eapply HR; eauto.
    - destruct (dec_raw f d b) as [[x y]| | |] eqn:ER; cbn [bind]; try discriminate. intros _. eapply HR; eauto.
    - destruct (dec f 0 TBytes b) as [[x y]| | |] eqn:ER; cbn [bind]; try discriminate. intros _. eapply IH; eauto.
  Qed.







  (* ---- leaves in "eventually" form ---- *)
  Lemma L_bool d t (bv : bool) r :
    t = TBool \/ t = TAny ->
    ev (fun f => dec f d t ([byte_of_N (if bv then 245 else 244)%N] ++ r) = Ok (VBool bv, r)).
  Proof.
    intros Ht. apply ev_S0. intros f. cbn [app].
    destruct Ht; subst t; cbn [Typed.dec];
      (destruct bv; [change 245%N with (224 + 21)%N | change 244%N with (224 + 20)%N];
       rewrite read_head_simple by lia; reflexivity).
  Qed.

  Lemma L_null d t r :
    match t with TPtr _ | TAny | TDer _ | TTimestamp => True | _ => False end ->
    ev (fun f => dec f d t ([byte_of_N 246] ++ r) = Ok (VNull, r)).
  Proof.
    intros Ht. apply ev_S0. intros f. cbn [app].
    destruct t; try contradiction; cbn [Typed.dec]; change 246%N with (224 + 22)%N;
      rewrite read_head_simple by lia; reflexivity.
  Qed.

  Lemma L_wrapped_bytes d t a r :
    (N.of_nat (length a) < 100000)%N ->
    match t with TBWBytes => True | TDer csr => O_der csr a = true | _ => False end ->
    ev (fun f => dec f d t ((head 2 (N.of_nat (length a)) ++ a) ++ r) = Ok (VBytes a, r)).
  Proof.
    intros Hl Ht. apply ev_S0. intros f. rewrite <- app_assoc.
    assert (ET : take_o (length a) (a ++ r) = Ok (a, r)) by (unfold take_o; now rewrite take_app).
    rd 2%N (N.of_nat (length a)) (a ++ r).
    destruct t; try contradiction; cbn [Typed.dec]; use_head; kill_leb; rewrite Nat2N.id, ET; cbn [bind];
      rewrite ?Ht; reflexivity.
  Qed.

  Lemma L_raw d a r : raw_item d a -> ev (fun f => dec f d TRaw (a ++ r) = Ok (VRaw a, r)).
  Proof.
    intros Hraw. refine (ev_S _ _ _ (raw_item_ev _ _ Hraw r)). cbn beta. intros f E.
    cbn [Typed.dec]. rewrite E. reflexivity.
  Qed.

  Lemma L_any_tag d n a r :
    (n < two64)%N -> raw_item d a ->
    ev (fun f => dec f d TAny ((head 6 n ++ a) ++ r) = Ok (VTag n (VRaw a), r)).
  Proof.
    intros Hn Hraw. refine (ev_S _ _ _ (raw_item_ev _ _ Hraw r)). cbn beta. intros f E.
    rewrite <- app_assoc. rd 6%N n (a ++ r). cbn [Typed.dec]; use_head. rewrite E. reflexivity.
  Qed.

  Lemma L_label_int d z r :
    z <> 0%Z -> int64_ok z -> ev (fun f => dec f d TLabel (enc_int z ++ r) = Ok (VInt z, r)).
  Proof.
    intros Hz Hi. exists 2. intros f Hf. destruct f as [|f]; [lia|].
    cbn [Typed.dec]. destruct f as [|f]; [lia|]. rewrite dec_raw_int by exact Hi. cbn [bind].
    pose proof (dec_int_any f 0 z [] Hi) as E. rewrite app_nil_r in E. rewrite E. cbn [bind].
    destruct (Z.eqb_spec z 0); [contradiction|reflexivity].
  Qed.

  Lemma L_label_text d a r :
    (N.of_nat (length a) < 100000)%N ->
    ev (fun f => dec f d TLabel ((head 3 (N.of_nat (length a)) ++ a) ++ r) = Ok (VText a, r)).
  Proof.
    intros Hl. exists 2. intros f Hf. destruct f as [|f]; [lia|]. rewrite <- app_assoc.
    cbn [Typed.dec]. destruct f as [|f]; [lia|]. rewrite dec_raw_str by auto. cbn [bind].
    pose proof (dec_str_leaf f 0 TAny 3%N a [] (VText a) Hl eq_refl) as E. rewrite app_nil_r in E.
    rewrite E. reflexivity.
  Qed.

  Lemma L_prot_empty d r : ev (fun f => dec f d TProtHdr ([byte_of_N 64] ++ r) = Ok (VMap [], r)).
  Proof.
    exists 2. intros f Hf. destruct f as [|f]; [lia|].
    change ([byte_of_N 64] ++ r) with (head 2 (N.of_nat (length (@nil byte))) ++ [] ++ r).
    cbn [Typed.dec]. destruct f as [|f]; [lia|]. rewrite (dec_str_leaf f 0 TBytes 2%N [] r (VBytes [])); [reflexivity|cbn; lia|reflexivity].
  Qed.

  Lemma L_ts d z r :
    int64_ok z -> z <> zero_time_unix ->
    ev (fun f => dec f d TTimestamp ((head 6 1 ++ enc_int z) ++ r) = Ok (VInt z, r)).
  Proof.
    intros Hi Hz. exists 2. intros f Hf. destruct f as [|f]; [lia|]. rewrite <- app_assoc.
    rd 6%N 1%N (enc_int z ++ r). cbn [Typed.dec]. use_head. destruct f as [|f]; [lia|].
    rewrite dec_int_k by exact Hi. cbn [bind].
    destruct (Z.eqb_spec z zero_time_unix); [contradiction|reflexivity].
  Qed.

  (* ================= the induction step, one lemma per shape ================= *)
  Definition rt_at (fe : nat) : Prop :=
    forall d t v b, wf d t v -> enc fe t v = Ok b ->
    forall r, ev (fun f => dec f d t (b ++ r) = Ok (v, r)).

  Section Step.
    Variable fe : nat.
    Hypothesis IH : rt_at fe.

    Lemma step_list d t l b :
      (t = TAny \/ exists t', t = TSlice t') ->
      d < max_depth -> (N.of_nat (length l) < 100000)%N ->
      Forall (wf (S d) (match t with TSlice t' => t' | _ => TAny end)) l ->
      (let* bs := mapM (enc fe (match t with TSlice t' => t' | _ => TAny end)) l in
       Ok (head 4 (N.of_nat (length l)) ++ concat bs)) = Ok b ->
      forall r, ev (fun f => dec f d t (b ++ r) = Ok (VList l, r)).
    Proof.
      intros Ht Hd Hl HF Henc r. set (te := match t with TSlice t' => t' | _ => TAny end) in *.
      destruct (mapM (enc fe te) l) as [bs| | |] eqn:EM; cbn [bind] in Henc; try discriminate.
      injection Henc as <-. apply mapM_Forall2 in EM.
      assert (F2 : Forall2 (fun v b => forall r, ev (fun f => dec f (S d) te (b ++ r) = Ok (v, r))) l bs).
      { eapply Forall2_Forall_l; [|exact HF|exact EM]. intros x y Hx Hy. now apply IH. }
      refine (ev_S _ _ _ (seq_n_enc (fun f => dec f (S d) te) l bs F2 r)). cbn beta. intros f E.
      rewrite <- app_assoc. rd 4%N (N.of_nat (length l)) (concat bs ++ r).
      destruct Ht as [-> | [t' ->]]; cbn [Typed.dec]; use_head; rewrite (not_deep _ Hd); kill_leb;
        rewrite Nat2N.id; subst te; cbn beta iota in E; rewrite E; reflexivity.
    Qed.

    Lemma step_struct d fs l z b :
      d < max_depth -> zip3 fs l = Some z -> (N.of_nat (length (omit_pass z)) < 100000)%N ->
      select_fields fs (length (omit_pass z)) = Ok (enc_mask z) ->
      omitted_zero z ->
      Forall (fun tv => wf (S d) (fst tv) (snd tv)) (omit_pass z) ->
      (let* bs := mapM (fun tv => enc fe (fst tv) (snd tv)) (omit_pass z) in
       Ok (head 4 (N.of_nat (length (omit_pass z))) ++ concat bs)) = Ok b ->
      forall r, ev (fun f => dec f d (TStruct fs) (b ++ r) = Ok (VList l, r)).
    Proof.
      intros Hd Hz Hl Hsel Hoz HF Henc r.
      destruct (mapM _ (omit_pass z)) as [bs| | |] eqn:EM; cbn [bind] in Henc; try discriminate.
      injection Henc as <-. apply mapM_Forall2 in EM.
      assert (F2 : Forall2 (fun tv b => forall r, ev (fun f => dec f (S d) (fst tv) (b ++ r) = Ok (snd tv, r)))
                           (omit_pass z) bs).
      { eapply Forall2_Forall_l; [|exact HF|exact EM]. intros x y Hx Hy. now apply IH. }
      destruct (zip3_spec _ _ _ Hz) as [_ ->].
      refine (ev_S _ _ _ (seq_fields_enc (fun f => dec f (S d)) _ z bs (le_n _) F2 Hoz r)). cbn beta. intros f E.
      rewrite <- app_assoc. rd 4%N (N.of_nat (length (omit_pass z))) (concat bs ++ r).
      cbn [Typed.dec]; use_head; rewrite (not_deep _ Hd); kill_leb.
      rewrite Nat2N.id, Hsel. cbn [bind]. rewrite E. reflexivity.
    Qed.

    Lemma step_map d t tk tv m b :
      (t = TAny /\ tk = TAny /\ tv = TAny \/ t = TMap tk tv) ->
      d < max_depth -> (N.of_nat (length m) < 50000)%N ->
      Forall (fun kv => wf (S d) tk (fst kv) /\ wf (S d) tv (snd kv) /\ key_pred tk (fst kv) = true) m ->
      distinct_from [] m = true -> pairs_sorted tk tv m ->
      (let* kvs := mapM (enc_pair fe tk tv) m in
       Ok (head 5 (N.of_nat (length m)) ++ concat (map (fun kv => fst kv ++ snd kv) (kv_sort kvs)))) = Ok b ->
      forall r, ev (fun f => dec f d t (b ++ r) = Ok (VMap m, r)).
    Proof.
      intros Ht Hd Hl HF Hdist Hsort Henc r.
      destruct (mapM (enc_pair fe tk tv) m) as [kvs| | |] eqn:EM; cbn [bind] in Henc; try discriminate.
      injection Henc as <-. rewrite (Hsort _ _ EM). apply mapM_Forall2 in EM.
      assert (F2 : Forall2 (fun kv e =>
                      (forall r, ev (fun f => dec f (S d) tk (fst e ++ r) = Ok (fst kv, r)))
                      /\ (forall r, ev (fun f => dec f (S d) tv (snd e ++ r) = Ok (snd kv, r)))
                      /\ key_pred tk (fst kv) = true) m kvs).
      { eapply Forall2_Forall_l; [|exact HF|exact EM]. intros [k v] [ek ex] (W1 & W2 & W3) Hy.
        unfold enc_pair in Hy. cbn [fst snd] in *.
        destruct (enc fe tk k) as [ek'| | |] eqn:E1; cbn [bind] in Hy; try discriminate.
        destruct (enc fe tv v) as [ex'| | |] eqn:E2; cbn [bind] in Hy; try discriminate.
        injection Hy as -> ->. repeat split; [intros; now apply IH|intros; now apply IH|exact W3]. }
      pose proof (seq_pairs_enc (fun f => dec f (S d) tk) (fun f => dec f (S d) tv) (key_pred tk) m kvs F2 [] Hdist r) as EV.
      refine (ev_S _ _ _ EV). cbn beta. intros f E. unfold key_pred in E. cbn [app] in E.
      rewrite <- app_assoc. rd 5%N (N.of_nat (length m)) (concat (map (fun kv => fst kv ++ snd kv) kvs) ++ r).
      destruct Ht as [(-> & -> & ->) | ->]; cbn [Typed.dec]; use_head; rewrite (not_deep _ Hd); kill_leb;
        rewrite Nat2N.id, E; reflexivity.
    Qed.

    Lemma step_ptr d t v b :
      ptr_okb t v = true -> wf d t v -> enc fe t v = Ok b ->
      forall r, ev (fun f => dec f d (TPtr t) (b ++ r) = Ok (v, r)).
    Proof.
      intros Hp Hw Henc r. refine (ev_S _ _ _ (IH _ _ _ _ Hw Henc r)). cbn beta. intros f E.
      destruct (enc_first _ _ _ _ Henc Hp) as (x & tl & -> & Hx).
      destruct (dec_ok_head _ _ _ _ _ _ E) as (h & r0 & EH).
      cbn [Typed.dec]. rewrite EH. cbn [bind]. cbn [app] in EH.
      rewrite (read_head_null_byte _ _ _ _ EH), Hx.
      destruct t; cbn [ptr_okb] in Hp; try discriminate Hp; exact E.
    Qed.

    Lemma step_tag d t n v b :
      (n < two64)%N -> wf 0 t v -> (let* a := enc fe t v in Ok (head 6 n ++ a)) = Ok b ->
      forall r, ev (fun f => dec f d (TTag t) (b ++ r) = Ok (VTag n v, r)).
    Proof.
      intros Hn Hw Henc r.
      destruct (enc fe t v) as [a| | |] eqn:EA; cbn [bind] in Henc; try discriminate. injection Henc as <-.
      refine (ev_S _ _ _ (IH _ _ _ _ Hw EA r)). cbn beta. intros f E.
      rewrite <- app_assoc. rd 6%N n (a ++ r).
      cbn [Typed.dec]; use_head. rewrite E. reflexivity.
    Qed.

    Lemma step_tagged d n t v b :
      (n < two64)%N -> wf 0 t v -> raw_item d b -> (let* a := enc fe t v in Ok (head 6 n ++ a)) = Ok b ->
      forall r, ev (fun f => dec f d (TTagged n t) (b ++ r) = Ok (v, r)).
    Proof.
      intros Hn Hw Hraw Henc r.
      destruct (enc fe t v) as [a| | |] eqn:EA; cbn [bind] in Henc; try discriminate. injection Henc as <-.
      refine (ev_S _ _ _ (ev_and _ _ (raw_item_ev _ _ Hraw r) (IH _ _ _ _ Hw EA []))). cbn beta.
      intros f [E1 E2]. rewrite app_nil_r in E2.
      cbn [Typed.dec]. rewrite E1. cbn [bind].
      rd 6%N n a. use_head. rewrite E2. cbn [bind]. now rewrite N.eqb_refl.
    Qed.

    Lemma step_bstr d t v b :
      wf 0 t v -> enc_sat t v (fun a => (N.of_nat (length a) <= 9223372036854775807)%N) ->
      (let* a := enc fe t v in Ok (head 2 (N.of_nat (length a)) ++ a)) = Ok b ->
      forall r, ev (fun f => dec f d (TBstr t) (b ++ r) = Ok (v, r)).
    Proof.
      intros Hw Hlen Henc r.
      destruct (enc fe t v) as [a| | |] eqn:EA; cbn [bind] in Henc; try discriminate. injection Henc as <-.
      pose proof (Hlen _ _ EA) as Hl. cbn beta in Hl.
      refine (ev_S _ _ _ (IH _ _ _ _ Hw EA [])). cbn beta.
      intros f E. rewrite app_nil_r in E.
      rewrite <- app_assoc. rd 2%N (N.of_nat (length a)) (a ++ r).
      cbn [Typed.dec]; use_head. kill_leb. rewrite split_limit_app, E. cbn [bind length].
      now rewrite Nat.sub_0_r, N.eqb_refl.
    Qed.

    Lemma step_prot d m b :
      m <> [] -> wf 0 (TMap TLabel TAny) (VMap m) ->
      enc_sat (TMap TLabel TAny) (VMap m) (fun a => (N.of_nat (length a) < 100000)%N) ->
      (let* a := enc fe (TMap TLabel TAny) (VMap m) in Ok (head 2 (N.of_nat (length a)) ++ a)) = Ok b ->
      forall r, ev (fun f => dec f d TProtHdr (b ++ r) = Ok (VMap m, r)).
    Proof.
      intros Hm Hw Hlen Henc r.
      destruct (enc fe (TMap TLabel TAny) (VMap m)) as [a| | |] eqn:EA; cbn [bind] in Henc; try discriminate.
      injection Henc as <-. pose proof (Hlen _ _ EA) as Hl. cbn beta in Hl.
      assert (E1 : ev (fun f => 1 <= f)) by (exists 1; auto).
      refine (ev_S _ _ _ (ev_and _ _ E1 (IH _ _ _ _ Hw EA []))). cbn beta.
      intros f [Hf E]. rewrite app_nil_r in E.
      rewrite <- app_assoc. cbn [Typed.dec]. destruct f as [|f]; [lia|].
      rewrite (dec_str_leaf f 0 TBytes 2%N a r (VBytes a) Hl eq_refl). cbn [bind].
      pose proof (dec_strict _ _ _ _ _ _ _ _ E) as Hs.
      destruct a as [|x a]; [cbn in Hs; lia|]. rewrite E. reflexivity.
    Qed.

    Lemma dec_enc_step : rt_at (S fe).
    Proof.
      intros d t v b Hwf Henc r. pose proof Henc as Henc0.
      inversion Hwf; subst; cbn [enc] in Henc.
      (* leaves *)
      all: try solve [injection Henc as <-; apply ev_S0; intros f; apply dec_int_k; assumption].
      all: try solve [injection Henc as <-; apply ev_S0; intros f; apply dec_int_any; assumption].
      all: try solve [injection Henc as <-; apply L_bool; auto].
      all: try solve [injection Henc as <-; apply L_null; exact I].
      all: try solve [injection Henc as <-; apply ev_S0; intros f; rewrite <- app_assoc;
                      apply dec_str_leaf; [assumption|first [reflexivity|split; reflexivity]]].
      all: try solve [injection Henc as <-; apply L_wrapped_bytes; [assumption|first [exact I|assumption]]].
      all: try solve [injection Henc as <-; apply L_raw; assumption].
      all: try solve [injection Henc as <-; apply L_any_tag; assumption].
      all: try solve [injection Henc as <-; apply L_label_text; assumption].
      all: try solve [injection Henc as <-; apply L_prot_empty].
      all: try solve [injection Henc as <-; apply L_ts; assumption].
      all: try solve [match type of Henc with context [(?z =? 0)%Z] => destruct (Z.eqb_spec z 0); [contradiction|] end;
                      injection Henc as <-; apply L_label_int; assumption].
      (* containers *)
      all: try solve [eapply (step_list d (TSlice _)); [right; eauto|eassumption..]].
      all: try solve [eapply (step_list d TAny); [left; reflexivity|eassumption..]].
      all: try solve [match goal with Hz : zip3 _ _ = Some _ |- _ => rewrite Hz in Henc end;
                      eapply step_struct; eassumption].
      all: try solve [eapply (step_map d (TMap _ _)); [right; reflexivity|eassumption..|exact Henc]].
      all: try solve [eapply (step_map d TAny TAny TAny); [left; auto|eassumption..|exact Henc]].
      (* wrappers *)
      all: try solve [eapply step_tag; eassumption].
      all: try solve [apply step_ptr; [assumption|assumption|];
                      match goal with Hp : ptr_okb ?t0 ?v = true |- _ =>
                        destruct v; try exact Henc; destruct t0; discriminate Hp end].
      all: try solve [eapply step_tagged; [eassumption|eassumption|
                        match goal with Hs : enc_sat _ _ (raw_item _) |- _ => exact (Hs _ _ Henc0) end|
                        destruct v; exact Henc]].
      all: try solve [eapply step_bstr; [eassumption|eassumption|destruct v; exact Henc]].
      all: try solve [match goal with Hm : ?m <> [] |- _ => destruct m; [contradiction|] end;
                      eapply step_prot; [discriminate|eassumption|eassumption|exact Henc]].
    Qed.
  End Step.

  Theorem dec_enc fe : forall d t v b,
    wf d t v -> enc fe t v = Ok b ->
    forall r, exists f0, forall f, f0 <= f -> dec f d t (b ++ r) = Ok (v, r).
  Proof.
    change (rt_at fe). induction fe as [|fe IH].
    - intros d t v b _ H. discriminate H.
    - apply dec_enc_step. exact IH.
  Qed.

  Theorem dec_enc_fuel_for fe t v b :
    wf 0 t v -> enc fe t v = Ok b ->
    forall r, dec (fuel_for (b ++ r)) 0 t (b ++ r) = Ok (v, r).
  Proof.
    intros Hw He r. destruct (dec_enc fe 0 t v b Hw He r) as [f0 H0].
    pose proof (H0 (Nat.max f0 (fuel_for (b ++ r))) (Nat.le_max_l _ _)) as E.
    pose proof (dec_fuel_for_total O_der O_rfc t (b ++ r)) as T.
    destruct (dec (fuel_for (b ++ r)) 0 t (b ++ r)) as [x|e|p|] eqn:E0; try contradiction.
    - apply (dec_mono O_der O_rfc _ (Nat.max f0 (fuel_for (b ++ r)))) in E0; [congruence|discriminate|lia].
    - apply (dec_mono O_der O_rfc _ (Nat.max f0 (fuel_for (b ++ r)))) in E0; [congruence|discriminate|lia].
  Qed.

  Theorem unmarshal_enc fe t v b :
    wf 0 t v -> enc fe t v = Ok b -> unmarshal O_der O_rfc t b = Ok v.
  Proof.
    intros Hw He. unfold unmarshal. pose proof (dec_enc_fuel_for fe t v b Hw He []) as E.
    rewrite app_nil_r in E. rewrite E. reflexivity.
  Qed.
End RT.

Theorem enc_injective O_der d t v1 v2 fe fe' b :
  wf O_der d t v1 -> wf O_der d t v2 -> enc fe t v1 = Ok b -> enc fe' t v2 = Ok b -> v1 = v2.
Proof.
  intros W1 W2 E1 E2.
  destruct (dec_enc O_der (fun _ => None) fe d t v1 b W1 E1 []) as [f1 H1].
  destruct (dec_enc O_der (fun _ => None) fe' d t v2 b W2 E2 []) as [f2 H2].
  pose proof (H1 (Nat.max f1 f2) (Nat.le_max_l _ _)) as A1.
  pose proof (H2 (Nat.max f1 f2) (Nat.le_max_r _ _)) as A2.
  congruence.
Qed.


(* ================= non-vacuity: concrete values that are wf and round-trip ================= *)
Module Examples.
  Definition OD : bool -> bytes -> bool := fun _ _ => true.
  Definition OR : bytes -> option Z := fun _ => None.
  Definition tx (s : list nat) : bytes := map (fun n => byte_of_N (N.of_nat n)) s.

  Definition rt (t : ty) (v : val) : outcome val :=
    match enc 400 t v with Ok b => unmarshal OD OR t b | Err e => Err e | Panic p => Panic p | OutOfFuel => OutOfFuel end.
  Definition rt_okb (t : ty) (v : val) : bool :=
    match rt t v with Ok v' => val_eqb v' v | _ => false end.
  Lemma rt_okb_spec t v : rt_okb t v = true -> exists b, enc 400 t v = Ok b /\ unmarshal OD OR t b = Ok v.
  Proof.
    unfold rt_okb, rt. destruct (enc 400 t v) as [b| | |]; try discriminate.
    destruct (unmarshal OD OR t b) as [v'| | |] eqn:EU; try discriminate.
    intros H. apply val_eqb_sound in H. subst. exists b. now split.
  Qed.

  (* wf at depth 0, and unmarshal (enc v) = v  (boolean form so that big values stay inside vm_compute) *)
  Definition round_trips (t : ty) (v : val) : Prop := wf OD 0 t v /\ rt_okb t v = true.
  Ltac rt_ok := split; [apply (wfb_sound OD 400); vm_compute; reflexivity | vm_compute; reflexivity].

  Definition st1 := TStruct [(false, TInt KU8); (true, TText); (false, TBool)].
  Example ex_struct_omit : round_trips st1 (VList [VInt 5; VText []; VBool true]).
  Proof. rt_ok. Qed.
  Example ex_struct_omit_bytes : enc 10 st1 (VList [VInt 5; VText []; VBool true]) = Ok (tx [130; 5; 245]).
  Proof. vm_compute. reflexivity. Qed.
  Example ex_two_om :
    round_trips (TStruct [(true, TInt KU8); (true, TAny)]) (VList [VInt 0; VInt 0]).
  Proof. rt_ok. Qed.
  Example ex_any_map :
    round_trips TAny (VMap [(VInt 1, VList [VInt 2; VText (tx [97])]);
                            (VText (tx [107]), VMap [(VInt 0, VNull); (VBool true, VBytes (tx [1; 2]))])]).
  Proof. rt_ok. Qed.
  Example ex_ptr : round_trips (TPtr (TInt KI64)) (VInt (-9223372036854775808)).
  Proof. rt_ok. Qed.
  Example ex_ptr_nil : round_trips (TPtr (TInt KI64)) VNull.
  Proof. rt_ok. Qed.
  Example ex_bstr_struct : round_trips (TBstr st1) (VList [VInt 5; VText (tx [104; 105]); VBool false]).
  Proof. rt_ok. Qed.
  Example ex_int64_min : round_trips (TInt KI64) (VInt (-9223372036854775808)).
  Proof. rt_ok. Qed.
  Example ex_tagged : round_trips (TTagged 18 st1) (VList [VInt 5; VText []; VBool true]).
  Proof. rt_ok. Qed.
  Example ex_prot : round_trips TProtHdr (VMap [(VInt 1, VInt (-7)); (VText (tx [97]), VBool true)]).
  Proof. rt_ok. Qed.
  Example ex_ts : round_trips TTimestamp (VInt 1700000000).
  Proof. rt_ok. Qed.
  Example ex_raw : round_trips TRaw (VRaw (tx [130; 1; 161; 2; 3])).
  Proof. rt_ok. Qed.
  Example ex_map_label :
    round_trips (TMap TLabel (TSlice (TPtr TText)))
                (VMap [(VInt 1, VList [VNull; VText (tx [97])]); (VInt (-1), VList [])]).
  Proof. rt_ok. Qed.
  Example ex_any_tag : round_trips TAny (VTag 55799 (VRaw (tx [130; 1; 2]))).
  Proof. rt_ok. Qed.

  Definition nest (k : nat) : ty := Nat.iter k TSlice (TInt KU8).
  Definition nestv (k : nat) : val := Nat.iter k (fun v => VList [v]) (VInt 0).
  Example ex_depth128 : round_trips (nest 128) (nestv 128).
  Proof. rt_ok. Qed.
  Example ex_tag_depth : round_trips (TTag (nest 128)) (VTag 7 (nestv 128)).
  Proof. rt_ok. Qed.
  Example ex_tagged_127 : round_trips (TTagged 18 (nest 127)) (nestv 127).
  Proof. rt_ok. Qed.
  Definition big (n : N) : bytes := repeat x00 (N.to_nat n).
  Definition bigmap := VMap [(VInt 1, VBytes (big 60000)); (VInt 2, VBytes (big 60000))].
  Example ex_bstr_big : round_trips (TBstr TAny) bigmap.
  Proof. rt_ok. Qed.

  (* ---- counterexamples: each violates exactly one side condition and does not round-trip ---- *)
  Ltac cx := vm_compute; reflexivity.

  Example cx_int_range : rt (TInt KU8) (VInt 256) = Err EType. Proof. cx. Qed.
  Example cx_any_int : rt TAny (VInt 9223372036854775808) = Err EType. Proof. cx. Qed.
  Example cx_len : rt TBytes (VBytes (big 100000)) = Err ETooLong. Proof. cx. Qed.
  Example cx_fixed : rt (TFixed 4) (VBytes (tx [1; 2])) = Ok (VBytes (tx [1; 2; 0; 0])). Proof. cx. Qed.
  Example cx_fixed_big : rt (TFixed (N.to_nat 100000)) (VBytes (big 100000)) = Err ETooLong. Proof. cx. Qed.
  Example cx_depth : rt (nest 129) (nestv 129) = Err ETooLong. Proof. cx. Qed.
  Example cx_ptr_ptr : rt (TPtr (TPtr TBool)) (VBool true) = Err EType. Proof. cx. Qed.
  Example cx_ptr_raw : rt (TPtr TRaw) (VRaw (tx [246])) = Ok VNull. Proof. cx. Qed.
  Example cx_two_om :
    rt (TStruct [(true, TInt KU8); (true, TInt KU8)]) (VList [VInt 1; VInt 0]) = Ok (VList [VInt 0; VInt 1]).
  Proof. cx. Qed.
  Example cx_two_om' :
    rt (TStruct [(true, TInt KU8); (false, TBool); (true, TInt KU8)]) (VList [VInt 0; VBool true; VInt 0]) = Err EType.
  Proof. cx. Qed.
  Example cx_omit_ptr : rt (TStruct [(true, TPtr (TInt KU8))]) (VList [VInt 0]) = Ok (VList [VNull]). Proof. cx. Qed.
  Example cx_omit_any : rt (TStruct [(true, TAny)]) (VList [VInt 0]) = Ok (VList [VNull]). Proof. cx. Qed.
  Example cx_dup_key : rt TAny (VMap [(VInt 1, VInt 2); (VInt 1, VInt 3)]) = Ok (VMap [(VInt 1, VInt 3)]). Proof. cx. Qed.
  Example cx_unsorted :
    rt TAny (VMap [(VInt 2, VInt 2); (VInt 1, VInt 3)]) = Ok (VMap [(VInt 1, VInt 3); (VInt 2, VInt 2)]).
  Proof. cx. Qed.
  Example cx_any_key : rt TAny (VMap [(VBytes [], VInt 2)]) = Err EType. Proof. cx. Qed.
  Example cx_map_any_key : rt (TMap TAny TBool) (VMap [(VNull, VBool true)]) = Err EType. Proof. cx. Qed.
  Example cx_raw_two : rt TRaw (VRaw (tx [1; 2])) = Err ETrailing. Proof. cx. Qed.
  Example cx_raw_empty : rt TRaw (VRaw []) = Err EEOF. Proof. cx. Qed.
  Example cx_tag_big :
    rt (TTag TBool) (VTag 18446744073709551617 (VBool true)) = Ok (VTag 1 (VBool true)).
  Proof. cx. Qed.
  Example cx_label0 : rt TLabel (VInt 0) = Ok (VText []). Proof. cx. Qed.
  Example cx_der :
    match enc 10 (TDer false) (VBytes (tx [1])) with
    | Ok b => unmarshal (fun _ _ => false) OR (TDer false) b
    | _ => Err EType
    end = Err EOther.
  Proof. cx. Qed.
  Example cx_ts_zero : rt TTimestamp (VInt zero_time_unix) = Ok VNull. Proof. cx. Qed.
  Example cx_tagged_depth : rt (TTagged 18 (nest 128)) (nestv 128) = Err ETooLong. Proof. cx. Qed.
  Example cx_tagged_bstr : rt (TTagged 18 (TBstr TAny)) bigmap = Err ETooLong. Proof. cx. Qed.
  Example cx_prot_big : rt TProtHdr bigmap = Err ETooLong. Proof. cx. Qed.
  (* ... and the checker rejects every one of them *)
  Example cx_rejected :
    forallb (fun tv => negb (wfb OD 400 0 (fst tv) (snd tv)))
      [ (TInt KU8, VInt 256); (TAny, VInt 9223372036854775808); (TBytes, VBytes (big 100000));
        (TFixed 4, VBytes (tx [1; 2])); (TFixed (N.to_nat 100000), VBytes (big 100000)); (nest 129, nestv 129);
        (TPtr (TPtr TBool), VBool true); (TPtr TRaw, VRaw (tx [246]));
        (TStruct [(true, TInt KU8); (true, TInt KU8)], VList [VInt 1; VInt 0]);
        (TStruct [(true, TInt KU8); (false, TBool); (true, TInt KU8)], VList [VInt 0; VBool true; VInt 0]);
        (TStruct [(true, TPtr (TInt KU8))], VList [VInt 0]); (TStruct [(true, TAny)], VList [VInt 0]);
        (TAny, VMap [(VInt 1, VInt 2); (VInt 1, VInt 3)]); (TAny, VMap [(VInt 2, VInt 2); (VInt 1, VInt 3)]);
        (TAny, VMap [(VBytes [], VInt 2)]); (TMap TAny TBool, VMap [(VNull, VBool true)]);
        (TRaw, VRaw (tx [1; 2])); (TRaw, VRaw []); (TTag TBool, VTag 18446744073709551617 (VBool true));
        (TLabel, VInt 0); (TTimestamp, VInt zero_time_unix); (TTagged 18 (nest 128), nestv 128);
        (TTagged 18 (TBstr TAny), bigmap); (TProtHdr, bigmap) ] = true.
  Proof. vm_compute. reflexivity. Qed.
End Examples.

Print Assumptions dec_enc.
Print Assumptions dec_enc_fuel_for.
Print Assumptions unmarshal_enc.
Print Assumptions enc_injective.
Print Assumptions dec_mono.
Print Assumptions dec_raw_mono.
Print Assumptions Examples.ex_any_map.
