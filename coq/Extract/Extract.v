(* Extract/Extract.v — extraction of the runner.  ExtrOcamlBasic only: bool, option, unit, list, prod,
   sumbool map to OCaml's; andb/orb inlined.  N, Z, positive, nat, byte stay the extracted inductives.
   No Extract Constant.  Compiled by tools/build.py with the output directory as cwd. *)
From Coq Require Extraction.
From Coq Require Import ExtrOcamlBasic.
From FDO Require Import Run.Dispatch.
Extraction Language OCaml.
Extraction "model.ml" dispatch Byte.to_N.
