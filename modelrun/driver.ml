(* driver.ml — generic line driver for the extracted model (hand-written, trusted glue).
   stdin : "<kind> <sexp> <sexp> ..."   stdout: "ORACLE <query>" (expects one answer line) | "RESULT <text>" *)
open Model

let byte_of_int (i : int) : byte = Obj.magic i   (* constant constructors X00..Xff are numbered 0..255 *)
let int_of_byte (b : byte) : int = Obj.magic b

let rec pos_of_int (i : int) : positive =
  if i = 1 then XH else if i land 1 = 1 then XI (pos_of_int (i lsr 1)) else XO (pos_of_int (i lsr 1))
let n_of_int i = if i = 0 then N0 else Npos (pos_of_int i)
let rec int_of_pos = function XH -> 1 | XO p -> 2 * int_of_pos p | XI p -> 2 * int_of_pos p + 1
let int_of_n = function N0 -> 0 | Npos p -> int_of_pos p

let bytes_of_string (s : string) : byte list =
  let r = ref [] in
  for i = String.length s - 1 downto 0 do r := byte_of_int (Char.code s.[i]) :: !r done; !r
let string_of_bytes (l : byte list) : string =
  let b = Buffer.create 64 in List.iter (fun x -> Buffer.add_char b (Char.chr (int_of_byte x))) l; Buffer.contents b

let hexval c = match c with
  | '0'..'9' -> Char.code c - 48 | 'a'..'f' -> Char.code c - 87 | 'A'..'F' -> Char.code c - 55
  | _ -> failwith "bad hex"
let bytes_of_hex (s : string) : byte list =
  let n = String.length s / 2 in
  let r = ref [] in
  for i = n - 1 downto 0 do r := byte_of_int (hexval s.[2*i] * 16 + hexval s.[2*i+1]) :: !r done; !r

(* arbitrary-size N from hex digits *)
let n_of_hex (s : string) : n =
  (* build positive from most significant digit *)
  let acc = ref N0 in
  String.iter (fun c ->
    let d = hexval c in
    for k = 3 downto 0 do
      let bit = (d lsr k) land 1 in
      acc := (match !acc with
        | N0 -> if bit = 1 then Npos XH else N0
        | Npos p -> Npos (if bit = 1 then XI p else XO p))
    done) s; !acc

let atom (t : string) : arg =
  let len = String.length t in
  if len >= 2 && t.[1] = ':' then
    let body = String.sub t 2 (len - 2) in
    match t.[0] with
    | 'n' -> AN (n_of_hex body)
    | 'z' -> if body <> "" && body.[0] = '-' then
               (match n_of_hex (String.sub body 1 (String.length body - 1)) with N0 -> AZ Z0 | Npos p -> AZ (Zneg p))
             else (match n_of_hex body with N0 -> AZ Z0 | Npos p -> AZ (Zpos p))
    | 'b' -> AB (bytes_of_hex body)
    | _ -> AS (bytes_of_string t)
  else AS (bytes_of_string t)

let tokenize (s : string) : string list =
  let toks = ref [] and cur = Buffer.create 16 in
  let flush () = if Buffer.length cur > 0 then (toks := Buffer.contents cur :: !toks; Buffer.clear cur) in
  String.iter (fun c -> match c with
    | ' ' | '\t' | '\r' -> flush ()
    | '(' | ')' -> flush (); toks := String.make 1 c :: !toks
    | _ -> Buffer.add_char cur c) s;
  flush (); List.rev !toks

let rec parse_list (toks : string list) : arg list * string list =
  match toks with
  | [] -> ([], [])
  | ")" :: rest -> ([], rest)
  | "(" :: rest -> let (l, rest') = parse_list rest in
                   let (more, rest'') = parse_list rest' in (AL l :: more, rest'')
  | t :: rest -> let (more, rest') = parse_list rest in (atom t :: more, rest')

let oracle (q : byte list) : byte list =
  print_string "ORACLE "; print_string (string_of_bytes q); print_newline ();
  bytes_of_string (input_line stdin)

let () =
  (* self-test of the byte <-> int glue against the extracted Byte.to_N *)
  for i = 0 to 255 do
    if int_of_n (to_N (byte_of_int i)) <> i then (prerr_endline "byte glue broken"; exit 3)
  done;
  try
    while true do
      let line = input_line stdin in
      if line = "QUIT" then exit 0;
      match tokenize line with
      | [] -> print_string "RESULT empty"; print_newline ()
      | kind :: rest ->
        let (args, _) = parse_list rest in
        let res = (try string_of_bytes (dispatch oracle (bytes_of_string kind) args)
                   with Stack_overflow -> "stackoverflow" | Failure m -> "failure " ^ m) in
        print_string "RESULT "; print_string res; print_newline ()
    done
  with End_of_file -> ()
