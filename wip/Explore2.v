From FDO Require Import Cbor.Typed Cbor.DecFacts.
From WIP Require Import RoundTripMono RoundTripHead RoundTripWf RoundTripCheck RoundTrip.
Local Open Scope nat_scope.
Definition OD : bool -> bytes -> bool := fun _ _ => true.
Definition OR : bytes -> option Z := fun _ => None.
Definition rt (t : ty) (v : val) : outcome val :=
  match enc 400 t v with Ok b => unmarshal OD OR t b | Err e => Err e | Panic p => Panic p | OutOfFuel => OutOfFuel end.
Definition ok (t : ty) (v : val) : bool * bool :=
  (wfb OD 400 0 t v, match rt t v with Ok v' => val_eqb v' v | _ => false end).
Definition nest (k : nat) : ty := Nat.iter k TSlice (TInt KU8).
Definition nestv (k : nat) : val := Nat.iter k (fun v => VList [v]) (VInt 0).
Definition isok {A} (o : outcome A) := match o with Ok _ => None | Err e => Some (err_code e) | _ => Some 99%N end.
Eval vm_compute in ok (nest 128) (nestv 128).
Eval vm_compute in (wfb OD 400 0 (nest 129) (nestv 129), isok (rt (nest 129) (nestv 129))).
Eval vm_compute in ok (TTag (nest 128)) (VTag 7 (nestv 128)).
Eval vm_compute in (wfb OD 400 0 (TTagged 18 (nest 128)) (nestv 128), isok (rt (TTagged 18 (nest 128)) (nestv 128))).
Eval vm_compute in ok (TTagged 18 (nest 127)) (nestv 127).
Eval vm_compute in ok (TTagged 18 (TBstr (nest 128))) (nestv 128).
Definition big (n : N) : bytes := repeat x00 (N.to_nat n).
Eval vm_compute in (wfb OD 40 0 TBytes (VBytes (big 100000)), isok (rt TBytes (VBytes (big 100000)))).
Eval vm_compute in (fst (ok TBytes (VBytes (big 99999))), snd (ok TBytes (VBytes (big 99999)))).
Eval vm_compute in (wfb OD 40 0 (TFixed (N.to_nat 100000)) (VBytes (big 100000)), isok (rt (TFixed (N.to_nat 100000)) (VBytes (big 100000)))).
Definition bigmap := VMap [(VInt 1, VBytes (big 60000)); (VInt 2, VBytes (big 60000))].
Eval vm_compute in (wfb OD 40 0 TProtHdr bigmap, isok (rt TProtHdr bigmap), fst (ok (TMap TLabel TAny) bigmap), snd (ok (TMap TLabel TAny) bigmap)).
Eval vm_compute in (wfb OD 40 0 (TTagged 18 (TBstr TAny)) bigmap, isok (rt (TTagged 18 (TBstr TAny)) bigmap), ok (TBstr TAny) bigmap).
