From FDO Require Import Cbor.Typed Cbor.DecFacts.
From WIP Require Import RoundTripMono RoundTripHead RoundTripWf RoundTripCheck RoundTrip.
Local Open Scope nat_scope.
Definition OD : bool -> bytes -> bool := fun _ _ => true.
Definition OR : bytes -> option Z := fun _ => None.
Definition rt (t : ty) (v : val) : outcome val :=
  match enc 400 t v with Ok b => unmarshal OD OR t b | Err e => Err e | Panic p => Panic p | OutOfFuel => OutOfFuel end.
Definition ok (t : ty) (v : val) : bool * bool :=
  (wfb OD 400 0 t v, match rt t v with Ok v' => val_eqb v' v | _ => false end).
Definition tx (s : list nat) : bytes := map (fun n => byte_of_N (N.of_nat n)) s.

Definition st1 := TStruct [(false, TInt KU8); (true, TText); (false, TBool)].
Eval vm_compute in ok st1 (VList [VInt 5; VText []; VBool true]).
Eval vm_compute in enc 10 st1 (VList [VInt 5; VText []; VBool true]).
Definition anymap := VMap [(VInt 1, VList [VInt 2; VText (tx [97])]); (VText (tx [107]), VMap [(VInt 0, VNull); (VBool true, VBytes (tx [1;2]))])].
Eval vm_compute in ok TAny anymap.
Eval vm_compute in ok (TPtr (TInt KI64)) (VInt (-9223372036854775808)).
Eval vm_compute in ok (TPtr (TInt KI64)) VNull.
Eval vm_compute in ok (TBstr st1) (VList [VInt 5; VText (tx [104;105]); VBool false]).
Eval vm_compute in ok (TInt KI64) (VInt (-9223372036854775808)).
Eval vm_compute in ok (TTagged 18 st1) (VList [VInt 5; VText []; VBool true]).
Eval vm_compute in ok TProtHdr (VMap [(VInt 1, VInt (-7)); (VText (tx [97]), VBool true)]).
Eval vm_compute in ok TTimestamp (VInt 1700000000).
Eval vm_compute in ok TRaw (VRaw (tx [130; 1; 161; 2; 3])).
Eval vm_compute in ok (TMap TLabel (TSlice (TPtr TText))) (VMap [(VInt 1, VList [VNull; VText (tx [97])]); (VInt (-1), VList [])]).
Eval vm_compute in ok TAny (VTag 55799 (VRaw (tx [130; 1; 2]))).

(* counterexamples *)
Eval vm_compute in (rt (TInt KU8) (VInt 256)).
Eval vm_compute in (rt (TFixed 4) (VBytes (tx [1;2]))).
Eval vm_compute in (rt (TPtr (TPtr TBool)) (VBool true)).
Eval vm_compute in (rt (TPtr TRaw) (VRaw (tx [246]))).
Eval vm_compute in (rt (TStruct [(true, TInt KU8); (true, TInt KU8)]) (VList [VInt 1; VInt 0])).
Eval vm_compute in (rt (TStruct [(true, TInt KU8); (false, TBool); (true, TInt KU8)]) (VList [VInt 0; VBool true; VInt 0])).
Eval vm_compute in (rt (TStruct [(true, TPtr (TInt KU8))]) (VList [VInt 0])).
Eval vm_compute in (rt (TStruct [(true, TAny)]) (VList [VInt 0])).
Eval vm_compute in (rt (TStruct [(true, TInt KU8); (true, TAny)]) (VList [VInt 0; VInt 0])).
Eval vm_compute in (rt TAny (VMap [(VInt 1, VInt 2); (VInt 1, VInt 3)])).
Eval vm_compute in (rt TAny (VMap [(VInt 2, VInt 2); (VInt 1, VInt 3)])).
Eval vm_compute in (rt TAny (VMap [(VBytes [], VInt 2)])).
Eval vm_compute in (rt (TMap TAny TBool) (VMap [(VNull, VBool true)])).
Eval vm_compute in (rt TRaw (VRaw (tx [1;2]))).
Eval vm_compute in (rt TRaw (VRaw [])).
Eval vm_compute in (rt TAny (VTag 18446744073709551617 (VRaw (tx [1])))).
Eval vm_compute in (rt (TTag TBool) (VTag 18446744073709551617 (VBool true))).
Eval vm_compute in (rt TLabel (VInt 0)).
Eval vm_compute in (rt TTimestamp (VInt zero_time_unix)).
Eval vm_compute in (rt TAny (VInt 9223372036854775808)).
Eval vm_compute in (match enc 10 (TDer false) (VBytes (tx [1])) with Ok b => unmarshal (fun _ _ => false) OR (TDer false) b | _ => Err EOther end).
