#!/usr/bin/env python3
"""seedtable.py — markdown table of the seeded changes under /verif/seeded and which check caught them."""
import json, os
S = "/verif/seeded"
rows = []
for d in sorted(os.listdir(S)):
    mp = os.path.join(S, d, "meta.json")
    if not os.path.exists(mp):
        continue
    m = json.load(open(mp))
    det = m.get("detection") or {}
    files = m.get("files") or []
    if isinstance(files, str):
        files = [files]
    clause = str(m.get("clause", "")).replace("\n", " ").replace("|", "/")
    sigs = ", ".join(det.get("signatures") or [])[:110]
    if det.get("no_failing_input_found_only"):
        sigs = (sigs + " (no-failing-input-found)").strip()
    rows.append("| %s | %s | %s | %s | %s |" % (d, ", ".join(os.path.basename(f) for f in files)[:40], clause[:120],
                                           "caught" if det.get("detected") else ("MISSED" if det else "not run"), sigs))
print("| change | file | clause broken | quick check of its property | how it shows (failure signatures) |")
print("|---|---|---|---|---|")
print("\n".join(rows))
