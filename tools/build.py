#!/usr/bin/env python3
"""Build everything a check needs from /repo's current working tree: Go harness (-tags verif), regenerated
Gen/*.v tables, the Coq development (full .vo build), the extracted OCaml model runner.
Idempotent and guarded by a lock so concurrent checks share one build."""
import fcntl, hashlib, json, os, subprocess, sys, time

VERIF = os.path.dirname(os.path.dirname(os.path.abspath(__file__)))
BUILD = os.path.join(VERIF, ".build")
COQ = os.path.join(VERIF, "coq")
ENV = dict(os.environ, GOFLAGS="-mod=mod", GOPROXY="off")
ENV.pop("GOTOOLCHAIN", None)
ENV.pop("GOSUMDB", None)


def sh(cmd, cwd=None, timeout=3600, env=None):
    p = subprocess.run(cmd, cwd=cwd, env=env or ENV, stdout=subprocess.PIPE, stderr=subprocess.STDOUT, text=True,
                       timeout=timeout, shell=isinstance(cmd, str))
    return p.returncode, p.stdout


def write_if_changed(path, content):
    try:
        if open(path).read() == content:
            return False
    except FileNotFoundError:
        pass
    os.makedirs(os.path.dirname(path), exist_ok=True)
    with open(path, "w") as f:
        f.write(content)
    return True


def coq_files():
    out = []
    for root, _, files in os.walk(COQ):
        for f in files:
            if f.endswith(".v") and "Extract" not in root:
                out.append(os.path.relpath(os.path.join(root, f), COQ))
    return sorted(out)



def tree_digest():
    """cheap digest (path, size, mtime) of every Go source the harness binaries are built from"""
    h = hashlib.sha256()
    for root in (os.path.join(VERIF, "harness"), "/repo"):
        for d, dirs, files in os.walk(root):
            dirs[:] = [x for x in dirs if x not in (".git", "testdata")]
            for f in sorted(files):
                if f.endswith(".go") or f in ("go.mod", "go.sum"):
                    p = os.path.join(d, f)
                    try:
                        st = os.stat(p)
                    except OSError:
                        continue
                    h.update(("%s %d %d\n" % (p, st.st_size, int(st.st_mtime))).encode())
    return h.hexdigest()

def build(verbose=False):
    os.makedirs(BUILD, exist_ok=True)
    status = {"go": None, "gen": None, "coq": None, "extract": None, "failed_vo": [], "log": {}}
    t0 = time.time()
    with open(os.path.join(BUILD, "lock"), "w") as lock:
        fcntl.flock(lock, fcntl.LOCK_EX)
        # 1. Go harness against /repo's working tree
        rc, out = sh(["go", "build", "-tags", "verif", "-o", BUILD + "/", "./cmd/..."], cwd=os.path.join(VERIF, "harness"))
        status["go"] = rc == 0
        status["log"]["go"] = out[-4000:]
        # 2. regenerated tables
        if rc == 0 and os.path.exists(os.path.join(BUILD, "gentables")):
            rc2, out2 = sh([os.path.join(BUILD, "gentables"), "-out", os.path.join(COQ, "Gen")], cwd=VERIF)
            status["gen"] = rc2 == 0
            status["log"]["gen"] = out2[-4000:]
        # 3. Coq: full .vo build, keep going so unaffected files still compile
        files = coq_files()
        proj = "-Q . FDO\n" + "\n".join(files) + "\n"
        if write_if_changed(os.path.join(COQ, "_CoqProject"), proj) or not os.path.exists(os.path.join(COQ, "Makefile")):
            sh(["coq_makefile", "-f", "_CoqProject", "-o", "Makefile"], cwd=COQ)
        rc, out = sh("timeout 3000 make -k -j16 2>&1", cwd=COQ)
        status["coq"] = rc == 0
        status["log"]["coq"] = out[-6000:]
        status["failed_vo"] = [f for f in files if not os.path.exists(os.path.join(COQ, f + "o"))
                               or os.path.getmtime(os.path.join(COQ, f + "o")) < os.path.getmtime(os.path.join(COQ, f))]
        # 4. extraction + OCaml runner (only the model files are needed, not the proofs)
        mr = os.path.join(BUILD, "modelrun")
        os.makedirs(mr, exist_ok=True)
        disp = os.path.join(COQ, "Run", "Dispatch.vo")
        if os.path.exists(disp):
            stamp = os.path.join(mr, "stamp")
            h = hashlib.sha256()
            for f in files:
                if not f.startswith("Props/"):
                    h.update(open(os.path.join(COQ, f), "rb").read())
            h.update(open(os.path.join(VERIF, "modelrun", "driver.ml"), "rb").read())
            h.update(open(os.path.join(COQ, "Extract", "Extract.v"), "rb").read())
            digest = h.hexdigest()
            old = open(stamp).read() if os.path.exists(stamp) else ""
            if old != digest or not os.path.exists(os.path.join(mr, "modelrun")):
                rc, out = sh(["coqc", "-Q", COQ, "FDO", os.path.join(COQ, "Extract", "Extract.v")], cwd=mr)
                if rc == 0:
                    sh(["cp", os.path.join(VERIF, "modelrun", "driver.ml"), mr])
                    rc, out2 = sh("ocamlfind ocamlopt -O2 -w -a model.mli model.ml driver.ml -o modelrun", cwd=mr)
                    out += out2
                status["extract"] = rc == 0
                status["log"]["extract"] = out[-4000:]
                if rc == 0:
                    open(stamp, "w").write(digest)
            else:
                status["extract"] = True
        else:
            status["extract"] = False
            status["log"]["extract"] = "Run/Dispatch.vo missing"
        status["wall_s"] = round(time.time() - t0, 1)
        json.dump(status, open(os.path.join(BUILD, "status.json"), "w"), indent=1)
    if verbose:
        for k in ("go", "gen", "coq", "extract"):
            print(k, status[k])
        if status["failed_vo"]:
            print("not compiled:", status["failed_vo"])
        for k, v in status["log"].items():
            if not status.get(k, True):
                print("----", k, "----\n", v)
    return status


if __name__ == "__main__":
    st = build(verbose=True)
    sys.exit(0 if st["go"] and st["coq"] and st["extract"] else 1)
