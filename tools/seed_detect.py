#!/usr/bin/env python3
"""seed_detect.py [ids...] — for each /verif/seeded/<id>: apply the patch to /repo, run the property's quick check, record
exit code and VIOLATION lines in meta.json, and restore /repo (git checkout -- .) straight afterwards."""
import json, os, subprocess, sys, time
SEEDED = "/verif/seeded"
ids = sys.argv[1:] or sorted(os.listdir(SEEDED))
for sid in ids:
    d = os.path.join(SEEDED, sid)
    meta_p = os.path.join(d, "meta.json")
    if not os.path.exists(meta_p):
        continue
    meta = json.load(open(meta_p))
    prop = meta["property"]
    if subprocess.run(["git", "-C", "/repo", "status", "--porcelain"], capture_output=True, text=True).stdout.strip():
        print("refusing: /repo is not clean"); sys.exit(2)
    rc = subprocess.run(["git", "-C", "/repo", "apply", os.path.join(d, "patch.diff")]).returncode
    if rc:
        print(sid, "patch does not apply to /repo"); continue
    t0 = time.time()
    try:
        p = subprocess.run(["./check", prop, "--tier", "quick"], cwd="/verif", capture_output=True, text=True, timeout=1800)
        out, code = p.stdout, p.returncode
    finally:
        subprocess.run(["git", "-C", "/repo", "checkout", "--", "."])
    viol = [l for l in out.splitlines() if l.startswith("VIOLATION")]
    sigs = []
    for v in viol:
        try:
            rp = json.load(open(v.split("replay=")[1].split()[0]))
            sigs.append(rp.get("what", "?"))
        except Exception:
            pass
    meta["detection"] = {"check": "./check %s --tier quick" % prop, "exit": code, "detected": code == 1 and bool(viol),
                         "violation_lines": len(viol), "signatures": sigs[:8],
                         "no_failing_input_found_only": bool(viol) and all("no-failing-input-found" in v for v in viol),
                         "wall_s": round(time.time() - t0, 1)}
    json.dump(meta, open(meta_p, "w"), indent=1)
    print(sid, "DETECTED" if meta["detection"]["detected"] else "MISSED", sigs[:3], meta["detection"]["wall_s"])
subprocess.run(["python3", "tools/build.py"], cwd="/verif", capture_output=True)
