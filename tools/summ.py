import json,sys,collections
r=json.load(open(sys.argv[1]))
print({k:r[k] for k in ['evaluations','distinct_nontrivial','model_calls','oracle_calls','wall_s']})
print(r['histograms'].get('impl_outcome'), r['histograms'].get('model_outcome'))
print('disagreements',len(r['disagreements'] or []), 'failures', len(r['monitor_failures'] or []))
c=collections.Counter()
for d in (r['disagreements'] or []):
    c[(d['params'].get('type'),d['meta'])]+=1
print(c.most_common(30))
seen=set()
for d in (r['disagreements'] or []):
    k=(d['params'].get('type'),d['meta'])
    if k in seen: continue
    seen.add(k)
    print(d['line'][:200]); print('  impl ',d['impl'][:200]); print('  model',d['model'][:200])
c=collections.Counter(f['signature'] for f in r['monitor_failures'] or [])
print(c.most_common(20))
for f in (r['monitor_failures'] or [])[:5]: print(f['signature'], f['detail'][:150], str(f['params'])[:200])
