#!/usr/bin/env python3
"""Regenerates MANIFEST.json from the table below (kept in one place so it stays valid)."""
import json, os
VERIF = os.path.dirname(os.path.dirname(os.path.abspath(__file__)))
ALL = ["C%02d" % i for i in range(1, 21)]

COMMON_NOTE = ("Trusted: Coq 8.16.1 kernel; extraction with ExtrOcamlBasic only + hand-written OCaml driver; Go harness, generators, "
               "monitors and oracle answers (Go standard library); the theorems are about the hand-written Gallina model, which is tied "
               "to /repo on every run by regenerated tables/type descriptors and by differential execution against the implementation. ")

SRV = ("Machine-checked theorems over the abstract server state machine Fdo/Server.v (http.Handler token discipline, tunnel-before-dispatch, the "
     "four responders over the session store; message routing table regenerated from protocol.Of) holding for every request history of any "
     "length over any number of interleaved sessions (induction over reachable states with a provenance invariant). Tied to the code by running "
     "request histories built by a hand-written client (internal/raw: honest, every catalogued fault at every position, every token form, "
     "dropped/repeated/replayed messages, client error messages, random interleavings) against the real http.Handler + responders + SQLite and "
     "through the extracted machine, comparing per step the response type and the persistent effects; implementation-side monitors re-check "
     "the statements without the model. ")

CLAIMED = {
    "C12": dict(
        text="Machine-checked theorems over the executable model of cbor.Decoder (all target shapes, all byte strings, all oracle "
             "answers): totality with the runner's fuel (no panic, no non-termination), exact consumption (non-empty prefix, rest is a "
             "suffix), no trailing bytes on Unmarshal, rejection of declared lengths >= limit and of nesting > 128 on the head alone. "
             "The model is tied to the code by ~230k differential cases per quick run over 97 reflected target types (every wire type) "
             "with zero tolerated disagreements, plus panic/hang/allocation monitors on the implementation.",
        note=COMMON_NOTE + "Allocation is bounded in the model only through the limit/depth theorems; the byte-count bound itself is "
             "checked on the implementation by measurement (runtime.MemStats), not proved.",
        technique="Rocq proof by induction on fuel over an executable decoder model + differential correspondence (extracted OCaml vs Go)",
        design="4 (C12)"),
    "C05": dict(
        text="Machine-checked theorems over the executable model of kex.SessionCrypter.Decrypt / cose.Encrypt0.Decrypt / Mac0 (suite and algorithm "
             "tables regenerated from the compiled packages): acceptance implies tag 16 + AEAD open over the Enc_structure for AEAD suites and tag 17 + "
             "HMAC(SVK, MAC_structure of the re-encoded inner Encrypt0) = tag before any decryption for encrypt-then-MAC suites, with algorithm header, "
             "key size and IV size pinned; no panic for any wire bytes for every registered suite. Tied to the code by ~12k differential cases per quick "
             "run (7 suites, bit flip in every byte, MAC stripping (+ciphertext flips), re-tagging, IV/alg/ciphertext surgery, cross-suite, cross-session, "
             "plaintext injection) with stdlib AES/HMAC as oracle and an implementation-only monitor (rejected or identical plaintext). Device side of "
             "the tunnel: fdo.TO2 against the real owner with one tunnelled reply (65/67/69/71) replaced by a plaintext message, a flipped or cut "
             "ciphertext or nothing, under Content-Length and chunked framing and every MaxContentLength setting: the run fails and the device sends "
             "nothing but an error message afterwards. Tunnel keys: for every key exchange x cipher the session keys are derived a second time with "
             "the standard library alone (ECDH / RFC 3526 modexp / RSA-OAEP + SP 800-108 KDF) from one private value and the wire values and must open the "
             "library's messages; keys guessed from the wire alone (shared secret zero, empty, a public value) must not; a session that has not completed "
             "the exchange (also restored the SQLite way) neither decrypts nor encrypts.",
        note=COMMON_NOTE + "Partial: the protocol-level clauses (every TO2 message from SetupDevice on is sent through the crypter, fresh IV per message, "
             "a rejected message fails the run) are exercised by the C08/C02 protocol harness, not proved here; secrecy of AES/HMAC is not claimed.",
        technique="Rocq proof (acceptance-structure theorems, no-panic over a finite regenerated suite table) + differential correspondence",
        design="4 (C05)"),
    "C13": dict(
        text="Machine-checked theorems over the executable model of cose.Sign1.Verify / Mac0.Digest (on the CBOR codec model, algorithm "
             "registries regenerated from the compiled package): no panic for any object/key/payload/AAD; acceptance implies the primitive "
             "accepted exactly (key, hash of the protected alg, Sig_structure of re-encoded protected header + AAD + effective payload, "
             "signature of exactly 2n bytes for ECDSA); completeness incl. leading-zero r/s for every coordinate size; MAC tag = HMAC of the "
             "MAC_structure with key-size check. Tied to the code by ~60k differential cases per quick run (6 algorithms, embedded/detached, "
             "bit flips of every byte, foreign keys, impossible lengths, algorithm-header variants, CBOR mutations) with stdlib crypto as "
             "oracle, plus an implementation-only tamper monitor.",
        note=COMMON_NOTE + "Unforgeability/collision resistance are properties of the primitives and are not claimed; tamper-evidence is "
             "the contrapositive of C13_exact together with injectivity of the Sig_structure encoding (C11).",
        technique="Rocq proof (decision-structure exactness, completeness with fixed-width big-endian lemmas) + differential correspondence",
        design="4 (C13)"),
    "C14": dict(
        text="Machine-checked theorems over the executable model of nistkdf.KDF, kex/dh.go and the ECDH parameter codec: the KDF loop equals SP 800-108 "
             "counter mode with FDO's label/context/length for every key, context and length below the 8-bit counter guard; output length exact; DH: both "
             "sides hold equal keys whenever both complete (for all groups, exponents, cipher sizes, from modexp = b^e mod m only), key lengths exact, "
             "{0,1,p-1,p,p+1} rejected, replayed SetParameter is an error; length-prefixed ECDH fields decode exactly. Tied to the code by differential runs "
             "(KDF for every output length; DH id14/id15 x ciphers through the public Session API with pinned randomness, persistence between steps, "
             "degenerate peers; ECDH codec) with stdlib HMAC/big.Int as oracle, plus implementation-only checks of ECDH256/384 and ASYMKEX2048/3072 sessions.",
        note=COMMON_NOTE + "Partial: ECDH shared-secret computation and RSA-OAEP are standard-library calls checked only by the implementation-only session "
             "runs (agreement, key sizes, persistence at each step, distinct keys across sessions); statistical independence of keys is not expressible.",
        technique="Rocq proof (loop refinement of the KDF spec, modular-exponent algebra, finite table) + differential correspondence",
        design="4 (C14)"),
    "C15": dict(
        text="Machine-checked theorems over the executable model of ChunkReader.ReadChunk / KV.Size / the batching loop / reassembly: every chunk fits "
             "its budget and is non-empty; reading never fails for a well-formed producer at any offered size; for every schedule of size budgets the "
             "emitted chunks plus the pending content reassemble to the original stream (lossless, ordered, exactly once), completely at EOF; every batch "
             "fits the MTU and the loop terminates; a yield starts a new batch. Tied to the code by differential runs of the real ChunkOutPipe (buffered and "
             "unbuffered, split writes) and of exchangeServiceInfoRound (via hook) — a sweep over every remainder 0..45 before the budget is exhausted for "
             "three key lengths, random schedules, an MTU grid — plus implementation-only monitors of the same statements. The message as a whole: "
             "with the 5 bytes exchangeServiceInfo reserves, every encoded TO2.DeviceServiceInfo fits the negotiated size for any number of KVs "
             "(theorem C15_message_fits; kind chunk.exchange runs exchangeServiceInfo itself through a hook with 0..1000 KVs per message filled to the brim). "
             "A round fails only for an entry whose key fits no message of that size (C15_fails_only_on_unsendable_key; the library was repaired to do so). "
             "Further implementation monitors: the owner side of the budget (Producer.Available with 0..30 / 250..260 queued entries against the size the "
             "device announced), reassembly of consecutive keys that differ only in case / whitespace / prefix, yields placed before, between and after "
             "responds across several Receive calls of one round.",
        note=COMMON_NOTE + "Partial: goroutine interleavings are abstracted (the model reads finished messages; io.Pipe/bufPipe/channel hand-off is trusted "
             "and only exercised, with buffered/unbuffered pipes and split writes). A key whose overhead exceeds the whole MTU stalls (empty batch, pending "
             "data) — the model shows it (ex_round_stuck); the property's 'usable MTU range' excludes it.",
        technique="Rocq proof (invariant over arbitrary size schedules, arithmetic of the CBOR length thresholds) + differential correspondence",
        design="4 (C15)"),
    "C04": dict(
        text="Machine-checked theorems over the executable model of Voucher.VerifyEntries/validateNextEntry/OwnerPublicKey (on the CBOR and "
             "COSE models, voucher layout reflected from fdo.Voucher): acceptance of a chain of any length is characterised link by link "
             "(signer = predecessor's key, algorithm, header-info hash, previous hash over the predecessor's full encoding), any "
             "replacement of a non-final entry or of header/HMAC that still passes needs equal hashes of different encodings, the owner "
             "is the last entry's key, nothing panics. Tied to the code by differential runs on vouchers created by the real DI service "
             "and extended 0..4 times (6 key types x 3 encodings), with every-byte bit flips, entry swaps/duplications/drops/splices, "
             "foreign header/HMAC/cert chain, wrong secret/key hash, CBOR mutations; implementation monitors: honest accepted with the "
             "right owner, any bound change rejected, ExtendVoucher refuses every non-owner signer and next keys of another type/size. "
             "ExtendVoucher itself is modelled (Fdo/Extend.v: key guard, hashAlgFor, the payload of the new entry): the guard passes only for the "
             "current owner among keys of one kind and size (C04_extend_only_owner), and an honest extension of a verifying chain of any length "
             "verifies again and names the new key (C04_extension_verifies, C04_extension_owner); compared with the library over signer roles x "
             "next keys (other types, sizes, P-224/P-521/RSA-1024) x chain lengths 0..3 x extra maps (kind voucher.extendcase: refuse/ok + the exact "
             "payload bytes).",
        note=COMMON_NOTE + "VerifyDeviceCertChain (x509 path validation) is checked on the implementation only; in voucher.extendcase the encoded "
             "next-owner key given to the model is the one the library produced (protocol.NewPublicKey is not modelled; a monitor checks it names the key asked for). "
             "Collision resistance / unforgeability of the primitives is not claimed: theorems reduce acceptance of an alteration to "
             "an oracle answer.",
        technique="Rocq proof (induction over the entry chain, reduction to oracle collisions) + differential correspondence",
        design="4 (C04)"),
    "C02": dict(
        text=SRV + "C02: SetupDevice answers only a ProveDevice passing every check in a started TO2 session; 67/69/71, module invocation and voucher "
             "replacement only inside the tunnel of a session that proved the device; over whole histories, without such a ProveDevice the peer "
             "sees only 61/63 and errors (no_proof_no_service). The byte-level meaning of 'passing every check' is the executable model "
             "prove_device_ok (Fdo/Owner.v, theorem C02_proof_bytes: signature under the voucher's device key, this session's nonce, the session's "
             "GUID, one accepted key-exchange parameter), compared with the real responder on the bytes sent (kind srv.proof: honest, every named "
             "fault, a parallel session's proof, random byte alterations).",
        note=COMMON_NOTE + "In the history model the per-request facts are established by the driver by construction; in srv.proof they are computed "
             "by the model from the bytes, except whether the key exchange accepts xB, which is asked of the live session's kex object (oracle xbok; "
             "key exchanges are C09/C14). Faults that need a failing token store or a concurrent interleaving inside one "
             "request are outside the sequential model.",
        technique="Rocq proof (invariant over reachable server states, history-level corollary) + differential correspondence on request histories",
        design="4 (C02)"),
    "C06": dict(
        text=SRV + "C06: a redirect blob is stored only for an OwnerSign passing every check presented with the token of a TO0 session whose Hello was "
             "answered; replays and foreign/finished tokens store nothing; 'chain verifies' and 'current owner' are C04's theorems. TTL policy "
             "outcomes (refuse, shorten, extend, none): stored expiry and reported WaitSeconds compared with the accepted value on the implementation."
             " The byte-level meaning of 'passing every check' is owner_sign_ok (Fdo/Owner.v, theorem C06_proof_bytes: to0d hash, chain of >=1 "
             "entries verifies, blob signed by the key the chain ends in, session nonce, policy), compared with the real responder on the bytes sent "
             "(kind srv.proof).",
        note=COMMON_NOTE + "The TTL/expiry arithmetic is monitored on the implementation only (no model); the policy callback is an oracle (ttlok). In the "
             "history model the facts about an OwnerSign body are established by the driver by construction; in srv.proof they are computed from the bytes.",
        technique="Rocq proof (invariant over reachable server states; chain theorems of C04) + differential correspondence on request histories",
        design="4 (C06)"),
    "C07": dict(
        text=SRV + "C07: RVRedirect answers only a ProveToRV passing every check in a started TO1 session, once per session; acceptance of a COSE_Sign1 "
             "(device token, owner blob) is exactly the primitive's yes for that key and Sig_structure (C13). Device side: the library's TO1+TO2 "
             "client given the registered blob unaltered and altered in 11 ways is compared with the model of verifyVoucher's decision; "
             "registrations are probed right after their expiry instant. The byte-level meaning of 'passing every check' is prove_to_rv_ok "
             "(Fdo/Owner.v, theorem C07_proof_bytes: session nonce, UEID naming a GUID with a live registration, signature under THAT registration's "
             "device key), compared with the real responder on the bytes sent (kind srv.proof, one and two registered devices). Re-registration "
             "for the same GUID (other address / TTL, five times, with restarts): TO1 releases the latest blob. Registrations whose voucher has no usable "
             "device key (chain null / empty / Ed25519 / P-224 leaf) release nothing to a token signed by any of 9-11 keys; the all-in-one "
             "auto-registration stores now + lifetime.",
        note=COMMON_NOTE + "Expiry is exercised against the wall clock (2 s registrations probed 20 ms and 1.1 s after expiry); time itself is not modelled. "
             "The device-side model covers the redirect signature decision only.",
        technique="Rocq proof (invariant over reachable server states; COSE exactness) + differential correspondence on histories and on the device's redirect decision",
        design="4 (C07)"),
    "C08": dict(
        text=SRV + "C08: voucher storage / blob storage / module invocation / voucher replacement only for the right message, passing every check, with "
             "the token of a session of that protocol that went through the prerequisite steps; missing/forged/damaged/finished/errored tokens "
             "change nothing; a session is dead after an error or final response and stays dead forever. The full statement for voucher "
             "replacement (service-info exchange before Done) is refuted on the model with a witness that replays on the code (open known finding).",
        note=COMMON_NOTE + "One open known finding: Done accepted without the service-info exchange. Errors for unsupported message types "
             "(no responder) do not touch any token; 'after any error' is read as errors of the session's own protocol handler.",
        technique="Rocq proof (invariant over reachable server states, monotone death of sessions, refutation witness) + differential correspondence on request histories",
        design="4 (C08)"),
    "C09": dict(
        text="Machine-checked theorems over the model of kex.Suite.Valid / kex.Available (Kex/Valid.v): for EC device keys the library allows "
             "exactly the combinations of the table of FDO 1.1 section 3.6.5 (written down independently; equivalence on the whole finite "
             "domain and as a general theorem), an accepted suite fixes the owner key family, RSA device keys are left open (as the code "
             "documents). Tied to the code by evaluating Valid and Available on their whole finite domain on every run (18 device x 13 "
             "owner key representatives x 12 suite spellings; 12 suites x 19 cipher ids; cipher registrations regenerated from the code) and "
             "by running the full chain DI, extension, TO0, TO1/bypass, TO2, resale, TO0, TO1, TO2 over the HTTP transport for the product of "
             "key type x encoding x suite x cipher x reuse x bypass with monitors: valid tuples complete and leave matching credential/voucher, "
             "tunnel messages are COSE wrappers without plaintext markers, nothing is renegotiated, forbidden tuples are refused on both sides.",
        note=COMMON_NOTE + "The end-to-end statement is exercised (quick: covering subset + seeded sample; thorough: all 2352 tuples + extras), not "
             "proved. Deployments whose device and owner keys are of different types are outside the stated product; their outcomes are "
             "recorded as histograms only (see DESIGN.md).",
        technique="Rocq proof (finite-domain equivalence with the specification's table, general theorems) + exhaustive differential evaluation + end-to-end matrix",
        design="4 (C09)"),
    "C03": dict(
        text="Machine-checked theorems over the model of what device and owner compute at a handover (Fdo/Handover.v on the voucher checks of "
             "Fdo/Voucher.v): whatever header the device adopts, a voucher stored with that header and the HMAC the device sent verifies against "
             "the credential the device keeps (header MAC, manufacturer-key hash, GUID, rendezvous info, device info); device and owner "
             "assemble the same replacement header; agreement is an invariant over any number of reuse/replace rounds and the device-certificate "
             "hash never changes; the voucher store is written only in the step that accepts Done (server machine). Tied to the code by real "
             "DI + k rounds of TO0/TO1/TO2 with resale between two deployments and credentials passed through their blob encoding: the model "
             "recomputes HMAC, credential and replacement header from the owner's session values and is compared with what device and owner "
             "actually hold; cut points (request lost / response lost / error reply) at every message of DI and TO2, wrong Done nonce, "
             "failing HMAC, two sessions of one device both reaching Done (the second replaces nothing and leaves nothing behind), with monitors "
             "on credential/store.",
        note=COMMON_NOTE + "Agreement is proved for the model's header/credential assembly; that the code assembles them from the same parts is what "
             "the differential runs check. A lost Done2 strands the device (owner replaced, device got no credential): excluded by the "
             "property's own wording, recorded as a histogram.",
        technique="Rocq proof (agreement by construction as an invariant over rounds; server-machine gate) + differential correspondence on real handovers and cut points",
        design="4 (C03), 9"),
    "C10": dict(
        text="Machine-checked theorems, for ALL byte strings and all oracle answers: the CBOR decoder with every target type is total (value or "
             "error, never panic, never out of fuel), refuses claimed lengths beyond the limit and nesting beyond the depth limit; COSE "
             "verification, tunnel decryption, voucher verification and the rendezvous interpreter never panic. The glue (http.Handler, "
             "responders, client roles, Go allocation behaviour) is exercised by structure-aware fuzzing at every message position of DI, TO0, "
             "TO1, TO2 on the server (after the honest run-up, plaintext-then-encrypted and on the wire for tunnelled messages, plus path, "
             "header, token, Content-Length, method variants) and on every response position of the four client roles, with panic, hang "
             "(watchdog), allocation (<= 64 x size + 8 MiB) and reply-type monitors; cases run in a child process so that a panic on a "
             "library goroutine is attributed. Further families: well-formed peer keys of unsupported size/curve/algorithm at DI (both roles); handlers "
             "serving only a subset of the protocols; bearer tokens of every decoded length; inconsistent devmod module lists; key-exchange "
             "parameters damaged inside their signed container.",
        note=COMMON_NOTE + "PARTIAL: the theorems cover the byte-level layers; panic/hang/allocation freedom of the glue is tested, not proved (stack "
             "depth, GC, net/http are outside any executable model). Fuzzing supports the claim, it is not a proof.",
        technique="Rocq proof (totality / no-panic / bounds of every byte-level layer) + structure-aware fuzzing with monitors",
        design="4 (C10), 9"),
    "C16": dict(
        text="Machine-checked theorems: the owner rebuilds exactly the device's module list from the devmod:modules chunks, whatever predicate "
             "'fits the MTU' cuts the list and however many names (greedy split, consecutive starts, every chunk fits, split total when "
             "each name fits alone; collect o split = id); owner modules produce in the ideal order devmod^k0, m1^k1, ... for every plan and "
             "every pattern of IsMoreServiceInfo flags, IsDone at most once and exactly with the last completion; a module's bytes survive "
             "the chunking pipeline (C15's lossless theorem). Tied to the code by: real Devmod.Write output vs the model's cuts (encoded sizes "
             "computed with the CBOR model), hand-made chunk sequences through the real owner vs collect, counting owner modules through raw "
             "TO2 sessions vs the sequencing model, and scripted owner/device modules exchanging tagged streams through real fdo.TO2 over "
             "MTU pairs 256..65535 with stream / order / activation / Done monitors.",
        note=COMMON_NOTE + "Four open known findings (module-list chunk split, delivery to the next module, unknown-module entry, HTTP limit at MTU "
             "65535). Sizes below 256 bytes are outside the range (the library now refuses them). Goroutine scheduling of the device "
             "pipeline is exercised, not modelled.",
        technique="Rocq proof (codec-style round trip for the module list, induction over rounds for sequencing, C15 lossless) + differential correspondence + scripted end-to-end runs",
        design="4 (C16), 9"),
    "C17": dict(
        text="Machine-checked theorems over the transfer modules as state machines on decoded messages (fsim.Download, fsim.UploadRequest, "
             "fsim.Wget; SHA-384 a universally quantified function): a file appears only under the announced non-empty name with exactly "
             "the announced length and digest, as the concatenation of the received chunks; chunking with any size >= 1 is lossless and "
             "bounded; end to end, for every content of at least one byte and every chunk size, the download receiver fed the sender's "
             "messages answers nothing until the last chunk, then reports the length, and the identical file appears exactly once. Tied "
             "to the code by driving the real modules message by message (honest sequences for sizes around chunk/MTU multiples plus 49 "
             "deviations of length, digest, data, name, order; wget against a local server with 8 behaviours) against the model, and by "
             "complete onboardings moving files with every chunk size and MTU pair, with tampering inside the tunnel.",
        note=COMMON_NOTE + "One open known finding (upload data chunks vs owner sizes <= 1040). When the announced length exceeds what arrives no "
             "verdict is ever given (model and code agree; no file appears): recorded as histograms. Files above 6000 data messages run "
             "under the monitors only (the extracted model is quadratic in the message count).",
        technique="Rocq proof (receiver soundness, lossless chunking, end-to-end induction over chunks) + differential correspondence + end-to-end transfers",
        design="4 (C17), 9"),
    "C18": dict(
        text="Machine-checked theorems over a reference model of the state store (Store/Store.v: token-keyed session fields with the code's "
             "per-field rules, vouchers by GUID, rendezvous blobs with expiry): isolation as a refinement — for every history of "
             "operations over any number of tokens, voucher and blob operations and restarts, what one token observes of one field evolves "
             "as a one-cell machine that reacts only to operations presenting that token; reads return the cell; read-your-writes for "
             "overwritable fields (refuted, with the code, for the two write-once fields); tokens never issued or invalidated grant and "
             "change nothing, death is final; voucher replacement; blob expiry; restart is the identity. Tied to the code by running random "
             "and systematic operation histories (14 session fields with every value shape, 15 classes of bad tokens, four ways of "
             "restarting incl. fresh server objects and two live instances on one file) on a real sqlite.DB and through the extracted model, "
             "comparing every result. The bearer tokens themselves are modelled byte for byte (Store/Token.v: base64url(id || HMAC(secret, id)); the "
             "check is total on every string, accepts exactly id || MAC, accepts every issued token, distinct sessions have distinct tokens) "
             "and compared with the real check through a hook on token texts of every decoded length 0..80, every one-character change of "
             "a genuine token, MACs under another secret, padded / other-alphabet / whitespace variants (kind store.token); key-exchange "
             "sessions of every suite x cipher are stored and read back (same process and after reopening) and must still talk to their peer.",
        note=COMMON_NOTE + "One open known finding (a second SetDeviceCertChain keeps the first value). Values are compared through digests of canonical "
             "encodings. Operations outside the store's documented preconditions (ReplaceVoucher with entries, HMAC values of other lengths) "
             "are not generated.",
        technique="Rocq proof (refinement of the store to per-token cells over arbitrary histories) + differential correspondence on operation histories",
        design="4 (C18), 9"),
    "C01": dict(
        text="Machine-checked theorem over the model of the device's verifyOwner (Fdo/Device.v: checks on TO2.ProveOVHdr, fetching of every "
             "TO2.OVNextEntry, header HMAC under the device secret, manufacturer-key hash of the credential, entry chain of Fdo/Voucher.v, "
             "owner key = last entry's key, to1d signature; all decoding with the descriptors reflected from the library's message types): "
             "whatever bytes the peer and the network deliver, the device goes on to send its own ProveDevice only if every check the "
             "property lists passed (verify_owner_sound), with C04's chain theorems giving the meaning of 'the chain verifies'. Tied to the "
             "code by running the library's fdo.TO2 against the real owner with a man in the middle that alters the 61 / 63 responses and the "
             "to1d blob (bit flips over every byte, structured changes in four signing modes incl. re-signing with a stranger's and with the "
             "real owner's key, swapped / foreign / renumbered entries, substituted messages of other devices and sessions) for chains of "
             "1 and 3 entries, with and without to1d, and comparing 'did the device send 64' with the model's verdict on the delivered bytes.",
        note=COMMON_NOTE + "The model covers the decision up to ProveDevice; later steps (SetupDevice handling, service info) are C02/C03/C16. The fact "
             "kex_ok (suite valid/available and the owner's parameter answerable) is established by the harness. Unforgeability of the "
             "primitives is not claimed.",
        technique="Rocq proof (soundness of the device's decision procedure over received bytes) + differential correspondence with a man in the middle",
        design="4 (C01), 9"),
    "C19": dict(
        text="Machine-checked theorems for ANY interleaving of the atomic requests of any number of sessions: a request that does not present a "
             "session's token leaves that session untouched (handle_frame), the response, effects and next state of a session's own request "
             "depend on that session's state only (handle_local: the outcome it would obtain alone), and the state store seen through one "
             "token is a one-cell machine that ignores every other token's operations (C18 isolation). What these models cannot exhibit — "
             "data races, goroutine scheduling of the device pipeline, deadlocks — is exercised by a harness built with the Go race "
             "detector: N = 2..64 devices of mixed key types, key exchanges and ciphers run DI, TO0, TO1, TO2 at the same instant against one "
             "handler, one responder set and one SQLite store (single-connection and pooled), with injected delays and GOMAXPROCS 1/2/16, "
             "tagged module streams to observe cross-session leakage, per-GUID effect accounting, goroutine-leak and hang monitors; the "
             "device pipeline is run over all delay permutations of module / chunking / transport, with cancellation and transport failures; "
             "race reports naming library frames become failures.",
        note=COMMON_NOTE + "PARTIAL: isolation is proved for atomic requests; race freedom and absence of deadlock are runtime properties tested under "
             "the race detector (schedules sampled, not enumerated).",
        technique="Rocq proof (frame and locality theorems over interleaved histories; store isolation) + concurrency stress under the Go race detector",
        design="4 (C19), 9"),
    "C20": dict(
        text="Machine-checked theorems over the executable model of protocol.parseDirective/parseURLs/cbor.ArrayShift built on the CBOR "
             "decoder model: totality for every instruction list and role, other-role directives yield the zero directive, invariance under "
             "permutation of duplicate-free lists (by pairwise commutation of the per-variable steps), malformed values are ignored "
             "(per-variable target types), and an exhaustive finite table for scheme/port defaults. Tied to the code by differential runs "
             "of ParseDeviceRvInfo/ParseOwnerRvInfo over all 16 variables with valid/boundary/malformed/empty values (singletons, pairs, "
             "random lists) plus implementation-only monitors for the same four statements.",
        note=COMMON_NOTE + "net.IP.String is an oracle (standard library). ExtRV values with trailing bytes after the array are kept by "
             "ArrayShift as documented and are not classified as malformed.",
        technique="Rocq proof (totality, commutation => permutation invariance, finite table by vm_compute) + differential correspondence",
        design="4 (C20)"),
    "C11": dict(
        text="Machine-checked round-trip theorems for the executable model of cbor.Encoder/Decoder and canonical-form theorems; model "
             "tied to the code by differential encoding/decoding of random well-formed values of 97 reflected target types and an "
             "independent canonical-form walker + round-trip monitor on the implementation.",
        note=COMMON_NOTE,
        technique="Rocq proof (round-trip by induction on values/types) + differential correspondence",
        design="4 (C11)"),
}

def main():
    checks = []
    for pid in ALL:
        if pid not in CLAIMED:
            continue
        c = CLAIMED[pid]
        if not os.path.exists(os.path.join(VERIF, "coq", "Props", pid + ".v")):
            continue
        checks.append({
            "property_id": pid,
            "quick_cmd": "./check %s --tier quick" % pid,
            "thorough_cmd": "./check %s --tier thorough" % pid,
            "evidence_file": "/verif/evidence/%s.json" % pid,
            "replay_cmd_template": "./check %s --replay {path}" % pid,
            "engine": "rocq-model",
            "level_claimed": {"category": "proof", "text": c["text"], "design_ref": "DESIGN.md section " + c["design"]},
            "level_note": c["note"],
            "technique": c["technique"],
        })
    claimed = {c["property_id"] for c in checks}
    na = [{"property_id": p, "reason": "not claimed yet: the model layer and check for this property are still being built (see DESIGN.md section 7 for the order); no other technique is substituted"}
          for p in ALL if p not in claimed]
    m = {
        "version": 1,
        "setup_cmd": "python3 tools/build.py",
        "hooks": {
            "guard": "verif",
            "enable": "go build -tags verif (harness module /verif/harness with replace => /repo); hook files are add-only *_verif.go with //go:build verif",
            "baseline_off_cmd": "for m in . ./fsim ./sqlite ./tpm; do (cd /repo/$m && GOFLAGS=-mod=mod GOPROXY=off go test -json -vet=off -count=1 -timeout 25m ./...); done",
            "source_commits": [l.strip() for l in os.popen("git -C /repo log --format=%H --grep='^verif hook'").read().split()],
            "add_only": True,
        },
        "engines": [{"name": "rocq-model", "path": "/verif/coq", "serves_properties": sorted(claimed),
                     "kind_free_text": "Coq 8.16.1 development (executable Gallina model + theorems), extracted to OCaml (modelrun) and run against the Go implementation by /verif/harness"}],
        "checks": checks,
        "not_applicable": na,
        "notes": "fix: commits in /repo repair genuine defects found while building the model (see known_findings.json and DESIGN.md section 1).",
    }
    json.dump(m, open(os.path.join(VERIF, "MANIFEST.json"), "w"), indent=1)
    print("claimed:", sorted(claimed))

if __name__ == "__main__":
    main()
