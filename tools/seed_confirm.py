#!/usr/bin/env python3
"""seed_confirm.py <prop> <worktree> <seedout_dir>
Confirms each seeded mutation in a scratch worktree (never /repo): the patch applies, all four modules build, the whole
existing test suite passes with it, the demonstration fails with it and passes without it.  Then copies the accepted
ones to /verif/seeded/<prop>-<n>/ with what was run.  Finally (separately, --detect) applies each accepted patch to
/repo, runs the property's quick check, records the verdict, and restores /repo."""
import json, os, re, shutil, subprocess, sys, time

ENV = dict(os.environ, GOFLAGS="-mod=mod", GOPROXY="off")
ENV.pop("GOTOOLCHAIN", None); ENV.pop("GOSUMDB", None)
MODS = [".", "sqlite", "fsim", "tpm"]


def sh(cmd, cwd, timeout=1800):
    p = subprocess.run(cmd, cwd=cwd, env=ENV, shell=True, stdout=subprocess.PIPE, stderr=subprocess.STDOUT, text=True, errors="replace", timeout=timeout)
    return p.returncode, p.stdout


def clean(wt):
    sh("git checkout -- . && git clean -fdq", wt)


def confirm(prop, wt, mdir):
    res = {"dir": mdir, "ok": False, "log": []}
    patch = os.path.join(mdir, "patch.diff")
    demo = os.path.join(mdir, "demo_test.go")
    if not (os.path.exists(patch) and os.path.exists(demo)):
        res["log"].append("missing patch or demo"); return res
    first = open(demo).readline()
    m = re.match(r"//\s*place in:\s*(\S+)", first)
    place = m.group(1).strip("/") if m else "."
    place = re.sub(r"^(\./)", "", place)
    clean(wt)
    rc, out = sh(f"git apply --check {patch} && git apply {patch}", wt)
    if rc: res["log"].append("patch does not apply: " + out[-300:]); return res
    for mod in MODS:
        rc, out = sh("go build ./...", os.path.join(wt, mod))
        if rc: res["log"].append(f"build fails in {mod}: " + out[-300:]); clean(wt); return res
    t0 = time.time()
    for mod in MODS:
        rc, out = sh("go test -count=1 ./... 2>&1 | grep -v '^ok\\|no test files' | tail -5", os.path.join(wt, mod))
        if out.strip():
            res["log"].append(f"suite not green in {mod} with the mutation: " + out[-400:]); clean(wt); return res
    res["suite_s"] = round(time.time() - t0, 1)
    # demo with the mutation: must fail
    dst = os.path.join(wt, place, "zz_seed_demo_test.go")
    shutil.copy(demo, dst)
    rc1, out1 = sh("go test -count=1 -run . . 2>&1 | tail -15", os.path.join(wt, place))
    failed_with = ("FAIL" in out1) and ("build failed" not in out1) and ("cannot find" not in out1)
    sh(f"git apply -R {patch}", wt)
    rc2, out2 = sh("go test -count=1 -run . . 2>&1 | tail -5", os.path.join(wt, place))
    passed_without = out2.strip().startswith("ok") or "\nok" in out2
    clean(wt)
    res["demo_fails_with"] = failed_with
    res["demo_passes_without"] = passed_without
    res["ok"] = failed_with and passed_without
    res["log"].append("with: " + out1[-300:]); res["log"].append("without: " + out2[-200:])
    return res


def main():
    prop, wt, sdir = sys.argv[1], sys.argv[2], sys.argv[3]
    out = []
    for name in sorted(os.listdir(sdir)):
        mdir = os.path.join(sdir, name)
        if not os.path.isdir(mdir) or not name.startswith("mut"):
            continue
        if len(sys.argv) > 4 and name not in sys.argv[4:]:
            continue
        r = confirm(prop, wt, mdir)
        out.append(r)
        print(prop, name, "CONFIRMED" if r["ok"] else "REJECTED", r.get("suite_s"), r["log"][-1][:150] if not r["ok"] else "")
        if r["ok"]:
            dest = os.path.join("/verif/seeded", f"{prop}-{name}")
            os.makedirs(dest, exist_ok=True)
            shutil.copy(os.path.join(mdir, "patch.diff"), dest)
            shutil.copy(os.path.join(mdir, "demo_test.go"), dest)
            meta = {}
            try:
                meta = json.load(open(os.path.join(mdir, "meta.json")))
            except Exception as e:
                meta = {"note": "meta.json of the author was not valid JSON: %s" % e}
            meta["property"] = prop
            meta["confirmed_by_us"] = {"worktree": wt, "what_we_ran": "git apply; go build ./... in ., sqlite, fsim, tpm; go test -count=1 ./... in all four "
                                       "modules (all ok); demo test placed in its package: fails with the patch, passes after git apply -R",
                                       "suite_seconds": r.get("suite_s")}
            json.dump(meta, open(os.path.join(dest, "meta.json"), "w"), indent=1)
    json.dump(out, open(os.path.join(sdir, "confirm.json"), "w"), indent=1)


if __name__ == "__main__":
    main()
