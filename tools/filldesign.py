#!/usr/bin/env python3
"""filldesign.py — refresh the generated table of seeded changes inside DESIGN.md."""
import re, subprocess
t = subprocess.run(["python3", "/verif/tools/seedtable.py"], capture_output=True, text=True).stdout
s = open("/verif/DESIGN.md").read()
s = re.sub(r"<!-- SEEDTABLE BEGIN -->.*<!-- SEEDTABLE END -->", "<!-- SEEDTABLE BEGIN -->\n" + t.replace("\\", "\\\\") + "<!-- SEEDTABLE END -->", s, flags=re.S)
open("/verif/DESIGN.md", "w").write(s)
